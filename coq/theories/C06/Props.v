(* C06 - Request-path matching and system lookup are exact and equal for HTTP and TFTP.
   Property theorems only; each is closed by a lemma from the proof files.
   Vocabulary (FileH/Spec.v, FileH/MatchProofs.v):
     pathA r ++ placeholder ++ pathB r   the configured request path (with lookup), pathR r (without);
     uri_path uri = unquote (uri up to the first "?");  no_nul uri = no raw NUL and no "%00" in uri;
     match_rel c r P v e  :=  P = pathA r ++ v ++ pathB r ++ e /\ v <> "" /\ "/" not in v /\
                              (file mode: e = "" | directory mode: e starts with "/");
     match_rel0 c r P e   :=  P = pathR r ++ e /\ the same condition on e. *)
From Coq Require Import String.
From Coq Require Import List NArith Bool Arith Lia.
From VF Require Import Base.Sx FileH.Str FileH.Unquote FileH.UnquoteProofs FileH.Handler FileH.Spec FileH.MatchProofs
  FileH.InitProofs C06.Entry C06.EntryProofs.
Import ListNotations.
Open Scope N_scope.

(* every accepted configuration is stored as pieces that recompose to the configured path; the placeholder
   is non-empty, occurs in no other segment, first occurs in its segment where the pieces say, and not again *)
Theorem C06_decompose_recompose : forall c r, init_request_path c = Ok r ->
  if extract r then
    eff_path c = pathA r ++ c_placeholder c ++ pathB r /\
    c_placeholder c <> [] /\
    Forall (lacks (c_placeholder c)) (pre_segs r ++ suf_segs r) /\
    find_sub (c_placeholder c) (ph_pre r ++ c_placeholder c ++ ph_suf r) = Some (length (ph_pre r)) /\
    lacks (c_placeholder c) (ph_suf r)
  else eff_path c = pathR r.
Proof. exact init_decompose. Qed.
Print Assumptions C06_decompose_recompose.

(* with lookup: accepted iff no NUL and the decoded path is the configured path with a non-empty slash-free
   value in place of the placeholder, followed by nothing (file) / a remaining path (directory) *)
Theorem C06_match_spec : forall c r uri, init_request_path c = Ok r -> extract r = true ->
  (matches (prepare_context c r uri) = true <->
   no_nul uri = true /\ exists v e, match_rel c r (uri_path uri) v e).
Proof. intros c r uri H. apply prepare_matches_lookup. exact (init_wf c r H). Qed.
Print Assumptions C06_match_spec.

(* ... that reading is unique, and the context carries exactly its value and extra path *)
Theorem C06_match_unique : forall c r P v e v' e', init_request_path c = Ok r -> extract r = true ->
  match_rel c r P v e -> match_rel c r P v' e' -> v = v' /\ e = e'.
Proof. intros c r P v e v' e' H. apply match_rel_unique. exact (init_wf c r H). Qed.
Print Assumptions C06_match_unique.

Theorem C06_match_context : forall c r uri v e, init_request_path c = Ok r -> extract r = true ->
  no_nul uri = true -> match_rel c r (uri_path uri) v e ->
  prepare_context c r uri =
    {| matches := true; raw_value := Some v; extra_path := if is_nil e then None else Some e |}.
Proof. intros c r uri v e H. apply prepare_carries_lookup. exact (init_wf c r H). Qed.
Print Assumptions C06_match_context.

(* without lookup *)
Theorem C06_match_spec_plain : forall c r uri, init_request_path c = Ok r -> extract r = false ->
  root_file c r = false ->
  (matches (prepare_context c r uri) = true <->
   no_nul uri = true /\ exists e, match_rel0 c r (uri_path uri) e).
Proof. intros c r uri H. apply prepare_matches_plain. exact (init_wf c r H). Qed.
Print Assumptions C06_match_spec_plain.

Theorem C06_match_context_plain : forall c r uri e, init_request_path c = Ok r -> extract r = false ->
  no_nul uri = true -> match_rel0 c r (uri_path uri) e ->
  prepare_context c r uri =
    {| matches := true; raw_value := None; extra_path := if is_nil e then None else Some e |}.
Proof. intros c r uri e H. apply prepare_carries_plain. exact (init_wf c r H). Qed.
Print Assumptions C06_match_context_plain.

(* request_path "/" in file mode (accepted by the HTTP class only): "/" and, at handler level, the empty
   path (which the HTTP server never passes on: it rejects request targets that do not start with "/") *)
Theorem C06_match_spec_root_file : forall c r uri, init_request_path c = Ok r -> root_file c r = true ->
  (matches (prepare_context c r uri) = true <->
   no_nul uri = true /\ (uri_path uri = [SL] \/ uri_path uri = [])).
Proof. intros c r uri H. apply prepare_matches_root_file. exact (init_wf c r H). Qed.
Print Assumptions C06_match_spec_root_file.

(* lookup: one find_system call with (lookup_key, transformed value); get_data with exactly the id returned;
   the template context is request_info plus id/data of that system, or request_info alone.
   T v = Some tv: the transformation chain accepts the value (tv may stand for a non-str result). *)
Theorem C06_lookup_exact : forall T FS GD c r x v tv log p tc,
  extract r = true -> raw_value x = Some v -> T v = Some tv -> eqb_str (c_lookup_key c) SYSTEM_ID = false ->
  handle_plan T FS GD c r x = (log, PServe p (Some tc)) ->
  match FS (c_lookup_key c) tv with
  | FFound i => log = [CFind (c_lookup_key c) tv; CGet i] /\ t_id tc = Some i /\ t_data tc = gd_data (GD i) /\
                GD i <> GRaiseBase /\ (GD i = GRaise -> c_ds_ignore c = true)
  | FNone => log = [CFind (c_lookup_key c) tv] /\ c_continue c = true /\ t_id tc = None /\ t_data tc = None
  | FRaise => log = [CFind (c_lookup_key c) tv] /\ c_continue c = true /\ c_ds_ignore c = true /\
              t_id tc = None /\ t_data tc = None
  | FRaiseBase => False
  end.
Proof. exact lookup_exact_served. Qed.
Print Assumptions C06_lookup_exact.

Theorem C06_lookup_exact_system_id : forall T FS GD c r x v tv log p tc,
  extract r = true -> raw_value x = Some v -> T v = Some tv -> eqb_str (c_lookup_key c) SYSTEM_ID = true ->
  handle_plan T FS GD c r x = (log, PServe p (Some tc)) ->
  log = [CGet tv] /\ t_id tc = Some tv /\ t_data tc = gd_data (GD tv) /\ GD tv <> GRaiseBase.
Proof. exact lookup_exact_system_id. Qed.
Print Assumptions C06_lookup_exact_system_id.

Theorem C06_lookup_failure_not_found : forall T FS GD c r x v tv,
  extract r = true -> raw_value x = Some v -> T v = Some tv -> eqb_str (c_lookup_key c) SYSTEM_ID = false ->
  c_continue c = false -> FS (c_lookup_key c) tv = FNone ->
  handle_plan T FS GD c r x = ([CFind (c_lookup_key c) tv], PNotFound).
Proof. exact lookup_failure_not_found. Qed.
Print Assumptions C06_lookup_failure_not_found.

(* the chain rejects the value (raise_error_if_malformed ...): the exception is the result of this request, the data
   source is not called - and, handle_plan being a function of this request alone, nothing of an earlier request
   (a previous value, its transformation, its system) can show up in a later one *)
Theorem C06_transform_raises_propagates : forall T FS GD c r x v,
  extract r = true -> raw_value x = Some v -> T v = None ->
  handle_plan T FS GD c r x = ([], PRaise).
Proof. exact transform_raises_propagates. Qed.
Print Assumptions C06_transform_raises_propagates.

(* exceptions of the data source: whatever their class, those derived from Exception are a failed lookup when
   data_source_error_action is ignore/warn (with continue: template with neither id nor data); those derived from
   BaseException only always propagate *)
Theorem C06_exception_ignored_continue : forall T FS GD c r x v tv,
  extract r = true -> raw_value x = Some v -> T v = Some tv -> eqb_str (c_lookup_key c) SYSTEM_ID = false ->
  FS (c_lookup_key c) tv = FRaise -> c_ds_ignore c = true -> c_continue c = true -> c_template c = true ->
  exists plan, handle_plan T FS GD c r x = ([CFind (c_lookup_key c) tv], plan) /\
    (plan = PNotFound \/ exists p, plan = PServe p (Some {| t_id := None; t_data := None |})).
Proof. exact exception_ignored_continue. Qed.
Print Assumptions C06_exception_ignored_continue.

Theorem C06_base_exception_propagates : forall T FS GD c r x v tv,
  extract r = true -> raw_value x = Some v -> T v = Some tv -> eqb_str (c_lookup_key c) SYSTEM_ID = false ->
  FS (c_lookup_key c) tv = FRaiseBase ->
  handle_plan T FS GD c r x = ([CFind (c_lookup_key c) tv], PRaise).
Proof. exact base_exception_propagates. Qed.
Print Assumptions C06_base_exception_propagates.

Theorem C06_no_lookup_no_calls : forall T FS GD c r x log p tc,
  extract r = false -> handle_plan T FS GD c r x = (log, PServe p (Some tc)) ->
  log = [] /\ t_id tc = None /\ t_data tc = None.
Proof. exact no_lookup_no_calls. Qed.
Print Assumptions C06_no_lookup_no_calls.

(* TFTP decides like HTTP on the name normalised by its decoded leading slash *)
Theorem C06_tftp_http_parity : forall c r f,
  tftp_prepare false c r f = http_prepare c r (norm_name f).
Proof. exact tftp_parity. Qed.
Print Assumptions C06_tftp_http_parity.

(* leading slash of the decoded path = leading "/", "%2f" or "%2F" of the name *)
Theorem C06_decoded_leading_slash : forall s,
  starts_with [SL] (unquote s) = starts_with [SL] s || starts_enc_slash s.
Proof. exact unquote_starts_slash. Qed.
Print Assumptions C06_decoded_leading_slash.

(* the executable checker used on the implementation's observations accepts the model *)
Theorem C06_holds : forall k, valid k -> holds k (run_model k) = [].
Proof. exact holds_run_model. Qed.
Print Assumptions C06_holds.

(* the driver's `covered` flag (5th item of C06.Entry.entry's answer) implies the hypotheses of C06_holds *)
Lemma C06_validb_valid k : validb k = true -> valid k.
Proof. unfold validb, valid. intros H. now apply negb_true_iff in H. Qed.
Theorem C06_covered_cases : forall k, validb k = true -> holds k (run_model k) = [].
Proof. intros k H. apply C06_holds. now apply C06_validb_valid. Qed.
Print Assumptions C06_covered_cases.

(* ---- the behaviour before commit da63d9a (D10: "%2f" compared case-sensitively) violates parity ---- *)
Definition cfg_a : config :=
  {| c_request_path := [SL; 97]; c_filemode := true; c_target := [SL; 102]; c_suffix := [];
     c_lookup_key := []; c_placeholder := [46; 46; 46]; c_continue := false; c_ds_ignore := false;
     c_template := false |}.

Theorem C06_tftp_http_parity_refuted_case_sensitive :
  exists c r f, init_request_path c = Ok r /\
    tftp_prepare true c r f <> http_prepare c r (norm_name f).
Proof.
  exists cfg_a, {| extract := false; pre_segs := [[]; [97]]; ph_pre := []; ph_suf := []; suf_segs := [] |},
         [PCT; 50; 70; 97].
  split; [vm_compute; reflexivity | vm_compute; discriminate].
Qed.

Theorem C06_holds_refuted_case_sensitive :
  exists k, k_old2f k = true /\ holds k (run_model k) <> [].
Proof.
  exists {| k_tftp := true; k_old2f := true; k_cfg := cfg_a; k_tpre := []; k_tsuf := []; k_ttable := None; k_fs := [];
            k_gdraise := []; k_gdraise_base := []; k_gdempty := []; k_files := [[SL; 102]]; k_uri := [PCT; 50; 70; 97] |}.
  split; [reflexivity | vm_compute; discriminate].
Qed.

(* ---- non-vacuity: "/a/pre-...-suf/b" in directory mode, request "/a/pre-%41-suf/b/x?q" ---- *)
Definition cfg_nv : config :=
  {| c_request_path := bytes_of_string "/a/pre-...-suf/b"; c_filemode := false;
     c_target := bytes_of_string "/srv"; c_suffix := []; c_lookup_key := bytes_of_string "k";
     c_placeholder := bytes_of_string "..."; c_continue := false; c_ds_ignore := false; c_template := true |}.
Definition rp_nv : rp :=
  {| extract := true; pre_segs := [[]; [97]]; ph_pre := bytes_of_string "pre-"; ph_suf := bytes_of_string "-suf";
     suf_segs := [[98]] |}.

Example C06_nonvacuous :
  init_request_path cfg_nv = Ok rp_nv /\
  prepare_context cfg_nv rp_nv (bytes_of_string "/a/pre-%41-suf/b/x?q")
    = {| matches := true; raw_value := Some [65]; extra_path := Some [SL; 120] |} /\
  match_rel cfg_nv rp_nv (uri_path (bytes_of_string "/a/pre-%41-suf/b/x?q")) [65] [SL; 120] /\
  handle_plan (fun v => Some v) (fun _ _ => FFound [115]) (fun _ => GOk [100]) cfg_nv rp_nv
    {| matches := true; raw_value := Some [65]; extra_path := Some [SL; 120] |}
    = ([CFind [107] [65]; CGet [115]],
       PServe (bytes_of_string "/srv/x") (Some {| t_id := Some [115]; t_data := Some [100] |})).
Proof.
  split; [vm_compute; reflexivity|]. split; [vm_compute; reflexivity|]. split; [|vm_compute; reflexivity].
  repeat split; try (vm_compute; reflexivity); try discriminate.
  intros [H|[]]. discriminate H.
Qed.
