"""
Demo: with `template: jinja` a `file` option whose path has a symbolic link followed by ".." is resolved LEXICALLY
by the Jinja loader (vinegar/template/jinja.py, _Loader.get_source: os.path.abspath(template)), so another file than the
one the configured path denotes to the operating system is rendered and served.  Without template the same handler
serves the right file.      usage: python docs/findings/C04-loader-abspath.py [/repo]
"""
import os, sys, tempfile
sys.path.insert(0, sys.argv[1] if len(sys.argv) > 1 else "/repo")
from vinegar.request_handler.file import get_instance_tftp

base = os.path.realpath(tempfile.mkdtemp())
os.makedirs(base + "/releases/v2/app"); os.makedirs(base + "/releases/v2/data"); os.makedirs(base + "/data")
open(base + "/releases/v2/data/boot.cfg", "w").write("the configured file\n")
open(base + "/data/boot.cfg", "w").write("DECOY at the lexically normalised location\n")
os.symlink("releases/v2/app", base + "/current")
path = base + "/current/../data/boot.cfg"           # = releases/v2/data/boot.cfg for the OS
print("open(file).read()      :", open(path).read().strip())
for template in (None, "jinja"):
    cfg = {"request_path": "/boot.cfg", "file": path}
    if template:
        cfg["template"] = template
    h = get_instance_tftp(cfg)
    ctx = h.prepare_context("boot.cfg")
    body = h.handle("boot.cfg", ("::1", 1), ("::1", 69), ctx).read().decode().strip()
    print("template=%-5s served    : %s" % (template, body))
