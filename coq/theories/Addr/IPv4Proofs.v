(* Proofs about the IPv4 transforms: the recogniser equals the regular expression,
   parse/format round trip, canonical / idempotent / total, net and broadcast arithmetic. *)
From Coq Require Import List NArith Bool Lia.
From VF Require Import Addr.Text Addr.TextProofs Addr.IPv4 Addr.ArithProofs.
Import ListNotations.
Open Scope N_scope.

(* ---- the language of the regular expression, declaratively ---- *)
Definition dgroup (g : str) : Prop := g <> [] /\ forallb is_digit g = true.
Definition mask_tail (m : option str) : str := match m with None => [] | Some g => SLASH :: g end.
Definition assemble4 (g : groups4) : str :=
  g1 g ++ DOT :: g2 g ++ DOT :: g3 g ++ DOT :: g4 g ++ mask_tail (g5 g).
Definition groups_ok (g : groups4) : Prop :=
  dgroup (g1 g) /\ dgroup (g2 g) /\ dgroup (g3 g) /\ dgroup (g4 g) /\
  match g5 g with None => True | Some m => dgroup m end.

Lemma digits1_stop g c r : dgroup g -> is_digit c = false -> digits1 (g ++ c :: r) = Some (g, c :: r).
Proof.
  intros [Hne Hd] Hc. unfold digits1. rewrite (span_app_stop _ _ _ _ Hd Hc).
  destruct g; [congruence|reflexivity].
Qed.
Lemma digits1_end g : dgroup g -> digits1 g = Some (g, []).
Proof.
  intros [Hne Hd]. unfold digits1. rewrite (span_all _ _ Hd). destruct g; [congruence|reflexivity].
Qed.
Lemma digits1_spec s g r : digits1 s = Some (g, r) ->
  dgroup g /\ s = g ++ r /\ (r = [] \/ exists c r', r = c :: r' /\ is_digit c = false).
Proof.
  unfold digits1. destruct (span is_digit s) as [a b] eqn:E. intros H.
  destruct a as [|x a]; [discriminate|]. inversion H; subst.
  destruct (span_spec _ _ _ _ E) as (E1 & E2 & E3). repeat split; auto. discriminate.
Qed.
Lemma dot_then_spec r r' : dot_then r = Some r' -> r = DOT :: r'.
Proof.
  unfold dot_then. destruct r as [|c r0]; [discriminate|]. destruct (c =? DOT) eqn:E; [|discriminate].
  intros H. inversion H; subst. apply N.eqb_eq in E. now subst.
Qed.

Lemma match4_complete g : groups_ok g -> match4 (assemble4 g) = Some g.
Proof.
  destruct g as [a b c d m]. unfold groups_ok, assemble4. cbn [g1 g2 g3 g4 g5].
  intros (Ha & Hb & Hc & Hd & Hm). unfold match4.
  rewrite (digits1_stop a DOT _ Ha eq_refl). cbn [dot_then]. change (DOT =? DOT) with true. cbn iota.
  rewrite (digits1_stop b DOT _ Hb eq_refl). cbn [dot_then]. change (DOT =? DOT) with true. cbn iota.
  rewrite (digits1_stop c DOT _ Hc eq_refl). cbn [dot_then]. change (DOT =? DOT) with true. cbn iota.
  destruct m as [m|]; cbn [mask_tail].
  - rewrite (digits1_stop d SLASH _ Hd eq_refl). change (SLASH =? SLASH) with true. cbn iota.
    rewrite (digits1_end m Hm). reflexivity.
  - rewrite app_nil_r, (digits1_end d Hd). reflexivity.
Qed.

Lemma match4_sound s g : match4 s = Some g -> groups_ok g /\ s = assemble4 g.
Proof.
  unfold match4. intros H.
  destruct (digits1 s) as [[a r0]|] eqn:D1; [|discriminate].
  destruct (dot_then r0) as [r1|] eqn:T1; [|discriminate].
  destruct (digits1 r1) as [[b r2]|] eqn:D2; [|discriminate].
  destruct (dot_then r2) as [r3|] eqn:T2; [|discriminate].
  destruct (digits1 r3) as [[c r4]|] eqn:D3; [|discriminate].
  destruct (dot_then r4) as [r5|] eqn:T3; [|discriminate].
  destruct (digits1 r5) as [[d r6]|] eqn:D4; [|discriminate].
  apply digits1_spec in D1. destruct D1 as (Ga & Ea & _).
  apply digits1_spec in D2. destruct D2 as (Gb & Eb & _).
  apply digits1_spec in D3. destruct D3 as (Gc & Ec & _).
  apply digits1_spec in D4. destruct D4 as (Gd & Ed & _).
  apply dot_then_spec in T1. apply dot_then_spec in T2. apply dot_then_spec in T3. subst.
  destruct r6 as [|x r7].
  - inversion H; subst. unfold groups_ok, assemble4. cbn [g1 g2 g3 g4 g5 mask_tail]. unfold dgroup in *; intuition.
  - destruct (x =? SLASH) eqn:Ex; [|discriminate]. apply N.eqb_eq in Ex. subst x.
    destruct (digits1 r7) as [[m r8]|] eqn:D5; [|discriminate].
    destruct r8; [|discriminate]. inversion H; subst.
    apply digits1_spec in D5. destruct D5 as (Gm & Em & _). rewrite app_nil_r in Em. subst r7.
    unfold groups_ok, assemble4. cbn [g1 g2 g3 g4 g5 mask_tail]. unfold dgroup in *; intuition.
Qed.

(* the hand-written recogniser accepts exactly the strings of the regular expression
   and returns its groups *)
Theorem match4_spec s g : match4 s = Some g <-> groups_ok g /\ s = assemble4 g.
Proof.
  split; [apply match4_sound|]. intros [H ->]. now apply match4_complete.
Qed.

(* ---- parse / format ---- *)
Definition wf_denot4 (bs : list N) (m : option N) : Prop :=
  (exists a b c d, bs = [a; b; c; d] /\ a <= 255 /\ b <= 255 /\ c <= 255 /\ d <= 255) /\
  match m with None => True | Some k => k <= 32 end.

Lemma parse4_range s bs m : parse4 s = Some (bs, m) -> wf_denot4 bs m.
Proof.
  unfold parse4. destruct (match4 s) as [g|]; [|discriminate].
  destruct (py_int_digits (g1 g)) as [a|]; [|discriminate].
  destruct (py_int_digits (g2 g)) as [b|]; [|discriminate].
  destruct (py_int_digits (g3 g)) as [c|]; [|discriminate].
  destruct (py_int_digits (g4 g)) as [d|]; [|discriminate].
  assert (R : forallb (fun x => x <=? 255) [a; b; c; d] = true ->
              exists a0 b0 c0 d0, [a; b; c; d] = [a0; b0; c0; d0] /\ a0 <= 255 /\ b0 <= 255 /\ c0 <= 255 /\ d0 <= 255).
  { cbn [forallb]. intros H. repeat (apply andb_true_iff in H; destruct H as [?%N.leb_le H]).
    exists a, b, c, d. auto. }
  destruct (g5 g) as [gm|].
  - destruct (py_int_digits gm) as [k|]; [|discriminate].
    destruct (forallb _ _) eqn:F; [|discriminate]. destruct (k <=? 32) eqn:K; [|discriminate].
    intros H. inversion H; subst. split; [auto|]. now apply N.leb_le.
  - destruct (forallb _ _) eqn:F; [|discriminate]. intros H. inversion H; subst. split; auto.
Qed.

Lemma dgroup_print n : n < 1000 -> dgroup (print_dec n).
Proof. intros H. destruct (print_dec_facts n H) as (_ & D & NE & _). split; auto. Qed.

Lemma fmt4_assemble a b c d m :
  fmt4 [a; b; c; d] m =
  assemble4 {| g1 := print_dec a; g2 := print_dec b; g3 := print_dec c; g4 := print_dec d;
               g5 := option_map print_dec m |}.
Proof.
  unfold fmt4, assemble4. cbn [map intercalate g1 g2 g3 g4 g5]. rewrite <- !app_assoc. cbn [app].
  destruct m; reflexivity.
Qed.

Lemma parse4_fmt4 bs m : wf_denot4 bs m -> parse4 (fmt4 bs m) = Some (bs, m).
Proof.
  intros [(a & b & c & d & -> & Ha & Hb & Hc & Hd) Hm]. rewrite fmt4_assemble. unfold parse4.
  rewrite match4_complete.
  2:{ unfold groups_ok. cbn [g1 g2 g3 g4 g5]. repeat split; try (apply dgroup_print; lia).
      destruct m as [k|]; cbn [option_map]; [apply dgroup_print; lia|exact I]. }
  cbn [g1 g2 g3 g4 g5]. rewrite !py_int_print_dec by lia.
  assert (F : forallb (fun x => x <=? 255) [a; b; c; d] = true).
  { cbn [forallb]. repeat (apply andb_true_iff; split); try reflexivity; now apply N.leb_le. }
  destruct m as [k|]; cbn [option_map].
  - rewrite py_int_print_dec by lia. rewrite F. apply N.leb_le in Hm. now rewrite Hm.
  - now rewrite F.
Qed.

(* ---- the theorems ---- *)
Theorem normalize4_idempotent r s :
  match normalize4 r s with Ok t => normalize4 r t = Ok t | Exc _ => True end.
Proof.
  unfold normalize4 at 1. destruct (parse4 s) as [[bs m]|] eqn:P.
  - unfold normalize4. rewrite (parse4_fmt4 _ _ (parse4_range _ _ _ P)). reflexivity.
  - unfold malformed. destruct r; [exact I|]. unfold normalize4. now rewrite P.
Qed.

Theorem normalize4_canonical r s1 s2 d1 d2 : parse4 s1 = Some d1 -> parse4 s2 = Some d2 ->
  (d1 = d2 <-> normalize4 r s1 = normalize4 r s2).
Proof.
  intros P1 P2. unfold normalize4. rewrite P1, P2. destruct d1 as [b1 m1], d2 as [b2 m2]. split.
  - intros E. inversion E; subst. reflexivity.
  - intros E. inversion E as [E'].
    pose proof (parse4_fmt4 _ _ (parse4_range _ _ _ P1)) as Q1.
    pose proof (parse4_fmt4 _ _ (parse4_range _ _ _ P2)) as Q2.
    rewrite E' in Q1. congruence.
Qed.

(* malformed input: unchanged, or ValueError iff requested; well-formed input: never an exception
   (net/broadcast without a mask count as malformed for that function, as documented) *)
Theorem ipv4_total s : parse4 s = None ->
  forall r, normalize4 r s = malformed r s /\ strip_mask4 r s = malformed r s /\
            net_address4 r s = malformed r s /\ broadcast_address4 r s = malformed r s.
Proof.
  intros P r. unfold normalize4, strip_mask4, net_address4, broadcast_address4. rewrite P. auto.
Qed.

Theorem ipv4_wellformed_ok s bs m r : parse4 s = Some (bs, m) ->
  (exists t, normalize4 r s = Ok t) /\ (exists t, strip_mask4 r s = Ok t) /\
  (m <> None -> (exists t, net_address4 r s = Ok t) /\ (exists t, broadcast_address4 r s = Ok t)) /\
  (m = None -> net_address4 r s = malformed r s /\ broadcast_address4 r s = malformed r s).
Proof.
  intros P. unfold normalize4, strip_mask4, net_address4, broadcast_address4. rewrite P.
  repeat split; eauto; destruct m; try congruence; eauto.
Qed.

(* strip_mask returns the address text: the part before "/", which denotes the same bytes *)
Theorem strip_mask4_spec r s bs m : parse4 s = Some (bs, m) ->
  exists t, strip_mask4 r s = Ok t /\ parse4 t = Some (bs, None) /\
            (m = None -> t = s).
Proof.
  intros P. unfold strip_mask4. rewrite P. exists (fst (cut SLASH s)). split; [reflexivity|].
  unfold parse4 in P. destruct (match4 s) as [g|] eqn:M; [|discriminate].
  apply match4_sound in M. destruct M as [(Ga & Gb & Gc & Gd & Gm) ->].
  destruct g as [a b c d gm]. cbn [g1 g2 g3 g4 g5] in *.
  assert (NS : has SLASH (a ++ DOT :: b ++ DOT :: c ++ DOT :: d) = false).
  { assert (D : forall g, dgroup g -> ~ In SLASH g).
    { intros g [_ Hg] Hin. rewrite forallb_forall in Hg. specialize (Hg _ Hin). discriminate. }
    apply has_false_In. intros Hin.
    repeat (apply in_app_or in Hin; destruct Hin as [Hin|Hin]; [eapply D; [|exact Hin]; assumption|];
            destruct Hin as [E|Hin]; [discriminate|]).
    exact (D _ Gd Hin). }
  unfold assemble4. cbn [g1 g2 g3 g4 g5].
  assert (M0 : match4 (a ++ DOT :: b ++ DOT :: c ++ DOT :: d) =
               Some {| g1 := a; g2 := b; g3 := c; g4 := d; g5 := None |}).
  { pose proof (match4_complete {| g1 := a; g2 := b; g3 := c; g4 := d; g5 := None |}) as Q.
    unfold assemble4 in Q. cbn [g1 g2 g3 g4 g5 mask_tail] in Q. rewrite app_nil_r in Q. apply Q.
    unfold groups_ok. cbn. tauto. }
  destruct gm as [gm|]; cbn [mask_tail].
  - replace (a ++ DOT :: b ++ DOT :: c ++ DOT :: d ++ SLASH :: gm)
      with ((a ++ DOT :: b ++ DOT :: c ++ DOT :: d) ++ SLASH :: gm)
      by (rewrite <- !app_assoc; cbn [app]; rewrite <- !app_assoc; cbn [app]; rewrite <- !app_assoc; reflexivity).
    rewrite (cut_app _ _ _ NS). cbn [fst]. split.
    + unfold parse4. rewrite M0. cbn [g1 g2 g3 g4 g5].
      destruct (py_int_digits a); [|discriminate]. destruct (py_int_digits b); [|discriminate].
      destruct (py_int_digits c); [|discriminate]. destruct (py_int_digits d); [|discriminate].
      destruct (py_int_digits gm); [|discriminate].
      destruct (forallb _ _); [|discriminate]. destruct (_ <=? 32); [|discriminate]. inversion P; subst. reflexivity.
    + intros ->. destruct (py_int_digits a); [|discriminate]. destruct (py_int_digits b); [|discriminate].
      destruct (py_int_digits c); [|discriminate]. destruct (py_int_digits d); [|discriminate].
      destruct (py_int_digits gm); [|discriminate].
      destruct (forallb _ _); [|discriminate]. destruct (_ <=? 32); discriminate.
  - rewrite app_nil_r. rewrite (cut_none _ _ NS). cbn [fst]. split.
    + unfold parse4. rewrite M0. cbn [g1 g2 g3 g4 g5].
      destruct (py_int_digits a); [|discriminate]. destruct (py_int_digits b); [|discriminate].
      destruct (py_int_digits c); [|discriminate]. destruct (py_int_digits d); [|discriminate].
      destruct (forallb _ _); [|discriminate]. inversion P; subst. reflexivity.
    + reflexivity.
Qed.

(* net = a / 2^(32-m) * 2^(32-m), broadcast = net + 2^(32-m) - 1, re-split into bytes *)
Theorem net_broadcast_arith4 r s bs m : parse4 s = Some (bs, Some m) ->
  let a := to_N32 bs in
  let net := a / 2 ^ (32 - m) * 2 ^ (32 - m) in
  net_address4 r s = Ok (fmt4 (bytes32 net) (Some m)) /\
  broadcast_address4 r s = Ok (fmt4 (bytes32 (net + (2 ^ (32 - m) - 1))) None) /\
  to_N32 (bytes32 net) = net /\ to_N32 (bytes32 (net + (2 ^ (32 - m) - 1))) = net + (2 ^ (32 - m) - 1).
Proof.
  intros P. pose proof (parse4_range _ _ _ P) as [(a0 & b0 & c0 & d0 & -> & Ha & Hb & Hc & Hd) Hm].
  cbv zeta. pose proof (to_N32_lt _ _ _ _ Ha Hb Hc Hd) as L.
  unfold net_address4, broadcast_address4. rewrite P.
  rewrite (netmask_land 32 m _ L Hm), hostmask_lor.
  repeat split.
  - apply to_N32_bytes32. now apply net_lt.
  - apply to_N32_bytes32. now apply bcast_lt.
Qed.
