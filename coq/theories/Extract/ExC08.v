From Coq Require Import ExtrOcamlBasic.
From Coq Require Extraction.
From VF Require Import Base.Sx C08.Entry.
Definition main := wrap entry.
Extraction "../ocaml/gen/c08_model.ml" main.
