(* C01 - TFTP octet transfers deliver the handler's bytes exactly, even under packet loss.
   Property theorems only. *)
From Coq Require Import String.
From Coq Require Import List NArith ZArith Bool Arith Lia.
From VF Require Import Tftp.Readers Tftp.ReadersProofs Tftp.Codec Tftp.Transfer Tftp.Run Tftp.Monitor
  Tftp.MonitorProofs Tftp.Entries C01.Entry.
Import ListNotations.

(* block framing of any byte string: count, sizes, concatenation *)
Theorem C01_blocks_spec : forall bs content, (1 <= bs)%nat ->
  length (split_blocks bs content) = S (length content / bs) /\
  framed bs (split_blocks bs content) /\
  concat (split_blocks bs content) = content.
Proof.
  intros bs content H. split; [apply split_blocks_count; auto|].
  split; [apply split_blocks_framed; auto|apply split_blocks_concat].
Qed.
Print Assumptions C01_blocks_spec.

(* however the handler's stream splits its reads, the reader yields exactly that framing *)
Theorem C01_reader_chunking_independent : forall bs content chunking, (1 <= bs)%nat ->
  octet_blocks bs content chunking = split_blocks bs content.
Proof. exact octet_blocks_spec. Qed.
Print Assumptions C01_reader_chunking_independent.

(* for EVERY script of incoming datagrams (acks, losses = silence, duplicates, stale and future
   acks, errors, garbage, foreign senders, any timing) the trace of the transfer is accepted by
   the monitor, whose expected packet list is DATA 1,2,3,... (wrap rule) over
   split_blocks bs content, preceded by the negotiated OACK *)
Theorem C01_monitor_accepts : forall c, valid c -> monitor c (run_transfer_case c) = [].
Proof. exact monitor_accepts. Qed.
Print Assumptions C01_monitor_accepts.

Theorem C01_holds : forall c, valid c -> holds c (run_transfer_case c) = [].
Proof. intros c H. unfold holds. rewrite monitor_accepts by exact H. reflexivity. Qed.
Print Assumptions C01_holds.

(* the driver reports for every evaluated case whether it satisfies the hypotheses of the theorems
   (flag `covered` of Tftp.Entries.tftp_entry): where the flag is 1 the theorem above applies *)
Theorem C01_covered_cases : forall c, validb c = true -> holds c (run_transfer_case c) = [].
Proof. intros c H. apply C01_holds. apply validb_valid. exact H. Qed.
Print Assumptions C01_covered_cases.

(* non-vacuity: a three-block transfer with a lost packet and a stale acknowledgement *)
Definition ex_case : tcase :=
  {| t_content := [1; 2; 3; 4; 5; 6; 7; 8; 9; 10; 11; 12; 13; 14; 15; 16; 17]%N; t_chunks := [3; 1; 5]%nat;
     t_netascii := false; t_options := [(lit "blksize", lit "8")];
     t_limits := {| max_bs := 65464; max_tmo := 30720; default_tmo := 2048 |}; t_retries := 1; t_wrap := Some 0%N;
     t_kind := KNoFileno;
     t_events := [Recv 5 0 [0; 4; 0; 0]; Recv 2100 0 [0; 4; 0; 1]; Recv 2101 0 [0; 4; 0; 1];
                  Recv 2102 0 [0; 4; 0; 2]; Recv 2103 0 [0; 4; 0; 3]]%N;
     t_proc := 0; t_v := current; t_nv := ncurrent; t_na_always_skip := false |}.
Example C01_nonvacuous :
  valid ex_case /\
  proj_client_packets (run_transfer_case ex_case) =
  Sx.L [Sx.L [Sx.I 6]; Sx.L [Sx.I 3; Sx.I 1; Sx.B [1; 2; 3; 4; 5; 6; 7; 8]%N];
        Sx.L [Sx.I 3; Sx.I 1; Sx.B [1; 2; 3; 4; 5; 6; 7; 8]%N];
        Sx.L [Sx.I 3; Sx.I 2; Sx.B [9; 10; 11; 12; 13; 14; 15; 16]%N]; Sx.L [Sx.I 3; Sx.I 3; Sx.B [17]%N]].
Proof. split; [repeat split; cbn; lia|vm_compute; reflexivity]. Qed.
