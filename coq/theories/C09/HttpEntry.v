(* C09 (HTTP part): sx entry.  Input (case impl_obs) with
   case = ((server date ((code phrase description) ...)) eof data (handler ...)),
   handler = (pred boom act) (boom: for which paths prepare_context raises), pred = (0 b) constant | (1 prefix) | (2 exact path) | (3 ((path b) ...)) table,
   act as in C03 ((0) raise | (1 status headers body));
   obs  = (client internal) with client = (0) closed | (1 code) well-formed response | (2) bytes without
   status line | (3 raw) malformed | (4) hang, internal = 1 iff a log record with exception info was seen.
   Output (model_obs failed_on_model failed_on_impl). *)
From Coq Require Import String.
From Coq Require Import List NArith ZArith Bool.
From VF Require Import Base.Sx Http.Response Http.Emit Http.Classify C03.Entry.
Import ListNotations.

Inductive pred := PConst (b : bool) | PPrefix (p : bytes) | PExact (p : bytes) | PTable (t : list (bytes * bool)).
Fixpoint tlookup (t : list (bytes * bool)) (k : bytes) : bool :=
  match t with [] => false | (a, b) :: r => if beqb a k then b else tlookup r k end.
Fixpoint has_prefix (p s : bytes) : bool :=
  match p, s with
  | [], _ => true
  | a :: p', b :: s' => (a =? b)%N && has_prefix p' s'
  | _ :: _, [] => false
  end.
Definition eval_pred (p : pred) (path : bytes) : bool :=
  match p with
  | PConst b => b
  | PPrefix x => has_prefix x path
  | PExact x => beqb x path
  | PTable t => tlookup t path
  end.

Inductive wobs := WClosed | WResponse (code : N) | WSimple | WGarbage (raw : bytes) | WHang.
Record hobs := { ho_client : wobs; ho_internal : bool }.

Definition of_cobs (c : cobs) : wobs :=
  match c with OClosed => WClosed | OResponse k => WResponse k | OSimple => WSimple | OHang => WHang end.

Definition wobs_eqb (a b : wobs) : bool :=
  match a, b with
  | WClosed, WClosed => true | WSimple, WSimple => true | WHang, WHang => true
  | WResponse x, WResponse y => (x =? y)%N
  | WGarbage x, WGarbage y => beqb x y
  | _, _ => false
  end.

Record hcase := { hc_env : env; hc_eof : bool; hc_data : bytes; hc_handlers : list hspec }.

Definition http_model (c : hcase) : hobs :=
  let r := react (hc_env c) (hc_handlers c) (hc_eof c) (hc_data c) in
  {| ho_client := of_cobs (observe r); ho_internal := internal_of r |}.

(* failed clauses for an observation *)
Definition http_holds (c : hcase) (o : hobs) : list string :=
  let want := ho_client (http_model c) in
  (if ho_internal o then ["C09:http_internal_error_path"%string] else []) ++
  (if wobs_eqb (ho_client o) want then []
   else match ho_client o with
        | WHang => ["C09:http_hang"%string]
        | WGarbage _ => ["C09:http_malformed_response"%string]
        | _ => ["C09:http_reaction"%string]
        end).

Definition http_valid (c : hcase) : Prop :=
  forall h path, In h (hc_handlers c) -> h_boom h path || act_raises (h_act h) = false.

(* ---------- sx ---------- *)
Definition de_tentry (x : sx) : option (bytes * bool) :=
  match x with L [B p; b] => obind (asBool b) (fun b => Some (p, b)) | _ => None end.
Definition de_pred (x : sx) : option pred :=
  match x with
  | L [I 0%Z; b] => obind (asBool b) (fun b => Some (PConst b))
  | L [I 1%Z; B p] => Some (PPrefix p)
  | L [I 2%Z; B p] => Some (PExact p)
  | L [I 3%Z; t] => obind (asListOf de_tentry t) (fun t => Some (PTable t))
  | _ => None
  end.
Definition de_hspec (x : sx) : option hspec :=
  match x with
  | L [p; b; a] => obind (de_pred p) (fun p => obind (de_pred b) (fun b => obind (dec_act a) (fun a =>
                   Some {| h_pred := eval_pred p; h_boom := eval_pred b; h_act := a |})))
  | _ => None
  end.
Definition de_wobs (x : sx) : option wobs :=
  match x with
  | L [I 0%Z] => Some WClosed
  | L [I 1%Z; c] => obind (asN c) (fun c => Some (WResponse c))
  | L [I 2%Z] => Some WSimple
  | L [I 3%Z; B raw] => Some (WGarbage raw)
  | L [I 4%Z] => Some WHang
  | _ => None
  end.
Definition de_hobs (x : sx) : option hobs :=
  match x with
  | L [w; i] => obind (de_wobs w) (fun w => obind (asBool i) (fun i => Some {| ho_client := w; ho_internal := i |}))
  | _ => None
  end.
Definition sx_wobs (w : wobs) : sx :=
  match w with
  | WClosed => L [I 0%Z] | WResponse c => L [I 1%Z; sxN c] | WSimple => L [I 2%Z]
  | WGarbage raw => L [I 3%Z; B raw] | WHang => L [I 4%Z]
  end.
Definition sx_hobs (o : hobs) : sx := L [sx_wobs (ho_client o); sxBool (ho_internal o)].

Definition http_entry (x : sx) : sx :=
  match x with
  | L [L [L [B server; B date; resps]; eof; B data; hs]; io] =>
      match asListOf dec_resp_entry resps, asBool eof, asListOf de_hspec hs, de_hobs io with
      | Some resps, Some eof, Some hs, Some io =>
          let c := {| hc_env := {| e_server := server; e_date := date; e_responses := resps; e_head := false |};
                      hc_eof := eof; hc_data := data; hc_handlers := hs |} in
          let m := http_model c in
          L [sx_hobs m; L (map sxS (http_holds c m)); L (map sxS (http_holds c io))]
      | _, _, _, _ => sxS "bad-case"
      end
  | _ => sxS "bad-input"
  end.
