From Coq Require Import ExtrOcamlBasic.
From Coq Require Extraction.
From VF Require Import Base.Sx C09.PortEntry.
Definition main := wrap port_entry.
Extraction "../ocaml/gen/c09port_model.ml" main.
