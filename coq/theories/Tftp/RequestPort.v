(* Model of the request port of vinegar/tftp/server.py:
   TftpServer._process_request / _process_read_request / _process_write_request /
   _process_invalid_request, with the catch-all of TftpServer._run.
   Every primitive that can raise in Python is modelled with its exception:
   struct.unpack_from on short data (struct.error), Opcode(n) (ValueError),
   decode_read_request (ValueError), the constructor of _TftpReadRequest
   (ValueError for a mode that is neither netascii nor octet).
   Request handlers are abstracted to predicates on the decoded filename
   (can_handle); handler code that raises is outside this model.
   Definitions only. *)
From Coq Require Import String.
From Coq Require Import List NArith ZArith Bool.
From VF Require Import Base.Sx Tftp.Codec Tftp.Transfer.
Import ListNotations.
Open Scope N_scope.

Inductive exn := StructError | ValueError.
Inductive res (A : Type) := Ok (a : A) | Exc (e : exn).
Arguments Ok {A}. Arguments Exc {A}.
Definition bind {A B} (r : res A) (f : A -> res B) : res B :=
  match r with Ok a => f a | Exc e => Exc e end.

(* struct.unpack_from("!H", data) *)
Definition unpack_u16 (d : str) : res N :=
  match d with hi :: lo :: _ => Ok (u16 hi lo) | _ => Exc StructError end.

Inductive opcode := OpRRQ | OpWRQ | OpDATA | OpACK | OpERROR | OpOACK.
(* Opcode(n): the enum constructor raises ValueError for a value that is no member *)
Definition opcode_of (n : N) : res opcode :=
  if n =? 1 then Ok OpRRQ else if n =? 2 then Ok OpWRQ else if n =? 3 then Ok OpDATA
  else if n =? 4 then Ok OpACK else if n =? 5 then Ok OpERROR else if n =? 6 then Ok OpOACK
  else Exc ValueError.

(* protocol.decode_read_request: every failure is a ValueError (Opcode.from_bytes converts
   struct.error, TransferMode.from_str and the shape checks raise ValueError) *)
Definition decode_read_request (d : str) : res (str * mode * list (str * str)) :=
  match decode_rrq d with Some r => Ok r | None => Exc ValueError end.

(* request handlers as far as the port is concerned: can_handle(filename, context) *)
Inductive handler := HConst (b : bool) | HPrefix (p : str) | HExact (s : str).
Fixpoint starts_with (p s : str) : bool :=
  match p, s with
  | [], _ => true
  | x :: p', y :: s' => (x =? y) && starts_with p' s'
  | _ :: _, [] => false
  end.
Definition can_handle (h : handler) (fn : str) : bool :=
  match h with HConst b => b | HPrefix p => starts_with p fn | HExact s => str_eqb s fn end.

(* what the port does: datagrams sent from the server socket to the requester, transfers started *)
Inductive action :=
| ASendError (code : N)
| AStart (fn : str) (m : mode) (opts : list (str * str)) (handler_index : nat)
| ALogExc
| ABad (raw : str).     (* observation only: a datagram that is no well-formed ERROR for the requester *)

(* _TftpReadRequest.__init__ raises ValueError for any mode but netascii and octet *)
Definition start_transfer (fn : str) (m : mode) (o : list (str * str)) (i : nat) : res (list action) :=
  match m with Mail => Exc ValueError | _ => Ok [AStart fn m o i] end.

(* for request_handler in self._request_handlers: ... return *)
Fixpoint handler_loop (hs : list handler) (i : nat) (fn : str) (m : mode) (o : list (str * str))
  : res (list action) :=
  match hs with
  | [] => Ok [ASendError 1]                       (* FILE_NOT_FOUND *)
  | h :: r => if can_handle h fn then start_transfer fn m o i else handler_loop r (S i) fn m o
  end.

Definition process_read_request (hs : list handler) (d : str) : res (list action) :=
  match decode_read_request d with
  | Exc ValueError => Ok [ASendError 4]           (* except ValueError: ILLEGAL_OPERATION *)
  | Exc e => Exc e
  | Ok (fn, m, o) =>
      match m with
      | Mail => Ok [ASendError 4]
      | _ => handler_loop hs O fn m o
      end
  end.

Definition process_request (hs : list handler) (d : str) : res (list action) :=
  if (List.length d <? 2)%nat then Ok [] else
  bind (unpack_u16 d) (fun n =>
  match opcode_of n with
  | Exc ValueError => Ok []                       (* except ValueError: unknown opcode ignored *)
  | Exc e => Exc e
  | Ok OpRRQ => process_read_request hs d
  | Ok OpWRQ => Ok [ASendError 2]                 (* ACCESS_VIOLATION *)
  | Ok _ => Ok [ASendError 4]                     (* ILLEGAL_OPERATION *)
  end).

(* TftpServer._run: `except Exception: logger.exception(...)` *)
Definition serve_one (hs : list handler) (d : str) : list action :=
  match process_request hs d with Ok a => a | Exc _ => [ALogExc] end.

(* ---------- specification of the port (property C09, first sentence) ---------- *)
Fixpoint first_accepting (hs : list handler) (i : nat) (fn : str) : option nat :=
  match hs with
  | [] => None
  | h :: r => if can_handle h fn then Some i else first_accepting r (S i) fn
  end.

Definition port_spec (hs : list handler) (d : str) : list action :=
  match d with
  | hi :: lo :: _ =>
      let op := u16 hi lo in
      if op =? 1 then
        match decode_rrq d with
        | None => [ASendError 4]
        | Some (fn, Mail, _) => [ASendError 4]
        | Some (fn, m, o) => match first_accepting hs O fn with
                             | Some i => [AStart fn m o i]
                             | None => [ASendError 1]
                             end
        end
      else if op =? 2 then [ASendError 2]
      else if (3 <=? op) && (op <=? 6) then [ASendError 4]
      else []
  | _ => []
  end.

(* executable checker for an observed reaction *)
Definition mode_num (m : mode) : N := match m with Netascii => 1 | Octet => 2 | Mail => 3 end.
Fixpoint opts_eqb (a b : list (str * str)) : bool :=
  match a, b with
  | [], [] => true
  | (k, x) :: a', (k', x') :: b' => str_eqb k k' && str_eqb x x' && opts_eqb a' b'
  | _, _ => false
  end.
Definition action_eqb (a b : action) : bool :=
  match a, b with
  | ASendError c, ASendError c' => c =? c'
  | AStart f m o i, AStart f' m' o' i' => str_eqb f f' && (mode_num m =? mode_num m') && opts_eqb o o' && Nat.eqb i i'
  | ALogExc, ALogExc => true
  | ABad r, ABad r' => str_eqb r r'
  | _, _ => false
  end.
Fixpoint actions_eqb (a b : list action) : bool :=
  match a, b with
  | [], [] => true
  | x :: a', y :: b' => action_eqb x y && actions_eqb a' b'
  | _, _ => false
  end.

Definition port_holds (hs : list handler) (d : str) (obs : list action) : list string :=
  (if existsb (fun a => match a with ALogExc => true | _ => false end) obs
   then ["C09:internal_error_path"%string] else []) ++
  (if (2 <=? List.length obs)%nat then ["C09:port_more_than_one_reaction"%string] else []) ++
  (if actions_eqb obs (port_spec hs d) then [] else ["C09:port_reaction"%string]).
