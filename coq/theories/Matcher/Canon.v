(* Every expression tree has a legal layout (minimal parentheses, single spaces, every key and
   pattern double-quoted), so parse_print speaks about every tree; and the precedence /
   associativity corollaries of parse_print. *)
From Coq Require Import String.
From Coq Require Import List NArith Bool Arith Lia.
From VF Require Import Matcher.Model Matcher.ParserFacts Matcher.PrintLex Matcher.PrintParse.
Import ListNotations.

Definition dq_style : astyle := {| st_short := false; st_slash := false; st_key := Dq; st_pat := Dq |}.
Definition wrap (b : bool) (c : cst) : cst := if b then CParen [] c [] else c.

Fixpoint canon (lvl : nat) (e : expr) : cst :=
  match e with
  | Atom a => CAtom a dq_style
  | Not x => CNot [SP] (canon 2 x)
  | And a b => wrap (1 <? lvl)%nat (CBin KAnd (canon 1 a) [SP] [SP] (canon 2 b))
  | Or a b => wrap (0 <? lvl)%nat (CBin KOr (canon 0 a) [SP] [SP] (canon 1 b))
  end.

(* the only lexical restriction on atoms: a data key is not empty *)
Definition printable (e : expr) : Prop := forall a, In a (atoms e) -> a_key a <> Some [].

Lemma canon_erase e : forall lvl, erase (canon lvl e) = e.
Proof.
  induction e as [a|x IH|a IHa b IHb|a IHa b IHb]; intros lvl; cbn [canon].
  - reflexivity.
  - cbn [erase]. now rewrite IH.
  - destruct (1 <? lvl)%nat; cbn [wrap erase mk_of]; now rewrite IHa, IHb.
  - destruct (0 <? lvl)%nat; cbn [wrap erase mk_of]; now rewrite IHa, IHb.
Qed.

Lemma canon_atoms e : forall lvl, catoms (canon lvl e) = atoms e.
Proof.
  induction e as [a|x IH|a IHa b IHb|a IHa b IHb]; intros lvl; cbn [canon].
  - reflexivity.
  - cbn [catoms atoms]. apply IH.
  - destruct (1 <? lvl)%nat; cbn [wrap catoms atoms]; now rewrite IHa, IHb.
  - destruct (0 <? lvl)%nat; cbn [wrap catoms atoms]; now rewrite IHa, IHb.
Qed.

Lemma is_ws_sp : is_ws [SP]. Proof. reflexivity. Qed.
Lemma is_ws_nil : is_ws []. Proof. reflexivity. Qed.

Lemma canon_okx e : printable e -> forall bk rp lvl, (lvl <= 2)%nat -> okx bk rp lvl (canon lvl e).
Proof.
  induction e as [a|x IH|a IHa b IHb|a IHa b IHb]; intros Hp bk rp lvl Hl; cbn [canon].
  - cbn [okx]. unfold atom_okx, dq_style. cbn. split; [exact I|].
    destruct (a_key a) as [k|] eqn:E; [|exact I]. split; [|exact I].
    intros ->. apply (Hp a); [now left|exact E].
  - cbn [okx]. split; [exact is_ws_sp|]. split; [apply IH; [exact Hp|lia]|left; discriminate].
  - assert (Hpa : printable a) by (intros x Hx; apply Hp; cbn [atoms]; apply in_or_app; auto).
    assert (Hpb : printable b) by (intros x Hx; apply Hp; cbn [atoms]; apply in_or_app; auto).
    assert (Hbin : forall rp' l, (l <= 1)%nat -> okx bk rp' l (CBin KAnd (canon 1 a) [SP] [SP] (canon 2 b))).
    { intros rp' l Hle. cbn [okx lev]. repeat split; try exact is_ws_sp; try discriminate; try lia.
      - apply IHa; [exact Hpa|lia]. - apply IHb; [exact Hpb|lia].
      - left; discriminate. - left; discriminate. }
    destruct (1 <? lvl)%nat eqn:E; cbn [wrap].
    + cbn [okx]. split; [exact is_ws_nil|]. split; [exact is_ws_nil|]. apply Hbin. lia.
    + apply Nat.ltb_ge in E. now apply Hbin.
  - assert (Hpa : printable a) by (intros x Hx; apply Hp; cbn [atoms]; apply in_or_app; auto).
    assert (Hpb : printable b) by (intros x Hx; apply Hp; cbn [atoms]; apply in_or_app; auto).
    assert (Hbin : forall rp', okx bk rp' 0 (CBin KOr (canon 0 a) [SP] [SP] (canon 1 b))).
    { intros rp'. cbn [okx lev]. repeat split; try exact is_ws_sp; try discriminate; try lia.
      - apply IHa; [exact Hpa|lia]. - apply IHb; [exact Hpb|lia].
      - left; discriminate. - left; discriminate. }
    destruct (0 <? lvl)%nat eqn:E; cbn [wrap].
    + cbn [okx]. split; [exact is_ws_nil|]. split; [exact is_ws_nil|]. apply Hbin.
    + apply Nat.ltb_ge in E. assert (lvl = 0%nat) as -> by lia. apply Hbin.
Qed.

Lemma canon_ok e : printable e -> forall lvl, (lvl <= 2)%nat -> ok lvl (canon lvl e).
Proof. intros Hp lvl Hl. now apply canon_okx. Qed.

Section Corollaries.
  Variable V : variants.
  Variable compile : atom -> cres.

  (* every tree whose atoms compile can be written down, and what is written parses back to it *)
  Theorem every_tree_roundtrips e : printable e -> (forall a, In a (atoms e) -> compile a = COk) ->
    ok 0 (canon 0 e) /\ erase (canon 0 e) = e /\ parse V compile (print (canon 0 e)) = Ok e.
  Proof.
    intros Hp Hc. assert (Hok := canon_ok e Hp 0%nat ltac:(lia)).
    split; [exact Hok|]. split; [apply canon_erase|].
    rewrite <- (canon_erase e 0%nat) at 2.
    pose proof (parse_print V compile (canon 0 e) [] [] Hok) as H. cbn [app] in H. rewrite app_nil_r in H.
    apply H; try exact is_ws_nil. intros a Ha. apply Hc. now rewrite canon_atoms in Ha.
  Qed.

  (* ---- precedence and associativity, for atoms written in any legal style ---- *)
  Variables (a b c : atom) (sa sb sc : astyle).
  Hypothesis Ha : atom_ok a sa. Hypothesis Hb : atom_ok b sb. Hypothesis Hc : atom_ok c sc.
  Hypothesis Ca : compile a = COk. Hypothesis Cb : compile b = COk. Hypothesis Cc : compile c = COk.
  Let pa := print_atom a sa. Let pb := print_atom b sb. Let pc := print_atom c sc.

  Local Ltac by_parse_print t :=
    let H := fresh in
    pose proof (parse_print V compile t [] []) as H; cbn [app] in H; rewrite app_nil_r in H;
    cbn [print erase mk_of] in H; rewrite <- ?app_assoc in H; apply H;
    [ unfold ok; cbn [okx lev andb]; repeat match goal with |- _ /\ _ => split end;
      first [assumption | exact Ha | exact Hb | exact Hc | exact is_ws_sp | exact is_ws_nil | discriminate | lia | left; discriminate]
    | intros x Hx; cbn [catoms app In] in Hx; intuition (subst; assumption)
    | exact is_ws_nil | exact is_ws_nil ].

  (* and binds tighter than or, on either side *)
  Theorem or_and : parse V compile (pa ++ lit " or " ++ pb ++ lit " and " ++ pc) = Ok (Or (Atom a) (And (Atom b) (Atom c))).
  Proof. by_parse_print (CBin KOr (CAtom a sa) [SP] [SP] (CBin KAnd (CAtom b sb) [SP] [SP] (CAtom c sc))). Qed.
  Theorem and_or : parse V compile (pa ++ lit " and " ++ pb ++ lit " or " ++ pc) = Ok (Or (And (Atom a) (Atom b)) (Atom c)).
  Proof. by_parse_print (CBin KOr (CBin KAnd (CAtom a sa) [SP] [SP] (CAtom b sb)) [SP] [SP] (CAtom c sc)). Qed.
  (* not binds tighter than and / or *)
  Theorem not_and : parse V compile (lit "not " ++ pa ++ lit " and " ++ pb) = Ok (And (Not (Atom a)) (Atom b)).
  Proof. by_parse_print (CBin KAnd (CNot [SP] (CAtom a sa)) [SP] [SP] (CAtom b sb)). Qed.
  Theorem not_or : parse V compile (lit "not " ++ pa ++ lit " or " ++ pb) = Ok (Or (Not (Atom a)) (Atom b)).
  Proof. by_parse_print (CBin KOr (CNot [SP] (CAtom a sa)) [SP] [SP] (CAtom b sb)). Qed.
  Theorem and_not : parse V compile (pa ++ lit " and not " ++ pb ++ lit " or " ++ pc) = Ok (Or (And (Atom a) (Not (Atom b))) (Atom c)).
  Proof. by_parse_print (CBin KOr (CBin KAnd (CAtom a sa) [SP] [SP] (CNot [SP] (CAtom b sb))) [SP] [SP] (CAtom c sc)). Qed.
  (* both operators associate to the left *)
  Theorem and_left : parse V compile (pa ++ lit " and " ++ pb ++ lit " and " ++ pc) = Ok (And (And (Atom a) (Atom b)) (Atom c)).
  Proof. by_parse_print (CBin KAnd (CBin KAnd (CAtom a sa) [SP] [SP] (CAtom b sb)) [SP] [SP] (CAtom c sc)). Qed.
  Theorem or_left : parse V compile (pa ++ lit " or " ++ pb ++ lit " or " ++ pc) = Ok (Or (Or (Atom a) (Atom b)) (Atom c)).
  Proof. by_parse_print (CBin KOr (CBin KOr (CAtom a sa) [SP] [SP] (CAtom b sb)) [SP] [SP] (CAtom c sc)). Qed.
  (* parentheses override *)
  Theorem paren_or_and : parse V compile (LP :: pa ++ lit " or " ++ pb ++ lit ") and " ++ pc) = Ok (And (Or (Atom a) (Atom b)) (Atom c)).
  Proof.
    set (t := CBin KAnd (CParen [] (CBin KOr (CAtom a sa) [SP] [SP] (CAtom b sb)) []) [SP] [SP] (CAtom c sc)).
    assert (Hs : LP :: pa ++ lit " or " ++ pb ++ lit ") and " ++ pc = [] ++ print t ++ []).
    { unfold t. cbn [print]. rewrite app_nil_r. cbn [app]. rewrite <- !app_assoc. reflexivity. }
    rewrite Hs. apply (parse_print V compile t [] []).
    - unfold t, ok. cbn [okx lev andb]. repeat match goal with |- _ /\ _ => split end;
        first [assumption | exact Ha | exact Hb | exact Hc | exact is_ws_sp | exact is_ws_nil | discriminate | lia | left; discriminate | right; reflexivity].
    - intros x Hx. unfold t in Hx. cbn [catoms app In] in Hx. intuition (subst; assumption).
    - exact is_ws_nil.
    - exact is_ws_nil.
  Qed.
End Corollaries.
