(* Model of urllib.parse.unquote(string) (Python 3.12) for str input with code
   points < 256, encoding utf-8, errors='replace':
     - the string is cut into maximal ASCII runs and non-ASCII runs;
     - every ASCII run is percent-decoded to bytes (_unquote_impl: "%" followed
       by two hex digits becomes one byte, any other "%" stays) and the bytes
       are decoded as UTF-8 with U+FFFD replacing each maximal ill-formed
       subsequence (CPython's decoder: stringlib/codecs.h utf8_decode and the
       error handling of unicode_decode_utf8);
     - non-ASCII characters pass through unchanged and end the current run.
   Definitions only; proofs are in UnquoteProofs.v. *)
From Coq Require Import List NArith Bool Arith.
From VF Require Import FileH.Str.
Import ListNotations.
Open Scope N_scope.

Definition hexval (c : N) : option N :=
  if (48 <=? c) && (c <=? 57) then Some (c - 48)
  else if (97 <=? c) && (c <=? 102) then Some (c - 87)
  else if (65 <=? c) && (c <=? 70) then Some (c - 55)
  else None.

Inductive item := Byt (b : N) | Raw (c : N).

(* tokenisation: percent escapes and ASCII characters become bytes *)
Fixpoint items (l : str) : list item :=
  match l with
  | [] => []
  | c :: r =>
      if c =? PCT then
        match r with
        | a :: b :: r' =>
            match hexval a, hexval b with
            | Some x, Some y => Byt (16 * x + y) :: items r'
            | _, _ => Byt PCT :: items r
            end
        | _ => Byt PCT :: items r
        end
      else if c <? 128 then Byt c :: items r
      else Raw c :: items r
  end.

Definition REPL : N := 65533.  (* U+FFFD *)
Definition is_cont (b : N) : bool := (128 <=? b) && (b <=? 191).

(* second byte acceptable after a three-byte lead / a four-byte lead *)
Definition ok2_3 (b b2 : N) : bool :=
  is_cont b2 && negb (if b2 <? 160 then b =? 224 else b =? 237).
Definition ok2_4 (b b2 : N) : bool :=
  is_cont b2 && negb (if b2 <? 144 then b =? 240 else b =? 244).

(* bytes.decode('utf-8', 'replace') *)
Fixpoint utf8_decode (l : list N) : str :=
  match l with
  | [] => []
  | b :: r1 =>
      if b <? 128 then b :: utf8_decode r1
      else if (b <? 194) || (245 <=? b) then REPL :: utf8_decode r1
      else if b <? 224 then
        match r1 with
        | [] => [REPL]
        | b2 :: r2 =>
            if is_cont b2 then ((b - 192) * 64 + (b2 - 128)) :: utf8_decode r2
            else REPL :: utf8_decode r1
        end
      else if b <? 240 then
        match r1 with
        | [] => [REPL]
        | b2 :: r2 =>
            if negb (ok2_3 b b2) then REPL :: utf8_decode r1
            else match r2 with
                 | [] => [REPL]
                 | b3 :: r3 =>
                     if is_cont b3
                     then ((b - 224) * 4096 + (b2 - 128) * 64 + (b3 - 128)) :: utf8_decode r3
                     else REPL :: utf8_decode r2
                 end
        end
      else
        match r1 with
        | [] => [REPL]
        | b2 :: r2 =>
            if negb (ok2_4 b b2) then REPL :: utf8_decode r1
            else match r2 with
                 | [] => [REPL]
                 | b3 :: r3 =>
                     if negb (is_cont b3) then REPL :: utf8_decode r2
                     else match r3 with
                          | [] => [REPL]
                          | b4 :: r4 =>
                              if is_cont b4
                              then ((b - 240) * 262144 + (b2 - 128) * 4096 + (b3 - 128) * 64 + (b4 - 128))
                                   :: utf8_decode r4
                              else REPL :: utf8_decode r3
                          end
                 end
        end
  end.

(* (bytes of the run that starts here, output after that run) *)
Fixpoint unq (its : list item) : list N * str :=
  match its with
  | [] => ([], [])
  | Byt b :: r => let (run, out) := unq r in (b :: run, out)
  | Raw c :: r => let (run, out) := unq r in ([], c :: utf8_decode run ++ out)
  end.

Definition unquote_items (its : list item) : str :=
  let (run, out) := unq its in utf8_decode run ++ out.

Definition unquote (s : str) : str := unquote_items (items s).

(* the byte values of the items (raw characters listed as themselves) *)
Definition item_val (i : item) : N := match i with Byt b => b | Raw c => c end.

(* the string starts with "%2f" or "%2F" (an encoded slash in either spelling) *)
Definition starts_enc_slash (s : str) : bool :=
  match s with
  | c0 :: c1 :: c2 :: _ => (c0 =? PCT) && (c1 =? 50) && ((c2 =? 102) || (c2 =? 70))
  | _ => false
  end.
