(* C04 - File serving is confined to the configured root directory or file.
   Property theorems only; each is closed by a lemma from the proof files.
   Vocabulary: root_ok root := root starts with "/", has no trailing "/", normpath root = root;
   named_ok e segs := segs are the non-empty "/"-segments of the remaining path e, there is at least one,
   none is "", "." or "..", none contains "/" or NUL;  slashed segs = "/" ++ s1 ++ "/" ++ s2 ... *)
From Coq Require Import String.
From Coq Require Import List NArith Bool Arith Lia.
From VF Require Import Base.Sx FileH.Str FileH.Unquote FileH.UnquoteProofs FileH.PosixPath FileH.Handler FileH.Spec
  FileH.PosixPathProofs FileH.TranslateProofs C04.Entry C04.EntryProofs.
Import ListNotations.
Open Scope N_scope.

(* directory mode: one request opens nothing, or exactly root ++ "/" ++ seg1 ++ "/" ... ++ suffix for the named
   segments of the decoded remaining path; normpath is the identity on it and root ++ "/" is a proper prefix *)
Theorem C04_confined : forall T FS GD fs_open old c r x log opened res,
  root_ok (c_target c) -> c_filemode c = false ->
  handle old T FS GD fs_open c r x = (log, opened, res) ->
  opened = [] \/
  exists e segs, extra_path x = Some e /\ named_ok e segs /\
    opened = [c_target c ++ slashed segs ++ c_suffix c] /\
    normpath (c_target c ++ slashed segs) = c_target c ++ slashed segs /\
    exists rest, c_target c ++ slashed segs ++ c_suffix c = (c_target c ++ [SL]) ++ rest /\ rest <> [].
Proof. exact confined. Qed.
Print Assumptions C04_confined.

(* _translate_path is exactly "root + named segments + suffix, or nothing" *)
Theorem C04_translate_path_spec : forall c e, root_ok (c_target c) -> translate_path c e = spec_path c e.
Proof. exact translate_path_spec. Qed.
Print Assumptions C04_translate_path_spec.

Theorem C04_serves_the_named_file : forall T FS GD fs_open old c r x log opened b tc,
  handle old T FS GD fs_open c r x = (log, opened, RContent b tc) ->
  exists p, opened = [p] /\ fs_open p = FsOpened b.
Proof. exact serves_the_named_file. Qed.
Print Assumptions C04_serves_the_named_file.

Theorem C04_file_mode_single_file : forall T FS GD fs_open old c r x log opened res,
  c_filemode c = true -> handle old T FS GD fs_open c r x = (log, opened, res) ->
  opened = [] \/ opened = [c_target c].
Proof. exact file_mode_single_file. Qed.
Print Assumptions C04_file_mode_single_file.

(* ENOENT / EISDIR / ENOTDIR / ENAMETOOLONG -> not found, never the error path *)
Theorem C04_not_regular_is_not_found : forall T FS GD fs_open c r x log p res,
  handle false T FS GD fs_open c r x = (log, [p], res) ->
  fs_open p = FsENOENT \/ fs_open p = FsEISDIR \/ fs_open p = FsENOTDIR \/ fs_open p = FsENAMETOOLONG ->
  res = RNotFound.
Proof. exact not_regular_is_not_found. Qed.
Print Assumptions C04_not_regular_is_not_found.

(* bytes >= 0x80 (escaped or raw) never decode to a code point < 128, and every ASCII byte survives in place:
   the ASCII characters of unquote(s) are exactly the ASCII bytes of the percent-decoded string *)
Theorem C04_unquote_no_ascii_from_high_bytes : forall s,
  filter asc (unquote s) = filter asc (map item_val (items s)).
Proof. exact unquote_ascii. Qed.
Print Assumptions C04_unquote_no_ascii_from_high_bytes.

(* the executable checker used on the implementation's observations accepts the model *)
Theorem C04_holds : forall k, valid k -> holds k (run_model k) = [].
Proof. exact holds_run_model. Qed.
Print Assumptions C04_holds.

(* ---- the behaviour before commit 232ac55 (D9) violates not_regular_is_not_found ---- *)
Definition cfg_d : config :=
  {| c_request_path := [SL]; c_filemode := false; c_target := bytes_of_string "/srv"; c_suffix := [];
     c_lookup_key := []; c_placeholder := bytes_of_string "..."; c_continue := true; c_ds_ignore := false;
     c_template := false |}.
Definition rp_d : rp := {| extract := false; pre_segs := [[]]; ph_pre := []; ph_suf := []; suf_segs := [] |}.
Definition x_d : ctx := {| matches := true; raw_value := None; extra_path := Some (bytes_of_string "/f.txt/a") |}.
Definition fs_d (p : str) : fsr := if eqb_str p (bytes_of_string "/srv/f.txt/a") then FsENOTDIR else FsENOENT.

Theorem C04_not_regular_is_not_found_refuted_old :
  init_request_path cfg_d = Ok rp_d /\
  prepare_context cfg_d rp_d (bytes_of_string "/f.txt/a") = x_d /\
  handle true T_id FS_none GD_some fs_d cfg_d rp_d x_d = ([], [bytes_of_string "/srv/f.txt/a"], RError).
Proof. repeat split; vm_compute; reflexivity. Qed.

Theorem C04_holds_refuted_old :
  exists k, k_old232 k = true /\ holds k (run_model k) <> [].
Proof.
  exists {| k_tftp := false; k_old232 := true; k_cached := false; k_cfg := cfg_d; k_uri := bytes_of_string "/f.txt/a";
            k_table := [(bytes_of_string "/srv/f.txt/a", 3, [])] |}.
  split; [reflexivity | vm_compute; discriminate].
Qed.

(* ---- non-vacuity ---- *)
Example C04_nonvacuous :
  root_ok (c_target cfg_d) /\
  prepare_context cfg_d rp_d (bytes_of_string "/a//%2e%2e%41/f.txt?x")
    = {| matches := true; raw_value := None; extra_path := Some (bytes_of_string "/a//..A/f.txt") |} /\
  handle false T_id FS_none GD_some (fun _ => FsOpened [104; 105]) cfg_d rp_d
    {| matches := true; raw_value := None; extra_path := Some (bytes_of_string "/a//..A/f.txt") |}
    = ([], [bytes_of_string "/srv/a/..A/f.txt"], RContent [104; 105] None) /\
  handle false T_id FS_none GD_some (fun _ => FsOpened [104; 105]) cfg_d rp_d
    {| matches := true; raw_value := None; extra_path := Some (bytes_of_string "/a/../f.txt") |}
    = ([], [], RNotFound) /\
  valid {| k_tftp := false; k_old232 := false; k_cached := false; k_cfg := cfg_d; k_uri := bytes_of_string "/f.txt/a";
           k_table := [(bytes_of_string "/srv/f.txt/a", 3, [])] |}.
Proof.
  split; [repeat split; vm_compute; reflexivity|].
  split; [vm_compute; reflexivity|]. split; [vm_compute; reflexivity|]. split; [vm_compute; reflexivity|].
  split; [reflexivity|]. split; [reflexivity|]. split; [intros _; repeat split; vm_compute; reflexivity|].
  intros p Hp. vm_compute in Hp. destruct Hp as [<-|[]]. vm_compute. discriminate.
Qed.
