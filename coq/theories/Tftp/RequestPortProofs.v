(* The request port reacts to EVERY datagram as the specification says and never
   reaches the catch-all of TftpServer._run. *)
From Coq Require Import String.
From Coq Require Import List NArith ZArith Bool Lia Arith.
From VF Require Import Base.Sx Tftp.Codec Tftp.NegSpec Tftp.CodecProofs Tftp.Transfer Tftp.RequestPort.
Import ListNotations.
Open Scope N_scope.

Lemma handler_loop_spec fn m o : m <> Mail -> forall hs i,
  handler_loop hs i fn m o =
  Ok (match first_accepting hs i fn with Some j => [AStart fn m o j] | None => [ASendError 1] end).
Proof.
  intros Hm. induction hs as [|h r IH]; intros i; cbn [handler_loop first_accepting]; [reflexivity|].
  destruct (can_handle h fn); [|apply IH].
  destruct m; try reflexivity. congruence.
Qed.

(* the code, exception by exception, computes the specified reaction: no exception escapes *)
Theorem process_request_spec hs d : process_request hs d = Ok (port_spec hs d).
Proof.
  unfold process_request, port_spec.
  destruct d as [|hi [|lo r]]; try reflexivity.
  cbn [List.length Nat.ltb Nat.leb unpack_u16 bind].
  set (op := u16 hi lo). unfold opcode_of.
  destruct (op =? 1) eqn:E1.
  { unfold process_read_request, decode_read_request.
    destruct (decode_rrq (hi :: lo :: r)) as [[[fn m] o]|]; [|reflexivity].
    destruct m; try reflexivity; apply handler_loop_spec; discriminate. }
  destruct (op =? 2) eqn:E2; [reflexivity|].
  apply N.eqb_neq in E1, E2.
  destruct (op =? 3) eqn:E3; [apply N.eqb_eq in E3; rewrite E3; reflexivity|].
  destruct (op =? 4) eqn:E4; [apply N.eqb_eq in E4; rewrite E4; reflexivity|].
  destruct (op =? 5) eqn:E5; [apply N.eqb_eq in E5; rewrite E5; reflexivity|].
  destruct (op =? 6) eqn:E6; [apply N.eqb_eq in E6; rewrite E6; reflexivity|].
  apply N.eqb_neq in E3, E4, E5, E6.
  destruct ((3 <=? op) && (op <=? 6)) eqn:E; [|reflexivity].
  apply andb_true_iff in E as [A B]. apply N.leb_le in A, B. lia.
Qed.

Inductive reaction_ok (hs : list handler) (d : str) : list action -> Prop :=
| RNothing : reaction_ok hs d []
| RError c : c = 1 \/ c = 2 \/ c = 4 -> reaction_ok hs d [ASendError c]
| RStart fn m o i : decode_rrq d = Some (fn, m, o) -> m <> Mail -> first_accepting hs O fn = Some i ->
    reaction_ok hs d [AStart fn m o i].

Lemma port_spec_ok hs d : reaction_ok hs d (port_spec hs d).
Proof.
  unfold port_spec. destruct d as [|hi [|lo r]]; try constructor.
  destruct (u16 hi lo =? 1).
  - destruct (decode_rrq (hi :: lo :: r)) as [[[fn m] o]|] eqn:E; [|constructor; auto].
    destruct m.
    + destruct (first_accepting hs 0 fn) eqn:F; [apply RStart; auto; discriminate|constructor; auto].
    + destruct (first_accepting hs 0 fn) eqn:F; [apply RStart; auto; discriminate|constructor; auto].
    + constructor; auto.
  - destruct (u16 hi lo =? 2); [constructor; auto|].
    destruct ((3 <=? u16 hi lo) && (u16 hi lo <=? 6)); constructor; auto.
Qed.

(* for EVERY datagram and every handler list: nothing, exactly one ERROR with code 1, 2 or 4, or one
   transfer start whose arguments are the decoding of the datagram; the catch-all is not reached *)
Theorem request_port_total hs d :
  exists acts, process_request hs d = Ok acts /\ serve_one hs d = acts /\ reaction_ok hs d acts.
Proof.
  exists (port_spec hs d). split; [apply process_request_spec|]. split; [|apply port_spec_ok].
  unfold serve_one. now rewrite process_request_spec.
Qed.

Corollary request_port_no_internal_error hs d : ~ In ALogExc (serve_one hs d).
Proof.
  destruct (request_port_total hs d) as [acts [_ [-> H]]].
  inversion H; cbn; intuition discriminate.
Qed.

(* which code answers what *)
Theorem request_port_codes hs d :
  ((length d < 2)%nat -> serve_one hs d = []) /\
  (forall hi lo r, d = hi :: lo :: r ->
     (u16 hi lo = 2 -> serve_one hs d = [ASendError 2]) /\
     (3 <= u16 hi lo <= 6 -> serve_one hs d = [ASendError 4]) /\
     (u16 hi lo = 0 \/ 7 <= u16 hi lo -> serve_one hs d = []) /\
     (u16 hi lo = 1 -> decode_rrq d = None -> serve_one hs d = [ASendError 4]) /\
     (u16 hi lo = 1 -> forall fn o, decode_rrq d = Some (fn, Mail, o) -> serve_one hs d = [ASendError 4]) /\
     (u16 hi lo = 1 -> forall fn m o, decode_rrq d = Some (fn, m, o) -> m <> Mail ->
        first_accepting hs O fn = None -> serve_one hs d = [ASendError 1])).
Proof.
  unfold serve_one. rewrite process_request_spec. split.
  - destruct d as [|hi [|lo r]]; cbn; intros; try reflexivity; lia.
  - intros hi lo r ->. unfold port_spec. repeat split.
    + intros ->. reflexivity.
    + intros [A B]. destruct (u16 hi lo =? 1) eqn:E1; [apply N.eqb_eq in E1; lia|].
      destruct (u16 hi lo =? 2) eqn:E2; [apply N.eqb_eq in E2; lia|].
      apply N.leb_le in A, B. now rewrite A, B.
    + intros H. destruct (u16 hi lo =? 1) eqn:E1; [apply N.eqb_eq in E1; lia|].
      destruct (u16 hi lo =? 2) eqn:E2; [apply N.eqb_eq in E2; lia|].
      destruct ((3 <=? u16 hi lo) && (u16 hi lo <=? 6)) eqn:E; [|reflexivity].
      apply andb_true_iff in E as [A B]. apply N.leb_le in A, B. lia.
    + intros -> ->. reflexivity.
    + intros -> fn o ->. reflexivity.
    + intros -> fn m o -> Hm ->. destruct m; try reflexivity. congruence.
Qed.

(* a transfer is started exactly with the RFC 1350/2347 decoding of the request *)
Theorem request_decoding_is_rfc hs fn md m opts i :
  clean fn -> clean md -> mode_of_str md = Some m -> m <> Mail ->
  Forall (fun p => clean (fst p) /\ clean (snd p)) opts ->
  first_accepting hs O fn = Some i ->
  serve_one hs (encode_rrq fn md opts) = [AStart fn m (dict_of opts) i].
Proof.
  intros Hfn Hmd Hm Hmail Ho Hi. unfold serve_one. rewrite process_request_spec.
  pose proof (rrq_roundtrip fn md m opts Hfn Hmd Hm Ho) as Hd.
  unfold port_spec. unfold encode_rrq in *. change (u16 0 1 =? 1) with true. cbv iota.
  rewrite Hd, Hi. destruct m; try reflexivity. congruence.
Qed.

(* conversely a transfer start means that the datagram had the RFC shape *)
Theorem start_only_for_rfc_shape hs d f m o i :
  In (AStart f m o i) (serve_one hs d) ->
  exists fn md opts,
    d = encode_rrq fn md opts /\ nul_free fn /\ nul_free md /\ pairs_nul_free opts /\
    f = ascii_ignore fn /\ mode_of_str (ascii_ignore md) = Some m /\ m <> Mail /\
    o = dict_of (map ascii_pair opts) /\ first_accepting hs O f = Some i.
Proof.
  destruct (request_port_total hs d) as [acts [_ [-> H]]].
  inversion H as [|c Hc|fn m' o' i' Hd Hm Hi]; subst; cbn; intros HIn;
    [destruct HIn|destruct HIn as [E|[]]; discriminate|destruct HIn as [E|[]]].
  injection E as -> -> -> ->.
  destruct (rrq_decode_shape _ _ _ _ Hd) as [fn0 [md0 [opts0 [A [B [C [D [E [F G]]]]]]]]].
  exists fn0, md0, opts0. repeat split; auto.
Qed.

(* the executable checker accepts the model *)
Lemma opts_eqb_refl o : opts_eqb o o = true.
Proof. induction o as [|[k x] o IH]; cbn [opts_eqb]; [reflexivity|]. now rewrite !str_eqb_refl, IH. Qed.
Lemma actions_eqb_refl a : actions_eqb a a = true.
Proof.
  induction a as [|x a IH]; cbn [actions_eqb]; [reflexivity|]. rewrite IH, andb_true_r.
  destruct x; cbn [action_eqb]; [apply N.eqb_refl| |reflexivity|apply str_eqb_refl].
  now rewrite str_eqb_refl, N.eqb_refl, opts_eqb_refl, Nat.eqb_refl.
Qed.

Theorem port_holds_model hs d : port_holds hs d (serve_one hs d) = [].
Proof.
  destruct (request_port_total hs d) as [acts [Hp [Hs H]]].
  assert (E : acts = port_spec hs d) by (rewrite process_request_spec in Hp; congruence).
  unfold port_holds. rewrite Hs, E, actions_eqb_refl. rewrite <- E.
  inversion H; reflexivity.
Qed.
