(* Model of vinegar/tftp/server.py : _TftpReadRequest._run -- the resource skeleton of one transfer
   thread: socket creation, `with self._socket`, the handler call with its two except clauses,
   `with self._file`, _process_transfer_size_option, and every way _process_request can end.
   The environment record says how each external call behaves.  Definitions only. *)
From Coq Require Import List Arith Bool.
Import ListNotations.

Inductive res := RSock | RFile.
Inductive action :=
  | Open (r : res) | Close (r : res)
  | SendError            (* an ERROR packet is sent to the client *)
  | LogInfo | LogExc     (* logger.info / logger.exception (catch-all or socket failure) *)
  | Blocks               (* the OACK/DATA/ACK exchange *)
  | ThreadEnd (uncaught : bool).   (* the thread function returns / dies with an exception *)

Inductive handler_res := HFile | HTftpError | HException.
(* how _send_options_ack/_send_data end: return, or the exception caught in _process_request *)
Inductive xfer_end := XCompleted | XTimeout | XOverflow | XClientError | XInvalidPacket | XAborted | XInternal.

Record env := {
  sock_ok : bool;            (* socket.socket() succeeds *)
  hres : handler_res;        (* what the handler function does *)
  tsize_raises : bool;       (* _process_transfer_size_option raises something it does not catch *)
  xend : xfer_end;
  send_err_raises : bool;    (* sendto() of a final ERROR packet raises OSError *)
  close_file_raises : bool;  (* close() of the handler's file object raises (after having closed it) *)
  with_sock : bool;          (* variant: `with self._socket` present (the code: true) *)
  with_file : bool           (* variant: `with self._file` present (the code: true) *)
}.

(* a computation: its trace and whether it raised *)
Definition comp := (list action * bool)%type.
Definition ret (t : list action) : comp := (t, false).
Definition seqc (a : comp) (b : comp) : comp :=
  if snd a then a else (fst a ++ fst b, snd b).
(* `with r: body` -- __exit__ closes on every exit and lets the exception through *)
Definition with_block (present : bool) (r : res) (body : comp) : comp :=
  if present then (Open r :: fst body ++ [Close r], snd body)
  else (Open r :: fst body, snd body).
(* a `with` whose __exit__ (close) raises: the resource is closed, the exception replaces the body's *)
Definition with_block_x (present : bool) (close_raises : bool) (r : res) (body : comp) : comp :=
  let c := with_block present r body in (fst c, snd c || (present && close_raises)).

Definition send_error (e : env) : comp := ([SendError], send_err_raises e).

Definition process_request (e : env) : comp :=
  seqc (ret [Blocks])
    (match xend e with
     | XCompleted => ret []
     | XTimeout | XClientError | XAborted => ret [LogInfo]
     | XOverflow => seqc (ret [LogInfo]) (send_error e)
     | XInvalidPacket => seqc (ret [LogInfo]) (send_error e)
     | XInternal => seqc (ret [LogExc]) (send_error e)
     end).

Definition in_socket (e : env) : comp :=
  match hres e with
  | HTftpError => seqc (ret [LogInfo]) (send_error e)
  | HException => seqc (ret [LogExc]) (send_error e)
  | HFile => with_block_x (with_file e) (close_file_raises e) RFile
               (if tsize_raises e then ([], true) else process_request e)
  end.

Definition run_transfer (e : env) : list action :=
  if sock_ok e then
    let c := with_block (with_sock e) RSock (in_socket e) in
    fst c ++ [ThreadEnd (snd c)]
  else [LogExc; ThreadEnd false].

(* ---- the property as a checker on traces: resources are closed in LIFO order, nothing stays open,
        and the thread ends as the last action ---- *)
Definition res_eqb (a b : res) : bool := match a, b with RSock, RSock | RFile, RFile => true | _, _ => false end.

Fixpoint scan (stk : list res) (t : list action) : option (list res) :=
  match t with
  | [] => Some stk
  | Open r :: t' => scan (r :: stk) t'
  | Close r :: t' => match stk with
                     | r' :: s' => if res_eqb r r' then scan s' t' else None
                     | [] => None
                     end
  | ThreadEnd _ :: t' => match t' with [] => Some stk | _ => None end
  | _ :: t' => scan stk t'
  end.

Definition ends_with_thread_end (t : list action) : bool :=
  match rev t with ThreadEnd _ :: _ => true | _ => false end.

Definition released (t : list action) : bool :=
  match scan [] t with Some [] => ends_with_thread_end t | _ => false end.

Definition count_act (f : action -> bool) (t : list action) : nat := length (filter f t).
Definition is_close (r : res) (a : action) : bool := match a with Close r' => res_eqb r r' | _ => false end.
Definition is_open (r : res) (a : action) : bool := match a with Open r' => res_eqb r r' | _ => false end.
Definition is_logexc (a : action) : bool := match a with LogExc => true | _ => false end.
Definition is_uncaught (a : action) : bool := match a with ThreadEnd true => true | _ => false end.
