(* Assertion tables for the TFTP lifecycle model and the lifting to any number of caller threads. *)
From Coq Require Import List Arith Bool Lia.
From VF Require Import Lifecycle.Pool Lifecycle.PoolProofs Lifecycle.Fin Lifecycle.PoolCheck Lifecycle.TftpLife.
Import ListNotations.

(* ---------- exhaustive quantifiers ---------- *)
Definition all_cpc (f : cpc -> bool) : bool :=
  f Idle && f St_chk && f St_chkF && f St_chkT && f St_spawnT && f St_spawn && f St_setrun && f St_rel && f Sp_chk && f Sp_rel1 && f Sp_join
  && f Sp_clear && f Sp_acq2 && f Sp_reset && f Sp_rel2.
Lemma all_cpc_ok f : all_cpc f = true -> forall x, f x = true.
Proof. unfold all_cpc. intros H x. repeat (apply andb_prop in H; destruct H as [H ?]). destruct x; assumption. Qed.

Definition all_mpc (f : mpc -> bool) : bool := f MNone && f M_acq && f M_chk && f M_recv && f M_close && f MEnded.
Lemma all_mpc_ok f : all_mpc f = true -> forall x, f x = true.
Proof. unfold all_mpc. intros H x. repeat (apply andb_prop in H; destruct H as [H ?]). destruct x; assumption. Qed.

Definition all_sk (f : sk -> bool) : bool := f SNone && f SOpen && f SClosed.
Lemma all_sk_ok f : all_sk f = true -> forall x, f x = true.
Proof. unfold all_sk. intros H x. repeat (apply andb_prop in H; destruct H as [H ?]). destruct x; assumption. Qed.

Definition all_op (f : op -> bool) : bool := f Start && f Stop && f StartF && f StartT.
Lemma all_op_ok f : all_op f = true -> forall x, f x = true.
Proof. unfold all_op. intros H x. repeat (apply andb_prop in H; destruct H as [H ?]). destruct x; assumption. Qed.

Definition all_glob (f : glob -> bool) : bool :=
  all_bool (fun r => all_bool (fun s => all_lk (fun l => all_bool (fun m => all_mpc (fun t =>
  all_sk (fun k => all_bool (fun e =>
    f {| running := r; shreq := s; lock := l; mref := m; mt := t; sock := k; err := e |}))))))).
Lemma all_glob_ok f : all_glob f = true -> forall x, f x = true.
Proof.
  unfold all_glob. intros H [r s l m t k e].
  exact (all_bool_ok _ (all_sk_ok _ (all_mpc_ok _ (all_bool_ok _ (all_lk_ok _ (all_bool_ok _ (all_bool_ok _ H r) s) l) m) t) k) e).
Qed.

(* ---------- assertions ---------- *)
Definition mpc_eqb (a b : mpc) : bool :=
  match a, b with MNone, MNone | M_acq, M_acq | M_chk, M_chk | M_recv, M_recv | M_close, M_close | MEnded, MEnded => true
  | _, _ => false end.
Definition sk_eqb (a b : sk) : bool :=
  match a, b with SNone, SNone | SOpen, SOpen | SClosed, SClosed => true | _, _ => false end.

Definition stopped_core g := negb (running g) && negb (shreq g) && negb (mref g) && mt_ended (mt g) && negb (sock_open (sock g)).
Definition running_core g := running g && negb (shreq g) && mref g && loop_pc (mt g) && sock_open (sock g).
Definition stopping_core g :=
  running g && shreq g &&
  ((mt_live (mt g) && sock_open (sock g) && mref g) || (mpc_eqb (mt g) MEnded && sk_eqb (sock g) SClosed)).
Definition core g := stopped_core g || running_core g || stopping_core g.
Definition after_join g := running g && shreq g && mpc_eqb (mt g) MEnded && sk_eqb (sock g) SClosed.

Definition gok (g : glob) : bool :=
  negb (err g) && Bool.eqb (mpc_eqb (mt g) M_chk) (lk_eqb (lock g) LMain)
  && implb (mt_live (mt g)) (sock_open (sock g))
  && (lk_eqb (lock g) LCaller || core g).

Definition holder (p : cpc) : bool :=
  match p with St_chk | St_chkF | St_chkT | St_spawnT | St_spawn | St_setrun | St_rel | Sp_chk | Sp_rel1 | Sp_reset | Sp_rel2 => true | _ => false end.

Definition lok (g : glob) (me : bool) (p : cpc) : bool :=
  Bool.eqb me (holder p) && implb me (lk_eqb (lock g) LCaller) &&
  match p with
  | Idle => true
  | St_chk | St_chkF | St_chkT | Sp_chk => core g
  | St_spawnT => negb (running g) && negb (shreq g) && negb (mref g) && mt_ended (mt g) && sock_open (sock g)
  | St_spawn => negb (running g) && negb (shreq g) && negb (mref g) && mt_ended (mt g) && sock_open (sock g)
  | St_setrun => negb (running g) && negb (shreq g) && mref g && mpc_eqb (mt g) M_acq && sock_open (sock g)
  | St_rel => running_core g
  | Sp_rel1 | Sp_join => stopping_core g && mref g
  | Sp_clear => after_join g && mref g
  | Sp_acq2 | Sp_reset => after_join g && negb (mref g)
  | Sp_rel2 => stopped_core g
  end.

Definition act (p : cpc) : bool :=
  match p with Sp_rel1 | Sp_join | Sp_clear | Sp_acq2 | Sp_reset => true | _ => false end.
Definition actb (g : glob) : bool := shreq g.

(* what "every call has returned" leaves behind *)
Definition quiet (g : glob) : bool := (Running g || Stopped g) && negb (lk_eqb (lock g) LCaller).

(* ---------- the finite obligations, by exhaustive computation ---------- *)

Lemma tO1 : chkO1 glob cpc op lock (cstep cur) gok lok act actb all_glob all_cpc all_op = true.
Proof. vm_compute. reflexivity. Qed.
Lemma tO2 : chkO2 glob cpc op (cstep cur) gok lok act all_glob all_cpc all_op = true.
Proof. vm_compute. reflexivity. Qed.
Lemma tO3 : chkO3 glob cpc lock (mstep cur) gok lok actb all_glob all_cpc = true.
Proof. vm_compute. reflexivity. Qed.
Lemma tD1 : chkD1 glob cpc op lock (cstep cur) (mstep cur) is_idle gok lok all_glob all_cpc all_op = true.
Proof. vm_compute. reflexivity. Qed.
Lemma tD2 : chkD2 glob cpc op (cstep cur) (mstep cur) gok lok all_glob all_cpc all_op = true.
Proof. vm_compute. reflexivity. Qed.
Lemma tF1 : chkF1 glob cpc is_idle lok act all_glob all_cpc = true.
Proof. vm_compute. reflexivity. Qed.
Lemma tF2 : chkF2 glob lock gok actb quiet all_glob = true.
Proof. vm_compute. reflexivity. Qed.
