#!/bin/sh
# tools/with_patch.sh <patch.diff|revert:<commit>> <check args...>
# Runs ./check against a scratch worktree of /repo with the patch applied (VERIF_REPO), then removes it.
set -e
patch="$1"; shift
wt=$(mktemp -d /tmp/vwt.XXXXXX)
git -C /repo worktree add -q --detach "$wt" HEAD
cleanup() { git -C /repo worktree remove --force "$wt" 2>/dev/null || rm -rf "$wt"; }
trap cleanup EXIT
case "$patch" in
  revert:*) git -C "$wt" revert --no-edit -n "${patch#revert:}" >/dev/null ;;
  *) git -C "$wt" apply "$patch" ;;
esac
cd "$(dirname "$0")/.."
VERIF_REPO="$wt" ./check "$@" || echo "exit=$?"
