(* C20: case/observation types, run_model, the executable checker [holds], and the sx entry point.

   Three kinds of cases:
     Seq  srv h          a sequential history of start/stop/request/tick on one server object
                         obs: per operation [raised; socket open; main thread alive; request outcome; hang]
     Conc srv pre ops    caller threads (each a list of start/stop) on one server object, optionally
                         started beforehand; obs: [some call raised; deadlock seen; set of final states]
                         final state code: 0 stopped, 1 running, 2 anything else, 9 exploration cut off
     Xfer env            one transfer thread; obs: [sockets closed; files closed; thread ended;
                         logger.exception calls; thread died with an exception] *)
From Coq Require Import String.
From Coq Require Import List NArith ZArith Bool Arith.
From VF Require Import Base.Sx Lifecycle.Pool Lifecycle.Seq Lifecycle.Explore Lifecycle.TftpLife
  Lifecycle.HttpLife Lifecycle.LifeSeq Lifecycle.Transfer.
Import ListNotations.
Local Open Scope nat_scope.

Inductive srv := Tftp | Http.
Inductive case :=
  | Seq (s : srv) (h : list sop)
  | Conc (s : srv) (pre : bool) (ops : list (list bool))     (* true = start, false = stop *)
  | Xfer (e : env).

Inductive obs :=
  | OSeq (o : list (list nat))
  | OConc (raised deadlock : nat) (finals : list nat)
  | OXfer (o : list nat).

(* ---------- exploration instances ---------- *)
Definition bn (b : bool) : nat := if b then 1 else 0.
Definition lkcode (l : lk) : nat := match l with LFree => 0 | LCaller => 1 | LMain => 2 end.
Definition cpccode (p : cpc) : nat :=
  match p with Idle => 0 | St_chkF => 12 | St_chkT => 13 | St_spawnT => 14 | St_chk => 1 | St_spawn => 2 | St_setrun => 3 | St_rel => 4 | Sp_chk => 5
  | Sp_rel1 => 6 | Sp_join => 7 | Sp_clear => 8 | Sp_acq2 => 9 | Sp_reset => 10 | Sp_rel2 => 11 end.
Definition mpccode (m : mpc) : nat :=
  match m with MNone => 0 | M_acq => 1 | M_chk => 2 | M_recv => 3 | M_close => 4 | MEnded => 5 end.
Definition skcode (s : sk) : nat := match s with SNone => 0 | SOpen => 1 | SClosed => 2 end.
Definition tgcode (g : glob) : nat :=
  bn (running g) + 2 * (bn (shreq g) + 2 * (lkcode (lock g) + 3 * (bn (mref g) + 2 * (mpccode (mt g) + 6 * (skcode (sock g) + 3 * bn (err g)))))).
Definition opcode (o : op) : nat := match o with Start => 1 | Stop => 0 | StartF => 2 | StartT => 3 end.

Definition hpccode (p : hpc) : nat :=
  match p with HIdle => 0 | H_chkF => 12 | H_chkT => 13 | H_spawnT => 14 | H_chk => 1 | H_spawn => 2 | H_setrun => 3 | H_rel => 4 | P_chk => 5
  | P_wait => 6 | P_close => 7 | P_join => 8 | P_clear => 9 | P_reset => 10 | P_rel => 11 end.
Definition hmpccode (m : hmpc) : nat :=
  match m with HMNone => 0 | HM_clear => 1 | HM_loop => 2 | HM_fin => 3 | HM_ret => 4 | HMEnded => 5 end.
Definition hskcode (s : hsk) : nat := match s with HSNone => 0 | HSOpen => 1 | HSClosed => 2 end.
Definition hgcode (g : hglob) : nat :=
  bn (hrunning g) + 2 * (lkcode (hlock g) + 3 * (bn (hmref g) + 2 * (hmpccode (hmt g) + 6 * (hskcode (hsock g) + 3 *
  (bn (sreq g) + 2 * (bn (isdown g) + 2 * bn (herr g))))))).
Definition hopcode (o : hop) : nat := match o with HStart => 1 | HStop => 0 | HStartF => 2 | HStartT => 3 end.

Definition explore_fuel : nat := 60 * 60 * 60.

(* globals after an optional solo start() *)
Definition tpre (pre : bool) : glob :=
  if pre then match call glob cpc op lock (cstep cur) (mstep cur) is_idle Idle init Start with Some g => g | None => init end
  else init.
Definition hpre (pre : bool) : hglob :=
  if pre then match call hglob hpc hop hlock (hcstep true true) hmstep his_idle HIdle hinit HStart with Some g => g | None => hinit end
  else hinit.

Definition tpool0 (pre : bool) (ops : list (list bool)) : st glob cpc op :=
  {| g := tpre pre; owner := 0;
     callers := map (fun l => {| pc := Idle; todo := map (fun b : bool => if b then Start else Stop) l |}) ops |}.
Definition hpool0 (pre : bool) (ops : list (list bool)) : st hglob hpc hop :=
  {| g := hpre pre; owner := 0;
     callers := map (fun l => {| pc := HIdle; todo := map (fun b : bool => if b then HStart else HStop) l |}) ops |}.

Definition texplore (fuel : nat) (pre : bool) (ops : list (list bool)) :=
  explore glob cpc op lock (cstep cur) (mstep cur) tgcode cpccode opcode fuel [tpool0 pre ops] [].
Definition hexplore (fuel : nat) (pre : bool) (ops : list (list bool)) :=
  explore hglob hpc hop hlock (hcstep true true) hmstep hgcode hpccode hopcode fuel [hpool0 pre ops] [].

Definition tfinal (gl : glob) : nat := if Running gl then 1 else if Stopped gl then 0 else 2.
Definition hfinal (gl : hglob) : nat := if HRunning gl then 1 else if HStopped gl then 0 else 2.

Definition tconc_obs (fuel : nat) (pre : bool) (ops : list (list bool)) : obs :=
  let '(r, d, f) := conc_obs glob cpc op lock (cstep cur) (mstep cur) is_idle tgcode cpccode opcode err tfinal
                      fuel (tpool0 pre ops) in OConc r d f.
Definition hconc_obs (fuel : nat) (pre : bool) (ops : list (list bool)) : obs :=
  let '(r, d, f) := conc_obs hglob hpc hop hlock (hcstep true true) hmstep his_idle hgcode hpccode hopcode herr hfinal
                      fuel (hpool0 pre ops) in OConc r d f.

Definition xfer_obs (e : env) : obs :=
  let t := run_transfer e in
  OXfer [count_act (is_close RSock) t; count_act (is_close RFile) t;
         bn (ends_with_thread_end t); count_act is_logexc t; count_act is_uncaught t].

(* the exploration budget is a parameter so that proofs never compute with it *)
Definition run_model_f (fuel : nat) (c : case) : obs :=
  match c with
  | Seq Tftp h => OSeq (tseq cur init h)
  | Seq Http h => OSeq (hseq true true hinit h)
  | Conc Tftp pre ops => tconc_obs fuel pre ops
  | Conc Http pre ops => hconc_obs fuel pre ops
  | Xfer e => xfer_obs e
  end.
Definition run_model : case -> obs := run_model_f explore_fuel.

(* ---------- the checker ---------- *)
Local Open Scope string_scope.

Definition nth0 (l : list nat) (i : nat) : nat := nth i l 99.

(* clauses violated by the observation [ob] of operation [o] when the specification says [sp] *)
Definition seq_clauses (o : sop) (ob sp : list nat) : list string :=
  (if Nat.eqb (nth0 ob 0) 0 && Nat.eqb (nth0 ob 4) 0 then [] else ["no_call_raises_or_hangs"]) ++
  (if Nat.eqb (nth0 ob 1) (nth0 sp 1) && Nat.eqb (nth0 ob 2) (nth0 sp 2) then []
   else match o with
        | SStop | SStopBusy | SStopOpenConn => ["stop_releases"]
        | SStart => ["start_brings_up"]
        | SStartFail | SStartThreadFail => ["failed_start_leaves_state"]
        | _ => ["state_stable_between_calls"]
        end) ++
  (if Nat.eqb (nth0 ob 3) (nth0 sp 3) then []
   else match o with
        | SStopBusy => ["stop_waits_for_main_thread"]
        | SStartFail | SStartThreadFail => ["start_raises_iff_it_fails"]
        | _ => ["requests_served_iff_running"]
        end).

Fixpoint seq_holds (h : list sop) (obl spl : list (list nat)) : list string :=
  match h, obl, spl with
  | [], [], _ => []
  | o :: h', ob :: obl', sp :: spl' =>
      match seq_clauses o ob sp with
      | [] => seq_holds h' obl' spl'
      | l => l
      end
  | _, _, _ => ["history_complete"]
  end.

Definition holds (c : case) (o : obs) : list string :=
  match c, o with
  | Seq _ h, OSeq obl => seq_holds h obl (spec_run false h)
  | Conc _ _ _, OConc r d f =>
      (if Nat.eqb r 0 then [] else ["no_call_raises"]) ++
      (if Nat.eqb d 0 then [] else ["no_deadlock"]) ++
      (if forallb (fun x => Nat.leb x 1) f then []
       else ["running_or_stopped_when_all_returned"])
  | Xfer e, OXfer ob =>
      (if Nat.eqb (nth0 ob 0) (bn (sock_ok e)) then [] else ["transfer_closes_socket"]) ++
      (if Nat.eqb (nth0 ob 1) (bn (sock_ok e && match hres e with HFile => true | _ => false end)) then []
       else ["transfer_closes_file"]) ++
      (if Nat.eqb (nth0 ob 2) 1 then [] else ["transfer_thread_ends"]) ++
      (* no exception escapes the thread, except that one MAY escape where an environment fault propagates in
         the modelled code (a failing send of the final ERROR packet, a failing size computation, a failing
         close of the file).  The escape is permitted there, never demanded: C20 says nothing about it, and a
         version that catches the fault and ends the thread in an orderly way is at least as good *)
      (if Nat.leb (nth0 ob 4) (count_act is_uncaught (run_transfer e)) then [] else ["transfer_thread_ends_cleanly"])
  | _, _ => ["observation_shape"]
  end.

(* valid: the exploration of a concurrent case finished within its budget; transfers use both `with` blocks *)
Definition valid_f (fuel : nat) (c : case) : Prop :=
  match c with
  | Seq _ _ => True
  | Conc Tftp pre ops => snd (texplore fuel pre ops) = true
  | Conc Http pre ops => snd (hexplore fuel pre ops) = true
  | Xfer e => with_sock e = true /\ with_file e = true
  end.
Definition valid : case -> Prop := valid_f explore_fuel.

(* [valid] as a boolean (every part of it is decidable from the case): C20_validb_valid *)
Definition validb_f (fuel : nat) (c : case) : bool :=
  match c with
  | Seq _ _ => true
  | Conc Tftp pre ops => snd (texplore fuel pre ops)
  | Conc Http pre ops => snd (hexplore fuel pre ops)
  | Xfer e => with_sock e && with_file e
  end.
Definition validb : case -> bool := validb_f explore_fuel.

(* ---------- sx ---------- *)
Definition asSop (x : sx) : option sop :=
  match x with I 0%Z => Some SStart | I 1%Z => Some SStop | I 2%Z => Some SRequest | I 3%Z => Some STick | I 4%Z => Some SStopBusy | I 5%Z => Some SStartFail | I 6%Z => Some SStartThreadFail | I 7%Z => Some SStopOpenConn | _ => None end.
Definition asSrv (x : sx) : option srv := match x with I 0%Z => Some Tftp | I 1%Z => Some Http | _ => None end.
Definition asHres (x : sx) : option handler_res :=
  match x with I 0%Z => Some HFile | I 1%Z => Some HTftpError | I 2%Z => Some HException | _ => None end.
Definition asXend (x : sx) : option xfer_end :=
  match x with I 0%Z => Some XCompleted | I 1%Z => Some XTimeout | I 2%Z => Some XOverflow | I 3%Z => Some XClientError
  | I 4%Z => Some XInvalidPacket | I 5%Z => Some XAborted | I 6%Z => Some XInternal | _ => None end.

Definition decode (x : sx) : option (case * obs) :=
  match x with
  | L [I 0%Z; sv; h; io] =>
      obind (asSrv sv) (fun sv => obind (asListOf asSop h) (fun h =>
      obind (asListOf (asListOf asNat) io) (fun io => Some (Seq sv h, OSeq io))))
  | L [I 1%Z; sv; pre; ops; L [r; d; f]] =>
      obind (asSrv sv) (fun sv => obind (asBool pre) (fun pre => obind (asListOf (asListOf asBool) ops) (fun ops =>
      obind (asNat r) (fun r => obind (asNat d) (fun d => obind (asListOf asNat f) (fun f =>
      Some (Conc sv pre ops, OConc r d f)))))))
  | L [I 2%Z; so; hr; ts; xe; se; cf; io] =>
      obind (asBool so) (fun so => obind (asHres hr) (fun hr => obind (asBool ts) (fun ts =>
      obind (asXend xe) (fun xe => obind (asBool se) (fun se => obind (asBool cf) (fun cf =>
      obind (asListOf asNat io) (fun io =>
      Some (Xfer {| sock_ok := so; hres := hr; tsize_raises := ts; xend := xe; send_err_raises := se;
                    close_file_raises := cf; with_sock := true; with_file := true |}, OXfer io))))))))
  | _ => None
  end.

Definition sx_obs (o : obs) : sx :=
  match o with
  | OSeq l => L (map (fun r => L (map sxNat r)) l)
  | OConc r d f => L [sxNat r; sxNat d; L (map sxNat f)]
  | OXfer l => L (map sxNat l)
  end.

Definition entry (x : sx) : sx :=
  match decode x with
  | None => sxS "bad-case"
  | Some (c, io) =>
      let m := run_model c in
      L [ sx_obs m; L (map sxS (holds c m)); L (map sxS (holds c io)); L []; sxBool (validb c) ]
  end.
