(* C10 - First matching handler wins and sees the true request metadata (HTTP and TFTP).
   Property theorems; each is closed by a lemma from Dispatch/DispatchProofs.v. *)
From Coq Require Import String.
From Coq Require Import List NArith ZArith Bool Arith Lia.
From VF Require Import Base.Sx Dispatch.Dispatch Dispatch.DispatchProofs C10.Entry.
Import ListNotations.

(* With i the least index whose can (prepare uri) is true, the call log is
   Prepare 0, Can 0, ..., Prepare i, Can i, Handle i (args built from uri and prepare_i uri)
   and nothing else; if nobody accepts: every handler is asked once, no Handle, reply NotFound
   (TFTP: FILE_NOT_FOUND, HTTP: 404).  Handlers are arbitrary functions. *)
Theorem C10_first_match : forall (U C G R : Type) (mk : U -> C -> G) (hs : list (handler U C G R)) (u : U),
  match first_idx hs u with
  | Some i =>
      exists h, nth_error hs i = Some h /\ accepts h u = true /\
        (forall j h', (j < i)%nat -> nth_error hs j = Some h' -> accepts h' u = false) /\
        dispatch mk hs u =
          (probes_from 0 (firstn i hs) u ++ [Prepare i u; Can i u (prepare h u); Handle i (mk u (prepare h u))],
           Served i (handle h (mk u (prepare h u))))
  | None =>
      (forall h, In h hs -> accepts h u = false) /\
      dispatch mk hs u = (probes_from 0 hs u, NotFound) /\
      existsb is_handle (fst (dispatch mk hs u)) = false
  end.
Proof. exact first_match. Qed.
Print Assumptions C10_first_match.

Theorem C10_one_handle : forall (U C G R : Type) (mk : U -> C -> G) (hs : list (handler U C G R)) u i,
  first_idx hs u = Some i -> length (filter is_handle (fst (dispatch mk hs u))) = 1%nat.
Proof. exact one_handle. Qed.
Print Assumptions C10_one_handle.

(* The address handed to TFTP handlers: host from the last IPV6_PKTINFO message, port / flowinfo /
   scope id (the tail of the tuple) of the bound socket; without packet info the bound address. *)
Theorem C10_tftp_server_address : forall ntop pktinfo sockname anc,
  recover_dst ntop 1 pktinfo sockname anc =
    match (if pktinfo then last_match anc else None) with
    | Some c => FS (ntop (firstn 16 (cm_data c))) :: tl sockname
    | None => sockname
    end.
Proof. exact tftp_server_address. Qed.
Print Assumptions C10_tftp_server_address.

Theorem C10_tftp_server_address_tuple : forall ntop h p f s anc c,
  last_match anc = Some c ->
  recover_dst ntop 1 true [h; p; f; s] anc = [FS (ntop (firstn 16 (cm_data c))); p; f; s].
Proof. exact tftp_server_address4. Qed.
Print Assumptions C10_tftp_server_address_tuple.

(* The model has no textual "is this the wildcard address" test at all: for EVERY host the bound socket reports
   (every spelling of the wildcard - "::", "::0", "0::", "0:0:0:0:0:0:0:0" all bind the all-zero 128-bit address -
   or a specific address) the handler's server address is the arrival address of the packet-info message *)
Theorem C10_tftp_server_address_any_bind : forall ntop h1 h2 tail anc c,
  last_match anc = Some c ->
  recover_dst ntop 1 true (h1 :: tail) anc = FS (ntop (firstn 16 (cm_data c))) :: tail /\
  recover_dst ntop 1 true (h1 :: tail) anc = recover_dst ntop 1 true (h2 :: tail) anc.
Proof. exact tftp_server_address_any_bind. Qed.
Print Assumptions C10_tftp_server_address_any_bind.

(* every call of handle made for a TFTP request carries: the filename as decoded from the packet,
   the context its own prepare_context returned for that filename, the client address, the
   recovered server address; and it goes to the first accepting handler *)
Theorem C10_tftp_handle_args : forall (C R : Type) ntop k pktinfo sockname anc client
    (hs : list (handler bytes C (hargs C) R)) raw mail log rep,
  tftp_serve ntop k pktinfo sockname anc client hs raw mail = Dispatched log rep ->
  forall i g, In (Handle i g) log ->
    exists h, nth_error hs i = Some h /\ first_idx hs (ascii_ignore raw) = Some i /\
    g = {| a_uri := ascii_ignore raw; a_ctx := prepare h (ascii_ignore raw); a_client := client;
           a_server := recover_dst ntop k pktinfo sockname anc; a_method := []; a_headers := [] |}.
Proof. exact tftp_handle_args. Qed.
Print Assumptions C10_tftp_handle_args.

(* HttpRequestInfo: method, headers, raw uri, peer and local socket address are passed unchanged *)
Theorem C10_http_request_info : forall (C R : Type) cn (hs : list (handler bytes C (hargs C) R)) log rep,
  http_serve cn hs = Dispatched log rep ->
  forall i g, In (Handle i g) log ->
    exists h, nth_error hs i = Some h /\ first_idx hs (c_path cn) = Some i /\
    g = {| a_uri := c_path cn; a_ctx := prepare h (c_path cn); a_client := c_peer cn;
           a_server := c_local cn; a_method := c_method cn; a_headers := c_headers cn |}.
Proof. exact http_request_info. Qed.
Print Assumptions C10_http_request_info.

(* dispatching a sequence of requests: the k-th answer is the answer to the k-th request alone
   (structural in the model: the loop keeps no state; concurrency is carried by the correspondence) *)
Theorem C10_no_shared_state : forall (U C G R : Type) (mk : U -> C -> G) (hs : list (handler U C G R)) reqs k,
  nth_error (serve_all mk hs reqs) k = option_map (dispatch mk hs) (nth_error reqs k).
Proof. exact no_shared_state. Qed.
Print Assumptions C10_no_shared_state.

(* ---- the executable checker accepts the model ---- *)
Lemma bytes_eqb_refl a : bytes_eqb a a = true.
Proof. unfold bytes_eqb. destruct (list_eq_dec N.eq_dec a a); congruence. Qed.
Lemma all2_refl {A} (f : A -> A -> bool) : (forall a, f a a = true) -> forall l, all2 f l l = true.
Proof. intros Hf. induction l as [|a l IH]; cbn; [reflexivity|]. now rewrite Hf, IH. Qed.
Lemma field_eqb_refl a : field_eqb a a = true.
Proof. destruct a; cbn; [apply bytes_eqb_refl|apply Z.eqb_refl]. Qed.
Lemma addr_eqb_refl a : addr_eqb a a = true.
Proof. apply all2_refl, field_eqb_refl. Qed.
Lemma pair_eqb_refl (a : bytes * bytes) : bytes_eqb (fst a) (fst a) && bytes_eqb (snd a) (snd a) = true.
Proof. now rewrite !bytes_eqb_refl. Qed.
Lemma hdrs_eqb_refl a : hdrs_eqb a a = true.
Proof. apply all2_refl. exact pair_eqb_refl. Qed.
Lemma rep_eqb_refl r : rep_eqb r r = true /\ rep_shape_eqb r r = true.
Proof. destruct r; cbn; rewrite ?Nat.eqb_refl, ?bytes_eqb_refl; auto. Qed.
Lemma ival_eqb_refl v : ival_eqb v v = true.
Proof. destruct v; cbn; [apply addr_eqb_refl|apply bytes_eqb_refl|apply hdrs_eqb_refl]. Qed.

Lemma holds_spec c : holds c (spec_obs c) = [].
Proof.
  unfold holds. set (s := spec_obs c).
  rewrite (all2_refl shape_eqb) by (intros [i u|i u x|i g]; cbn; apply Nat.eqb_refl).
  rewrite (all2_refl uri_eqb) by (intros e; apply bytes_eqb_refl).
  rewrite (all2_refl evctx_eqb) by (intros [i u|i u x|i g]; cbn; auto; apply pair_eqb_refl).
  rewrite (all2_refl (on_handle _)) by (intros [i u|i u x|i g]; cbn; auto; apply addr_eqb_refl).
  rewrite (all2_refl (on_handle (fun g g' => addr_eqb (a_server g) (a_server g'))))
    by (intros [i u|i u x|i g]; cbn; auto; apply addr_eqb_refl).
  rewrite (all2_refl (on_handle (fun g g' => bytes_eqb (a_method g) (a_method g') && hdrs_eqb (a_headers g) (a_headers g'))))
    by (intros [i u|i u x|i g]; cbn; auto; now rewrite bytes_eqb_refl, hdrs_eqb_refl).
  rewrite (proj1 (rep_eqb_refl _)).
  unfold info_eqb. rewrite all2_refl by (intros [k v]; cbn; now rewrite bytes_eqb_refl, ival_eqb_refl).
  reflexivity.
Qed.

Lemma model_is_spec c : valid c -> run_model c = spec_obs c.
Proof.
  destruct c as [p old pk sn anc nt cl lo m hd name mail hs]. unfold valid. cbn [c_old]. intros ->.
  unfold run_model, spec_obs, serve, spec_rejected, spec_name, spec_mk, spec_server.
  cbn [c_proto c_old c_pktinfo c_sockname c_anc c_ntop c_client c_conn_local c_meth c_hdrs c_name c_mail c_handlers].
  destruct p; unfold tftp_serve, http_serve; cbn [c_path c_peer c_local c_method c_headers].
  - destruct mail; [reflexivity|]. rewrite dispatch_is_spec, tftp_server_address.
    destruct (spec_dispatch _ _ _); reflexivity.
  - destruct (bad_path name); [reflexivity|]. rewrite dispatch_is_spec.
    destruct (spec_dispatch _ _ _); reflexivity.
  - destruct mail; [reflexivity|]. rewrite dispatch_is_spec, tftp_server_address.
    destruct (spec_dispatch _ _ _); reflexivity.
  - destruct (bad_path name); [reflexivity|]. rewrite dispatch_is_spec.
    destruct (spec_dispatch _ _ _); reflexivity.
Qed.

Theorem C10_holds : forall c, valid c -> holds c (run_model c) = [].
Proof. intros c Hv. rewrite (model_is_spec c Hv). apply holds_spec. Qed.
Print Assumptions C10_holds.

Lemma C10_validb_valid c : validb c = true -> valid c.
Proof. unfold validb, valid. intros H. now apply negb_true_iff in H. Qed.
Theorem C10_covered_cases : forall c, validb c = true -> holds c (run_model c) = [].
Proof. intros c H. apply C10_holds. now apply C10_validb_valid. Qed.
Print Assumptions C10_covered_cases.

(* ---- the behaviour before fix 8c5a0ab (D6): the port is dropped from the server address ---- *)
Definition LO6 : bytes := [58; 58; 49]%N.                        (* "::1" *)
Definition ANY6 : bytes := [58; 58]%N.                           (* "::"  *)
Definition LO6_RAW : bytes := [0;0;0;0;0;0;0;0;0;0;0;0;0;0;0;1]%N.
Definition case_d6 (old : bool) : case :=
  {| c_proto := TFTP; c_old := old; c_pktinfo := true;
     c_sockname := [FS ANY6; FI 69; FI 0; FI 0];
     c_anc := [{| cm_match := true; cm_data := LO6_RAW ++ [1; 0; 0; 0]%N |}];
     c_ntop := [(LO6_RAW, LO6)];
     c_client := [FS LO6; FI 5555; FI 0; FI 0]; c_conn_local := [];
     c_meth := []; c_hdrs := []; c_name := [97; 255; 98]%N; c_mail := false;
     c_handlers := [{| h_tag := [48]%N; h_accept := false; h_reply := [48]%N |};
                    {| h_tag := [49]%N; h_accept := true; h_reply := [49]%N |};
                    {| h_tag := [50]%N; h_accept := true; h_reply := [50]%N |}] |}.

Theorem C10_refuted_old_destination :
  holds (case_d6 true) (run_model (case_d6 true)) = ["server_address"%string] /\
  exists i g, In (Handle i g) (o_log (run_model (case_d6 true))) /\ a_server g = [FS LO6; FI 0; FI 0].
Proof.
  split; [vm_compute; reflexivity|].
  exists 1%nat, {| a_uri := [97; 98]%N; a_ctx := ([49]%N, [97; 98]%N); a_client := [FS LO6; FI 5555; FI 0; FI 0];
               a_server := [FS LO6; FI 0; FI 0]; a_method := []; a_headers := [] |}.
  split; [vm_compute; auto 10|reflexivity].
Qed.

(* non-vacuity: the same request under the current code: handler 1 (not 2) is called once with
   ('::1', 69, 0, 0), the non-ASCII byte of the filename is dropped by the packet decoder *)
Example C10_nonvacuous :
  valid (case_d6 false) /\
  run_model (case_d6 false) =
    {| o_log := [Prepare 0%nat [97; 98]%N; Can 0%nat [97; 98]%N ([48]%N, [97; 98]%N);
                 Prepare 1%nat [97; 98]%N; Can 1%nat [97; 98]%N ([49]%N, [97; 98]%N);
                 Handle 1%nat {| a_uri := [97; 98]%N; a_ctx := ([49]%N, [97; 98]%N);
                             a_client := [FS LO6; FI 5555; FI 0; FI 0];
                             a_server := [FS LO6; FI 69; FI 0; FI 0]; a_method := []; a_headers := [] |}];
       o_rep := OServed 1%nat [49]%N; o_info := [] |}.
Proof. split; [reflexivity | vm_compute; reflexivity]. Qed.
