(* Generic line driver: appended after `open <Model>`; the model exports
   main : n list -> n list (text in, text out; characters as binary naturals). *)
let rec pos_of_int (i : int) : positive =
  if i = 1 then XH
  else if i land 1 = 1 then XI (pos_of_int (i lsr 1)) else XO (pos_of_int (i lsr 1))
let n_of_int (i : int) : n = if i = 0 then N0 else Npos (pos_of_int i)
let rec int_of_pos (p : positive) : int =
  match p with XH -> 1 | XO q -> 2 * int_of_pos q | XI q -> 2 * int_of_pos q + 1
let int_of_n (x : n) : int = match x with N0 -> 0 | Npos p -> int_of_pos p
let table = Stdlib.Array.init 256 n_of_int
let () =
  let buf = Stdlib.Buffer.create 65536 in
  (try
    while true do
      let line = Stdlib.input_line Stdlib.stdin in
      let len = Stdlib.String.length line in
      let rec build i acc = if i < 0 then acc else build (i - 1) (table.(Stdlib.Char.code line.[i]) :: acc) in
      let out = main (build (len - 1) []) in
      Stdlib.Buffer.clear buf;
      Stdlib.List.iter (fun c -> Stdlib.Buffer.add_char buf (Stdlib.Char.chr (int_of_n c))) out;
      Stdlib.Buffer.add_char buf '\n';
      Stdlib.Buffer.output_buffer Stdlib.stdout buf
    done
  with Stdlib.End_of_file -> ());
  Stdlib.flush Stdlib.stdout
