(* Model of vinegar/utils/socket.py: _ip_address_in_subnet, _parse_ip_address,
   _parse_ip_address_split_ipv4_ipv6, contains_ip_address.  socket.inet_pton for AF_INET and
   AF_INET6 are oracles (Section variables).  Definitions only. *)
From Coq Require Import List NArith Bool.
From VF Require Import Addr.Text Addr.IPv6.
Import ListNotations.
Open Scope N_scope.

(* byte_mask = 256 - (1 << (8 - remaining_bits)) *)
Definition byte_mask (r : N) : N := 256 - N.shiftl 1 (8 - r).

(* _ip_address_in_subnet: whole bytes, then the masked partial byte *)
Definition in_subnet (a net : list N) (m : N) : bool :=
  let w := N.to_nat (m / 8) in
  if negb (str_eqb (firstn w a) (firstn w net)) then false
  else let r := m mod 8 in
       if r =? 0 then true
       else N.land (nth w a 0) (byte_mask r) =? N.land (nth w net 0) (byte_mask r).

Inductive fam := F4 | F6.

Definition mask_text_ok (g : str) : bool := negb (str_eqb g []) && forallb is_digit g.

(* the rsplit("/", 1) + [0-9]+ part: address text and mask digits *)
Definition split_mask (allow : bool) (s : str) : str * option str :=
  if allow && has SLASH s then
    match rcut SLASH s with
    | Some (a, g) => if mask_text_ok g then (a, Some g) else (s, None)
    | None => (s, None)
    end
  else (s, None).

(* entries of an address collection: a str, or any other Python object (int, None, list, dict,
   bytes ...), all of which make _parse_ip_address raise TypeError/AttributeError *)
Inductive entry := EStr (s : str) | EBad.
(* outcome of contains_ip_address *)
Inductive cres := CTrue | CFalse | CValueError | CTypeError.

Section Oracles.
  Variable pton4 : str -> pres.
  Variable pton6 : str -> pres.

  (* _parse_ip_address; None = ValueError (also inet_pton's ValueError for NUL, and int()'s) *)
  Definition parse_ip (allow : bool) (s : str) : option (fam * list N * N) :=
    let (ip, g) := split_mask allow s in
    match (match g with None => Some None | Some g => option_map Some (py_int_digits g) end) with
    | None => None
    | Some mk =>
        match pton4 ip with
        | PBytes b => match mk with
                      | None => Some (F4, b, 32)
                      | Some m => if 32 <? m then None else Some (F4, b, m)
                      end
        | PValueError => None
        | POSError =>
            match pton6 ip with
            | PBytes b => match mk with
                          | None => Some (F6, b, 128)
                          | Some m => if 128 <? m then None else Some (F6, b, m)
                          end
            | _ => None
            end
        end
    end.

  (* _parse_ip_address_split_ipv4_ipv6: (bytes as IPv4 if any, bytes as IPv6) *)
  Definition split46 (s : str) : option (option (list N) * list N) :=
    match parse_ip false s with
    | None => None
    | Some (F4, b, _) => Some (Some b, MAPPED_PREFIX ++ b)
    | Some (F6, b, _) => if is_mapped b then Some (Some (skipn 12 b), b) else Some (None, b)
    end.

  Fixpoint scan (raise_error : bool) (v4 : option (list N)) (v6 : list N) (l : list entry) : cres :=
    match l with
    | [] => CFalse
    | EBad :: _ => CTypeError
    | EStr s :: r =>
        match parse_ip true s with
        | None => if raise_error then CValueError else scan raise_error v4 v6 r
        | Some (F4, nb, m) =>
            match v4 with
            | Some a => if in_subnet a nb m then CTrue else scan raise_error v4 v6 r
            | None => scan raise_error v4 v6 r
            end
        | Some (F6, nb, m) => if in_subnet v6 nb m then CTrue else scan raise_error v4 v6 r
        end
    end.

  Definition contains (raise_error : bool) (set : list entry) (addr : str) : cres :=
    match split46 addr with
    | None => if raise_error then CValueError else CFalse
    | Some (v4, v6) => scan raise_error v4 v6 set
    end.

  (* ---- specification: everything embedded in 128 bits ---- *)
  Definition embed_client (addr : str) : option N :=
    match parse_ip false addr with
    | Some (F4, b, _) => Some (to_N (MAPPED_PREFIX ++ b))
    | Some (F6, b, _) => Some (to_N b)
    | None => None
    end.
  (* network value and prefix length on 128 bits; None = malformed entry / mask out of range *)
  Definition embed_net (e : entry) : option (N * N) :=
    match e with
    | EBad => None
    | EStr s =>
        match parse_ip true s with
        | Some (F4, nb, m) => Some (to_N (MAPPED_PREFIX ++ nb), 96 + m)
        | Some (F6, nb, m) => Some (to_N nb, m)
        | None => None
        end
    end.
  Definition in_net (x : N) (net : N * N) : bool :=
    x / 2 ^ (128 - snd net) =? fst net / 2 ^ (128 - snd net).
  Definition member (set : list entry) (addr : str) : bool :=
    match embed_client addr with
    | None => false
    | Some x => existsb (fun e => match embed_net e with Some n => in_net x n | None => false end) set
    end.
End Oracles.
