(* C07 - property theorems (being filled in) *)
From Coq Require Import String.
From Coq Require Import List NArith ZArith Bool.
From VF Require Import Tftp.Codec Tftp.NegSpec Tftp.CodecProofs C07.Entry.
