(* C15 - SQLite state is one map; writes visible everywhere at once and survive a kill.
   PARTIAL proof: every statement of the autocommit connection is ASSUMED atomic, durable and
   visible to other connections/processes (SQLite/OS behaviour; exercised by the second reader
   process and the SIGKILL runs of the harness, not proved).  What is proved is that, given atomic
   statements, the code's operations through any number of handles are operations on one finite map.
   Property theorems only; each is closed by a lemma from Sqlite/Proofs.v. *)
From Coq Require Import String.
From Coq Require Import List NArith ZArith Bool Arith Sorted.
From VF Require Import Base.Sx Sqlite.Model Sqlite.Proofs C15.Entry C15.EntryProofs.
Import ListNotations.
Open Scope N_scope.

(* ---- store_refines_map: the table is a finite map (system, key) -> JSON text ---- *)
Theorem C15_map_laws : forall m k k' s s' x t,
  tlookup k (tset k t m) = Some t /\
  (tkey_eqb k' k = false -> tlookup k' (tset k t m) = tlookup k' m) /\
  tlookup k (tdel k m) = None /\
  (tkey_eqb k' k = false -> tlookup k' (tdel k m) = tlookup k' m) /\
  tlookup (s, x) (tdelall s m) = None /\
  (str_eqb s s' = false -> tlookup (s', x) (tdelall s m) = tlookup (s', x) m).
Proof.
  intros. repeat split; auto using tlookup_tset_same, tlookup_tset_other, tlookup_tdel_same, tlookup_tdel_other,
    tlookup_tdelall_same, tlookup_tdelall_other.
Qed.
Print Assumptions C15_map_laws.

(* any step sequence through any stores / sources / handlers: the table is the fold of the mutating
   statements the steps stand for (which do not depend on the table), keys stay unique, and the n-th
   snapshot / result are those of the map after n+1 / n steps *)
Theorem C15_store_refines_map : forall O H steps,
  final O H steps false [] = fold_left apply_omop (effects O H steps false) [] /\
  wf (final O H steps false []) /\
  (forall n res d, nth_error (run O H steps false []) n = Some (res, d) ->
     d = dump (final O H (firstn (S n) steps) false []) /\
     res = view (nth n steps (SStore 0 OList))
                (snd (fst (do_step_l O H (nth n steps (SStore 0 OList)) (lock_after (firstn n steps) false)
                                     (final O H (firstn n steps) false []))))).
Proof.
  intros O H steps. split; [apply final_is_fold|]. split; [apply wf_final, wf_nil|]. intros n res d. apply run_snapshots.
Qed.
Print Assumptions C15_store_refines_map.

(* fault "database locked by another connection": a step that would issue a mutating statement reports
   OperationalError and leaves the table unchanged; everything decided before the statement and all reads are
   as without the lock; without the lock do_step_l is do_step *)
Theorem C15_locked_write_fails : forall O H st m, (forall b, st <> SLock b) ->
  match do_step O H st m with
  | (Some _, _) => do_step_l O H st true m = (None, RRaise EOperational, true)
  | (None, res) => do_step_l O H st true m = (None, res, true)
  end /\
  do_step_l O H st false m = (fst (do_step O H st m), snd (do_step O H st m), false).
Proof. intros O H st m Hn. split; [apply locked_step; exact Hn|apply unlocked_step; exact Hn]. Qed.
Print Assumptions C15_locked_write_fails.

(* the reading statements in terms of the map: exactly the matching entries, sorted *)
Theorem C15_reads_spec : forall m, wf m ->
  (forall s k t, In (k, t) (rows s m) <-> tlookup (s, k) m = Some t) /\
  (forall s, Sorted (fun a b => str_leb (fst a) (fst b) = true) (rows s m)) /\
  (forall k t x, In x (find_systems k t m) <-> tlookup (x, k) m = Some t) /\
  (forall k t, Sorted (fun a b => str_leb a b = true) (find_systems k t m)) /\
  (forall x, In x (list_systems m) <-> exists k t, In ((x, k), t) m) /\
  Sorted (fun a b => str_leb a b = true) (list_systems m) /\
  (forall e, In e (dump m) <-> In e m).
Proof.
  intros m Hw. repeat split; intros; try (apply rows_spec; assumption); try (apply find_systems_spec; assumption);
    try apply rows_sorted; try apply find_systems_sorted; try apply list_systems_sorted;
    try (apply list_systems_spec; assumption); try (apply dump_spec; assumption).
Qed.
Print Assumptions C15_reads_spec.

(* ---- strict_values_roundtrip ---- *)
Theorem C15_strict_values_roundtrip : forall v, wf_pv v -> check_value v = true -> json_image v = Some v.
Proof. exact strict_values_roundtrip. Qed.
Print Assumptions C15_strict_values_roundtrip.

(* Rejected shapes (tuple, non-dumpable object, dict with a non-str key) do not survive dumps/loads.
   PARTIAL: the converse is stated for the offending shape at top level only; a rejected value nested
   inside lists/dicts is covered by the correspondence clause strict_ok (check_value v = true iff
   json_image v = Some v, evaluated for every value of every case), not by a theorem. *)
Theorem C15_rejected_shapes_partial :
  (forall l, check_value (PTuple l) = false /\ json_image (PTuple l) <> Some (PTuple l)) /\
  (forall e, check_value (POther e) = false /\ json_image (POther e) = None) /\
  (forall l k v, In (k, v) l -> key_is_str k = false -> json_image (PDict l) <> Some (PDict l)).
Proof. split; [exact rejected_tuple|split; [exact rejected_other|exact rejected_nonstr_key]]. Qed.
Print Assumptions C15_rejected_shapes_partial.

(* ---- prefix_consistent ---- *)
Theorem C15_prefix_consistent : forall O c s m k,
  plookup (prefix_path c ++ [k]) (source_data O c s m) = option_map (o_loads O) (rlookup k (rows s m)).
Proof. exact prefix_get_consistent. Qed.
Print Assumptions C15_prefix_consistent.

Theorem C15_prefix_find : forall O c,
  (forall k v t m, find_enabled c = true ->
     source_step O c (QFind (if is_empty (prefix c) then k else prefix c ++ [58] ++ k) v (Some t)) m
     = ROpt (single (find_systems k t m))) /\
  (forall key v txt m, is_empty (prefix c) = false -> strip_prefix (prefix c ++ [58]) key = None ->
     source_step O c (QFind key v txt) m = ROpt None).
Proof. intros O c. split; [apply prefix_find_consistent|apply prefix_find_other]. Qed.
Print Assumptions C15_prefix_find.

(* ---- update_handler_exact ---- *)
Theorem C15_update_handler_exact : forall O c r,
  (forall s, context_system O c (uri r) = Some s -> str_eqb (meth r) POST = true ->
     (restricted c = false \/ allowed r = true) -> fst (handler_step O c r) = configured_op O c r s) /\
  (str_eqb (meth r) POST = false -> fst (handler_step O c r) = None) /\
  (restricted c = true -> allowed r = false -> fst (handler_step O c r) = None) /\
  (forall k,
     (act c = ASetJson k /\ (body_bytes O r = None \/ exists raw, body_bytes O r = Some raw /\ o_jsonbody O raw = None)) \/
     (act c = ASetText k /\ (body_bytes O r = None \/ exists raw, body_bytes O r = Some raw /\ o_textbody O raw = None)) ->
     fst (handler_step O c r) = None) /\
  (context_system O c (uri r) = None -> handler_step O c r = (None, RNoMatch)).
Proof.
  intros O c r. split; [intros s; apply handler_post_exact|]. split; [apply handler_not_post|].
  split; [apply handler_denied|]. split; [intros k; apply handler_undecodable|apply handler_no_match].
Qed.
Print Assumptions C15_update_handler_exact.

(* ---- crash_prefix (atomic statements assumed): whatever the interleaving of executed statements,
   acknowledgements and the kill, the table is the fold of a prefix of the issued operations that
   contains every acknowledged one and at most one more (old-or-new for the interrupted one) ---- *)
Theorem C15_crash_prefix : forall ops tr w, wrun ops winit tr = Some w ->
  w_tbl w = fold_left apply_mop (firstn (w_done w) ops) [] /\
  (w_acked w <= w_done w <= S (w_acked w))%nat /\ (w_done w <= length ops)%nat.
Proof. intros ops tr w H. exact (crash_prefix ops tr winit w (winv_init ops) H). Qed.
Print Assumptions C15_crash_prefix.

(* the executable checkers accept the model *)
Theorem C15_holds : forall c, valid c -> holds c (run_model c) = [].
Proof. exact holds_model. Qed.
Print Assumptions C15_holds.

Theorem C15_holds_crash : forall ops tr w, wrun ops winit tr = Some w ->
  holds_crash ops (w_acked w) (dump (w_tbl w)) = [].
Proof. exact holds_crash_model. Qed.
Print Assumptions C15_holds_crash.

(* the hypotheses of the two checker theorems as booleans computed for every evaluated case / kill run
   (5th item of the driver's answer) *)
Theorem C15_validb_valid : forall c, validb c = true -> valid c.
Proof. exact validb_valid. Qed.
Print Assumptions C15_validb_valid.

Theorem C15_covered_cases : forall c, validb c = true -> holds c (run_model c) = [].
Proof. intros c H. apply holds_model, validb_valid, H. Qed.
Print Assumptions C15_covered_cases.

Theorem C15_covered_kill_runs : forall ops a, validb_crash ops a = true ->
  (exists tr w, wrun ops winit tr = Some w /\ w_acked w = a /\ w_done w = a) /\
  holds_crash ops a (dump (fold_left apply_mop (firstn a ops) [])) = [].
Proof.
  intros ops a H. split; [apply wrun_acks; now apply Nat.leb_le|now apply covered_crash].
Qed.
Print Assumptions C15_covered_kill_runs.

(* non-vacuity *)
Example C15_nonvacuous_roundtrip :
  let v := PDict [(KStr [97], PList [PInt 1; PFloat [49]; PNone]); (KStr [], PDict [])] in
  wf_pv v /\ check_value v = true /\ json_image (PDict [(KInt 1, PTuple [PBool true])]) = Some (PDict [(KStr [49], PList [PBool true])]).
Proof. cbn. repeat split; try constructor; try (intros [H|[]]; discriminate H); auto. constructor; [intros []|constructor]. Qed.
Example C15_nonvacuous_crash :
  exists w, wrun [MSet [97] [107] [49]; MDel [97] [107]; MSet [98] [] [50]] winit [WExec; WAck; WExec] = Some w
            /\ w_acked w = 1%nat /\ w_tbl w = [].
Proof. eexists. split; [vm_compute; reflexivity|split; reflexivity]. Qed.
