(* Facts about the four instances: the locked programs are single critical sections (so the generic
   lock_linearizable applies), a small specification of the LRU model, what a TextFileSource call
   returns when the file changes between its stat and its read, and the YAML cache-validity invariant
   over all interleavings. *)
From Coq Require Import List Arith Bool Lia.
From VF Require Import Conc.Machine Conc.Lin Conc.MachineProofs Conc.LinProofs Conc.Instances.
Import ListNotations.

Lemma r_eqb_refl r : r_eqb r r = true.
Proof. induction r; cbn; auto. rewrite Nat.eqb_refl. auto. Qed.

(* ---------- discipline ---------- *)
Lemma cache_prog_cs c : cache_prog true c = cs_prog lru unit (ccall * R) (cache_body c).
Proof. reflexivity. Qed.

Lemma store_prog_cs c : store_prog c = cs_prog store unit (scall * R) (store_body c).
Proof. reflexivity. Qed.

Lemma text_prog_cs contents bad ce c : text_prog contents bad ce true c = cs_prog tobj nat tls (text_body contents bad ce c).
Proof. reflexivity. Qed.

(* ---------- LRU: size bound and read-your-write ---------- *)
Lemma alookup_aremove_same k l : alookup k (aremove k l) = None.
Proof.
  induction l as [|[k' v] r IH]; cbn; auto.
  destruct (Nat.eqb k k') eqn:E; auto. cbn. rewrite E. exact IH.
Qed.

Lemma alookup_app k l1 l2 : alookup k (l1 ++ l2) = match alookup k l1 with Some v => Some v | None => alookup k l2 end.
Proof.
  induction l1 as [|[k' v] r IH]; cbn; auto. destruct (Nat.eqb k k'); auto.
Qed.

Lemma length_aremove k l : length (aremove k l) <= length l.
Proof. induction l as [|[k' v] r IH]; cbn; auto. destruct (Nat.eqb k k'); cbn; lia. Qed.

Lemma length_aremove_lt k l v : alookup k l = Some v -> length (aremove k l) < length l.
Proof.
  induction l as [|[k' v'] r IH]; cbn; [discriminate|].
  destruct (Nat.eqb k k'); cbn.
  - intros _. pose proof (length_aremove k r). lia.
  - intros H. specialize (IH H). lia.
Qed.

Lemma alookup_tl_none k (l : list (nat * nat)) : alookup k l = None -> alookup k (tl l) = None.
Proof. destruct l as [|[k' v] r]; cbn; auto. destruct (Nat.eqb k k'); [discriminate|auto]. Qed.

Theorem lru_read_your_write c k v : 1 <= cap c -> alookup k (items (lru_set c k v)) = Some v.
Proof.
  intros Hc. unfold lru_set. cbn [items].
  set (base := aremove k (items c)).
  assert (Hn : alookup k base = None) by apply alookup_aremove_same.
  destruct (Nat.ltb (cap c) (length (base ++ [(k, v)]))) eqn:E.
  - apply Nat.ltb_lt in E. rewrite app_length in E. cbn in E.
    destruct base as [|p base']; cbn in E; [lia|]. cbn [app tl].
    pose proof (alookup_tl_none k (p :: base') Hn) as Ht. cbn [tl] in Ht.
    rewrite alookup_app, Ht. cbn. rewrite Nat.eqb_refl. reflexivity.
  - rewrite alookup_app, Hn. cbn. rewrite Nat.eqb_refl. reflexivity.
Qed.

Theorem lru_size_bounded call c : 1 <= cap c -> length (items c) <= cap c ->
  cap (fst (lru_exec call c)) = cap c /\ length (items (fst (lru_exec call c))) <= cap c.
Proof.
  intros Hc Hl. destruct call as [k|k v|k|k| | |k|k v]; cbn.
  - unfold lru_get. destruct (alookup k (items c)) eqn:E; cbn; [|auto]. split; auto.
    rewrite app_length. cbn. pose proof (length_aremove_lt _ _ _ E). lia.
  - split; auto. set (it := aremove k (items c) ++ [(k, v)]).
    assert (Hlen : length it <= S (cap c)).
    { unfold it. rewrite app_length. cbn. pose proof (length_aremove k (items c)). lia. }
    clearbody it. destruct it as [|p it']; cbn in *; [lia|].
    destruct (Nat.leb (cap c) (length it')) eqn:E; cbn.
    + apply Nat.leb_le in E. lia.
    + apply Nat.leb_gt in E. lia.
  - auto.
  - destruct (alookup k (items c)); cbn; auto. split; auto. pose proof (length_aremove k (items c)). lia.
  - auto.
  - split; auto. lia.
  - auto.
  - split; auto. unfold lru_set_nomark. cbn [items cap].
    set (it := match alookup k (items c) with
               | Some _ => map (fun p => if Nat.eqb (fst p) k then (k, v) else p) (items c)
               | None => items c ++ [(k, v)] end).
    assert (Hlen : length it <= S (cap c)).
    { unfold it. destruct (alookup k (items c)); [rewrite map_length; lia | rewrite app_length; cbn; lia]. }
    clearbody it. destruct it as [|p it']; cbn in *; [lia|].
    destruct (Nat.leb (cap c) (length it')) eqn:E; cbn.
    + apply Nat.leb_le in E. lia.
    + apply Nat.leb_gt in E. lia.
Qed.

(* storing a new value for a key that is already cached evicts nothing and touches no other key *)
Lemma alookup_aremove_other k k' l : k' <> k -> alookup k' (aremove k l) = alookup k' l.
Proof.
  intros Hne. induction l as [|[a b] r IH]; cbn; auto.
  destruct (Nat.eqb k a) eqn:E1.
  - apply Nat.eqb_eq in E1. subst a. destruct (Nat.eqb k' k) eqn:E2; [apply Nat.eqb_eq in E2; congruence|exact IH].
  - cbn. destruct (Nat.eqb k' a); auto.
Qed.

Lemma alookup_map_update k k' v l : k' <> k ->
  alookup k' (map (fun p => if Nat.eqb (fst p) k then (k, v) else p) l) = alookup k' l.
Proof.
  intros Hne. induction l as [|[a b] r IH]; cbn; auto.
  destruct (Nat.eqb a k) eqn:E1; cbn.
  - apply Nat.eqb_eq in E1. subst a. destruct (Nat.eqb k' k) eqn:E2; [apply Nat.eqb_eq in E2; congruence|exact IH].
  - destruct (Nat.eqb k' a); auto.
Qed.

Theorem lru_update_keeps_others c k v x : length (items c) <= cap c -> alookup k (items c) = Some x ->
  forall k', k' <> k ->
    alookup k' (items (lru_set c k v)) = alookup k' (items c) /\
    alookup k' (items (lru_set_nomark c k v)) = alookup k' (items c).
Proof.
  intros Hl Hk k' Hne. split.
  - unfold lru_set. cbn [items cap].
    assert (Hlen : Nat.ltb (cap c) (length (aremove k (items c) ++ [(k, v)])) = false).
    { apply Nat.ltb_ge. rewrite app_length. cbn. pose proof (length_aremove_lt _ _ _ Hk). lia. }
    rewrite Hlen, alookup_app, alookup_aremove_other by exact Hne.
    destruct (alookup k' (items c)); auto. cbn. destruct (Nat.eqb k' k) eqn:E; [apply Nat.eqb_eq in E; congruence|reflexivity].
  - unfold lru_set_nomark. cbn [items cap]. rewrite Hk.
    assert (Hlen : Nat.ltb (cap c) (length (map (fun p => if Nat.eqb (fst p) k then (k, v) else p) (items c))) = false).
    { apply Nat.ltb_ge. rewrite map_length. exact Hl. }
    rewrite Hlen. apply alookup_map_update. exact Hne.
Qed.

(* ---------- TextFileSource: one call, file possibly edited between stat and read ---------- *)
Section TextSpec.
  Variable contents : nat -> list (nat * nat).
  Variable bad : nat -> bool.

  (* what a call must answer when the file is in state w *)
  Definition text_spec (c : tcall) (w : nat) : R :=
    at_world c w (if bad w then [8] else text_answer c (contents w)).

  (* worlds are file IDENTITIES: an environment event switches the path to a file state, possibly back to an
     earlier one (a release symlink switched and rolled back) whose stat result -- hence version S w -- is
     the same as before.  The object remembers a version together with the parse of THAT file state
     (version 0 = "stat failed" says nothing) *)
  Definition t_inv (o : tobj) : Prop :=
    forall v, fver o = Some (S v) -> parsed o = contents v /\ bad v = false.

  (* a call during which the path does not change (stat and read see the same file state w) answers for w,
     whatever happened before -- failed reloads and switches back to an earlier state included -- and
     keeps the invariant *)
  Theorem text_call_spec ce c l o w l1 o1 l2 o2 :
    t_inv o -> tc l = c -> stat_faulted c = false ->
    t_stat ce l o w = (l1, o1) -> t_read contents bad ce l1 o1 w = (l2, o2) ->
    tres l2 = at_world c w (if bad w then [8] else text_answer c (contents w)) /\ t_inv o2.
  Proof.
    intros Hi Hc Hnf Hs Hr. unfold t_stat in Hs. rewrite <- Hc in Hnf. rewrite Hnf in Hs. injection Hs as <- <-.
    unfold t_read in Hr. cbn [statv tc] in Hr.
    assert (Hfresh : forall sv, (sv = None \/ sv = Some (S w)) ->
              (if bad w then
                 ({| tc := tc l; statv := sv; tres := at_world (tc l) w [8] |}, {| fver := None; parsed := [] |})
               else ({| tc := tc l; statv := sv;
                        tres := at_world (tc l) w (text_answer (tc l) (parsed {| fver := sv; parsed := contents w |})) |},
                     {| fver := sv; parsed := contents w |})) = (l2, o2) ->
              tres l2 = at_world c w (if bad w then [8] else text_answer c (contents w)) /\ t_inv o2).
    { intros sv Hsv H. destruct (bad w) eqn:Eb; injection H as <- <-; cbn [tres parsed fver]; rewrite Hc; split; auto.
      - intros v Hv. discriminate.
      - intros v Hv. cbn [fver] in Hv. destruct Hsv as [ -> | -> ]; [discriminate|]. injection Hv as <-. auto. }
    destruct ce; cbn [andb] in Hr.
    - destruct (opt_nat_eqb (Some (S w)) (fver o)) eqn:E.
      + injection Hr as <- <-. cbn [tres]. unfold opt_nat_eqb in E.
        destruct (fver o) as [v|] eqn:Ev; [|discriminate]. apply Nat.eqb_eq in E. subst v.
        destruct (Hi _ Ev) as (H3 & H4). rewrite Hc, H3, H4. split; [reflexivity|exact Hi].
      + apply (Hfresh (Some (S w))); auto.
    - apply (Hfresh None); auto.
  Qed.

  (* the path is switched between the call's stat (state w1) and its read (state w2 <> w1): the call re-reads
     and answers for the state it read *)
  Theorem text_call_edit_between ce c l o w1 w2 l1 o1 l2 o2 :
    tc l = c -> stat_faulted c = false -> fver o <> Some (S w1) ->
    t_stat ce l o w1 = (l1, o1) -> t_read contents bad ce l1 o1 w2 = (l2, o2) ->
    tres l2 = at_world c w2 (if bad w2 then [8] else text_answer c (contents w2)).
  Proof.
    intros Hc Hnf Hne Hs Hr. unfold t_stat in Hs. rewrite <- Hc in Hnf. rewrite Hnf in Hs. injection Hs as <- <-.
    unfold t_read in Hr. cbn [statv tc] in Hr.
    assert (E : opt_nat_eqb (Some (S w1)) (fver o) = false).
    { unfold opt_nat_eqb. destruct (fver o) as [v|]; auto. apply Nat.eqb_neq. intros Ev. apply Hne. congruence. }
    destruct ce; cbn [andb] in Hr.
    - rewrite E in Hr. destruct (bad w2); injection Hr as <- <-; cbn [tres parsed]; rewrite Hc; reflexivity.
    - destruct (bad w2); injection Hr as <- <-; cbn [tres parsed]; rewrite Hc; reflexivity.
  Qed.

  (* a call whose stat FAILS transiently (the file is readable) simply re-reads the file -- unless the
     previous reload was itself triggered by such a failure: every failure yields the same version string *)
  Theorem text_call_stat_fault c l o w1 w2 l1 o1 l2 o2 :
    tc l = c -> stat_faulted c = true -> fver o <> Some 0 ->
    t_stat true l o w1 = (l1, o1) -> t_read contents bad true l1 o1 w2 = (l2, o2) ->
    tres l2 = at_world c w2 (if bad w2 then [8] else text_answer c (contents w2)) /\ t_inv o2.
  Proof.
    intros Hc Hf Hne Hs Hr. unfold t_stat in Hs. rewrite <- Hc in Hf. rewrite Hf in Hs. injection Hs as <- <-.
    unfold t_read in Hr. cbn [statv tc andb] in Hr.
    assert (E : opt_nat_eqb (Some 0) (fver o) = false).
    { unfold opt_nat_eqb. destruct (fver o) as [[|v]|]; auto. congruence. }
    rewrite E in Hr.
    destruct (bad w2); injection Hr as <- <-; cbn [tres parsed fver]; rewrite Hc; split; auto; intros v Hv; discriminate.
  Qed.
End TextSpec.

(* ---------- YAML: cache validity over all interleavings ---------- *)
Lemma pairs_eqb_eq a : forall b, pairs_eqb a b = true -> a = b.
Proof.
  induction a as [|[x y] a IH]; intros [|[x' y'] b] H; cbn in H; try discriminate; auto.
  apply andb_prop in H. destruct H as [H H3]. apply andb_prop in H. destruct H as [H1 H2].
  apply Nat.eqb_eq in H1, H2. subst. f_equal. auto.
Qed.

Definition agree (rd : list (nat * nat)) : Prop :=
  forall f v v', In (f, v) rd -> In (f, v') rd -> v = v'.

Section YamlProofs.
  Variable table : nat -> nat -> ydata.
  Variable tree : list nat.
  Variable once : bool.
  Variable Wi : list nat -> Prop.       (* the file states of the run *)
  Notation yspec := (yspec table).
  Notation yprog := (yaml_prog table tree once).

  Definition item_valid (it : yitem) : Prop := yresult it = yspec (snap it).
  Definition cache_valid (o : option yitem) : Prop := forall it, o = Some it -> item_valid it.
  (* the version was the file's version in some state of the run *)
  Definition from_world (p : nat * nat) : Prop := exists w, Wi w /\ snd p = nth (fst p) w 0.

  Lemma yspec_snoc rd f v : yspec (rd ++ [(f, v)]) = ymerge (yspec rd) (table f v).
  Proof. unfold Instances.yspec. rewrite fold_left_app. reflexivity. Qed.

  Lemma alookup_in f v rd : alookup f rd = Some v -> In (f, v) rd.
  Proof.
    induction rd as [|[k x] r IH]; cbn; [discriminate|].
    destruct (Nat.eqb f k) eqn:E; [|auto]. apply Nat.eqb_eq in E. intros H. injection H as ->. subst. auto.
  Qed.

  Lemma alookup_none_notin f rd : alookup f rd = None -> forall v, ~ In (f, v) rd.
  Proof.
    induction rd as [|[k x] r IH]; cbn; [tauto|].
    destruct (Nat.eqb f k) eqn:E; [discriminate|]. apply Nat.eqb_neq in E.
    intros H v [Hv|Hv]; [congruence|]. eapply IH; eauto.
  Qed.

  (* the assertion attached to (local state, remaining program) *)
  Definition core (l : yls) : Prop :=
    cache_valid (old l) /\ out l = yspec (reads l) /\ (once = true -> agree (reads l)) /\ Forall from_world (reads l).
  Definition full (l : yls) : Prop := map fst (reads l) = tree.

  Definition tail3 : list (mstep (option yitem) (list nat) yls) := [Acq; Step (y_set table); Rel].
  Definition Qy (l : yls) (p : list (mstep (option yitem) (list nat) yls)) : Prop :=
    p = yprog tt
    \/ p = [Step y_get; Rel] ++ map (fun f => Step (y_read table once f)) tree ++ tail3
    \/ (core l /\ exists fs, p = Rel :: map (fun f => Step (y_read table once f)) fs ++ tail3 /\ map fst (reads l) ++ fs = tree)
    \/ (core l /\ exists fs, p = map (fun f => Step (y_read table once f)) fs ++ tail3 /\ map fst (reads l) ++ fs = tree)
    \/ (core l /\ full l /\ p = [Step (y_set table); Rel])
    \/ (core l /\ full l /\ p = [Rel])
    \/ (core l /\ full l /\ p = []).

  (* what every returned result is: get_data_spec of versions read in tree order, one version per file
     (fe12c42), each version being the file's version in some state of the run *)
  Definition Ry (r : R) : Prop :=
    exists rd, r = yans table rd /\ (once = true -> agree rd) /\ map fst rd = tree /\ Forall from_world rd.

  Lemma core_read l f w o : Wi w -> core l -> core (fst (y_read table once f l o w)).
  Proof.
    intros HW (Hv & Ho & Ha & Hf). unfold y_read.
    set (v := match (if once then alookup f (reads l) else None) with Some v0 => v0 | None => nth f w 0 end).
    unfold core. cbn [fst old reads out]. split; [exact Hv|]. split; [|split].
    - rewrite yspec_snoc, Ho. reflexivity.
    - intros Honce. specialize (Ha Honce).
      assert (Hnew : forall g x, In (g, x) (reads l ++ [(f, v)]) -> In (g, x) (reads l) \/ (g = f /\ x = v)).
      { intros g x H. apply in_app_or in H. destruct H as [H|[H|[]]]; [left; exact H|right].
        injection H as -> ->. split; reflexivity. }
      subst v. rewrite Honce in *.
      destruct (alookup f (reads l)) as [v0|] eqn:E.
      + apply alookup_in in E.
        intros g x x' H1 H2. destruct (Hnew _ _ H1) as [K1|[Eg1 Ex1]], (Hnew _ _ H2) as [K2|[Eg2 Ex2]]; subst.
        * eapply Ha; eauto.
        * eapply Ha; eauto.
        * eapply Ha; eauto.
        * reflexivity.
      + pose proof (alookup_none_notin _ _ E) as Hn.
        intros g x x' H1 H2. destruct (Hnew _ _ H1) as [K1|[Eg1 Ex1]], (Hnew _ _ H2) as [K2|[Eg2 Ex2]]; subst.
        * eapply Ha; eauto.
        * exfalso. eapply Hn; eauto.
        * exfalso. eapply Hn; eauto.
        * reflexivity.
    - apply Forall_app. split; [exact Hf|]. constructor; [|constructor].
      subst v. destruct (if once then alookup f (reads l) else None) as [v0|] eqn:E.
      + destruct once; [|discriminate]. apply alookup_in in E. rewrite Forall_forall in Hf.
        exact (Hf _ E).
      + exists w. split; [exact HW|reflexivity].
  Qed.

  Lemma reads_of_read l f w o : reads (fst (y_read table once f l o w)) =
    reads l ++ [(f, match (if once then alookup f (reads l) else None) with Some v0 => v0 | None => nth f w 0 end)].
  Proof. reflexivity. Qed.

  Ltac qy_cases H := destruct H as [H|[H|[(Hc & fs & H & Ht)|[(Hc & fs & H & Ht)|[(Hc & Hfl & H)|[(Hc & Hfl & H)|(Hc & Hfl & H)]]]]]].

  Lemma qy_begin c : Qy (yls_begin c) (yprog c).
  Proof. destruct c. left. reflexivity. Qed.

  Lemma qy_acq l rest : Qy l (Acq :: rest) -> Qy l rest.
  Proof.
    unfold Qy, Instances.yaml_prog, tail3. intros H. qy_cases H; try discriminate.
    - injection H; intros; subst. right. left. reflexivity.
    - destruct fs; cbn in H; [|discriminate]. injection H; intros; subst.
      right. right. right. right. left. split; [exact Hc|]. split; [|reflexivity].
      unfold full. rewrite app_nil_r in Ht. exact Ht.
  Qed.

  Lemma qy_rel l rest : Qy l (Rel :: rest) -> Qy l rest.
  Proof.
    unfold Qy, Instances.yaml_prog, tail3. intros H. qy_cases H; try discriminate.
    - injection H; intros; subst. right. right. right. left. split; auto. exists fs. split; [reflexivity|exact Ht].
    - destruct fs; cbn in H; discriminate.
    - injection H; intros; subst. right. right. right. right. right. right. auto.
  Qed.

  Lemma set_valid l : core l ->
    match old l with
    | Some it => if pairs_eqb (snap it) (reads l) then yresult it else out l
    | None => out l
    end = yspec (reads l).
  Proof.
    intros (Hv & Ho & Ha & _). destruct (old l) as [it|] eqn:Eo; auto.
    destruct (pairs_eqb (snap it) (reads l)) eqn:Ep; auto.
    apply pairs_eqb_eq in Ep. rewrite <- Ep. apply Hv. reflexivity.
  Qed.

  Lemma qy_step f l rest o w l' o' : cache_valid o -> Wi w -> Qy l (Step f :: rest) -> f l o w = (l', o') ->
    cache_valid o' /\ Qy l' rest.
  Proof.
    unfold Qy, Instances.yaml_prog, tail3. intros Hcv HW H Hf. qy_cases H; try discriminate.
    - injection H; intros; subst. unfold y_get in Hf. injection Hf as <- <-. split; [exact Hcv|].
      right. right. left. split.
      + repeat split; cbn; auto. intros _ g v v' [].
      + exists tree. split; reflexivity.
    - destruct fs as [|f0 fs]; cbn in H; [discriminate|]. injection H; intros; subst. split.
      + unfold y_read in Hf. injection Hf as <- <-. exact Hcv.
      + right. right. right. left. split.
        * pose proof (core_read l f0 w o HW Hc) as K. rewrite Hf in K. exact K.
        * exists fs. split; [reflexivity|].
          pose proof (reads_of_read l f0 w o) as K. rewrite Hf in K. cbn [fst] in K. rewrite K.
          rewrite map_app. cbn [map fst]. rewrite <- app_assoc. exact Ht.
    - injection H; intros; subst. unfold y_set in Hf. destruct (rd_bad table (reads l)) eqn:Eb.
      + (* the compile raised: nothing is stored *)
        injection Hf as <- <-. split; [exact Hcv|].
        right. right. right. right. right. left. split; [exact Hc|split; [exact Hfl|reflexivity]].
      + injection Hf as <- <-. pose proof (set_valid l Hc) as Es. split.
        * intros it Hit. injection Hit as <-. unfold item_valid. cbn [yresult snap]. exact Es.
        * right. right. right. right. right. left. split; [|split; [exact Hfl|reflexivity]].
          destruct Hc as (Hv & Ho & Ha & Hfw). repeat split; cbn [old reads out]; auto.
  Qed.

  Lemma qy_end l : Qy l [] -> Ry (yret table l).
  Proof.
    unfold Qy, Instances.yaml_prog, tail3. intros H. qy_cases H; try discriminate.
    - destruct fs; discriminate.
    - destruct Hc as (Hv & Ho & Ha & Hfw). exists (reads l). unfold yret, yans. rewrite Ho. repeat split; auto.
  Qed.
End YamlProofs.

Lemma worlds_of_fold a : forall w b, In (fold_left (fun w e => bump e w) a w) (worlds_of w (a ++ b)).
Proof.
  induction a as [|e a IH]; intros w b; cbn.
  - destruct b; cbn; auto.
  - right. apply IH.
Qed.

Lemma rd_is_snapshot w : forall rd tree, map fst rd = tree ->
  (forall f v, In (f, v) rd -> v = nth f w 0) -> rd = snapshot_of tree w.
Proof.
  induction rd as [|[f v] rd IH]; intros tree Hm Hv; subst tree; cbn; auto.
  f_equal.
  - f_equal. apply Hv. left. reflexivity.
  - apply IH; auto. intros g x Hin. apply Hv. right. exact Hin.
Qed.

(* a single change: versions read per file agree, all come from the world before or after the change
   => the snapshot is one of the two worlds *)
Lemma nth_bump_other g : forall w f, f <> g -> nth f (bump g w) 0 = nth f w 0.
Proof.
  induction g as [|g IH]; intros [|x w] [|f] H; cbn; auto; try congruence.
Qed.

Theorem one_change_consistent w0 g rd :
  agree rd ->
  (forall f v, In (f, v) rd -> v = nth f w0 0 \/ v = nth f (bump g w0) 0) ->
  (forall f v, In (f, v) rd -> v = nth f w0 0) \/ (forall f v, In (f, v) rd -> v = nth f (bump g w0) 0).
Proof.
  intros Ha Hs.
  destruct (existsb (fun p => Nat.eqb (fst p) g && negb (Nat.eqb (snd p) (nth g w0 0))) rd) eqn:E.
  - right. apply existsb_exists in E. destruct E as ([g' vg] & Hin & Hp). cbn in Hp.
    apply andb_prop in Hp. destruct Hp as [H1 H2]. apply Nat.eqb_eq in H1. subst g'.
    apply negb_true_iff in H2. apply Nat.eqb_neq in H2.
    assert (Hvg : vg = nth g (bump g w0) 0) by (destruct (Hs _ _ Hin); congruence).
    intros f v Hf. destruct (Nat.eq_dec f g) as [->|Hne].
    + rewrite (Ha _ _ _ Hf Hin). exact Hvg.
    + rewrite nth_bump_other by exact Hne. destruct (Hs _ _ Hf) as [H|H]; auto.
      rewrite nth_bump_other in H by exact Hne. exact H.
  - left. intros f v Hf. destruct (Nat.eq_dec f g) as [->|Hne].
    + destruct (Nat.eq_dec v (nth g w0 0)) as [|Hv]; auto. exfalso.
      assert (existsb (fun p => Nat.eqb (fst p) g && negb (Nat.eqb (snd p) (nth g w0 0))) rd = true); [|congruence].
      apply existsb_exists. exists (g, v). split; auto. cbn. rewrite Nat.eqb_refl. cbn.
      apply negb_true_iff. apply Nat.eqb_neq. exact Hv.
    + destruct (Hs _ _ Hf) as [H|H]; auto. rewrite nth_bump_other in H by exact Hne. exact H.
Qed.

(* ---------- yaml_concurrent ---------- *)
Section YamlTheorems.
  Variable table : nat -> nat -> ydata.
  Variable tree : list nat.
  Variable once : bool.
  Notation yrun := (run (option yitem) (list nat) yls unit R nat yls_begin (yaml_prog table tree once) (yret table) bump).
  Notation yinit w0 calls := (init (option yitem) (list nat) yls unit R (yls_begin tt) None w0 calls).
  Definition yenvs (sch : list (choice nat)) : list nat := envs_in nat sch.
  Definition in_run w0 (sch : list (choice nat)) (w : list nat) : Prop := In w (worlds_of w0 (yenvs sch)).

  (* any number of threads, any number of get_data calls each, any schedule, any file changes: every item
     ever stored in the cache is a correct result for the file versions its call read; every call returns
     get_data_spec of versions read in tree order, one version per file (fe12c42), each of them the file's
     version in some state of the run *)
  Theorem yaml_concurrent w0 calls sch :
    let s := yrun (yinit w0 calls) sch in
    cache_valid table (obj s) /\
    forall t, In t (threads s) -> Forall (Ry table tree once (in_run w0 sch)) (res t).
  Proof.
    intros s.
    assert (Hw : worlds_ok (option yitem) (list nat) yls unit R nat yls_begin (yaml_prog table tree once) (yret table) bump
                   (in_run w0 sch) (yinit w0 calls) sch).
    { intros p q E. rewrite (world_run (option yitem) (list nat) yls unit R nat). cbn [world init].
      unfold in_run, yenvs. rewrite E. unfold envs_in. rewrite flat_map_app. apply worlds_of_fold. }
    assert (Hck : Forall (Forall (fun _ : unit => True)) calls).
    { apply Forall_forall. intros l _. apply Forall_forall. auto. }
    pose proof (oinv_run (option yitem) (list nat) yls unit R nat yls_begin (yaml_prog table tree once) (yret table) bump
                  (cache_valid table) (in_run w0 sch) (Qy table tree once (in_run w0 sch)) (Ry table tree once (in_run w0 sch))
                  (fun _ => True) (fun c _ => qy_begin table tree once (in_run w0 sch) c) (qy_acq table tree once (in_run w0 sch))
                  (qy_rel table tree once (in_run w0 sch)) (qy_step table tree once (in_run w0 sch))
                  (qy_end table tree once (in_run w0 sch)) sch _
                  (oinv_init (option yitem) (list nat) yls unit R (cache_valid table) (Qy table tree once (in_run w0 sch))
                     (Ry table tree once (in_run w0 sch)) (fun _ => True) (yls_begin tt) None w0 calls
                     (fun it H => ltac:(discriminate)) Hck)
                  Hw) as [Ho Ht].
    split; [exact Ho|]. intros t Hin. destruct (Ht t Hin) as (_ & Hr & _). exact Hr.
  Qed.
End YamlTheorems.

(* with at most one file change during the run, every answer of the fixed code is get_data_spec of a
   file state that was present during the run *)
Theorem yaml_results_in_specs table tree w0 calls sch :
  length (yenvs sch) <= 1 ->
  let s := run (option yitem) (list nat) yls unit R nat yls_begin (yaml_prog table tree true) (yret table) bump
               (init (option yitem) (list nat) yls unit R (yls_begin tt) None w0 calls) sch in
  forall t, In t (threads s) -> forall r, In r (res t) ->
    In r (map (fun w => yans table (snapshot_of tree w)) (worlds_of w0 (yenvs sch))).
Proof.
  intros Hlen s t Ht r Hr.
  destruct (yaml_concurrent table tree true w0 calls sch) as [_ H]. fold s in H.
  specialize (H t Ht). rewrite Forall_forall in H. destruct (H r Hr) as (rd & -> & Ha & Hm & Hf).
  specialize (Ha eq_refl). rewrite Forall_forall in Hf. unfold from_world, in_run in Hf.
  destruct (yenvs sch) as [|g [|g' rest]] eqn:Ee; cbn [worlds_of map].
  - left. f_equal. symmetry. apply rd_is_snapshot; auto.
    intros f v Hin. destruct (Hf _ Hin) as (w & [<-|[]] & Hv). exact Hv.
  - assert (Hs : forall f v, In (f, v) rd -> v = nth f w0 0 \/ v = nth f (bump g w0) 0).
    { intros f v Hin. destruct (Hf _ Hin) as (w & Hw & Hv). cbn in Hw. destruct Hw as [<-|[<-|[]]]; auto. }
    destruct (one_change_consistent w0 g rd Ha Hs) as [K|K].
    + left. f_equal. symmetry. apply rd_is_snapshot; auto.
    + right. left. f_equal. symmetry. apply rd_is_snapshot; auto.
  - cbn in Hlen. lia.
Qed.
