(* C09 (transfer part) - invalid, error and foreign packets inside a transfer. *)
From Coq Require Import String.
From Coq Require Import List NArith ZArith Bool.
From VF Require Import Base.Sx Tftp.Transfer Tftp.Run Tftp.Monitor Tftp.Entries.
Import ListNotations.
(* a datagram from a foreign address must not affect the timing of the transfer: when the trace
   contains one, a deviation of the time-outs from the deadlines is attributed to it *)
Definition has_foreign (l : list tr) : bool :=
  existsb (fun e => match e with TRecv _ a _ => negb (a =? client)%N | _ => false end) l.
Definition holds (c : tcase) (l : list tr) : list string :=
  filter (has_tag (if has_foreign l
                   then ["C09:"; "C02:timeout_at_deadline"; "C02:delivery_after_deadline"]
                   else ["C09:"])%string) (monitor c l).
Definition entry := tftp_entry validb holds proj_timing.
