(* C09 (request-port part): sx entry.  Input (case impl_obs) with
   case = (datagram (handler ...) sendable), handler = (0 b) constant | (1 prefix) | (2 exact name),
          sendable = 0 when sendto() to the requester fails with OSError (source port 0);
   obs  = list of (5 code) ERROR sent to the requester | (1 filename mode options handler_index)
          transfer started | (4) exception logged | (99 raw) anything else that was sent |
          (7) the liveness probe that followed was not answered.
   Output (model_obs failed_on_model failed_on_impl). *)
From Coq Require Import String.
From Coq Require Import List NArith ZArith Bool.
From VF Require Import Base.Sx Tftp.Codec Tftp.Run Tftp.RequestPort.
Import ListNotations.

Definition de_handler (x : sx) : option handler :=
  match x with
  | L [I 0%Z; b] => obind (asBool b) (fun b => Some (HConst b))
  | L [I 1%Z; B p] => Some (HPrefix p)
  | L [I 2%Z; B s] => Some (HExact s)
  | _ => None
  end.

Definition sx_action (a : action) : sx :=
  match a with
  | ASendError c => L [I 5; sxN c]
  | AStart fn m o i => L [I 1; B fn; sxN (mode_num m); L (map sx_pair o); sxNat i]
  | ALogExc => L [I 4]
  | ABad raw => L [I 99; B raw]
  | ADead => L [I 7]
  end.

Definition de_action (x : sx) : option action :=
  match x with
  | L [I 5%Z; c] => obind (asN c) (fun c => Some (ASendError c))
  | L [I 1%Z; B fn; I m; o; i] =>
      obind (asListOf de_pair o) (fun o => obind (asNat i) (fun i =>
      match m with
      | 1%Z => Some (AStart fn Netascii o i)
      | 2%Z => Some (AStart fn Octet o i)
      | 3%Z => Some (AStart fn Mail o i)
      | _ => None
      end))
  | L [I 4%Z] => Some ALogExc
  | L [I 99%Z; B raw] => Some (ABad raw)
  | L [I 7%Z] => Some ADead
  | _ => None
  end.

Definition port_entry (x : sx) : sx :=
  match x with
  | L [L [B d; hs; sb]; ix] =>
      match asListOf de_handler hs, asBool sb, asListOf de_action ix with
      | Some hs, Some sendable, Some io =>
          (* one iteration of the serve loop: recvfrom truncates the datagram to 512 bytes *)
          let d' := firstn MAX_REQUEST_PACKET_SIZE d in
          let m := match run_loop false hs [(sendable, d)] with [m] => m | _ => [] end in
          L [L (map sx_action m); L (map sxS (port_holds sendable hs d' m)); L (map sxS (port_holds sendable hs d' io))]
      | None, _, _ => sxS "bad-case"
      | _, None, _ => sxS "bad-case"
      | _, _, None => sxS "bad-obs"
      end
  | _ => sxS "bad-input"
  end.
