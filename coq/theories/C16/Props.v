(* C16 - Address normalisation transforms are canonical, idempotent and total.
   Property theorems only; each is closed by a lemma from the proof files.
   Oracles: socket.inet_pton / inet_ntop for AF_INET6 enter as the universally quantified
   functions [pton] [ntop] with the premise [oracle_facts pton ntop]. *)
From Coq Require Import String.
From Coq Require Import List NArith Bool Arith Lia.
From VF Require Import Addr.Text Addr.IPv4 Addr.IPv4Proofs Addr.Mac Addr.MacProofs Addr.IPv6 Addr.IPv6Proofs
  C16.Entry C16.HoldsProof.
Import ListNotations.
Open Scope N_scope.

(* ================= IPv4 ================= *)
(* the hand-written recogniser accepts exactly the language of
   ([0-9]+)\.([0-9]+)\.([0-9]+)\.([0-9]+)(?:/([0-9]+))?  and returns its groups *)
Theorem C16_v4_regex : forall s g, match4 s = Some g <-> groups_ok g /\ s = assemble4 g.
Proof. exact match4_spec. Qed.
Print Assumptions C16_v4_regex.

(* two well-formed strings denote the same (bytes, mask) iff their normal forms are equal *)
Theorem C16_v4_canonical : forall r s1 s2 d1 d2, parse4 s1 = Some d1 -> parse4 s2 = Some d2 ->
  (d1 = d2 <-> normalize4 r s1 = normalize4 r s2).
Proof. exact normalize4_canonical. Qed.
Print Assumptions C16_v4_canonical.

Theorem C16_v4_idempotent : forall r s,
  match normalize4 r s with Ok t => normalize4 r t = Ok t | Exc _ => True end.
Proof. exact normalize4_idempotent. Qed.
Print Assumptions C16_v4_idempotent.

(* malformed => returned unchanged, or ValueError iff requested (malformed r s); nothing else *)
Theorem C16_v4_total : forall s, parse4 s = None ->
  forall r, normalize4 r s = malformed r s /\ strip_mask4 r s = malformed r s /\
            net_address4 r s = malformed r s /\ broadcast_address4 r s = malformed r s.
Proof. exact ipv4_total. Qed.
Print Assumptions C16_v4_total.

Theorem C16_v4_wellformed_no_exception : forall s bs m r, parse4 s = Some (bs, m) ->
  (exists t, normalize4 r s = Ok t) /\ (exists t, strip_mask4 r s = Ok t) /\
  (m <> None -> (exists t, net_address4 r s = Ok t) /\ (exists t, broadcast_address4 r s = Ok t)) /\
  (m = None -> net_address4 r s = malformed r s /\ broadcast_address4 r s = malformed r s).
Proof. exact ipv4_wellformed_ok. Qed.
Print Assumptions C16_v4_wellformed_no_exception.

Theorem C16_v4_strip_mask : forall r s bs m, parse4 s = Some (bs, m) ->
  exists t, strip_mask4 r s = Ok t /\ parse4 t = Some (bs, None) /\ (m = None -> t = s).
Proof. exact strip_mask4_spec. Qed.
Print Assumptions C16_v4_strip_mask.

(* net = a / 2^(32-m) * 2^(32-m), broadcast = net + 2^(32-m) - 1 (re-split into four bytes) *)
Theorem C16_v4_net_broadcast_arith : forall r s bs m, parse4 s = Some (bs, Some m) ->
  let a := to_N32 bs in
  let net := a / 2 ^ (32 - m) * 2 ^ (32 - m) in
  net_address4 r s = Ok (fmt4 (bytes32 net) (Some m)) /\
  broadcast_address4 r s = Ok (fmt4 (bytes32 (net + (2 ^ (32 - m) - 1))) None) /\
  to_N32 (bytes32 net) = net /\ to_N32 (bytes32 (net + (2 ^ (32 - m) - 1))) = net + (2 ^ (32 - m) - 1).
Proof. exact net_broadcast_arith4. Qed.
Print Assumptions C16_v4_net_broadcast_arith.

(* ================= MAC ================= *)
Theorem C16_mac_regex : forall s gs, mac_match s = Some gs <->
  exists d, is_delim d /\ mac_groups_ok gs /\ s = intercalate [d] gs.
Proof. exact mac_match_spec. Qed.
Print Assumptions C16_mac_regex.

Theorem C16_mac_canonical : forall ca da r s1 s2 b1 b2 d up,
  mac_delim_arg da = Some d -> mac_case_arg ca = Some up ->
  mac_bytes s1 = Some b1 -> mac_bytes s2 = Some b2 ->
  (b1 = b2 <-> normalize_mac ca da r s1 = normalize_mac ca da r s2).
Proof. exact normalize_mac_canonical. Qed.
Print Assumptions C16_mac_canonical.

Theorem C16_mac_idempotent : forall ca da r s,
  match normalize_mac ca da r s with Ok t => normalize_mac ca da r t = Ok t | Exc _ => True end.
Proof. exact normalize_mac_idempotent. Qed.
Print Assumptions C16_mac_idempotent.

Theorem C16_mac_total : forall ca da r s,
  (mac_delim_arg da = None \/ mac_case_arg ca = None -> normalize_mac ca da r s = Exc ValueError) /\
  (mac_delim_arg da <> None -> mac_case_arg ca <> None ->
     (mac_bytes s = None -> normalize_mac ca da r s = malformed r s) /\
     (mac_bytes s <> None -> exists t, normalize_mac ca da r s = Ok t)).
Proof. exact normalize_mac_total. Qed.
Print Assumptions C16_mac_total.

(* ================= IPv6 (current code: strict mask, variant flags false) ================= *)
Theorem C16_v6_canonical : forall pton ntop, oracle_facts pton ntop ->
  forall r s1 s2 d1 d2, parse6 pton false s1 = Some d1 -> parse6 pton false s2 = Some d2 ->
  (d1 = d2 <-> normalize6 pton ntop false r s1 = normalize6 pton ntop false r s2).
Proof. intros pton ntop (A & B & C & D). exact (normalize6_canonical pton ntop B C). Qed.
Print Assumptions C16_v6_canonical.

Theorem C16_v6_idempotent : forall pton ntop, oracle_facts pton ntop -> forall r s,
  match normalize6 pton ntop false r s with Ok t => normalize6 pton ntop false r t = Ok t | Exc _ => True end.
Proof. intros pton ntop (A & B & C & D). exact (normalize6_idempotent pton ntop B C). Qed.
Print Assumptions C16_v6_idempotent.

Theorem C16_v6_total : forall pton ntop s, parse6 pton false s = None ->
  forall r, normalize6 pton ntop false r s = malformed r s /\ strip_mask6 pton false r s = malformed r s /\
            net_address6 pton ntop false r s = malformed r s.
Proof. exact ipv6_total. Qed.
Print Assumptions C16_v6_total.

Theorem C16_v6_wellformed_no_exception : forall pton ntop s b m r, parse6 pton false s = Some (b, m) ->
  (exists t, normalize6 pton ntop false r s = Ok t) /\ (exists t, strip_mask6 pton false r s = Ok t) /\
  (m <> None -> exists t, net_address6 pton ntop false r s = Ok t) /\
  (m = None -> net_address6 pton ntop false r s = malformed r s).
Proof. exact ipv6_wellformed_ok. Qed.
Print Assumptions C16_v6_wellformed_no_exception.

Theorem C16_v6_strip_mask : forall pton ntop, oracle_facts pton ntop -> forall r s b m,
  parse6 pton false s = Some (b, m) ->
  exists t, strip_mask6 pton false r s = Ok t /\ parse6 pton false t = Some (b, None) /\ (m = None -> t = s).
Proof. intros pton ntop (A & B & C & D). exact (strip_mask6_spec pton C). Qed.
Print Assumptions C16_v6_strip_mask.

(* 128-bit analogue over the oracle's bytes *)
Theorem C16_v6_net_arith : forall pton ntop, oracle_facts pton ntop -> forall r s b m,
  parse6 pton false s = Some (b, Some m) ->
  let net := to_N b / 2 ^ (128 - m) * 2 ^ (128 - m) in
  net_address6 pton ntop false r s = Ok (fmt6 ntop (bytes128 net) (Some m)) /\
  to_N (bytes128 net) = net /\ length (bytes128 net) = 16%nat /\ all_bytes (bytes128 net) = true.
Proof. intros pton ntop (A & B & C & D). exact (net_arith6 pton ntop A). Qed.
Print Assumptions C16_v6_net_arith.

(* ================= generic ip_address module ================= *)
Theorem C16_mapped_unwrap : forall pton ntop, oracle_facts pton ntop -> forall r s b,
  pton s = PBytes b -> is_mapped b = true ->
  normalize_ip pton ntop false false r s = Ok (fmt4 (skipn 12 b) None) /\
  denote_ip pton false false s = Some (D4 (skipn 12 b) None).
Proof. intros pton ntop (A & B & C & D). exact (mapped_unwrap pton ntop A). Qed.
Print Assumptions C16_mapped_unwrap.

Theorem C16_ip_canonical : forall pton ntop, oracle_facts pton ntop -> forall r s1 s2 d1 d2,
  denote_ip pton false false s1 = Some d1 -> denote_ip pton false false s2 = Some d2 ->
  (d1 = d2 <-> normalize_ip pton ntop false false r s1 = normalize_ip pton ntop false false r s2).
Proof. intros pton ntop (A & B & C & D). exact (normalize_ip_canonical pton ntop A B C D). Qed.
Print Assumptions C16_ip_canonical.

Theorem C16_ip_idempotent : forall pton ntop, oracle_facts pton ntop -> forall r s,
  match normalize_ip pton ntop false false r s with
  | Ok t => normalize_ip pton ntop false false r t = Ok t | Exc _ => True end.
Proof. intros pton ntop (A & B & C & D). exact (normalize_ip_idempotent pton ntop A B C D). Qed.
Print Assumptions C16_ip_idempotent.

Theorem C16_ip_total : forall pton ntop, oracle_facts pton ntop -> forall s,
  denote_ip pton false false s = None ->
  forall r, normalize_ip pton ntop false false r s = malformed r s /\
    (is_match4 s = true -> parse4 s = None ->
       strip_mask_ip pton false r s = malformed r s /\ net_address_ip pton ntop false r s = malformed r s) /\
    (is_match4 s = false -> parse6 pton false s = None ->
       strip_mask_ip pton false r s = malformed r s /\ net_address_ip pton ntop false r s = malformed r s).
Proof. intros pton ntop (A & B & C & D). exact (ip_total pton ntop A). Qed.
Print Assumptions C16_ip_total.

(* ================= the executable checker accepts the model ================= *)
Theorem C16_holds : forall c, valid c -> holds c (run_model c) = [].
Proof. exact holds_model. Qed.
Print Assumptions C16_holds.

(* [valid c] is by definition the boolean [validb c] (C16/Entry.v) being true: every hypothesis of
   C16_holds is decidable from the case.  The driver reports validb for every evaluated case (5th item of its
   answer); where it is 1 the theorem applies to exactly that case. *)
Theorem C16_validb_valid : forall c, validb c = true -> valid c.
Proof. intros c H. exact H. Qed.
Print Assumptions C16_validb_valid.

Theorem C16_covered_cases : forall c, validb c = true -> holds c (run_model c) = [].
Proof. intros c H. apply C16_holds. apply C16_validb_valid. exact H. Qed.
Print Assumptions C16_covered_cases.

(* ================= repaired defects: the old variants violate the property ================= *)
(* D11 (before e42f082): "::1/+64" is malformed (mask not [0-9]+) but was rewritten to "::1/64" *)
Theorem C16_refuted_D11_lenient_mask :
  let pton := tab_pton [(S_LOOP, PBytes LOOPBACK)] in
  let ntop := tab_ntop [(LOOPBACK, S_LOOP)] in
  parse6 pton false S_LOOP_PLUS64 = None /\
  normalize6 pton ntop true false S_LOOP_PLUS64 = Ok S_LOOP_64 /\
  normalize6 pton ntop false false S_LOOP_PLUS64 = Ok S_LOOP_PLUS64.
Proof. exact v6_total_refuted_lenient_mask. Qed.

(* D16 (before b30d74d): "a\0b" made the generic normalize raise ValueError although not requested *)
Theorem C16_refuted_D16_unwrap_valueerror :
  let s := [97; 0; 98] in
  let pton := tab_pton [(s, PValueError)] in
  let ntop := tab_ntop [] in
  normalize_ip pton ntop false true false s = Exc ValueError /\
  normalize_ip pton ntop false false false s = Ok s.
Proof. exact ip_total_refuted_unwrap_valueerror. Qed.

(* ================= non-vacuity ================= *)
(* a finite oracle that satisfies the oracle premises *)
Example C16_oracle_facts_satisfiable :
  oracle_facts (tab_pton [(S_LOOP, PBytes LOOPBACK)]) (tab_ntop [(LOOPBACK, S_LOOP)]).
Proof. apply tables_facts. vm_compute. reflexivity. Qed.

(* a concrete valid case: generic normalize of "::FFFF:102:304" and "01.2.3.004" -> both "1.2.3.4" *)
Definition ex_mapped : list N := [0; 0; 0; 0; 0; 0; 0; 0; 0; 0; 255; 255; 1; 2; 3; 4].
Definition ex_s1 : str := [58; 58; 70; 70; 70; 70; 58; 49; 48; 50; 58; 51; 48; 52].
Definition ex_s2 : str := [48; 49; 46; 50; 46; 51; 46; 48; 48; 52].
Definition ex_nt : str := [58; 58; 102; 102; 102; 102; 58; 49; 46; 50; 46; 51; 46; 52].
Definition ex_out : str := [49; 46; 50; 46; 51; 46; 52].
Definition ex_case : case :=
  {| cfam := IP; cfn := Norm; craise := false; s1 := ex_s1; s2 := ex_s2; mcase := []; mdelim := [];
     ptab := [(ex_s1, PBytes ex_mapped); (ex_nt, PBytes ex_mapped)]; ntab := [(ex_mapped, ex_nt)];
     ref1 := Some (Ok ex_out); ref2 := None; lenient := false; ve_esc := false |}.
Example C16_nonvacuous :
  valid ex_case /\
  run_model ex_case = {| r1 := Ok ex_out; r2 := Ok ex_out; r11 := Ok ex_out |} /\
  denote ex_case ex_s1 = Some (D4 [1; 2; 3; 4] None) /\ denote ex_case ex_s2 = Some (D4 [1; 2; 3; 4] None).
Proof. vm_compute. auto. Qed.

(* IPv4 net/broadcast on a concrete address: 192.168.77.1/20 *)
Example C16_nonvacuous_arith :
  let s := [49; 57; 50; 46; 49; 54; 56; 46; 55; 55; 46; 49; 47; 50; 48] in
  parse4 s = Some ([192; 168; 77; 1], Some 20) /\
  net_address4 false s = Ok [49; 57; 50; 46; 49; 54; 56; 46; 54; 52; 46; 48; 47; 50; 48] /\
  broadcast_address4 false s = Ok [49; 57; 50; 46; 49; 54; 56; 46; 55; 57; 46; 50; 53; 53].
Proof. vm_compute. auto. Qed.
