(* C12 - placeholder while the correspondence is brought up; theorems follow. *)
From Coq Require Import String.
From Coq Require Import List.
From VF Require Import C12.Entry.
