(* C16: case/observation types, run_model, the executable checker [holds], sx entry point.
   A case applies ONE transform function (family x function x raise flag [x MAC options]) to TWO
   input strings s1 s2 and once more to the first result; the observation is the three results. *)
From Coq Require Import String.
From Coq Require Import List NArith ZArith Bool Arith.
From VF Require Import Base.Sx Addr.Text Addr.IPv4 Addr.Mac Addr.IPv6.
Import ListNotations.
Open Scope N_scope.

Inductive fam := V4 | V6 | MAC | IP.
Inductive fn := Norm | Strip | Net | Bcast.

Record case := {
  cfam : fam; cfn : fn; craise : bool;
  s1 : str; s2 : str;
  mcase : str; mdelim : str;                 (* target_case / delimiter arguments (MAC only) *)
  ptab : list (str * pres);                  (* inet_pton(AF_INET6, .) as called directly by the harness *)
  ntab : list (list N * str);                (* inet_ntop(AF_INET6, .) *)
  ref1 : option res; ref2 : option res;      (* reference results built on the ipaddress module *)
  lenient : bool; ve_esc : bool              (* variants: before e42f082 (D11), before b30d74d (D16) *)
}.
Record obs := { r1 : res; r2 : res; r11 : res }.

Definition NOFN : res := Exc (OtherExc (bytes_of_string "no-such-function")).

Definition supported (c : case) : bool :=
  match cfam c, cfn c with
  | V6, Bcast | IP, Bcast | MAC, Strip | MAC, Net | MAC, Bcast => false
  | _, _ => true
  end.

Definition apply (c : case) (s : str) : res :=
  let pton := tab_pton (ptab c) in
  let ntop := tab_ntop (ntab c) in
  let r := craise c in
  match cfam c, cfn c with
  | V4, Norm => normalize4 r s
  | V4, Strip => strip_mask4 r s
  | V4, Net => net_address4 r s
  | V4, Bcast => broadcast_address4 r s
  | V6, Norm => normalize6 pton ntop (lenient c) r s
  | V6, Strip => strip_mask6 pton (lenient c) r s
  | V6, Net => net_address6 pton ntop (lenient c) r s
  | IP, Norm => normalize_ip pton ntop (lenient c) (ve_esc c) r s
  | IP, Strip => strip_mask_ip pton (lenient c) r s
  | IP, Net => net_address_ip pton ntop (lenient c) r s
  | MAC, Norm => normalize_mac (mcase c) (mdelim c) r s
  | _, _ => NOFN
  end.

Definition run_model (c : case) : obs :=
  let a := apply c (s1 c) in
  {| r1 := a; r2 := apply c (s2 c); r11 := match a with Ok t => apply c t | Exc _ => a end |}.

(* ---- the property as a checker on observations (always the repaired reading: strict masks) ---- *)
Definition opt_N_eqb (a b : option N) : bool :=
  match a, b with Some x, Some y => x =? y | None, None => true | _, _ => false end.
Definition denot_eqb (a b : denot) : bool :=
  match a, b with
  | D4 x m, D4 y k => str_eqb x y && opt_N_eqb m k
  | D6 x m, D6 y k => str_eqb x y && opt_N_eqb m k
  | _, _ => false
  end.
Definition mask_of (d : denot) : option N := match d with D4 _ m => m | D6 _ m => m end.

Definition d4 (d : list N * option N) : denot := D4 (fst d) (snd d).
Definition d6 (d : list N * option N) : denot := D6 (fst d) (snd d).

Definition denote (c : case) (s : str) : option denot :=
  let pton := tab_pton (ptab c) in
  match cfam c with
  | V4 => option_map d4 (parse4 s)
  | V6 => option_map d6 (parse6 pton false s)
  | MAC => option_map (fun bs => D4 bs None) (mac_bytes s)
  | IP => match cfn c with
          | Norm => denote_ip pton false false s
          | _ => if is_match4 s then option_map d4 (parse4 s) else option_map d6 (parse6 pton false s)
          end
  end.

Definition needs_mask (c : case) : bool := match cfn c with Net | Bcast => true | _ => false end.
Definition expect_malformed (c : case) (s : str) : bool :=
  match denote c s with
  | None => true
  | Some d => needs_mask c && match mask_of d with None => true | Some _ => false end
  end.
Definition bad_options (c : case) : bool :=
  match cfam c with
  | MAC => match mac_delim_arg (mdelim c), mac_case_arg (mcase c) with Some _, Some _ => false | _, _ => true end
  | _ => false
  end.

Definition chk (b : bool) (name : string) : list string := if b then [] else [name].

Definition clause_total (c : case) (s : str) (r : res) : list string :=
  if bad_options c then chk (res_eqb r (Exc ValueError)) "invalid_option_is_valueerror"
  else if expect_malformed c s then chk (res_eqb r (malformed (craise c) s)) "total_malformed_unchanged_or_valueerror"
  else chk (match r with Ok _ => true | Exc _ => false end) "wellformed_no_exception".

Definition arith_expect (c : case) (s : str) : option res :=
  match cfn c, denote c s with
  | Net, Some (D4 bs (Some m)) =>
      Some (Ok (fmt4 (bytes32 (to_N32 bs / 2 ^ (32 - m) * 2 ^ (32 - m))) (Some m)))
  | Bcast, Some (D4 bs (Some m)) =>
      Some (Ok (fmt4 (bytes32 (to_N32 bs / 2 ^ (32 - m) * 2 ^ (32 - m) + (2 ^ (32 - m) - 1))) None))
  | Net, Some (D6 b (Some m)) =>
      Some (Ok (fmt6 (tab_ntop (ntab c)) (bytes128 (to_N b / 2 ^ (128 - m) * 2 ^ (128 - m))) (Some m)))
  | _, _ => None
  end.
Definition clause_arith (c : case) (s : str) (r : res) : list string :=
  match arith_expect c s with Some e => chk (res_eqb r e) "net_broadcast_arith" | None => [] end.

Definition clause_strip (c : case) (s : str) (r : res) : list string :=
  match cfn c, denote c s with
  | Strip, Some _ => chk (res_eqb r (Ok (fst (cut SLASH s)))) "strip_mask_is_address_text"
  | _, _ => []
  end.

Definition clause_mapped (c : case) (s : str) (r : res) : list string :=
  match cfam c, cfn c, tab_pton (ptab c) s with
  | IP, Norm, PBytes b =>
      if is_mapped b then chk (res_eqb r (Ok (fmt4 (skipn 12 b) None))) "mapped_unwrap" else []
  | _, _, _ => []
  end.

Definition clause_ref (ref : option res) (r : res) : list string :=
  match ref with Some e => chk (res_eqb r e) "agrees_with_ipaddress_reference" | None => [] end.

Definition clause_canonical (c : case) (o : obs) : list string :=
  match cfn c, bad_options c, denote c (s1 c), denote c (s2 c) with
  | Norm, false, Some x, Some y => chk (Bool.eqb (denot_eqb x y) (res_eqb (r1 o) (r2 o))) "canonical"
  | _, _, _, _ => []
  end.
Definition clause_idempotent (c : case) (o : obs) : list string :=
  match cfn c with Norm => chk (res_eqb (r11 o) (r1 o)) "idempotent" | _ => [] end.

Definition holds (c : case) (o : obs) : list string :=
  clause_total c (s1 c) (r1 o) ++ clause_total c (s2 c) (r2 o) ++
  clause_arith c (s1 c) (r1 o) ++ clause_arith c (s2 c) (r2 o) ++
  clause_strip c (s1 c) (r1 o) ++ clause_strip c (s2 c) (r2 o) ++
  clause_mapped c (s1 c) (r1 o) ++ clause_mapped c (s2 c) (r2 o) ++
  clause_ref (ref1 c) (r1 o) ++ clause_ref (ref2 c) (r2 o) ++
  clause_canonical c o ++ clause_idempotent c o.

(* ---- validity: current variants, supported function, oracle tables with the libc facts,
   references that agree with the model ---- *)
Definition pres_eqb (a b : pres) : bool :=
  match a, b with
  | PBytes x, PBytes y => str_eqb x y
  | POSError, POSError => true
  | PValueError, PValueError => true
  | _, _ => false
  end.
Definition tables_ok (pt : list (str * pres)) (nt : list (list N * str)) : bool :=
  forallb (fun e =>
    match snd e with
    | PBytes b => (length b =? 16)%nat && all_bytes b && negb (has SLASH (fst e)) && has COLON (fst e)
                  && pres_eqb (tab_pton pt (tab_ntop nt b)) (PBytes b)
    | _ => true
    end) pt.
Definition ref_ok (ref : option res) (r : res) : bool :=
  match ref with Some e => res_eqb r e | None => true end.
Definition validb (c : case) : bool :=
  negb (lenient c) && negb (ve_esc c) && supported c && tables_ok (ptab c) (ntab c)
  && ref_ok (ref1 c) (r1 (run_model c)) && ref_ok (ref2 c) (r2 (run_model c)).
Definition valid (c : case) : Prop := validb c = true.

(* ---- sx codec ---- *)
Definition dec_fam (z : Z) : option fam :=
  match z with 0%Z => Some V4 | 1%Z => Some V6 | 2%Z => Some MAC | 3%Z => Some IP | _ => None end.
Definition dec_fn (z : Z) : option fn :=
  match z with 0%Z => Some Norm | 1%Z => Some Strip | 2%Z => Some Net | 3%Z => Some Bcast | _ => None end.
Definition VE_NAME : str := bytes_of_string "ValueError".
(* a Python str: #hex when all code points are below 256, otherwise the list of its code points
   (non-Latin-1 text, e.g. non-ASCII decimal digits, reaches the model unchanged and comes back so) *)
Definition asStr (x : sx) : option str :=
  match x with B s => Some s | L l => omap asN l | _ => None end.
Definition enc_str (s : str) : sx :=
  if forallb (fun c => (c <? 256)%N) s then B s else L (map sxN s).
Definition dec_res (x : sx) : option res :=
  match x with
  | L [I 0%Z; s] => option_map Ok (asStr s)
  | L [I 1%Z; B n] => Some (Exc (if str_eqb n VE_NAME then ValueError else OtherExc n))
  | _ => None
  end.
Definition enc_res (r : res) : sx :=
  match r with
  | Ok s => L [I 0%Z; enc_str s]
  | Exc ValueError => L [I 1%Z; B VE_NAME]
  | Exc (OtherExc n) => L [I 1%Z; B n]
  end.
Definition dec_ref (x : sx) : option (option res) :=
  match x with
  | L [] => Some None
  | L [y] => option_map Some (dec_res y)
  | _ => None
  end.
Definition dec_pent (x : sx) : option (str * pres) :=
  match x with
  | L [k; I 0%Z; B b] => option_map (fun k => (k, PBytes b)) (asStr k)
  | L [k; I 1%Z; B _] => option_map (fun k => (k, POSError)) (asStr k)
  | L [k; I 2%Z; B _] => option_map (fun k => (k, PValueError)) (asStr k)
  | _ => None
  end.
Definition dec_nent (x : sx) : option (list N * str) :=
  match x with L [B b; B t] => Some (b, t) | _ => None end.
Definition dec_obs (x : sx) : option obs :=
  match x with
  | L [a; b; c] =>
      obind (dec_res a) (fun a => obind (dec_res b) (fun b => obind (dec_res c) (fun c =>
      Some {| r1 := a; r2 := b; r11 := c |})))
  | _ => None
  end.
Definition enc_obs (o : obs) : sx := L [enc_res (r1 o); enc_res (r2 o); enc_res (r11 o)].

Definition decode (x : sx) : option (case * obs) :=
  match x with
  | L [I f; I g; I r; ax; bx; B mc; B md; pt; nt; rf1; rf2; I len; I ve; io] =>
      obind (asStr ax) (fun a => obind (asStr bx) (fun b =>
      obind (dec_fam f) (fun f => obind (dec_fn g) (fun g =>
      obind (asListOf dec_pent pt) (fun pt => obind (asListOf dec_nent nt) (fun nt =>
      obind (dec_ref rf1) (fun rf1 => obind (dec_ref rf2) (fun rf2 =>
      obind (dec_obs io) (fun io =>
      Some ({| cfam := f; cfn := g; craise := negb (r =? 0)%Z; s1 := a; s2 := b; mcase := mc; mdelim := md;
               ptab := pt; ntab := nt; ref1 := rf1; ref2 := rf2;
               lenient := negb (len =? 0)%Z; ve_esc := negb (ve =? 0)%Z |}, io))))))))))
  | _ => None
  end.

Definition enc_denot (d : option denot) : sx :=
  match d with
  | None => L []
  | Some (D4 b m) => L [I 4%Z; B b; match m with Some k => L [sxN k] | None => L [] end]
  | Some (D6 b m) => L [I 6%Z; B b; match m with Some k => L [sxN k] | None => L [] end]
  end.

Definition entry (x : sx) : sx :=
  match decode x with
  | None => sxS "bad-case"
  | Some (c, io) =>
      let m := run_model c in
      L [ enc_obs m; L (map sxS (holds c m)); L (map sxS (holds c io));
          L []; sxBool (validb c);   (* 5th item: the hypotheses of C16_holds hold (C16_covered_cases applies) *)
          enc_denot (denote c (s1 c)); enc_denot (denote c (s2 c)) ]
  end.
