(* os.path.join / normpath on a normalised absolute root and plain segments *)
From Coq Require Import List NArith Bool Arith Lia.
From VF Require Import FileH.Str FileH.StrProofs FileH.PosixPath FileH.Unquote FileH.Handler FileH.Spec.
Import ListNotations.
Open Scope N_scope.




(* a path segment that is a real name *)
Definition plain (seg : str) : Prop :=
  seg <> [] /\ seg <> [DOT] /\ seg <> [DOT; DOT] /\ cfree SL seg.

(* root directory: absolute, no trailing slash, already normalised *)
Definition root_ok (root : str) : Prop :=
  starts_with [SL] root = true /\ ends_with [SL] root = false /\ normpath root = root.

Lemma slashed_join segs : segs <> [] -> slashed segs = SL :: join SL segs.
Proof.
  induction segs as [|a r IH]; [congruence|]. intros _.
  destruct r as [|b r].
  - cbn. now rewrite app_nil_r.
  - unfold slashed in *. cbn [map concat]. rewrite join_cons2. cbn [app]. f_equal. f_equal.
    apply IH. discriminate.
Qed.

Lemma join_nil_cons segs : segs <> [] -> join SL ([] :: segs) = slashed segs.
Proof. intros H. destruct segs; [congruence|]. rewrite join_cons2, slashed_join by discriminate. reflexivity. Qed.

Lemma ends_with_app_last (a : str) x : ends_with [SL] (a ++ [x]) = (SL =? x).
Proof. unfold ends_with. rewrite <- !rev_alt. rewrite rev_app_distr. cbn [rev app starts_with]. now rewrite andb_true_r. Qed.

Lemma ends_with_plain acc seg : seg <> [] -> cfree SL seg -> ends_with [SL] (acc ++ seg) = false.
Proof.
  intros Hne Hf. destruct (exists_last Hne) as [s' [x ->]].
  rewrite app_assoc, ends_with_app_last. apply N.eqb_neq. intros <-.
  apply Hf. apply in_or_app. right. left. reflexivity.
Qed.

Lemma starts_with_slash_free seg : cfree SL seg -> starts_with [SL] seg = false.
Proof.
  intros Hf. destruct seg as [|x r]; [reflexivity|]. cbn [starts_with]. rewrite andb_true_r.
  apply N.eqb_neq. intros <-. apply Hf. left. reflexivity.
Qed.

Lemma path_join_plain segs : forall acc, acc <> [] -> ends_with [SL] acc = false ->
  Forall plain segs -> path_join acc segs = acc ++ slashed segs.
Proof.
  unfold path_join. induction segs as [|sg r IH]; intros acc Hne He Hp.
  - cbn. now rewrite app_nil_r.
  - inversion Hp as [|? ? [H1 [H2 [H3 H4]]] Hr]; subst. cbn [fold_left].
    unfold join2 at 2. rewrite starts_with_slash_free by exact H4. rewrite He.
    destruct acc as [|a0 acc0]; [congruence|]. cbn [is_nil orb].
    rewrite IH.
    + unfold slashed. cbn [map concat]. rewrite <- app_assoc. reflexivity.
    + discriminate.
    + change ((a0 :: acc0) ++ SL :: sg) with ((a0 :: acc0) ++ [SL] ++ sg). rewrite app_assoc.
      apply ends_with_plain; assumption.
    + exact Hr.
Qed.

Lemma norm_step_plain init st seg : plain seg -> norm_step init st seg = seg :: st.
Proof.
  intros [H1 [H2 [H3 _]]]. unfold norm_step.
  apply eqb_str_false in H1, H2, H3. rewrite H1, H2, H3. reflexivity.
Qed.

Lemma fold_norm_plain init segs : forall st, Forall plain segs ->
  fold_left (norm_step init) segs st = rev segs ++ st.
Proof.
  induction segs as [|sg r IH]; intros st Hp; [reflexivity|].
  inversion Hp; subst. cbn [fold_left]. rewrite norm_step_plain by assumption.
  rewrite IH by assumption. cbn [rev]. now rewrite <- app_assoc.
Qed.

Lemma norm_comps_app_plain init cs segs : Forall plain segs ->
  norm_comps init (cs ++ segs) = norm_comps init cs ++ segs.
Proof.
  intros Hp. unfold norm_comps. rewrite fold_left_app, fold_norm_plain by exact Hp.
  now rewrite rev_app_distr, rev_involutive.
Qed.

Lemma initial_slashes_root root tail :
  starts_with [SL] root = true -> ends_with [SL] root = false ->
  initial_slashes (root ++ SL :: tail) = initial_slashes root.
Proof.
  intros Hs He. destruct root as [|a [|b [|c r]]].
  - discriminate Hs.
  - cbn [starts_with] in Hs. rewrite andb_true_r in Hs. apply N.eqb_eq in Hs. subst a. discriminate He.
  - cbn [starts_with] in Hs. rewrite andb_true_r in Hs. apply N.eqb_eq in Hs. subst a.
    change [SL; b] with ([SL] ++ [b]) in He. rewrite ends_with_app_last in He.
    unfold initial_slashes. cbn [app starts_with]. rewrite He. reflexivity.
  - reflexivity.
Qed.

Lemma plain_cfree segs : Forall plain segs -> Forall (cfree SL) segs.
Proof. apply Forall_impl. intros a [_ [_ [_ H]]]. exact H. Qed.

Lemma repeat_SL_ends k : (0 < k)%nat -> ends_with [SL] (repeat SL k) = true.
Proof.
  intros H. apply ends_with_iff. destruct k; [lia|]. exists (repeat SL k).
  clear. induction k; [reflexivity|]. cbn [repeat app] in *. now rewrite <- IHk.
Qed.

(* normpath is the identity on root/seg1/.../segn *)
Lemma normpath_root_plain root segs : root_ok root -> segs <> [] -> Forall plain segs ->
  normpath (root ++ slashed segs) = root ++ slashed segs.
Proof.
  intros [Hs [He Hn]] Hne Hp.
  rewrite slashed_join by exact Hne.
  assert (Hr : root <> []) by (intros ->; discriminate Hs).
  unfold normpath in *.
  destruct (root ++ SL :: join SL segs) eqn:Ep; [destruct root; discriminate Ep|]. rewrite <- Ep. clear Ep.
  destruct root as [|r0 rt] eqn:Er; [congruence|]. rewrite <- Er in *. clear Er.
  rewrite initial_slashes_root by assumption.
  set (k := initial_slashes root) in *.
  assert (Hk : (0 < k)%nat). { subst k. unfold initial_slashes. rewrite Hs. destruct (_ && _); lia. }
  rewrite split_on_app, split_join by (auto using plain_cfree).
  rewrite norm_comps_app_plain by exact Hp.
  set (N := norm_comps (0 <? k)%nat (split_on SL root)) in *.
  destruct (repeat SL k ++ join SL N) as [|x r0'] eqn:E0.
  { rewrite <- Hn in Hs. discriminate Hs. }
  assert (HN : N <> []).
  { intros HN. rewrite HN in E0. cbn [join] in E0. rewrite app_nil_r in E0.
    rewrite <- Hn, <- E0, repeat_SL_ends in He by exact Hk. discriminate He. }
  rewrite join_app by assumption.
  rewrite app_assoc, E0, Hn.
  destruct (root ++ SL :: join SL segs) eqn:Ep; [destruct root; [congruence|discriminate Ep]|reflexivity].
Qed.

(* non-vacuity of root_ok *)
Example root_ok_example : root_ok [SL; 116; 109; 112; SL; 114].
Proof. repeat split; vm_compute; reflexivity. Qed.
