(* The four shared components of C19 as instances of the machine (definitions only).
   Results are encoded as lists of naturals so that one comparison function serves all. *)
From Coq Require Import List Arith Bool.
From VF Require Import Conc.Machine.
Import ListNotations.

Definition R := list nat.
Fixpoint r_eqb (a b : R) : bool :=
  match a, b with
  | [], [] => true
  | x :: a', y :: b' => Nat.eqb x y && r_eqb a' b'
  | _, _ => false
  end.

(* single critical section with one atomic body *)
Definition cs1 {O W LS} (f : LS -> O -> W -> LS * O) : list (mstep O W LS) := [Acq; Step f; Rel].

(* ---------------- association lists ---------------- *)
Fixpoint alookup (k : nat) (l : list (nat * nat)) : option nat :=
  match l with
  | [] => None
  | (k', v) :: r => if Nat.eqb k k' then Some v else alookup k r
  end.
Fixpoint aremove (k : nat) (l : list (nat * nat)) : list (nat * nat) :=
  match l with
  | [] => []
  | (k', v) :: r => if Nat.eqb k k' then aremove k r else (k', v) :: aremove k r
  end.
Definition flat (l : list (nat * nat)) : list nat := flat_map (fun p => [fst p; snd p]) l.

(* ================= 1. SynchronizedCache(LRUCache) ================= *)
(* OrderedDict order: least recently used first *)
Record lru := { cap : nat; items : list (nat * nat) }.
(* CFail k: an access whose inner step raises (injected fault in the backing cache): the exception is the
   call's result [8], the cache is unchanged *)
(* CSetNM k v: __setitem__ of a cache built with mark_on_update=False (an update keeps the key's position) *)
Inductive ccall := CGet (k : nat) | CSet (k v : nat) | CContains (k : nat) | CDel (k : nat) | CLen | CClear | CFail (k : nat)
                 | CSetNM (k v : nat).

Definition lru_get (c : lru) (k : nat) : lru * R :=
  match alookup k (items c) with
  | Some v => ({| cap := cap c; items := aremove k (items c) ++ [(k, v)] |}, [1; v])    (* move_to_end *)
  | None => (c, [0])                                                                   (* Cache.get: default None *)
  end.
Definition lru_set (c : lru) (k v : nat) : lru :=
  let it := aremove k (items c) ++ [(k, v)] in                                         (* mark_on_update *)
  {| cap := cap c; items := if Nat.ltb (cap c) (length it) then tl it else it |}.
Definition lru_set_nomark (c : lru) (k v : nat) : lru :=
  let it := match alookup k (items c) with
            | Some _ => map (fun p => if Nat.eqb (fst p) k then (k, v) else p) (items c)
            | None => items c ++ [(k, v)]
            end in
  {| cap := cap c; items := if Nat.ltb (cap c) (length it) then tl it else it |}.
Definition lru_exec (call : ccall) (c : lru) : lru * R :=
  match call with
  | CGet k => lru_get c k
  | CSet k v => (lru_set c k v, [5])
  | CContains k => (c, [2; if alookup k (items c) then 1 else 0])
  | CDel k => match alookup k (items c) with
              | Some _ => ({| cap := cap c; items := aremove k (items c) |}, [5])
              | None => (c, [4])                                                       (* KeyError *)
              end
  | CLen => (c, [3; length (items c)])
  | CClear => ({| cap := cap c; items := [] |}, [5])
  | CFail _ => (c, [8])
  | CSetNM k v => (lru_set_nomark c k v, [5])
  end.
(* locked = true: SynchronizedCache; false: the bare LRUCache shared between threads (two accesses:
   the OrderedDict update and the move_to_end / eviction are separate steps) *)
Definition cache_prog (locked : bool) (call : ccall) : list (mstep lru unit (ccall * R)) :=
  if locked then cs1 (fun l c _ => let '(c', r) := lru_exec (fst l) c in ((fst l, r), c'))
  else
    match call with
    | CSet k v =>
        [ Step (fun l c _ => (l, {| cap := cap c; items := match alookup k (items c) with
                                                             | Some _ => map (fun p => if Nat.eqb (fst p) k then (k, v) else p) (items c)
                                                             | None => items c ++ [(k, v)] end |}));
          Step (fun l c _ => (l, {| cap := cap c; items := match alookup k (items c) with
                                                             | Some v' => aremove k (items c) ++ [(k, v')]
                                                             | None => items c end |}));
          Step (fun l c _ => ((fst l, [5]), {| cap := cap c; items := if Nat.ltb (cap c) (length (items c)) then tl (items c) else items c |})) ]
    | CGet k =>
        [ Step (fun l c _ => ((fst l, match alookup k (items c) with Some v => [1; v] | None => [0] end), c));
          Step (fun l c _ => match snd l with
                             | [0] => (l, c)
                             | _ => match alookup k (items c) with
                                    | Some v' => (l, {| cap := cap c; items := aremove k (items c) ++ [(k, v')] |})
                                    | None => ((fst l, [4]), c)          (* move_to_end raises KeyError *)
                                    end
                             end) ]
    | _ => [ Step (fun l c _ => let '(c', r) := lru_exec (fst l) c in ((fst l, r), c')) ]
    end.

(* ================= 2. TextFileSource ================= *)
(* world = number of edits so far; contents w = parsed lines (system id, value) of the file after w edits,
   bad w = the file does not parse in that state (get_data / find_system raise);
   stat version of the file after w edits = w (every edit changes the stat version).
   TGetAt / TFindAt wexp: the same calls issued by the final "post" thread, which must see the last
   file state wexp: observing any other state yields a result no real call produces *)
(* TGetF / TFindF: the same calls whose os.stat fails with a transient error other than ENOENT/EACCES (the file
   is being replaced): version_for_file_path folds the error into a version string -- the same for every such
   failure -- that differs from the version of every file state, so the file is re-read *)
Inductive tcall := TGet (sys : nat) | TFind (v : nat) | TGetAt (wexp sys : nat) | TFindAt (wexp v : nat)
                 | TGetF (sys : nat) | TFindF (v : nat).
Record tobj := { fver : option nat; parsed : list (nat * nat) }.
Record tls := { tc : tcall; statv : option nat; tres : R }.

Definition find_sys (v : nat) (l : list (nat * nat)) : R :=
  match filter (fun p => Nat.eqb (snd p) v) l with
  | [p] => [1; fst p]
  | _ => [0]
  end.
Definition text_answer (c : tcall) (l : list (nat * nat)) : R :=
  match c with
  | TGet sys | TGetAt _ sys | TGetF sys => match alookup sys l with Some v => [1; v] | None => [0] end
  | TFind v | TFindAt _ v | TFindF v => find_sys v l
  end.
Definition at_world (c : tcall) (w : nat) (r : R) : R :=
  match c with
  | TGetAt wexp _ | TFindAt wexp _ => if Nat.eqb w wexp then r else [77]
  | _ => r
  end.

Section Text.
  Variable contents : nat -> list (nat * nat).
  Variable bad : nat -> bool.
  Variable cache_enabled : bool.
  (* version strings: S w for file state w, 0 for "stat failed" *)
  Definition stat_faulted (c : tcall) : bool := match c with TGetF _ | TFindF _ => true | _ => false end.
  Definition t_stat (l : tls) (o : tobj) (w : nat) : tls * tobj :=
    ({| tc := tc l; statv := if cache_enabled then Some (if stat_faulted (tc l) then 0 else S w) else None;
        tres := tres l |}, o).
  Definition opt_nat_eqb (a b : option nat) : bool :=
    match a, b with Some x, Some y => Nat.eqb x y | _, _ => false end.
  Definition t_read (l : tls) (o : tobj) (w : nat) : tls * tobj :=
    if cache_enabled && opt_nat_eqb (statv l) (fver o) then
      ({| tc := tc l; statv := statv l; tres := at_world (tc l) w (text_answer (tc l) (parsed o)) |}, o)
    else if bad w then
      (* the snapshot was cleared, the parse raised: nothing is remembered *)
      ({| tc := tc l; statv := statv l; tres := at_world (tc l) w [8] |}, {| fver := None; parsed := [] |})
    else
      let o' := {| fver := statv l; parsed := contents w |} in
      ({| tc := tc l; statv := statv l; tres := at_world (tc l) w (text_answer (tc l) (parsed o')) |}, o').
  (* locked = false: get_data / find_system without `with self._lock`: the reload clears the snapshot
     first and fills it in a later step, the answer is looked up in a third one *)
  Definition t_clear (l : tls) (o : tobj) (w : nat) : tls * tobj :=
    if cache_enabled && opt_nat_eqb (statv l) (fver o) then (l, o) else (l, {| fver := None; parsed := [] |}).
  Definition t_fill (l : tls) (o : tobj) (w : nat) : tls * tobj :=
    if cache_enabled && opt_nat_eqb (statv l) (fver o) then (l, o)
    else if bad w then (l, o) else (l, {| fver := statv l; parsed := contents w |}).
  Definition t_answer (l : tls) (o : tobj) (w : nat) : tls * tobj :=
    ({| tc := tc l; statv := statv l; tres := at_world (tc l) w (text_answer (tc l) (parsed o)) |}, o).
  Definition text_prog (locked : bool) (c : tcall) : list (mstep tobj nat tls) :=
    if locked then [Acq; Step t_stat; Step t_read; Rel]
    else [Step t_stat; Step t_clear; Step t_fill; Step t_answer].
End Text.

(* ================= 3. DataStore ================= *)
Inductive scall := SSet (sys k v : nat) | SGetV (sys k : nat) | SDel (sys k : nat) | SGetData (sys : nat) | SFind (k v : nat)
                 | SDelData (sys : nat)           (* delete_data: all keys of a system in one statement *)
                 | SFail (sys : nat).             (* a statement that raises (sqlite error): result [8], store unchanged *)
Definition store := list ((nat * nat) * nat).
Fixpoint slookup (s k : nat) (l : store) : option nat :=
  match l with
  | [] => None
  | ((s', k'), v) :: r => if Nat.eqb s s' && Nat.eqb k k' then Some v else slookup s k r
  end.
Fixpoint sremove (s k : nat) (l : store) : store :=
  match l with
  | [] => []
  | ((s', k'), v) :: r => if Nat.eqb s s' && Nat.eqb k k' then sremove s k r else ((s', k'), v) :: sremove s k r
  end.
Fixpoint insert_sorted (x : nat) (l : list nat) : list nat :=
  match l with
  | [] => [x]
  | y :: r => if Nat.ltb x y then x :: l else if Nat.eqb x y then l else y :: insert_sorted x r
  end.
Fixpoint insert_pair (p : nat * nat) (l : list (nat * nat)) : list (nat * nat) :=
  match l with
  | [] => [p]
  | q :: r => if Nat.ltb (fst p) (fst q) then p :: l else q :: insert_pair p r
  end.
Definition store_exec (c : scall) (l : store) : store * R :=
  match c with
  | SSet s k v => (sremove s k l ++ [((s, k), v)], [5])                 (* INSERT OR REPLACE *)
  | SGetV s k => (l, match slookup s k l with Some v => [1; v] | None => [4] end)
  | SDel s k => (sremove s k l, [5])
  | SGetData s => (l, 6 :: flat (fold_right insert_pair [] (map (fun e => (snd (fst e), snd e)) (filter (fun e => Nat.eqb (fst (fst e)) s) l))))
  | SDelData s => (filter (fun e => negb (Nat.eqb (fst (fst e)) s)) l, [5])
  | SFail _ => (l, [8])
  | SFind k v => (l, 7 :: fold_right insert_sorted [] (map (fun e => fst (fst e)) (filter (fun e => Nat.eqb (snd (fst e)) k && Nat.eqb (snd e) v) l)))
  end.
Definition store_prog (c : scall) : list (mstep store unit (scall * R)) :=
  cs1 (fun l o _ => let '(o', r) := store_exec (fst l) o in ((fst l, r), o')).

(* the bodies of the three single-critical-section programs *)
Definition cache_body (c : ccall) : list ((ccall * R) -> lru -> unit -> (ccall * R) * lru) :=
  [fun l c0 _ => let '(c', r) := lru_exec (fst l) c0 in ((fst l, r), c')].
Definition store_body (c : scall) : list ((scall * R) -> store -> unit -> (scall * R) * store) :=
  [fun l o _ => let '(o', r) := store_exec (fst l) o in ((fst l, r), o')].
Definition text_body contents bad ce (c : tcall) : list (tls -> tobj -> nat -> tls * tobj) :=
  [t_stat ce; t_read contents bad ce].

(* ================= 4. YamlTargetSource.get_data ================= *)
(* world = current version index of every data file; table f v = content of file f in version v;
   one system, one tree: the call reads the files of [tree] in order (a file may occur twice) *)
Definition ydata := list (nat * nat).
Definition ymerge (a b : ydata) : ydata :=                              (* merge_data_trees on flat dicts *)
  fold_left (fun acc p => match alookup (fst p) acc with
                          | Some _ => map (fun q => if Nat.eqb (fst q) (fst p) then p else q) acc
                          | None => acc ++ [p]
                          end) b a.
Record yitem := { snap : list (nat * nat); yresult : ydata }.
Record yls := { old : option yitem; reads : list (nat * nat); out : ydata }.
Definition yls_begin (c : unit) : yls := {| old := None; reads := []; out := [] |}.
Fixpoint pairs_eqb (a b : list (nat * nat)) : bool :=
  match a, b with
  | [], [] => true
  | (x, y) :: a', (x', y') :: b' => Nat.eqb x x' && Nat.eqb y y' && pairs_eqb a' b'
  | _, _ => false
  end.

Section Yaml.
  Variable table : nat -> nat -> ydata.
  Variable tree : list nat.
  Variable once : bool.            (* fe12c42: a file already processed in this run is not rendered again *)

  Definition yspec (rd : list (nat * nat)) : ydata :=
    fold_left (fun acc p => ymerge acc (table (fst p) (snd p))) rd [].

  Definition y_get (l : yls) (o : option yitem) (w : list nat) : yls * option yitem :=
    ({| old := o; reads := []; out := [] |}, o).
  Definition y_read (f : nat) (l : yls) (o : option yitem) (w : list nat) : yls * option yitem :=
    let v := match (if once then alookup f (reads l) else None) with
             | Some v0 => v0
             | None => nth f w 0
             end in
    let rd := reads l ++ [(f, v)] in
    ({| old := old l; reads := rd; out := ymerge (out l) (table f v) |}, o).
  (* a file version whose content is the single pair (0, 0) stands for an unparsable / unreadable file:
     compile_data raises, the exception is the call's answer [8] and nothing is stored in the cache *)
  Definition ybadv (p : nat * nat) : bool := pairs_eqb (table (fst p) (snd p)) [(0, 0)].
  Definition rd_bad (rd : list (nat * nat)) : bool := existsb ybadv rd.
  Definition yans (rd : list (nat * nat)) : R := if rd_bad rd then [8] else flat (yspec rd).
  Definition y_set (l : yls) (o : option yitem) (w : list nat) : yls * option yitem :=
    if rd_bad (reads l) then (l, o) else
    let res := match old l with
               | Some it => if pairs_eqb (snap it) (reads l) then yresult it else out l
               | None => out l
               end in
    ({| old := old l; reads := reads l; out := res |}, Some {| snap := reads l; yresult := res |}).
  (* shared = true: mutation "one compiler object shared between calls": the per-call state (reads, out)
     lives in the shared object instead of the thread *)
  Definition yaml_prog (c : unit) : list (mstep (option yitem) (list nat) yls) :=
    [Acq; Step y_get; Rel] ++ map (fun f => Step (y_read f)) tree ++ [Acq; Step y_set; Rel].
  Definition yret (l : yls) : R := if rd_bad (reads l) then [8] else flat (out l).
End Yaml.

Fixpoint bump (f : nat) (w : list nat) : list nat :=
  match w, f with
  | [], _ => []
  | x :: r, 0 => S x :: r
  | x :: r, S k => x :: bump k r
  end.
(* all file states of a run that starts in w and sees the edits [envs] *)
Fixpoint worlds_of (w : list nat) (envs : list nat) : list (list nat) :=
  match envs with [] => [w] | e :: r => w :: worlds_of (bump e w) r end.
(* the data a call must return when the files are in state w *)
Definition snapshot_of (tree : list nat) (w : list nat) : list (nat * nat) := map (fun f => (f, nth f w 0)) tree.
