(* Executable statement of the documented matching rule (C06) and of the file a
   directory-mode request names (C04), written on whole strings and independent
   of the segment-wise code of the handler.  Definitions only. *)
From Coq Require Import List NArith Bool Arith.
From VF Require Import FileH.Str FileH.Unquote FileH.Handler.
Import ListNotations.
Open Scope N_scope.

(* configured path = pathA ++ placeholder ++ pathB (with lookup) or pathR (without) *)
Definition pathA (r : rp) : str := join SL (pre_segs r ++ [ph_pre r]).
Definition pathB (r : rp) : str := join SL (ph_suf r :: suf_segs r).
Definition pathR (r : rp) : str := join SL (pre_segs r).

(* file mode: nothing may follow; directory mode: a remaining path starting with "/" must follow *)
Definition extra_okb (c : config) (e : str) : bool :=
  if c_filemode c then is_nil e else starts_with [SL] e.

Definition no_nul (uri : str) : bool := negb (mem_N 0 uri || contains NUL_ENC uri).

(* the configuration request_path = "/" in file mode without lookup (HTTP only) *)
Definition root_file (c : config) (r : rp) : bool :=
  c_filemode c && negb (extract r) && list_str_eqb (pre_segs r) [[]].

(* is Q = v ++ pathB ++ extra with |v| = i an admissible reading? *)
Definition try_split (c : config) (r : rp) (Q : str) (i : nat) : option (str * str) :=
  let v := firstn i Q in
  let rest := skipn i Q in
  let e := skipn (length (pathB r)) rest in
  if negb (is_nil v) && negb (mem_N SL v) && starts_with (pathB r) rest && extra_okb c e
  then Some (v, e) else None.

Fixpoint first_some {A B} (f : A -> option B) (l : list A) : option B :=
  match l with
  | [] => None
  | a :: r => match f a with Some b => Some b | None => first_some f r end
  end.

(* search over every split of the decoded path P: (lookup value, extra path) *)
Definition spec_match (c : config) (r : rp) (P : str) : option (option str * str) :=
  if extract r then
    if starts_with (pathA r) P then
      let Q := skipn (length (pathA r)) P in
      match first_some (try_split c r Q) (seq 1 (length Q)) with
      | Some (v, e) => Some (Some v, e)
      | None => None
      end
    else None
  else
    if root_file c r && eqb_str P [SL] then Some (None, [])
    else
      let e := skipn (length (pathR r)) P in
      if starts_with (pathR r) P && extra_okb c e then Some (None, e) else None.

Definition spec_ctx (c : config) (r : rp) (uri : str) : ctx :=
  if no_nul uri then
    match spec_match c r (uri_path uri) with
    | Some (v, e) => {| matches := true; raw_value := v; extra_path := if is_nil e then None else Some e |}
    | None => no_match
    end
  else no_match.

(* TFTP: a name whose decoded path has no leading slash is read as the same name with the slash *)
Definition norm_name (f : str) : str :=
  if starts_with [SL] (uri_path f) then f else SL :: f.

(* ---- C04: the file a remaining path names below root ---- *)
Definition nonempty (s : str) : bool := negb (is_nil s).
Definition named_segs (extra : str) : list str := filter nonempty (split_on SL extra).
Definition slashed (segs : list str) : str := concat (map (cons SL) segs).

Definition spec_path (c : config) (extra : str) : option str :=
  if mem_N 0 extra || is_nil extra || ends_with [SL] extra then None else
  let segs := named_segs extra in
  if existsb (eqb_str [DOT]) segs || existsb (eqb_str [DOT; DOT]) segs then None
  else Some (c_target c ++ slashed segs ++ c_suffix c).
