(* C17: case/observation types, executable checker [holds], and the sx entry point. *)
From Coq Require Import String.
From Coq Require Import List NArith ZArith Bool Arith.
From VF Require Import Base.Sx Jinja.PosixPath Jinja.Engine Jinja.Allow.
Import ListNotations.
Local Open Scope nat_scope.

Inductive case :=
| CEngine (cfg : config) (h : list step)                                       (* one engine, a history *)
| CAllow (cut limit : nat) (allow : list bytes) (queries : list bytes)         (* one _PythonHelper, a query sequence *)
| CGetitem (allow : list bytes) (modules : list bytes) (attrs : list (bytes * bytes)) (keys : list bytes).
   (* python[key] through a template; modules / attrs: what the Python installation has (oracle tables) *)

Inductive obs :=
| OEngine (results : list (res bytes))              (* one result per Render step *)
| OAllow (granted : list bool) (cache_len : nat)    (* per query: no RuntimeError; len(helper._cache) at the end *)
| OGetitem (outcomes : list N).  (* per key: 0 RuntimeError, 1 a value, 2 ModuleNotFoundError, 3 undefined, 4 ValueError, 5 other *)

(* include chains cannot be longer than the number of files ever written *)
Definition fuel_of (h : list step) : nat := S (length h).

Definition in_mods (mods : list bytes) (m : bytes) : bool := existsb (bytes_eqb m) mods.
Definition in_attrs (attrs : list (bytes * bytes)) (m a : bytes) : bool :=
  existsb (fun p => bytes_eqb (fst p) m && bytes_eqb (snd p) a) attrs.
Definition gcode (g : goutcome) : N :=
  match g with GDenied => 0 | GValue => 1 | GNoModule => 2 | GNoAttr => 3 | GValueError => 4 end%N.

Definition run_model (c : case) : obs :=
  match c with
  | CEngine cfg h => OEngine (run (fuel_of h) cfg est0 h)
  | CAllow cut limit allow qs => let '(c', bs) := check_all cut limit allow [] qs in OAllow bs (length c')
  | CGetitem allow mods attrs keys => OGetitem (map (fun k => gcode (getitem 1 allow (in_mods mods) (in_attrs attrs) k)) keys)
  end.

(* ---------- comparison ---------- *)
Definition res_eqb (a b : res bytes) : bool :=
  match a, b with
  | Ok x, Ok y => bytes_eqb x y
  | ENotFound, ENotFound => true | ETypeError, ETypeError => true | EFuel, EFuel => true
  | EBroken a, EBroken b => N.eqb a b
  | _, _ => false
  end.
Fixpoint list_eqb {A} (f : A -> A -> bool) (l1 l2 : list A) : bool :=
  match l1, l2 with
  | [], [] => true
  | a :: r1, b :: r2 => f a b && list_eqb f r1 r2
  | _, _ => false
  end.
Definition is_te (r : res bytes) : bool := match r with ETypeError => true | _ => false end.

(* variants of the specification used only to name the violated clause *)
Definition flip_rel (cfg : config) : config :=
  {| root_dir := root_dir cfg; cache_enabled := cache_enabled cfg; relative_includes := negb (relative_includes cfg);
     cwd := cwd cfg; arity_bug := arity_bug cfg; base_ctx := base_ctx cfg |}.
Definition no_base (cfg : config) : config :=
  {| root_dir := root_dir cfg; cache_enabled := cache_enabled cfg; relative_includes := relative_includes cfg;
     cwd := cwd cfg; arity_bug := arity_bug cfg; base_ctx := [] |}.
Definition caller_wins (cfg : config) (h : list step) : list step :=
  map (fun s => match s with Render n caller => Render n (merge_ctx (base_ctx cfg) caller) | e => e end) h.

Fixpoint first_occurrence_wrong (allow : list bytes) (seen : list bytes) (qs : list bytes) (bs : list bool) : bool :=
  match qs, bs with
  | q :: qr, b :: br =>
      (negb (existsb (bytes_eqb q) seen) && negb (Bool.eqb b (allowed 1 allow q)))
      || first_occurrence_wrong allow (q :: seen) qr br
  | _, _ => false
  end.

(* failed clauses of the property for observation o (empty list = holds) *)
Definition holds (c : case) (o : obs) : list string :=
  match c, o with
  | CEngine cfg h, OEngine rs =>
      let fuel := fuel_of h in
      let want := run_spec fuel cfg est0 h in
      if list_eqb res_eqb rs want then []
      else if existsb is_te rs then ["render_never_fails_from_cache"%string]
      else if list_eqb res_eqb rs (run_spec fuel (flip_rel cfg) est0 h) then ["include_relative"%string]
      else if list_eqb res_eqb rs (run_spec fuel (no_base cfg) est0 (caller_wins cfg h)) then ["config_context_wins"%string]
      else ["edits_visible"%string]
  | CAllow _ limit allow qs, OAllow bs n =>
      (if list_eqb Bool.eqb bs (map (allowed 1 allow) qs) then []
       else if first_occurrence_wrong allow [] qs bs || negb (Nat.eqb (length bs) (length qs))
            then ["allow_spec"%string] else ["allow_cache_transparent"%string]) ++
      (if n <=? Nat.max limit 1 then [] else ["allow_cache_reset"%string])
  | CGetitem allow mods attrs keys, OGetitem os =>
      let want := map (fun k => gcode (getitem 1 allow (in_mods mods) (in_attrs attrs) k)) keys in
      if list_eqb N.eqb os want then []
      else if existsb (fun p => N.eqb (fst p) 1 && negb (N.eqb (snd p) 1)) (combine os want)
           then ["python_access_confined"%string]          (* a value where the allow-list / module structure gives none *)
           else ["python_getitem"%string]
  | _, _ => ["observation_kind"%string]
  end.

Definition valid (c : case) : Prop :=
  match c with
  | CEngine cfg h => arity_bug cfg = false /\ history_ok cfg h = true
  | CAllow cut _ _ _ => cut = 1
  | CGetitem _ _ _ _ => True
  end.

(* [valid] as a boolean (C17.Props.C17_validb_valid): no arity bug and, for the cached FileSystemLoader, a history
   whose edits all change the mtime (everything else is D18); the unmutated allow-list test *)
Definition validb (c : case) : bool :=
  match c with
  | CEngine cfg h => negb (arity_bug cfg) && history_ok cfg h
  | CAllow cut _ _ _ => Nat.eqb cut 1
  | CGetitem _ _ _ _ => true
  end.

(* ---------- sx ---------- *)
Definition dec_pair (x : sx) : option (bytes * bytes) := match x with L [B a; B b] => Some (a, b) | _ => None end.
Definition dec_item (x : sx) : option item :=
  match x with
  | L [I 0%Z; B s] => Some (Text s) | L [I 1%Z; B s] => Some (Var s)
  | L [I 2%Z; B s] => Some (Include s) | L [I 3%Z; B s] => Some (Import s) | L [I 4%Z; B s] => Some (IncludeOpt s)
  | _ => None
  end.
Definition dec_content (x : sx) : option content :=
  match x with
  | L [its; B e] => obind (asListOf dec_item its) (fun its => Some {| items := its; export := e; broken := 0 |})
  | L [its; B e; k] => obind (asListOf dec_item its) (fun its => obind (asN k) (fun k =>
                       Some {| items := its; export := e; broken := k |}))
  | _ => None
  end.
Definition dec_step (x : sx) : option step :=
  match x with
  | L [I 0%Z; B p; L []; k] => obind (asBool k) (fun k => Some (Edit p None k))
  | L [I 0%Z; B p; L [ct]; k] => obind (asBool k) (fun k => obind (dec_content ct) (fun ct => Some (Edit p (Some ct) k)))
  | L [I 1%Z; B n; cx] => obind (asListOf dec_pair cx) (fun cx => Some (Render n cx))
  | _ => None
  end.
Definition dec_cfg (x : sx) : option config :=
  match x with
  | L [r; ce; rel; B cw; bug; base] =>
      obind (match r with L [] => Some None | L [B rr] => Some (Some rr) | _ => None end) (fun r =>
      obind (asBool ce) (fun ce => obind (asBool rel) (fun rel => obind (asBool bug) (fun bug =>
      obind (asListOf dec_pair base) (fun base =>
      Some {| root_dir := r; cache_enabled := ce; relative_includes := rel; cwd := cw; arity_bug := bug;
              base_ctx := base |})))))
  | _ => None
  end.
Definition dec_res (x : sx) : option (res bytes) :=
  match x with
  | L [I 0%Z; B s] => Some (Ok s) | L [I 1%Z] => Some ENotFound | L [I 2%Z] => Some ETypeError | L [I 3%Z] => Some EFuel
  | L [I 4%Z; k] => obind (asN k) (fun k => Some (EBroken k))
  | _ => None
  end.
Definition dec_obs (x : sx) : option obs :=
  match x with
  | L [I 0%Z; rs] => obind (asListOf dec_res rs) (fun rs => Some (OEngine rs))
  | L [I 1%Z; bs; n] => obind (asListOf asBool bs) (fun bs => obind (asNat n) (fun n => Some (OAllow bs n)))
  | L [I 2%Z; os] => obind (asListOf asN os) (fun os => Some (OGetitem os))
  | _ => None
  end.
Definition decode (x : sx) : option (case * obs) :=
  match x with
  | L [I 0%Z; cfg; h; io] =>
      obind (dec_cfg cfg) (fun cfg => obind (asListOf dec_step h) (fun h => obind (dec_obs io) (fun io =>
      Some (CEngine cfg h, io))))
  | L [I 1%Z; cut; lim; al; qs; io] =>
      obind (asNat cut) (fun cut => obind (asNat lim) (fun lim => obind (asListOf asB al) (fun al =>
      obind (asListOf asB qs) (fun qs => obind (dec_obs io) (fun io => Some (CAllow cut lim al qs, io))))))
  | L [I 2%Z; al; mods; attrs; keys; io] =>
      obind (asListOf asB al) (fun al => obind (asListOf asB mods) (fun mods => obind (asListOf dec_pair attrs) (fun attrs =>
      obind (asListOf asB keys) (fun keys => obind (dec_obs io) (fun io => Some (CGetitem al mods attrs keys, io))))))
  | _ => None
  end.

Definition enc_res (r : res bytes) : sx :=
  match r with Ok s => L [I 0%Z; B s] | ENotFound => L [I 1%Z] | ETypeError => L [I 2%Z] | EFuel => L [I 3%Z]
  | EBroken k => L [I 4%Z; sxN k] end.
Definition enc_obs (o : obs) : sx :=
  match o with
  | OEngine rs => L [I 0%Z; L (map enc_res rs)]
  | OAllow bs n => L [I 1%Z; L (map sxBool bs); sxNat n]
  | OGetitem os => L [I 2%Z; L (map sxN os)]
  end.

Definition spec_obs (c : case) : sx :=
  match c with
  | CEngine cfg h => L (map enc_res (run_spec (fuel_of h) cfg est0 h))
  | CAllow _ _ allow qs => L (map sxBool (map (allowed 1 allow) qs))
  | CGetitem allow mods attrs keys => L (map (fun k => sxN (gcode (getitem 1 allow (in_mods mods) (in_attrs attrs) k))) keys)
  end.

Definition entry (x : sx) : sx :=
  match decode x with
  | None => sxS "bad-case"
  | Some (c, io) =>
      let m := run_model c in
      L [ enc_obs m; L (map sxS (holds c m)); L (map sxS (holds c io)); spec_obs c; sxBool (validb c) ]
  end.
