(* C09 (transfer part) - no datagram from the peer or from a foreign address reaches the
   internal-error path; TIDs are isolated.  Property theorems only. *)
From Coq Require Import String.
From Coq Require Import List NArith ZArith Bool Arith Lia.
From VF Require Import Tftp.Readers Tftp.Codec Tftp.Transfer Tftp.Run Tftp.Monitor Tftp.MonitorProofs
  Tftp.Entries C09.Entry.
Import ListNotations.

Theorem C09_monitor_accepts : forall c, valid c -> monitor c (run_transfer_case c) = [].
Proof. exact monitor_accepts. Qed.
Print Assumptions C09_monitor_accepts.

Theorem C09_holds : forall c, valid c -> holds c (run_transfer_case c) = [].
Proof. intros c H. unfold holds. rewrite monitor_accepts by exact H. reflexivity. Qed.
Print Assumptions C09_holds.

(* the driver reports for every evaluated case whether it satisfies the hypotheses of the theorems
   (flag `covered` of Tftp.Entries.tftp_entry): where the flag is 1 the theorem above applies *)
Theorem C09_covered_cases : forall c, validb c = true -> holds c (run_transfer_case c) = [].
Proof. intros c H. apply C09_holds. apply validb_valid. exact H. Qed.
Print Assumptions C09_covered_cases.

(* the behaviour before the repair of D5 (ErrorCode(n) for n > 8 escaping decode_error)
   reaches the internal-error path on an ERROR packet with code 9 *)
Definition d5_case : tcase :=
  {| t_content := [1; 2; 3]%N; t_chunks := []; t_netascii := false; t_options := [];
     t_limits := {| max_bs := 65464; max_tmo := 30720; default_tmo := 2048 |}; t_retries := 1; t_wrap := Some 0%N;
     t_kind := KNoFileno; t_events := [Recv 5 0%N [0; 5; 0; 9; 0]%N];
     t_proc := 0; t_v := {| retry_fallthrough := false; errcode_raises := true; late_recv := false |}; t_nv := ncurrent; t_na_always_skip := false |}.
Theorem C09_refuted_D5_errcode : holds d5_case (run_transfer_case d5_case) <> [].
Proof. vm_compute. discriminate. Qed.

(* classification of datagrams is total: every byte string is an ACK with its number, a peer
   ERROR, or invalid; never the internal-error class *)
Theorem C09_classify_total : forall d, classify current d <> CInternal.
Proof.
  intros d. unfold classify. cbn [current errcode_raises andb].
  repeat match goal with
         | |- context [match ?x with _ => _ end] => destruct x; try discriminate
         end.
Qed.
Print Assumptions C09_classify_total.
