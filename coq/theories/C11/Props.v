(* C11 - YAML target source compiles the documented targeting / include / merge semantics.
   Property theorems only; each is closed by a lemma from the proof files. *)
From Coq Require Import String.
From Coq Require Import List NArith ZArith Bool Arith Lia.
From VF Require Import Base.Sx PyVal.Val PyVal.ValProofs PyVal.Codec Merge.Merge Yaml.Target Yaml.TargetProofs
  Yaml.Exec C11.Entry C11.EntryProofs.
Import ListNotations.

(* the optimised three cases of _process_data_file_content = items before the include key, its value,
   items after it *)
Theorem C11_split_three_way_eq : forall d, wf (VDict d) = true -> norm3 (split_code d) = split_spec d.
Proof. exact split_three_way. Qed.
Print Assumptions C11_split_three_way_eq.

(* the name used for resolving relative includes (the ".init" trick) minus its last segment is the
   directory that really contains the including file; k+1 leading dots climb k levels from there,
   leaving the root or naming nothing but dots is refused *)
Theorem C11_relative_include_is_directory_relative : forall C t n rn p,
  resolve C t n = Ok (rn, p) ->
  removelast rn = removelast p /\
  (forall k c s, (c =? DOT)%N = false ->
     resolve_rel rn (VStr (dots (S k) (c :: s))) =
       match up k (removelast p) with
       | Some d => Ok (d ++ split_dots (c :: s))
       | None => Err RuntimeError
       end) /\
  (forall k, resolve_rel rn (VStr (dots (S k) [])) = Err RuntimeError).
Proof.
  intros C t n rn p E. pose proof (resolve_directory C t n rn p E) as Ed. split; [exact Ed|]. split.
  - intros k c s Ec. rewrite resolve_rel_dots by assumption. rewrite <- Ed.
    destruct rn as [|x r]; [|reflexivity].
    (* rn is never empty *)
    exfalso. unfold resolve in E. destruct (forallb seg_ok n && negb (is_nil n)) eqn:Eok; [|discriminate].
    apply andb_true_iff in Eok as [_ Enn].
    destruct (fs_kind t (removelast n ++ [last n [] ++ suffix C])); try (destruct (fs_kind t (n ++ [s_init ++ suffix C])));
      try discriminate; injection E as E1 _; destruct n; discriminate.
  - intros k. apply resolve_rel_only_dots.
Qed.
Print Assumptions C11_relative_include_is_directory_relative.

(* compile_data with any usable old cache item - in particular none - returns the data of the
   specification, including the class of the exception; [spec_result] is get_data_spec except under the
   pre-ec4c1d7 variant (ValueError when files are selected but contribute no piece) *)
Theorem C11_compile_eq_spec_partial : forall V C H render_o yload matches t pv,
  rerender V = false ->
  (forall text v, yload text = Ok v -> wf v = true) ->
  forall oc, item_ok V C H yload matches pv oc ->
  result_data (compile V C H render_o yload matches t pv oc) = spec_result V C H render_o yload matches t.
Proof. exact compile_spec. Qed.
Print Assumptions C11_compile_eq_spec_partial.

(* for the code as it is now (unpacking defect repaired) the statement is the full one *)
Theorem C11_compile_eq_spec : forall V C H render_o yload matches t pv,
  rerender V = false -> empty_raises V = false ->
  (forall text v, yload text = Ok v -> wf v = true) ->
  result_data (compile V C H render_o yload matches t pv empty_item) = get_data_spec V C H render_o yload matches t.
Proof.
  intros V C H render_o yload matches t pv Hr He Hy.
  rewrite (compile_spec V C H render_o yload matches t pv Hr Hy empty_item (item_ok_empty _ _ _ _ _ _)).
  unfold spec_result. now rewrite He.
Qed.
Print Assumptions C11_compile_eq_spec.

(* no partial data: a successful result is the merge of every piece of the expansion *)
Theorem C11_no_partial_data : forall V C H render_o yload matches t pv d v i,
  rerender V = false ->
  (forall text w, yload text = Ok w -> wf w = true) ->
  compile V C H render_o yload matches t pv empty_item = Ok (d, v, i) ->
  exists ps, spec_pieces V C H render_o yload matches t = Ok ps /\ merge_all C (map fst ps) = Ok d.
Proof.
  intros V C H render_o yload matches t pv d v i Hr Hy E.
  pose proof (compile_spec V C H render_o yload matches t pv Hr Hy empty_item (item_ok_empty _ _ _ _ _ _)) as S.
  rewrite E in S. cbn [result_data] in S. unfold spec_result in S.
  destruct (empty_raises V && empty_pieces_case V C H render_o yload matches t); [discriminate|].
  unfold get_data_spec in S. destruct (spec_pieces V C H render_o yload matches t) as [ps|x]; cbn [bind] in S; [|discriminate].
  now exists ps.
Qed.
Print Assumptions C11_no_partial_data.

(* the expansion never runs out of fuel: a name and its ".init" alias are the only two names that reach
   one file, and the chain of including files is free of duplicates *)
Theorem C11_terminates : forall V C H render_o yload t fl,
  expand_spec V C H render_o yload t (fuel_for t) (initial_parents V) (map name_of_top_elem fl) <> Err OutOfFuel.
Proof.
  intros V C H render_o yload t fl. apply expand_noof.
  - unfold initial_parents. destruct (marker_compared V).
    + split; [repeat constructor; intros []|]. exists [[s_topfile]], []. repeat split; [cbn; lia | constructor].
    + split; [constructor|]. exists [], []. repeat split; [cbn; lia | constructor].
  - apply Forall_forall. intros r Hr. apply in_map_iff in Hr as [x [<- _]]. destruct x; discriminate.
  - unfold fuel_for, initial_parents. destruct (marker_compared V); cbn [length]; lia.
Qed.
Print Assumptions C11_terminates.

Theorem C11_terminates_model : forall V C H render_o yload t fl oc,
  rerender V = false ->
  (forall text v, yload text = Ok v -> wf v = true) ->
  oc_ok H yload oc ->
  pfiles V C H render_o yload t (fuel_for t) oc (initial_parents V) (map name_of_top_elem fl) [] <> Err OutOfFuel.
Proof.
  intros V C H render_o yload t fl oc Hr Hy Hoc E.
  pose proof (pfiles_rel V C H render_o yload t Hr Hy oc Hoc (fuel_for t) (initial_parents V) (map name_of_top_elem fl) []
                (nc_ok_nil _ _ _ _ _)) as R.
  rewrite E in R. now apply (C11_terminates V C H render_o yload t fl).
Qed.
Print Assumptions C11_terminates_model.

(* the preceding data is never merged into the result: the data depends on it only through the rendered
   texts and the target matches (the specification has no other access to it), whatever its version and
   whatever usable cache item is at hand *)
Theorem C11_preceding_not_merged : forall V C H render_o yload matches t pv pv' oc oc',
  rerender V = false ->
  (forall text v, yload text = Ok v -> wf v = true) ->
  item_ok V C H yload matches pv oc -> item_ok V C H yload matches pv' oc' ->
  result_data (compile V C H render_o yload matches t pv oc) =
  result_data (compile V C H render_o yload matches t pv' oc').
Proof.
  intros. rewrite !compile_spec by assumption. reflexivity.
Qed.
Print Assumptions C11_preceding_not_merged.

(* ---- faults: a call of the operating system that fails is the result of the operation ----
   If os.stat of name.yaml fails with an error other than "not there" (node Broken), resolution raises OSError:
   it does not fall back to name/init.yaml, whatever is there.  The same for init.yaml when name.yaml is absent,
   and for top.yaml.  A file that can be examined but not read (node Unreadable) is resolved normally and reading
   it is a RuntimeError (the except clause around render). *)
Theorem C11_stat_fault_is_not_absence : forall C t n,
  forallb seg_ok n && negb (is_nil n) = true ->
  (fs_kind t (removelast n ++ [last n [] ++ suffix C]) = Broken -> resolve C t n = Err OSError) /\
  ((fs_kind t (removelast n ++ [last n [] ++ suffix C]) = NoEnt \/ fs_kind t (removelast n ++ [last n [] ++ suffix C]) = Dir) ->
   fs_kind t (n ++ [s_init ++ suffix C]) = Broken -> resolve C t n = Err OSError).
Proof.
  intros C t n Hok. unfold resolve. rewrite Hok. split.
  - intros ->. reflexivity.
  - intros [-> | ->] ->; reflexivity.
Qed.
Print Assumptions C11_stat_fault_is_not_absence.

Theorem C11_top_fault : forall V C H render_o yload matches t,
  (fs_kind t (top_path C) = Broken -> get_data_spec V C H render_o yload matches t = Err OSError) /\
  (fs_kind t (top_path C) = Unreadable -> get_data_spec V C H render_o yload matches t = Err RuntimeError).
Proof.
  intros. unfold get_data_spec, spec_pieces, spec_top, render_path. split; intros ->; reflexivity.
Qed.
Print Assumptions C11_top_fault.

Theorem C11_unreadable_file_is_runtime_error : forall C H render_o yload t p,
  fs_kind t p = Unreadable -> load_file C H render_o yload t p = Err RuntimeError /\ spec_load C H render_o yload t p = Err RuntimeError.
Proof. intros C H render_o yload t p E. unfold load_file, spec_load, render_path. rewrite E. split; reflexivity. Qed.
Print Assumptions C11_unreadable_file_is_runtime_error.

Theorem C11_holds : forall c, valid c -> holds c (run_model c) = [].
Proof. exact holds_model. Qed.
Print Assumptions C11_holds.

(* the driver's `covered` flag (5th item of the entry's answer) is exactly the hypothesis of C11_holds: the variant is
   the current one and every value in the YAML table is well formed - both decidable from the case *)
Theorem C11_validb_valid : forall c, validb c = true -> valid c.
Proof. intros c H. exact H. Qed.
Print Assumptions C11_validb_valid.
Theorem C11_covered_cases : forall c, validb c = true -> holds c (run_model c) = [].
Proof. intros c H. apply C11_holds. exact H. Qed.
Print Assumptions C11_covered_cases.

(* ---- before dfdd8ff (finding D25): file names were compared with the marker "top file" that starts the list of parent
   files, so a data file of that name was reported as an include loop although nothing is cyclic ---- *)
Definition pre_dfdd8ff : variants := {| tag_after := true; rerender := false; marker_compared := true; empty_raises := false |}.
Definition T_tf : str := [52]%N.
Definition case_top_file (V : variants) : case :=
  {| cV := V; cC := {| allow_empty_top := false; cfg_ml := false; cfg_ms := true; engine_on := false; suffix := s_yaml |};
     cO := {| o_render := [];
              o_yload := [([49]%N, Ok (VDict [(VStr (bytes_of_string "*"), VList [VStr s_topfile])]));
                          (T_tf, Ok (VDict [(VStr (bytes_of_string "t"), VInt 1)]))];
              o_match := [(bytes_of_string "*", Ok true)] |};
     cT := [([bytes_of_string "top.yaml"], File [49]%N); ([s_topfile ++ s_yaml], File T_tf)];
     cPv := [] |}.
Theorem C11_refuted_D25_top_file_marker :
  run_model (case_top_file pre_dfdd8ff) = Err RuntimeError /\
  holds (case_top_file pre_dfdd8ff) (run_model (case_top_file pre_dfdd8ff)) = ["unexpected_error"%string] /\
  run_model (case_top_file current_variants) = Ok [(VStr (bytes_of_string "t"), VInt 1)] /\
  holds (case_top_file current_variants) (run_model (case_top_file current_variants)) = [].
Proof. repeat split; vm_compute; reflexivity. Qed.

(* a real cycle through a file of that name is still a cycle *)
Example C11_top_file_cycle_still_detected :
  run_model {| cV := current_variants; cC := cC (case_top_file current_variants);
               cO := {| o_render := [];
                        o_yload := [([49]%N, Ok (VDict [(VStr (bytes_of_string "*"), VList [VStr s_topfile])]));
                                    (T_tf, Ok (VDict [(VStr s_include, VList [VStr s_topfile])]))];
                        o_match := [(bytes_of_string "*", Ok true)] |};
               cT := cT (case_top_file current_variants); cPv := [] |} = Err RuntimeError.
Proof. vm_compute. reflexivity. Qed.

(* ---- before ec4c1d7 (finding D17): files selected, no piece -> ValueError instead of {} ---- *)
Definition pre_ec4c1d7 : variants := {| tag_after := true; rerender := false; marker_compared := false; empty_raises := true |}.
Definition cfg0 : config := {| allow_empty_top := false; cfg_ml := false; cfg_ms := true; engine_on := false; suffix := s_yaml |}.
Definition T_top : str := [49]%N.
Definition T_a : str := [50]%N.
Definition T_b : str := [51]%N.
Definition vs (s : string) : val := VStr (bytes_of_string s).
Definition case_empty : case :=
  {| cV := pre_ec4c1d7; cC := cfg0;
     cO := {| o_render := [];
              o_yload := [(T_top, Ok (VDict [(vs "*", VList [vs "a"])])); (T_a, Ok (VDict []))];
              o_match := [(bytes_of_string "*", Ok true)] |};
     cT := [([bytes_of_string "top.yaml"], File T_top); ([bytes_of_string "a.yaml"], File T_a)];
     cPv := [] |}.
Theorem C11_refuted_empty_pieces :
  run_model case_empty = Err ValueError /\ run_spec (no_marker (cV case_empty)) (cC case_empty) (cO case_empty) (cT case_empty) = Ok [] /\
  holds case_empty (run_model case_empty) = ["empty_piece_list_raises"%string] /\
  holds case_empty (run_model {| cV := current_variants; cC := cC case_empty; cO := cO case_empty; cT := cT case_empty; cPv := [] |}) = [].
Proof. repeat split; vm_compute; reflexivity. Qed.

(* ---- non-vacuity: a tree with a relative include in the middle of a file reached through init.yaml ---- *)
Definition case_nv : case :=
  {| cV := current_variants; cC := cfg0;
     cO := {| o_render := [];
              o_yload := [(T_top, Ok (VDict [(vs "*", VList [vs "d"])]));
                          (T_a, Ok (VDict [(vs "k", VInt 1); (vs "include", VList [vs ".x"]); (vs "m", VInt 1)]));
                          (T_b, Ok (VDict [(vs "k", VInt 2); (vs "n", VInt 2)]))];
              o_match := [(bytes_of_string "*", Ok true)] |};
     cT := [([bytes_of_string "top.yaml"], File T_top); ([bytes_of_string "d"], Dir);
            ([bytes_of_string "d"; bytes_of_string "init.yaml"], File T_a);
            ([bytes_of_string "d"; bytes_of_string "x.yaml"], File T_b)];
     cPv := [] |}.
Example C11_nonvacuous :
  valid case_nv /\
  run_model case_nv = Ok [(vs "k", VInt 2); (vs "n", VInt 2); (vs "m", VInt 1)].
Proof. split; vm_compute; reflexivity. Qed.
