(* The executable checker of C11 accepts the model. *)
From Coq Require Import String.
From Coq Require Import List NArith ZArith Bool Arith Lia.
From VF Require Import Base.Sx PyVal.Val PyVal.ValProofs PyVal.Codec Merge.Merge Yaml.Target Yaml.TargetProofs Yaml.Exec C11.Entry.
Import ListNotations.

Lemma table_fun_in {A} (tbl : list (str * res A)) s a : table_fun tbl s = Ok a -> In (s, Ok a) tbl.
Proof.
  unfold table_fun, table_get. destruct (find (fun p => str_eqb s (fst p)) tbl) as [[k r]|] eqn:Ef; [|discriminate].
  apply find_some in Ef as [Hin Hk]. cbn [fst snd] in *. apply str_eqb_eq in Hk. subst k. intros ->. exact Hin.
Qed.

Lemma yload_table_wf tbl : forallb res_wf tbl = true -> forall text v, table_fun tbl text = Ok v -> wf v = true.
Proof.
  intros Hall text v E. apply table_fun_in in E. rewrite forallb_forall in Hall. apply (Hall _ E).
Qed.

Lemma variants_eqb_eq a b : variants_eqb a b = true -> a = b.
Proof.
  destruct a as [a1 a2 a4 a3], b as [b1 b2 b4 b3]. unfold variants_eqb. cbn.
  intros E. apply andb_true_iff in E as [E E4]. apply andb_true_iff in E as [E E3]. apply andb_true_iff in E as [E1 E2].
  apply Bool.eqb_prop in E1, E2, E3, E4. now subst.
Qed.

Lemma exc_eqb_refl e : exc_eqb e e = true.
Proof. apply Z.eqb_refl. Qed.

Lemma run_model_spec c : valid c -> run_model c = run_spec (no_marker (cV c)) (cC c) (cO c) (cT c).
Proof.
  unfold valid, validb. intros Hv. apply andb_true_iff in Hv as [Hv Hy].
  apply variants_eqb_eq in Hv.
  pose proof (compile_spec (cV c) (cC c) model_H (table_fun (o_render (cO c))) (table_fun (o_yload (cO c)))
                (table_fun (o_match (cO c))) (cT c) (cPv c)) as S.
  rewrite Hv in S. specialize (S eq_refl (yload_table_wf _ Hy) empty_item (item_ok_empty _ _ _ _ _ _)).
  change (run_model c) with (result_data (compile (cV c) (cC c) model_H (table_fun (o_render (cO c)))
            (table_fun (o_yload (cO c))) (table_fun (o_match (cO c))) (cT c) (cPv c) empty_item)).
  rewrite Hv, S.
  unfold spec_result, run_spec. reflexivity.
Qed.

Lemma holds_model c : valid c -> holds c (run_model c) = [].
Proof.
  intros Hv. unfold holds. rewrite (run_model_spec c Hv).
  destruct (run_spec (no_marker (cV c)) (cC c) (cO c) (cT c)) as [d|e].
  - unfold same_dict. now rewrite same_refl.
  - now rewrite exc_eqb_refl.
Qed.
