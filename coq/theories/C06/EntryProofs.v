(* The executable checker of C06 accepts the model (for the current variant). *)
From Coq Require Import String.
From Coq Require Import List NArith ZArith Bool Arith Lia.
From VF Require Import Base.Sx FileH.Str FileH.StrProofs FileH.Unquote FileH.Handler FileH.Spec FileH.Codec
  FileH.MatchProofs C06.Entry.
Import ListNotations.
Open Scope N_scope.

Lemma opt_str_eqb_refl a : opt_str_eqb a a = true.
Proof. destruct a; cbn; [apply eqb_str_refl|reflexivity]. Qed.
Lemma ctx_eqb_refl x : ctx_eqb x x = true.
Proof. unfold ctx_eqb. now rewrite eqb_reflx, !opt_str_eqb_refl. Qed.
Lemma list_eqb_refl {A} (e : A -> A -> bool) (H : forall a, e a a = true) l : list_eqb e l l = true.
Proof. induction l; cbn; [reflexivity|]. now rewrite H, IHl. Qed.
Lemma call_eqb_refl a : call_eqb a a = true.
Proof. destruct a; cbn; now rewrite ?eqb_str_refl. Qed.
Lemma tcobs_eqb_refl a : tcobs_eqb a a = true.
Proof.
  destruct a as [[[ks i] d] u]. unfold tcobs_eqb.
  now rewrite (list_eqb_refl _ eqb_str_refl), !opt_str_eqb_refl, eqb_str_refl.
Qed.
Lemma hobs_eqb_refl a : hobs_eqb a a = true.
Proof.
  unfold hobs_eqb. rewrite (list_eqb_refl _ call_eqb_refl), N.eqb_refl, opt_str_eqb_refl. cbn [andb].
  destruct (h_tc a); [apply tcobs_eqb_refl|reflexivity].
Qed.
Lemma ohobs_eqb_refl a : ohobs_eqb a a = true.
Proof. destruct a; cbn; [apply hobs_eqb_refl|reflexivity]. Qed.

Lemma handler_init_wf tftp c r : handler_init tftp c = Ok r -> wf r.
Proof.
  unfold handler_init. destruct (_ && _); [discriminate|].
  destruct (init_request_path c) as [r'|] eqn:E; [|discriminate].
  destruct (_ && _ && _); [discriminate|]. intros H; inversion H; subst. eapply init_wf; eauto.
Qed.

Lemma handler_init_http c r : handler_init true c = Ok r -> handler_init false c = Ok r.
Proof.
  unfold handler_init. destruct (_ && _); [discriminate|].
  destruct (init_request_path c) as [r'|]; [|discriminate].
  cbn [andb]. destruct (_ && _); [discriminate|]. auto.
Qed.

Theorem holds_run_model k : valid k -> holds k (run_model k) = [].
Proof.
  unfold valid. intros Hv. unfold holds, run_model. rewrite Hv.
  destruct (handler_init (k_tftp k) (k_cfg k)) as [r|] eqn:Ei; [|reflexivity].
  cbn [o_init negb o_ctx o_can o_handle o_parity].
  pose proof (handler_init_wf _ _ _ Ei) as W.
  assert (Hu : (if k_tftp k then rewrite_filename false (k_uri k) else k_uri k)
               = (if k_tftp k then norm_name (k_uri k) else k_uri k)).
  { destruct (k_tftp k); [apply rewrite_filename_norm|reflexivity]. }
  rewrite Hu. set (eff := if k_tftp k then norm_name (k_uri k) else k_uri k).
  rewrite (prepare_context_spec _ _ _ W).
  rewrite ctx_eqb_refl, eqb_reflx, ohobs_eqb_refl. cbn [app].
  destruct (k_tftp k) eqn:Et; [|reflexivity].
  rewrite (handler_init_http _ _ Ei). cbn [p_norm p_ctx p_handle].
  unfold http_prepare. rewrite (prepare_context_spec _ _ _ W).
  subst eff. now rewrite eqb_str_refl, ctx_eqb_refl, ohobs_eqb_refl.
Qed.
