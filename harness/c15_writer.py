"""C15 helper: writer PROCESS that gets killed.  argv[1] = database file.  Reads one JSON list of
operations from stdin ([["set", s, k, value] | ["setbig", s, k, char, size] | ["del", s, k] | ["delall", s] |
["wait"]]), performs them through the
real vinegar DataStore one after the other and acknowledges each completed operation by writing one
byte 'A' to stdout (unbuffered); writes 'Z' when everything is done and then waits to be killed.
["setbig", ...] stores the str char*size (a statement that spans many pages); ["wait"] writes 'W' and blocks
until the parent sends a line on stdin (so that the parent can sample /proc/<pid>/io before the next statement)."""
import json
import os
import sys
import time

from vinegar.utils.sqlite_store import open_data_store


def main():
    ops = json.loads(sys.stdin.readline())
    store = open_data_store(sys.argv[1])
    os.write(1, b"R")                      # ready: tables exist
    for op in ops:
        if op[0] == "wait":
            os.write(1, b"W")
            sys.stdin.readline()
            continue
        if op[0] == "set":
            store.set_value(op[1], op[2], op[3])
        elif op[0] == "setbig":
            store.set_value(op[1], op[2], op[3] * op[4])
        elif op[0] == "del":
            store.delete_value(op[1], op[2])
        else:
            store.delete_data(op[1])
        os.write(1, b"A")
    os.write(1, b"Z")
    time.sleep(60)


if __name__ == "__main__":
    main()
