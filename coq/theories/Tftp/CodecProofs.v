(* Proofs about the codec and negotiation model (Codec.v) against the
   declarative specification (NegSpec.v): C07, and rrq_roundtrip for C09. *)
From Coq Require Import String.
From Coq Require Import List NArith ZArith Bool Lia.
From Coq Require Import DecimalFacts DecimalPos DecimalN.
From VF Require Import Base.Sx Tftp.Codec Tftp.NegSpec.
Import ListNotations.
Open Scope N_scope.

(* ---------- strings ---------- *)
Lemma str_eqb_refl a : str_eqb a a = true.
Proof. induction a as [|x a IH]; cbn [str_eqb]; [reflexivity|]. now rewrite N.eqb_refl, IH. Qed.

Lemma str_eqb_eq a b : str_eqb a b = true <-> a = b.
Proof.
  split; [|intros ->; apply str_eqb_refl].
  revert b; induction a as [|x a IH]; intros [|y b]; cbn [str_eqb]; try discriminate; [reflexivity|].
  intros H. apply andb_true_iff in H as [H1 H2]. apply N.eqb_eq in H1. subst y. f_equal. now apply IH.
Qed.

Lemma str_eqb_neq a b : str_eqb a b = false <-> a <> b.
Proof.
  split.
  - intros H E. apply str_eqb_eq in E. congruence.
  - intros H. destruct (str_eqb a b) eqn:E; [|reflexivity]. apply str_eqb_eq in E. contradiction.
Qed.

Lemma str_eqb_sym a b : str_eqb a b = str_eqb b a.
Proof.
  destruct (str_eqb a b) eqn:E.
  - apply str_eqb_eq in E. subst. symmetry. apply str_eqb_refl.
  - symmetry. apply str_eqb_neq. apply str_eqb_neq in E. congruence.
Qed.

(* ---------- dictionaries ---------- *)
Lemma dict_get_set d k v k' :
  dict_get (dict_set d k v) k' = if str_eqb k k' then Some v else dict_get d k'.
Proof.
  induction d as [|[k0 v0] d IH]; cbn [dict_set dict_get].
  - reflexivity.
  - destruct (str_eqb k0 k) eqn:E0; cbn [dict_get].
    + apply str_eqb_eq in E0. subst k0. destruct (str_eqb k k'); reflexivity.
    + destruct (str_eqb k0 k') eqn:E1.
      * apply str_eqb_eq in E1. subst k'. rewrite str_eqb_sym, E0. reflexivity.
      * exact IH.
Qed.

Lemma find_app {A} (f : A -> bool) l1 l2 :
  find f (l1 ++ l2) = match find f l1 with Some x => Some x | None => find f l2 end.
Proof. induction l1 as [|x l1 IH]; cbn [find app]; [reflexivity|]. destruct (f x); auto. Qed.

Lemma lower_keys_get_gen opts name : forall acc,
  dict_get (fold_left (fun acc p => dict_set acc (lower (fst p)) (snd p)) opts acc) name =
  match requested opts name with Some v => Some v | None => dict_get acc name end.
Proof.
  unfold requested.
  induction opts as [|p opts IH]; intros acc; cbn [fold_left rev find].
  - reflexivity.
  - rewrite IH, find_app. cbn [find].
    destruct (find _ (rev opts)) as [q|]; [reflexivity|].
    rewrite dict_get_set. destruct (str_eqb (lower (fst p)) name); reflexivity.
Qed.

(* the lower-cased option dictionary of the code yields exactly the specified requested value *)
Lemma lower_keys_get opts name : dict_get (lower_keys opts) name = requested opts name.
Proof.
  unfold lower_keys. rewrite lower_keys_get_gen. cbn [dict_get]. destruct (requested opts name); reflexivity.
Qed.

(* ---------- decimal numbers ---------- *)
Definition dstep (a c : N) : N := a * 10 + (c - 48).
Lemma digits_value_fold s : digits_value s = fold_left dstep s 0.
Proof. reflexivity. Qed.

Lemma fold_pos_acc d : forall acc,
  fold_left dstep (dec_uint d) (Npos acc) = Npos (Pos.of_uint_acc d acc).
Proof.
  induction d; intros acc; cbn [dec_uint fold_left Pos.of_uint_acc]; try reflexivity;
    rewrite <- IHd; f_equal; unfold dstep; lia.
Qed.

Lemma fold_zero_acc d : fold_left dstep (dec_uint d) 0 = Pos.of_uint d.
Proof.
  induction d; cbn [dec_uint fold_left Pos.of_uint]; try reflexivity;
    try (rewrite <- fold_pos_acc; f_equal; unfold dstep; lia).
  rewrite <- IHd. reflexivity.
Qed.

Lemma digits_value_dec_uint d : digits_value (dec_uint d) = N.of_uint d.
Proof. rewrite digits_value_fold. apply fold_zero_acc. Qed.

Lemma dec_nonzero n : n <> 0 -> dec n = dec_uint (N.to_uint n).
Proof. destruct n; [congruence|reflexivity]. Qed.

(* str(n) read back as a number is n *)
Lemma digits_value_dec n : digits_value (dec n) = n.
Proof.
  destruct n as [|p]; [reflexivity|].
  rewrite dec_nonzero by discriminate. rewrite digits_value_dec_uint. apply DecimalN.Unsigned.of_to.
Qed.

Definition nzstart (d : Decimal.uint) : bool :=
  match d with Decimal.Nil | Decimal.D0 _ => false | _ => true end.

Lemma nzhead_shape d : Decimal.nzhead d = Decimal.Nil \/ nzstart (Decimal.nzhead d) = true.
Proof. induction d; cbn [Decimal.nzhead nzstart]; auto. Qed.

Lemma unorm_shape d : Decimal.unorm d = Decimal.zero \/ nzstart (Decimal.unorm d) = true.
Proof.
  unfold Decimal.unorm. destruct (nzhead_shape d) as [H|H].
  - rewrite H. now left.
  - right. destruct (Decimal.nzhead d); cbn in H |- *; try discriminate; reflexivity.
Qed.

Lemma unorm_nzstart d : nzstart d = true -> Decimal.unorm d = d.
Proof. destruct d; cbn; try discriminate; reflexivity. Qed.

Lemma to_uint_nzstart n : 1 <= n -> nzstart (N.to_uint n) = true.
Proof.
  intros Hn.
  assert (E : N.to_uint n = Decimal.unorm (N.to_uint n)).
  { rewrite <- DecimalN.Unsigned.to_of. now rewrite DecimalN.Unsigned.of_to. }
  destruct (unorm_shape (N.to_uint n)) as [H|H].
  - rewrite <- E in H. assert (n = 0); [|lia].
    rewrite <- (DecimalN.Unsigned.of_to n). rewrite H. reflexivity.
  - now rewrite <- E in H.
Qed.

(* digit strings <-> Decimal.uint *)
Fixpoint uint_of_digits (s : str) : Decimal.uint :=
  match s with
  | [] => Decimal.Nil
  | c :: r =>
      let u := uint_of_digits r in
      if c =? 48 then Decimal.D0 u else if c =? 49 then Decimal.D1 u else if c =? 50 then Decimal.D2 u
      else if c =? 51 then Decimal.D3 u else if c =? 52 then Decimal.D4 u else if c =? 53 then Decimal.D5 u
      else if c =? 54 then Decimal.D6 u else if c =? 55 then Decimal.D7 u else if c =? 56 then Decimal.D8 u
      else Decimal.D9 u
  end.

Lemma is_digit_cases c : is_digit c = true ->
  c = 48 \/ c = 49 \/ c = 50 \/ c = 51 \/ c = 52 \/ c = 53 \/ c = 54 \/ c = 55 \/ c = 56 \/ c = 57.
Proof. unfold is_digit. intros H. apply andb_true_iff in H as [H1 H2]. apply N.leb_le in H1, H2. lia. Qed.

Lemma dec_uint_of_digits s : forallb is_digit s = true -> dec_uint (uint_of_digits s) = s.
Proof.
  induction s as [|c r IH]; cbn [forallb uint_of_digits]; [reflexivity|].
  intros H. apply andb_true_iff in H as [Hc Hr]. specialize (IH Hr).
  destruct (is_digit_cases c Hc) as [E|[E|[E|[E|[E|[E|[E|[E|[E|E]]]]]]]]]; subst c; cbn; now rewrite IH.
Qed.

Lemma dec_uint_digits d : forallb is_digit (dec_uint d) = true.
Proof. induction d; cbn [dec_uint forallb]; try reflexivity; rewrite IHd; reflexivity. Qed.

Lemma dec_uint_head d : nzstart d = true ->
  match dec_uint d with c :: _ => (49 <=? c) && (c <=? 57) = true | [] => False end.
Proof. destruct d; cbn; try discriminate; reflexivity. Qed.

Lemma uint_of_digits_nzstart c r : (49 <=? c) && (c <=? 57) = true -> nzstart (uint_of_digits (c :: r)) = true.
Proof.
  intros H. apply andb_true_iff in H as [H1 H2]. apply N.leb_le in H1, H2.
  cbn [uint_of_digits].
  destruct (c =? 48) eqn:E; [apply N.eqb_eq in E; lia|].
  repeat match goal with |- context [if ?b then _ else _] => destruct b end; reflexivity.
Qed.

(* the code's test-and-convert ([1-9][0-9]* then int()) characterised through printing *)
Theorem positive_int_iff s n : positive_int s = Some n <-> 1 <= n /\ s = dec n.
Proof.
  split.
  - destruct s as [|c r]; cbn [positive_int]; [discriminate|].
    destruct ((49 <=? c) && (c <=? 57) && forallb is_digit r) eqn:E; [|discriminate].
    intros H. injection H as H. apply andb_true_iff in E as [E1 E2].
    assert (Hd : forallb is_digit (c :: r) = true).
    { cbn [forallb]. rewrite E2, andb_true_r. unfold is_digit.
      apply andb_true_iff in E1 as [A B]. rewrite B, andb_true_r. apply N.leb_le in A. apply N.leb_le. lia. }
    set (d := uint_of_digits (c :: r)).
    assert (Hs : dec_uint d = c :: r) by (apply dec_uint_of_digits; exact Hd).
    assert (Hnz : nzstart d = true) by (apply uint_of_digits_nzstart; exact E1).
    clearbody d.
    assert (Hn : n = N.of_uint d).
    { rewrite <- H. rewrite <- digits_value_dec_uint, Hs. reflexivity. }
    assert (Hu : N.to_uint n = d).
    { rewrite Hn, DecimalN.Unsigned.to_of. now apply unorm_nzstart. }
    assert (Hn0 : n <> 0).
    { intros ->. cbn in Hu. rewrite <- Hu in Hnz. discriminate. }
    split; [lia|]. rewrite dec_nonzero by exact Hn0. now rewrite Hu.
  - intros [Hn ->]. rewrite dec_nonzero by lia.
    pose proof (to_uint_nzstart n Hn) as Hnz.
    pose proof (dec_uint_head _ Hnz) as Hh. pose proof (dec_uint_digits (N.to_uint n)) as Hd.
    pose proof (digits_value_dec n) as Hv. rewrite dec_nonzero in Hv by lia.
    destruct (dec_uint (N.to_uint n)) as [|c r] eqn:E; [destruct Hh|].
    cbn [positive_int]. cbn [forallb] in Hd. apply andb_true_iff in Hd as [_ Hd]. rewrite Hh, Hd. cbn [andb].
    f_equal. exact Hv.
Qed.

Theorem positive_int_dec n : 1 <= n -> positive_int (dec n) = Some n.
Proof. intros H. apply positive_int_iff. auto. Qed.

Theorem canonical_decimal_iff s n : canonical_decimal s = Some n <-> 1 <= n /\ s = dec n.
Proof.
  unfold canonical_decimal. split.
  - destruct (str_eqb (dec (digits_value s)) s && (1 <=? digits_value s)) eqn:E; [|discriminate].
    intros H. injection H as H. apply andb_true_iff in E as [E1 E2]. apply str_eqb_eq in E1. apply N.leb_le in E2.
    subst n. split; [lia|congruence].
  - intros [Hn ->]. rewrite digits_value_dec, str_eqb_refl. apply N.leb_le in Hn. now rewrite Hn.
Qed.

Lemma positive_int_canonical s : positive_int s = canonical_decimal s.
Proof.
  destruct (positive_int s) as [n|] eqn:E1; destruct (canonical_decimal s) as [m|] eqn:E2; try reflexivity.
  - apply positive_int_iff in E1 as [_ E1]. apply canonical_decimal_iff in E2 as [_ E2].
    f_equal. rewrite <- (digits_value_dec n), <- (digits_value_dec m). congruence.
  - apply positive_int_iff, canonical_decimal_iff in E1. congruence.
  - apply canonical_decimal_iff, positive_int_iff in E2. congruence.
Qed.

Lemma dec_inj a b : dec a = dec b -> a = b.
Proof. intros H. rewrite <- (digits_value_dec a), <- (digits_value_dec b). now rewrite H. Qed.

(* ---------- the negotiation of the code is the specified one ---------- *)
Theorem negotiate_is_spec lim na k opts :
  negotiate ncurrent lim na k opts = spec_negotiated lim (oack_spec lim na k opts).
Proof.
  unfold negotiate, spec_negotiated, oack_spec.
  cbn [blksize_drop_over_max tsize_ignores_pos ncurrent s_blksize s_timeout s_tsize].
  rewrite !lower_keys_get.
  destruct (requested opts (lit "blksize")) as [sb|];
  destruct (requested opts (lit "timeout")) as [st|];
  destruct (requested opts (lit "tsize")) as [ss|];
  rewrite ?positive_int_canonical;
  repeat match goal with
         | |- context [canonical_decimal ?s] => destruct (canonical_decimal s)
         | |- context [8 <=? ?n] => destruct (8 <=? n)
         | |- context [(?n * TICKS_PER_SECOND <=? max_tmo lim) && (1 <=? ?n)] =>
             rewrite (andb_comm (n * TICKS_PER_SECOND <=? max_tmo lim) (1 <=? n));
             destruct ((1 <=? n) && (n * TICKS_PER_SECOND <=? max_tmo lim))
         | |- context [str_eqb ?s (lit "0")] => destruct (str_eqb s (lit "0"))
         end;
  destruct na; try reflexivity; destruct k as [sz ps|sz ps [|]|]; reflexivity.
Qed.

(* ---------- the rules of the property text, one by one ---------- *)
Definition oack_get (r : negotiated) (name : string) : option str := dict_get (n_oack r) (lit name).

Lemma spec_get_blksize lim o : dict_get (n_oack (spec_negotiated lim o)) (lit "blksize") = option_map dec (s_blksize o).
Proof. destruct o as [[b|] [t|] [z|]]; reflexivity. Qed.
Lemma spec_get_timeout lim o : dict_get (n_oack (spec_negotiated lim o)) (lit "timeout") = option_map dec (s_timeout o).
Proof. destruct o as [[b|] [t|] [z|]]; reflexivity. Qed.
Lemma spec_get_tsize lim o : dict_get (n_oack (spec_negotiated lim o)) (lit "tsize") = option_map dec (s_tsize o).
Proof. destruct o as [[b|] [t|] [z|]]; reflexivity. Qed.

(* blksize: a decimal request n >= 8 is acknowledged as min(n, max_block_size) and used;
   anything else is not acknowledged and 512 is used *)
Theorem blksize_rule lim na k opts :
  let r := negotiate ncurrent lim na k opts in
  (forall n, requested opts (lit "blksize") = Some (dec n) -> 8 <= n ->
     oack_get r "blksize" = Some (dec (N.min n (max_bs lim))) /\ n_bs r = N.min n (max_bs lim)) /\
  ((forall n, 8 <= n -> requested opts (lit "blksize") <> Some (dec n)) ->
     oack_get r "blksize" = None /\ n_bs r = 512).
Proof.
  cbv zeta. unfold oack_get. rewrite negotiate_is_spec, spec_get_blksize.
  unfold spec_negotiated, oack_spec; cbn [n_bs s_blksize]. split.
  - intros n Hr Hn. rewrite Hr.
    assert (E : canonical_decimal (dec n) = Some n) by (apply canonical_decimal_iff; split; [lia|reflexivity]).
    rewrite E. apply N.leb_le in Hn. rewrite Hn. split; reflexivity.
  - intros H. destruct (requested opts (lit "blksize")) as [s|]; [|split; reflexivity].
    destruct (canonical_decimal s) as [n|] eqn:E; [|split; reflexivity].
    destruct (8 <=? n) eqn:E8; [|split; reflexivity].
    apply canonical_decimal_iff in E as [_ E]. apply N.leb_le in E8. exfalso. apply (H n E8). now rewrite E.
Qed.

(* timeout: echoed unchanged and used iff decimal within [1, max_timeout]; otherwise the default is used *)
Theorem timeout_rule lim na k opts :
  let r := negotiate ncurrent lim na k opts in
  (forall n, requested opts (lit "timeout") = Some (dec n) -> 1 <= n /\ n * TICKS_PER_SECOND <= max_tmo lim ->
     oack_get r "timeout" = requested opts (lit "timeout") /\ n_tmo r = n * TICKS_PER_SECOND) /\
  ((forall n, 1 <= n /\ n * TICKS_PER_SECOND <= max_tmo lim -> requested opts (lit "timeout") <> Some (dec n)) ->
     oack_get r "timeout" = None /\ n_tmo r = default_tmo lim).
Proof.
  cbv zeta. unfold oack_get. rewrite negotiate_is_spec, spec_get_timeout.
  unfold spec_negotiated, oack_spec; cbn [n_tmo s_timeout]. split.
  - intros n Hr [Hn1 Hn2]. rewrite Hr.
    assert (E : canonical_decimal (dec n) = Some n) by (apply canonical_decimal_iff; split; [lia|reflexivity]).
    rewrite E. apply N.leb_le in Hn1, Hn2. rewrite Hn1, Hn2. split; reflexivity.
  - intros H. destruct (requested opts (lit "timeout")) as [s|]; [|split; reflexivity].
    destruct (canonical_decimal s) as [n|] eqn:E; [|split; reflexivity].
    destruct ((1 <=? n) && (n * TICKS_PER_SECOND <=? max_tmo lim)) eqn:E8; [|split; reflexivity].
    apply canonical_decimal_iff in E as [_ E]. apply andb_true_iff in E8 as [A B]. apply N.leb_le in A, B.
    exfalso. apply (H n (conj A B)). now rewrite E.
Qed.

(* tsize: acknowledged iff the client sent "0", the mode is octet and the size is known;
   the value is the number of bytes the stream still holds *)
Theorem tsize_rule lim na k opts :
  let r := negotiate ncurrent lim na k opts in
  (requested opts (lit "tsize") = Some (lit "0") -> na = false -> forall sz, size_known k = Some sz ->
     oack_get r "tsize" = Some (dec sz)) /\
  (requested opts (lit "tsize") <> Some (lit "0") \/ na = true \/ size_known k = None ->
     oack_get r "tsize" = None).
Proof.
  cbv zeta. unfold oack_get. rewrite negotiate_is_spec, spec_get_tsize.
  unfold oack_spec; cbn [s_tsize]. split.
  - intros Hr -> sz Hk. rewrite Hr, Hk. reflexivity.
  - intros H. destruct (requested opts (lit "tsize")) as [s|]; [|reflexivity].
    destruct (str_eqb s (lit "0")) eqn:E; [|reflexivity]. apply str_eqb_eq in E. subst s.
    destruct na; [reflexivity|]. destruct H as [H|[H|H]]; [congruence|discriminate|]. now rewrite H.
Qed.

Theorem netascii_no_tsize lim k opts : oack_get (negotiate ncurrent lim true k opts) "tsize" = None.
Proof. apply tsize_rule. auto. Qed.

(* an OACK is sent (n_oack <> []) iff at least one option is accepted by the specification *)
Theorem oack_iff_accepted lim na k opts :
  n_oack (negotiate ncurrent lim na k opts) <> [] <-> (1 <= accepted_count (oack_spec lim na k opts))%nat.
Proof.
  rewrite negotiate_is_spec. unfold spec_negotiated, accepted_count; cbn [n_oack].
  destruct (oack_spec lim na k opts) as [[b|] [t|] [z|]]; cbn; split; intros H; try lia; try discriminate; congruence.
Qed.

Lemma requested_in opts name v : requested opts name = Some v ->
  exists k0, In (k0, v) opts /\ lower k0 = name.
Proof.
  unfold requested. destruct (find _ (rev opts)) as [[k0 v0]|] eqn:E; [|discriminate].
  intros H. injection H as <-. apply find_some in E as [Hin Hk]. cbn [fst] in Hk.
  apply str_eqb_eq in Hk. exists k0. split; [|exact Hk]. now apply in_rev.
Qed.

(* the OACK names only options the client sent (names compared case-insensitively) *)
Theorem oack_subset_of_request lim na k opts name v :
  In (name, v) (n_oack (negotiate ncurrent lim na k opts)) ->
  exists k0 v0, In (k0, v0) opts /\ lower k0 = name.
Proof.
  rewrite negotiate_is_spec. unfold spec_negotiated, oack_spec; cbn [n_oack s_blksize s_timeout s_tsize].
  intros H. apply in_app_or in H as [H|H]; [|apply in_app_or in H as [H|H]].
  - destruct (requested opts (lit "blksize")) as [s|] eqn:E; [|destruct H].
    apply requested_in in E as [k0 [A B]].
    destruct (canonical_decimal s); [|destruct H]. destruct (8 <=? n); [|destruct H].
    destruct H as [H|[]]. injection H as <- _. eauto.
  - destruct (requested opts (lit "timeout")) as [s|] eqn:E; [|destruct H].
    apply requested_in in E as [k0 [A B]].
    destruct (canonical_decimal s); [|destruct H]. destruct ((1 <=? n) && (n * TICKS_PER_SECOND <=? max_tmo lim)); [|destruct H].
    destruct H as [H|[]]. injection H as <- _. eauto.
  - destruct (requested opts (lit "tsize")) as [s|] eqn:E; [|destruct H].
    apply requested_in in E as [k0 [A B]].
    destruct (str_eqb s (lit "0") && negb na); [|destruct H]. destruct (size_known k); [|destruct H].
    destruct H as [H|[]]. injection H as <- _. eauto.
Qed.

(* ---------- the repaired defects violate the rules ---------- *)
Definition nv_D2 := {| blksize_drop_over_max := true; tsize_ignores_pos := false |}.
Definition nv_D3 := {| blksize_drop_over_max := false; tsize_ignores_pos := true |}.

(* D2: blksize=1400 with max_block_size 1024 is dropped instead of acknowledged as 1024 *)
Theorem blksize_rule_refuted_D2 :
  exists lim na k opts,
    requested opts (lit "blksize") = Some (dec 1400) /\ 8 <= 1400 /\
    oack_get (negotiate nv_D2 lim na k opts) "blksize" <> Some (dec (N.min 1400 (max_bs lim))).
Proof.
  exists {| max_bs := 1024; max_tmo := 30720; default_tmo := 2048 |}, false, KNoFileno, [(lit "blksize", lit "1400")].
  split; [reflexivity|]. split; [lia|]. vm_compute. discriminate.
Qed.

(* D3: a real file read to offset 4 of 10 announces 10; a pipe (size unknown) announces 0 *)
Theorem tsize_rule_refuted_D3_offset :
  exists lim k opts sz,
    requested opts (lit "tsize") = Some (lit "0") /\ size_known k = Some sz /\
    oack_get (negotiate nv_D3 lim false k opts) "tsize" <> Some (dec sz).
Proof.
  exists {| max_bs := 1024; max_tmo := 30720; default_tmo := 2048 |}, (KRealFile 10 4 true), [(lit "tsize", lit "0")], 6.
  split; [reflexivity|]. split; [reflexivity|]. vm_compute. discriminate.
Qed.
Theorem tsize_rule_refuted_D3_pipe :
  exists lim k opts,
    size_known k = None /\ oack_get (negotiate nv_D3 lim false k opts) "tsize" <> None.
Proof.
  exists {| max_bs := 1024; max_tmo := 30720; default_tmo := 2048 |}, (KRealFile 0 0 false), [(lit "tsize", lit "0")].
  split; [reflexivity|]. vm_compute. discriminate.
Qed.

(* ---------- read-request codec: RFC 1350 / 2347 shape ---------- *)
Definition nul_free (s : str) : Prop := Forall (fun c => c <> 0) s.
Definition is_ascii (s : str) : Prop := Forall (fun c => c < 128) s.
Definition clean (s : str) : Prop := nul_free s /\ is_ascii s.
Definition ascii_pair (p : str * str) : str * str := (ascii_ignore (fst p), ascii_ignore (snd p)).
(* the dictionary Python builds from the option pairs in order (later duplicate wins, first position kept) *)
Definition dict_of (opts : list (str * str)) : list (str * str) :=
  fold_left (fun acc p => dict_set acc (fst p) (snd p)) opts [].

Lemma ascii_ignore_id s : is_ascii s -> ascii_ignore s = s.
Proof.
  unfold ascii_ignore. induction 1 as [|c s Hc Hs IH]; cbn [filter]; [reflexivity|].
  apply N.ltb_lt in Hc. rewrite Hc, IH. reflexivity.
Qed.

Lemma split0_part a : nul_free a -> forall cur r, split0 cur (a ++ 0 :: r) = (rev cur ++ a) :: split0 [] r.
Proof.
  induction 1 as [|x a Hx Ha IH]; intros cur r; cbn [app split0].
  - now rewrite List.app_nil_r.
  - apply N.eqb_neq in Hx. rewrite Hx, IH. cbn [rev]. now rewrite <- List.app_assoc.
Qed.

Definition pair_parts (opts : list (str * str)) : list str := flat_map (fun p => [fst p; snd p]) opts.
Definition enc_opts (opts : list (str * str)) : str := flat_map (fun p => fst p ++ 0 :: snd p ++ [0]) opts.
Definition pairs_nul_free (opts : list (str * str)) : Prop := Forall (fun p => nul_free (fst p) /\ nul_free (snd p)) opts.

Lemma split0_enc_opts opts : pairs_nul_free opts -> split0 [] (enc_opts opts) = pair_parts opts ++ [[]].
Proof.
  induction 1 as [|[n v] opts [Hn Hv] Ho IH]; [reflexivity|].
  unfold enc_opts, pair_parts in *. cbn [flat_map fst snd].
  rewrite <- !List.app_assoc. cbn [app].
  rewrite (split0_part n Hn). cbn [rev app].
  rewrite <- !List.app_assoc. cbn [app]. rewrite (split0_part v Hv). cbn [rev app]. now rewrite IH.
Qed.

Lemma parts_nonempty opts : exists a r, pair_parts opts ++ [[]] = a :: r.
Proof. destruct opts as [|[n v] opts]; cbn; eauto. Qed.

Lemma rrq_opts_parts opts : forall acc,
  rrq_opts (pair_parts opts ++ [[]]) acc =
  Some (fold_left (fun acc p => dict_set acc (ascii_ignore (fst p)) (ascii_ignore (snd p))) opts acc).
Proof.
  induction opts as [|[n v] opts IH]; intros acc; [reflexivity|].
  change (pair_parts ((n, v) :: opts) ++ [[]]) with (n :: v :: (pair_parts opts ++ [[]])).
  cbn [rrq_opts fold_left fst snd].
  destruct (parts_nonempty opts) as [a [r E]]. rewrite E in *. apply IH.
Qed.

Lemma fold_dict_map opts : forall acc,
  fold_left (fun acc p => dict_set acc (ascii_ignore (fst p)) (ascii_ignore (snd p))) opts acc =
  fold_left (fun acc p => dict_set acc (fst p) (snd p)) (map ascii_pair opts) acc.
Proof. induction opts as [|p opts IH]; intros acc; cbn [fold_left map]; [reflexivity|]. apply IH. Qed.

(* decode . encode: what an RFC 2347 client sends is decoded to what it meant *)
Theorem rrq_decode_encode fn md m opts :
  nul_free fn -> nul_free md -> mode_of_str (ascii_ignore md) = Some m -> pairs_nul_free opts ->
  decode_rrq (encode_rrq fn md opts) = Some (ascii_ignore fn, m, dict_of (map ascii_pair opts)).
Proof.
  intros Hfn Hmd Hm Ho. unfold decode_rrq, encode_rrq.
  change (flat_map (fun p => fst p ++ 0 :: snd p ++ [0]) opts) with (enc_opts opts).
  rewrite (split0_part fn Hfn). cbn [rev app]. rewrite (split0_part md Hmd). cbn [rev app].
  rewrite split0_enc_opts by exact Ho.
  destruct (parts_nonempty opts) as [a [r E]]. rewrite E. rewrite <- E.
  rewrite Hm, rrq_opts_parts, fold_dict_map. reflexivity.
Qed.

Lemma map_ascii_pair_id opts : Forall (fun p => clean (fst p) /\ clean (snd p)) opts -> map ascii_pair opts = opts.
Proof.
  induction 1 as [|[n v] opts [[_ Hn] [_ Hv]] Ho IH]; cbn [map]; [reflexivity|].
  rewrite IH. unfold ascii_pair; cbn [fst snd] in *. now rewrite (ascii_ignore_id n Hn), (ascii_ignore_id v Hv).
Qed.

Theorem rrq_roundtrip fn md m opts :
  clean fn -> clean md -> mode_of_str md = Some m -> Forall (fun p => clean (fst p) /\ clean (snd p)) opts ->
  decode_rrq (encode_rrq fn md opts) = Some (fn, m, dict_of opts).
Proof.
  intros [Hfn Hfa] [Hmd Hma] Hm Ho.
  rewrite (rrq_decode_encode fn md m opts); auto.
  - now rewrite (ascii_ignore_id fn Hfa), (map_ascii_pair_id opts Ho).
  - now rewrite (ascii_ignore_id md Hma).
  - eapply Forall_impl; [|exact Ho]. intros p [[A _] [B _]]. auto.
Qed.

(* valid mode strings in any letter case exist and are clean, e.g. "OcTeT" *)
Example mode_any_case : mode_of_str (lit "OcTeT") = Some Octet /\ mode_of_str (lit "NETASCII") = Some Netascii.
Proof. split; reflexivity. Qed.

(* converse: whatever decode_rrq accepts has the RFC shape *)
Fixpoint join0 (parts : list str) : str :=
  match parts with
  | [] => []
  | [p] => p
  | p :: r => p ++ 0 :: join0 r
  end.

Lemma split0_nonempty l : forall cur, exists a r, split0 cur l = a :: r.
Proof. induction l as [|x l IH]; intros cur; cbn [split0]; [eauto|]. destruct (x =? 0); eauto. Qed.

Lemma split0_join l : forall cur, join0 (split0 cur l) = rev cur ++ l.
Proof.
  induction l as [|x l IH]; intros cur; cbn [split0].
  - cbn [join0]. now rewrite List.app_nil_r.
  - destruct (x =? 0) eqn:E.
    + apply N.eqb_eq in E. subst x. specialize (IH []). cbn [rev app] in IH.
      destruct (split0_nonempty l []) as [a [r E2]]. rewrite E2 in *.
      cbn [join0] in *. now rewrite IH.
    + rewrite IH. cbn [rev]. now rewrite <- List.app_assoc.
Qed.

Lemma split0_nul_free l : forall cur, nul_free (rev cur) -> Forall nul_free (split0 cur l).
Proof.
  induction l as [|x l IH]; intros cur Hc; cbn [split0].
  - constructor; [exact Hc|constructor].
  - destruct (x =? 0) eqn:E.
    + constructor; [exact Hc|]. apply IH. constructor.
    + apply IH. cbn [rev]. apply Forall_app. split; [exact Hc|]. constructor; [|constructor].
      now apply N.eqb_neq.
Qed.

Lemma rrq_opts_shape : forall n rest acc o, (length rest <= n)%nat -> Forall nul_free rest ->
  rrq_opts rest acc = Some o ->
  exists opts, rest = pair_parts opts ++ [[]] /\ pairs_nul_free opts /\
    o = fold_left (fun acc p => dict_set acc (ascii_ignore (fst p)) (ascii_ignore (snd p))) opts acc.
Proof.
  induction n as [|n IH]; intros rest acc o Hlen Hnf H.
  - destruct rest; [discriminate|cbn in Hlen; lia].
  - destruct rest as [|a [|b r]]; cbn [rrq_opts] in H.
    + discriminate.
    + destruct a; [|discriminate]. injection H as <-. exists []. repeat split. constructor.
    + destruct r as [|c r]; [discriminate|].
      inversion Hnf as [|? ? Ha Hnf1]; subst. inversion Hnf1 as [|? ? Hb Hnf2]; subst.
      apply IH in H as [opts [E [Hp Ho]]]; [|cbn in Hlen |- *; lia|exact Hnf2].
      exists ((a, b) :: opts). split; [|split].
      * unfold pair_parts in *. cbn [flat_map fst snd app]. now rewrite E.
      * constructor; [split; assumption|exact Hp].
      * exact Ho.
Qed.

Lemma join0_parts opts : join0 (pair_parts opts ++ [[]]) = enc_opts opts.
Proof.
  induction opts as [|[n v] opts IH]; [reflexivity|].
  change (pair_parts ((n, v) :: opts) ++ [[]]) with (n :: v :: (pair_parts opts ++ [[]])).
  change (enc_opts ((n, v) :: opts)) with ((n ++ 0 :: v ++ [0]) ++ enc_opts opts).
  destruct (parts_nonempty opts) as [a [r E]]. rewrite E in *.
  cbn [join0] in *. rewrite IH. rewrite <- !List.app_assoc. cbn [app]. rewrite <- List.app_assoc. reflexivity.
Qed.

Theorem rrq_decode_shape d f m o :
  decode_rrq d = Some (f, m, o) ->
  exists fn md opts,
    d = encode_rrq fn md opts /\ nul_free fn /\ nul_free md /\ pairs_nul_free opts /\
    f = ascii_ignore fn /\ mode_of_str (ascii_ignore md) = Some m /\ o = dict_of (map ascii_pair opts).
Proof.
  intros H.
  destruct d as [|x d]; [discriminate|]. destruct x as [|px]; [|discriminate].
  destruct d as [|y body]; [discriminate|]. destruct y as [|[py|py|]]; try discriminate.
  unfold decode_rrq in H.
  pose proof (split0_join body []) as Hj. pose proof (split0_nul_free body [] (Forall_nil _)) as Hnf.
  cbn [rev app] in Hj.
  destruct (split0 [] body) as [|fn [|md rest]]; try discriminate.
  destruct rest as [|r0 rest']; [discriminate|].
  destruct (mode_of_str (ascii_ignore md)) as [m'|] eqn:Em; [|discriminate].
  destruct (rrq_opts (r0 :: rest') []) as [o'|] eqn:Eo; [|discriminate].
  injection H as <- <- <-.
  pose proof (Forall_inv Hnf) as Hfn. pose proof (Forall_inv_tail Hnf) as Hnf1.
  pose proof (Forall_inv Hnf1) as Hmd. pose proof (Forall_inv_tail Hnf1) as Hnf2.
  apply (rrq_opts_shape (length (r0 :: rest')) _ _ _ (le_n _) Hnf2) in Eo as [opts [E [Hp Ho]]].
  exists fn, md, opts. repeat split; auto.
  - unfold encode_rrq. rewrite <- Hj, E.
    pose proof (join0_parts opts) as Hjp.
    destruct (parts_nonempty opts) as [a [r E2]]. rewrite E2 in *.
    cbn [join0] in *. rewrite Hjp. reflexivity.
  - rewrite Ho. unfold dict_of. apply fold_dict_map.
Qed.

(* hence every datagram that is not an RFC-shaped read request is rejected (ValueError) *)
Corollary rrq_rejects_other_shapes d :
  (forall fn md opts, nul_free fn -> nul_free md -> pairs_nul_free opts ->
     mode_of_str (ascii_ignore md) <> None -> d <> encode_rrq fn md opts) ->
  decode_rrq d = None.
Proof.
  intros H. destruct (decode_rrq d) as [[[f m] o]|] eqn:E; [|reflexivity].
  apply rrq_decode_shape in E as [fn [md [opts [E [A [B [C [_ [D _]]]]]]]]].
  exfalso. apply (H fn md opts A B C); [congruence|exact E].
Qed.
