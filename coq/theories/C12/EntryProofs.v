(* What is proved about the executable checker of C12. *)
From Coq Require Import String.
From Coq Require Import List NArith ZArith Bool Arith Lia.
From VF Require Import Base.Sx PyVal.Val PyVal.ValProofs PyVal.Codec Merge.Merge Yaml.Target Yaml.TargetProofs Yaml.Exec
  Yaml.Cache Yaml.CacheProofs C12.Entry.
Import ListNotations.

Lemma table_fun_in {A} (tbl : list (str * res A)) s a : table_fun tbl s = Ok a -> In (s, Ok a) tbl.
Proof.
  unfold table_fun, table_get. destruct (find (fun p => str_eqb s (fst p)) tbl) as [[k r]|] eqn:Ef; [|discriminate].
  apply find_some in Ef as [Hin Hk]. cbn [fst snd] in *. apply str_eqb_eq in Hk. subst k. intros ->. exact Hin.
Qed.
Lemma yload_table_wf tbl : forallb res_wf tbl = true -> forall text v, table_fun tbl text = Ok v -> wf v = true.
Proof. intros Hall text v E. apply table_fun_in in E. rewrite forallb_forall in Hall. apply (Hall _ E). Qed.
Lemma variants_eqb_eq a b : variants_eqb a b = true -> a = b.
Proof.
  destruct a as [a1 a2 a3], b as [b1 b2 b3]. unfold variants_eqb. cbn.
  intros E. apply andb_true_iff in E as [E E3]. apply andb_true_iff in E as [E1 E2].
  apply Bool.eqb_prop in E1, E2, E3. now subst.
Qed.
Lemma exc_eqb_refl e : exc_eqb e e = true.
Proof. apply Z.eqb_refl. Qed.

Lemma empty_case_spec C render_o yload matches t :
  empty_pieces_case C render_o yload matches t = true -> get_data_spec C render_o yload matches t = Ok [].
Proof.
  unfold empty_pieces_case, get_data_spec. destruct (spec_top C render_o yload matches t) as [[[|x r]|]|]; try discriminate.
  destruct (spec_pieces C render_o yload matches t) as [[|p ps]|]; try discriminate. reflexivity.
Qed.

(* a result whose data is the (variant-aware) specification passes the data clause *)
Lemma data_clause_ok nm c q r :
  cV c = current_variants ->
  step_data r = spec_result (cV c) (cC c) (table_fun (q_render q)) (table_fun (cYload c)) (table_fun (q_match q)) (q_tree q) ->
  data_clause nm c q r = [].
Proof.
  intros Hv E. unfold data_clause, spec_of. unfold spec_result in E. rewrite Hv in E. cbn [empty_raises current_variants andb] in E.
  destruct r as [[d v]|e]; cbn [step_data] in E; rewrite <- E.
  - unfold same_dict. now rewrite same_refl.
  - now rewrite exc_eqb_refl.
Qed.

Lemma version_clause_same r : version_clause (r, r) = [].
Proof. destruct r as [[d v]|e]; cbn [version_clause]; [now rewrite str_eqb_refl | now rewrite exc_eqb_refl]. Qed.

(* with cache_size 0 the per-call clauses hold for the model on every history *)
Lemma holds_steps_null c : valid c -> cCap c = 0%nat -> holds_steps c (cCalls c) (run_model c) = [].
Proof.
  unfold valid, validb. intros Hv Hc. apply andb_true_iff in Hv as [Hv Hy]. apply variants_eqb_eq in Hv.
  unfold run_model. rewrite Hc, null_history.
  assert (G : forall qs, holds_steps c qs
     (List.combine (map (fresh_result (cV c) (cC c) model_H (table_fun (cYload c))) (map mk_call qs))
                   (map (fresh_result (cV c) (cC c) model_H (table_fun (cYload c))) (map mk_call qs))) = []).
  { induction qs as [|q r IH]; cbn [map List.combine holds_steps]; [reflexivity|]. cbn [fst snd].
    assert (D : forall nm, data_clause nm c q (fresh_result (cV c) (cC c) model_H (table_fun (cYload c)) (mk_call q)) = []).
    { intros nm. apply data_clause_ok; [assumption|].
      pose proof (fresh_data (cV c) (cC c) model_H (table_fun (cYload c))) as F. rewrite Hv in *.
      apply (F eq_refl (yload_table_wf _ Hy) (mk_call q)). }
    now rewrite !D, version_clause_same, IH. }
  apply G.
Qed.
