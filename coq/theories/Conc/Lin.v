(* The decision procedure `linearizable`: is there a SEQUENTIAL execution of the same calls (threads
   never overlap: once a thread has begun a call only that thread -- and the environment -- moves until
   the call returns), with the environment events in their order placed anywhere, that produces the
   observed per-thread results?  Depth-first search over the machine itself.  Definitions only. *)
From Coq Require Import List Arith Bool.
From VF Require Import Conc.Machine.
Import ListNotations.

Section Lin.
  Variables (O W LS Call Res E : Type).
  Variable begin : Call -> LS.
  Variable prog : Call -> list (mstep O W LS).
  Variable ret : LS -> Res.
  Variable env : E -> W -> W.
  Variable res_eqb : Res -> Res -> bool.
  Notation mst := (mst O W LS Call Res).
  Notation tstep := (tstep O W LS Call Res begin prog ret).

  Fixpoint prefix_eqb (a b : list Res) : bool :=          (* a is a prefix of b *)
    match a, b with
    | [], _ => true
    | x :: a', y :: b' => res_eqb x y && prefix_eqb a' b'
    | _ :: _, [] => false
    end.
  Fixpoint list_eqb (a b : list Res) : bool :=
    match a, b with
    | [], [] => true
    | x :: a', y :: b' => res_eqb x y && list_eqb a' b'
    | _, _ => false
    end.
  Fixpoint all2 {A B} (f : A -> B -> bool) (a : list A) (b : list B) : bool :=
    match a, b with
    | [], [] => true
    | x :: a', y :: b' => f x y && all2 f a' b'
    | _, _ => false
    end.

  Definition prefix_ok (s : mst) (expected : list (list Res)) : bool :=
    all2 (fun t e => prefix_eqb (res t) e) (threads s) expected.
  Definition final_ok (s : mst) (expected : list (list Res)) : bool :=
    all_done O W LS Call Res s && all2 (fun t e => list_eqb (res t) e) (threads s) expected.

  (* index of the thread that is inside a call, if any *)
  Fixpoint mid_from (k : nat) (l : list (thread O W LS Call Res)) : option nat :=
    match l with
    | [] => None
    | t :: r => match pcl t with [] => mid_from (S k) r | _ => Some k end
    end.
  Definition mid (s : mst) : option nat := mid_from 0 (threads s).

  Definition candidates (s : mst) : list nat :=
    match mid s with Some i => [i] | None => seq 0 (length (threads s)) end.

  Definition env_step (s : mst) (e : E) : mst :=
    {| obj := obj s; world := env e (world s); lock := lock s; threads := threads s |}.

  Fixpoint search (fuel : nat) (s : mst) (envs : list E) (expected : list (list Res)) : bool :=
    match fuel with
    | 0 => false
    | S f =>
        final_ok s expected
        || match envs with e :: r => search f (env_step s e) r expected | [] => false end
        || existsb (fun i => match tstep s i with
                             | Some s' => prefix_ok s' expected && search f s' envs expected
                             | None => false
                             end) (candidates s)
    end.
End Lin.
