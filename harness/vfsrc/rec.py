"""A data source that is created through vinegar.data_source.get_data_source("vfsrc.rec", config): get_instance hands out
the recording source registered under config["reg"] / config["idx"], after raising the planned number of times."""
REGISTRY = {}


def get_instance(config):
    plan = REGISTRY[config["reg"]]
    j = config["idx"]
    plan["attempts"].append(j)
    if plan["fails"][j] > 0:
        plan["fails"][j] -= 1
        raise plan["exc"]("constituent %d cannot be created right now" % j)
    return plan["sources"][j]
