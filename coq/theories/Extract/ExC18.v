From Coq Require Import ExtrOcamlBasic.
From Coq Require Extraction.
From VF Require Import Base.Sx C18.Entry.
Definition main := wrap entry.
Extraction "../ocaml/gen/c18_model.ml" main.
