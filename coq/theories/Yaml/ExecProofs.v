(* The executable hash satisfies the hypotheses the C12 theorems make about H. *)
From Coq Require Import List NArith ZArith Bool Arith Lia.
From VF Require Import Base.Sx PyVal.Val PyVal.ValProofs Merge.Merge Yaml.Target Yaml.Exec.
Import ListNotations.

Lemma enc_pos_prefix_free : forall p q r r', enc_pos p ++ r = enc_pos q ++ r' -> p = q /\ r = r'.
Proof.
  induction p as [p IH|p IH|]; intros [q|q|] r r' E; cbn [enc_pos app] in E; try discriminate.
  - injection E as E. destruct (IH q r r' E) as [-> ->]. auto.
  - injection E as E. destruct (IH q r r' E) as [-> ->]. auto.
  - injection E as ->. auto.
Qed.

Lemma enc_N_prefix_free a b r r' : enc_N a ++ r = enc_N b ++ r' -> a = b /\ r = r'.
Proof.
  destruct a as [|p], b as [|q]; cbn [enc_N app]; intros E.
  - injection E as ->. auto.
  - destruct q; discriminate.
  - destruct p; discriminate.
  - apply enc_pos_prefix_free in E as [-> ->]. auto.
Qed.

Lemma enc_N_nonempty a : enc_N a <> [].
Proof. destruct a as [|[p|p|]]; discriminate. Qed.

Lemma flat_enc_inj : forall s s', flat_map enc_N s = flat_map enc_N s' -> s = s'.
Proof.
  induction s as [|a s IH]; intros [|b s'] E; cbn [flat_map] in E.
  - reflexivity.
  - exfalso. symmetry in E. apply app_eq_nil in E as [E _]. now apply enc_N_nonempty in E.
  - exfalso. apply app_eq_nil in E as [E _]. now apply enc_N_nonempty in E.
  - apply enc_N_prefix_free in E as [-> E]. f_equal. now apply IH.
Qed.

Theorem model_H_inj a b : model_H a = model_H b -> a = b.
Proof. unfold model_H. intros E. injection E as E. now apply flat_enc_inj. Qed.

Definition code_char (c : N) : Prop := c = 104%N \/ c = 46%N \/ c = 48%N \/ c = 49%N \/ c = 122%N.
Lemma enc_pos_chars p c : In c (enc_pos p) -> code_char c.
Proof. unfold code_char. induction p as [p IH|p IH|]; cbn [enc_pos]; intros [<-|Hin]; auto; try (now apply IH); destruct Hin. Qed.
Lemma model_H_chars s c : In c (model_H s) -> code_char c.
Proof.
  unfold model_H. intros [<-|Hin]; [left; reflexivity|]. apply in_flat_map in Hin as [n [_ Hin]].
  destruct n as [|p]; cbn [enc_N] in Hin; [destruct Hin as [<-|[]]; unfold code_char; auto | now apply enc_pos_chars in Hin].
Qed.
Theorem model_H_nobar s : ~ In BAR (model_H s).
Proof. intros Hin. apply model_H_chars in Hin. unfold code_char, BAR in Hin. intuition discriminate. Qed.
Theorem model_H_noplus s : ~ In PLUS (model_H s).
Proof. intros Hin. apply model_H_chars in Hin. unfold code_char, PLUS in Hin. intuition discriminate. Qed.
Theorem model_H_nonempty s : model_H s <> [].
Proof. discriminate. Qed.
