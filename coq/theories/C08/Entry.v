(* C08: case/observation types, executable checker [holds], and the sx entry point. *)
From Coq Require Import String.
From Coq Require Import List NArith ZArith Bool Arith.
From VF Require Import Base.Sx Tftp.Readers Tftp.Codec.
Import ListNotations.

Record case := { content : list N; chunking : list nat; bs : nat; always_skip : bool;
                 (* options of the read request, server limits and the kind of the handler's stream:
                    what decides whether a transfer size is announced *)
                 opts : list (str * str); lim : limits; kind : stream_kind }.
(* payloads of the DATA blocks in order, and whether the OACK announced a transfer size *)
Definition obs := (list (list N) * bool)%type.

Definition announces_tsize (oack : list (str * str)) : bool :=
  match dict_get oack (lit "tsize") with Some _ => true | None => false end.

Definition run_model (c : case) : obs :=
  (netascii_blocks (always_skip c) (bs c) (content c) (chunking c),
   announces_tsize (n_oack (negotiate ncurrent (lim c) true (kind c) (opts c)))).

Definition list_N_eqb (a b : list N) : bool :=
  if list_eq_dec N.eq_dec a b then true else false.

Fixpoint framedb (bs : nat) (bl : list (list N)) : bool :=
  match bl with
  | [] => false
  | [d] => (length d <? bs)%nat
  | d :: r => (length d =? bs)%nat && framedb bs r
  end.

(* failed clauses of the property for observation o (empty list = holds) *)
Definition holds (c : case) (o : obs) : list string :=
  (if list_N_eqb (concat (fst o)) (netascii_spec (content c)) then [] else ["payload_is_netascii_of_content"%string]) ++
  (if framedb (bs c) (fst o) then [] else ["block_framing"%string]) ++
  (if snd o then ["no_tsize_in_netascii"%string] else []).

Definition valid (c : case) : Prop := (1 <= bs c)%nat /\ always_skip c = false.

Definition de_pair (x : sx) : option (str * str) :=
  match x with L [B a; B b] => Some (a, b) | _ => None end.
Definition de_kind (x : sx) : option stream_kind :=
  match x with
  | L [I 0%Z; s; p] => obind (asN s) (fun s => obind (asN p) (fun p => Some (KBytesIO s p)))
  | L [I 1%Z; s; p; r] => obind (asN s) (fun s => obind (asN p) (fun p => obind (asBool r) (fun r => Some (KRealFile s p r))))
  | L [I 2%Z] => Some KNoFileno
  | _ => None
  end.

(* (content chunks bs variant options (max_bs max_tmo default_tmo) kind (impl_blocks impl_tsize)) *)
Definition decode (x : sx) : option (case * obs) :=
  match x with
  | L [B ct; ch; I b; I v; op; L [mb; mt; dt]; kd; L [io; it]] =>
      obind (asListOf asNat ch) (fun ch =>
      obind (asListOf asB io) (fun io =>
      obind (asBool it) (fun it =>
      obind (asListOf de_pair op) (fun op =>
      obind (asN mb) (fun mb => obind (asN mt) (fun mt => obind (asN dt) (fun dt =>
      obind (de_kind kd) (fun kd =>
      Some ({| content := ct; chunking := ch; bs := Z.to_nat b; always_skip := negb (v =? 0)%Z;
               opts := op; lim := {| max_bs := mb; max_tmo := mt; default_tmo := dt |}; kind := kd |},
            (io, it))))))))))
  | _ => None
  end.

(* [valid] as a boolean (C08.Props.C08_validb_valid): the driver reports it for every case *)
Definition validb (c : case) : bool := Nat.leb 1 (bs c) && negb (always_skip c).

Definition entry (x : sx) : sx :=
  match decode x with
  | None => sxS "bad-case"
  | Some (c, io) =>
      let m := run_model c in
      L [ L [L (map B (fst m)); sxBool (snd m)]; L (map sxS (holds c m)); L (map sxS (holds c io));
          B (netascii_spec (content c)); sxBool (validb c) ]
  end.
