"""C03 - HTTP responses carry exactly the handler's status, headers and body.

Real vinegar.http.server.HttpServer on ::1 (ephemeral port), scripted request handlers, raw client
sockets; the bytes read until end of file go through an independent strict response parser and are
compared with the extracted Coq model (Http/Emit.v); the extracted checker `holds` judges them.
"""
import atexit
import hashlib
import http
import http.server
import io
import itertools
import logging
import os
import re
import socket
import threading
import time

import common
from common import Check, sx, unsx, names, run_model, hist
from vinegar.http import server as S

logging.getLogger("vinegar").addHandler(logging.NullHandler())
logging.getLogger("vinegar").propagate = False

BIG = 2048                     # see big(): Base/Sx.v parsing is quadratic in the length of a byte string
METHODS = ["GET", "HEAD", "POST", "PUT", "DELETE"]
MAXH = 3                       # scripted handler objects configured in the real server
RESPONSES = http.server.BaseHTTPRequestHandler.responses
TCHARS = "!#$%&'*+-.^_`|~0123456789ABCDEFGHIJKLMNOPQRSTUVWXYZabcdefghijklmnopqrstuvwxyz"


def big(b):
    """bodies above BIG bytes are compared by length and SHA-256 (same function on what was sent and
    on what was received); the model is parametric in the body bytes"""
    if len(b) > BIG:
        return b"<big len=%d sha256=%s>" % (len(b), hashlib.sha256(b).hexdigest().encode())
    return bytes(b)


# ----------------------------------------------------------------------------- scripted handlers
EVENTS = {}         # rendezvous key -> threading.Event
CONN_TIMEOUT = [None]   # timeout http.server put on the connection socket of the last finished request (None = none)
SCRIPTS = {}        # uri -> case
RECORDS = {}        # client port -> (status lines produced, bytes left in _headers_buffer)


class FailingStream(io.RawIOBase):
    """delivers its data and then fails instead of signalling end of file"""
    def __init__(self, data):
        super().__init__()
        self._b = io.BytesIO(data)

    def readable(self):
        return True

    def read(self, n=-1):
        d = self._b.read(n)
        if not d:
            raise OSError("scripted stream failure")
        return d

    def readinto(self, buf):
        d = self.read(len(buf))
        buf[:len(d)] = d
        return len(d)


class VerifError(Exception):
    """an exception class of the handler's own"""


EXC_MESSAGES = ["scripted failure", "first line\r\nX-Injected: 1\r\n\r\nsecond line", "\u043a\u043b\u044e\u0447 \u2713 \U0001f512", ""]
EXC_CLASSES = ["RuntimeError", "ValueError", "KeyError", "LookupError", "TypeError", "AttributeError", "AssertionError",
               "ArithmeticError", "ZeroDivisionError", "StopIteration", "RecursionError", "NotImplementedError",
               "OSError", "ConnectionError", "ConnectionRefusedError", "ConnectionResetError", "ConnectionAbortedError",
               "BrokenPipeError", "TimeoutError", "PermissionError", "FileNotFoundError", "IsADirectoryError",
               "BlockingIOError", "InterruptedError", "UnicodeError", "UnicodeDecodeError", "UnicodeEncodeError",
               "EOFError", "BufferError", "MemoryError", "VerifError", "Exception"]


def make_exc(spec):
    """spec = (class name, message index) or None"""
    if spec is None or spec == "badresult":
        return RuntimeError("scripted failure")
    name, mi = spec
    msg = EXC_MESSAGES[mi % len(EXC_MESSAGES)]
    if name == "VerifError":
        return VerifError(msg)
    cls = getattr(__import__("builtins"), name)
    if name == "UnicodeDecodeError":
        return cls("utf-8", b"\xff", 0, 1, msg)
    if name == "UnicodeEncodeError":
        return cls("latin-1", "\u2713", 0, 1, msg)
    if issubclass(cls, OSError) and name != "OSError":
        return cls(1, msg)                     # errno style, as the socket and file APIs raise them
    return cls(msg)


class NonSeekable(io.RawIOBase):
    """a stream without seek/tell/fileno (a pipe, a decompressor, a generator)"""
    def __init__(self, data):
        super().__init__()
        self._b = io.BytesIO(data)

    def readable(self):
        return True

    def seekable(self):
        return False

    def readinto(self, buf):
        d = self._b.read(len(buf))
        buf[:len(d)] = d
        return len(d)


_FILES = {}
_FILEDIR = None


def real_file(data):
    """path of a real file with this content (kept until the end of the run)"""
    global _FILEDIR
    if _FILEDIR is None:
        import tempfile
        import shutil
        _FILEDIR = tempfile.mkdtemp(prefix="verif-c03-")
        atexit.register(shutil.rmtree, _FILEDIR, True)
    key = hashlib.sha1(data).hexdigest()
    if key not in _FILES:
        p = os.path.join(_FILEDIR, key)
        with open(p, "wb") as f:
            f.write(data)
        _FILES[key] = p
    return _FILES[key]


PIECES = {"1": [1], "7": [7], "1000": [1000], "mixed": [1, 65535, 3, 70000, 2, 4096], "64k-1": [65535], "64k+1": [65537]}


class Piecewise(io.RawIOBase):
    """a stream whose read(n) legally returns FEWER than n bytes although more data follows (pipe, socket, tty,
    decompressor ...); optionally fails with OSError once `fail_at` bytes have been delivered"""
    def __init__(self, data, sizes, fail_at=None):
        super().__init__()
        self._d, self._pos, self._sizes, self._i, self._fail_at = data, 0, sizes, 0, fail_at

    def readable(self):
        return True

    def seekable(self):
        return False

    def readinto(self, buf):
        if self._fail_at is not None and self._pos >= self._fail_at:
            raise OSError(5, "scripted read failure in the middle of the stream")
        n = min(len(buf), self._sizes[self._i % len(self._sizes)])
        self._i += 1
        end = self._pos + n if self._fail_at is None else min(self._pos + n, self._fail_at)
        d = self._d[self._pos:end]
        self._pos += len(d)
        buf[:len(d)] = d
        return len(d)


def _feed(write, close, data):
    def run():
        try:
            for i in range(0, len(data), 1000):
                write(data[i:i + 1000])
        except OSError:
            pass
        finally:
            close()
    threading.Thread(target=run, daemon=True).start()


def open_stream(data, src):
    """src = (kind, how, k): kind bytesio | file | rawfile | nonseekable | piecewise | failmid | pipe | socketpair;
    how None | read | seek: the handler has already consumed / skipped k bytes before it returns the stream;
    piecewise: how names the read sizes; failmid: OSError after k bytes"""
    kind, how, k = src
    if kind == "piecewise":
        return Piecewise(data, PIECES[how])
    if kind == "failmid":
        return Piecewise(data, PIECES[how], fail_at=k)
    if kind == "pipe":                                   # unbuffered file object on a real pipe
        r, w = os.pipe()
        _feed(lambda d: os.write(w, d), lambda: os.close(w), data)
        return os.fdopen(r, "rb", buffering=0)
    if kind == "socketpair":                             # socket.makefile("rb", 0): SocketIO
        a, b = socket.socketpair()
        _feed(a.sendall, a.close, data)
        f = b.makefile("rb", buffering=0)
        b.close()
        return f
    if kind == "bytesio":
        f = io.BytesIO(data)
    elif kind == "file":
        f = open(real_file(data), "rb")
    elif kind == "rawfile":
        f = open(real_file(data), "rb", buffering=0)
    else:
        f = NonSeekable(data)
    if how == "read":
        got = f.read(k)
        assert got == data[:k]
    elif how == "seek":
        f.seek(k)
    return f


class ScriptHandler(S.HttpRequestHandler):
    def __init__(self, index):
        self.index = index

    def _spec(self, uri):
        c = SCRIPTS.get(uri)
        if c is None or self.index >= len(c["handlers"]):
            return None
        return c["handlers"][self.index]

    def prepare_context(self, uri):
        h = self._spec(uri)
        if h is not None and h["prep_raises"]:
            raise make_exc(h.get("exc"))
        return h

    def can_handle(self, uri, context):
        if context is None:
            return False
        if context["can_raises"]:
            raise make_exc(context.get("exc"))
        return context["can"]

    def handle(self, request_info, body, context):
        cl = request_info.headers.get("Content-Length", "0") or "0"
        n = int(cl) if cl.isdigit() else 0
        if n:
            body.read(n)
        act = context["act"]
        if act is None:
            if context.get("exc") == "badresult":          # something that cannot be unpacked into (status, headers, body)
                return (http.HTTPStatus.OK, {"X": "two-tuple"})
            raise make_exc(context.get("exc"))
        rv = context.get("rendezvous")
        if rv is not None:                      # ("wait", key): needs ANOTHER request to be served meanwhile
            ev = EVENTS.setdefault(rv[1], threading.Event())
            if rv[0] == "set":
                ev.set()
            elif not ev.wait(15.0 if rv[0] == "hold" else 3.0):
                return (http.HTTPStatus.SERVICE_UNAVAILABLE, {"X-Rendezvous": "alone"}, io.BytesIO(b"alone"))
        status, hdrs, b = act
        stream = None
        if b is not None:
            if len(b) > 2 and b[2] is not None:
                stream = open_stream(b[0], b[2])
            else:
                stream = FailingStream(b[0]) if b[1] else io.BytesIO(b[0])
        return (http.HTTPStatus(status), None if hdrs is None else dict(hdrs), stream)


_installed = False
_second = None
_server = None
_port = None


def _instrument():
    """count send_response_only calls and look at the header buffer when the request is finished
    (wrappers around methods of the real handler class; nothing in /repo is changed)"""
    global _installed
    if _installed:
        return
    _installed = True
    cls = S._DelegatingRequestHandler
    orig_sro = cls.send_response_only
    orig_finish = cls.finish

    def send_response_only(self, code, message=None):
        self._verif_n = getattr(self, "_verif_n", 0) + 1
        return orig_sro(self, code, message)

    def finish(self):
        left = len(b"".join(getattr(self, "_headers_buffer", []) or []))
        RECORDS[self.client_address[1]] = (getattr(self, "_verif_n", 0), left)
        try:
            CONN_TIMEOUT[0] = self.connection.gettimeout()
        except Exception:          # noqa
            pass
        return orig_finish(self)
    cls.send_response_only = send_response_only
    cls.finish = finish


def server_port():
    global _server, _port
    if _server is None:
        _instrument()
        _server = S.HttpServer([ScriptHandler(i) for i in range(MAXH)], "::1", 0)
        _server.start()
        _port = _server._server.server_address[1]
        # a SECOND live server object with another handler list (none): per-server state must not live in a class
        global _second
        _second = S.HttpServer([], "::1", 0)
        _second.start()
        atexit.register(_second.stop)
        # socketserver prints a traceback when a worker dies because the client went away while http.server itself was
        # writing; that is outside vinegar's code: keep the output clean
        _server._server.handle_error = lambda request, client_address: None
        atexit.register(_server.stop)
    return _port


def request_bytes(c):
    body = c.get("reqbody", b"")
    head = "%s %s HTTP/1.%d\r\n" % (c["method"], c["path"], c.get("version", 0))
    hdrs = c.get("reqheaders")
    if hdrs is None:
        hdrs = [("Host", "verif")]
    head += "".join("%s: %s\r\n" % kv for kv in hdrs)
    if c["method"] in ("POST", "PUT") or body:
        head += "Content-Length: %d\r\n" % len(body)
    return head.encode("latin-1") + b"\r\n" + body


_timeouts = [0]


def _patience():
    """every wait is bounded; a server that has stopped answering must not cost seconds per remaining case"""
    return 8.0 if _timeouts[0] < 3 else (0.3 if _timeouts[0] < 10 else 0.05)


def do_request(c, timeout=None):
    """-> (raw bytes until EOF, status lines produced, bytes left unflushed)"""
    if timeout is None:
        timeout = _patience()
    port = server_port()
    if c["path"].startswith("/"):
        SCRIPTS[c["path"]] = c
    s = socket.socket(socket.AF_INET6, socket.SOCK_STREAM)
    s.settimeout(timeout)
    try:
        s.connect(("::1", port))
        me = s.getsockname()[1]
        s.sendall(request_bytes(c))
        chunks = []
        while True:
            try:
                d = s.recv(1 << 20)
            except ConnectionResetError:
                chunks.append(b"<connection reset>")
                break
            except socket.timeout:
                _timeouts[0] += 1
                chunks.append(b"<timeout: connection not closed>")
                break
            if not d:
                break
            chunks.append(d)
    except socket.timeout:
        _timeouts[0] += 1
        chunks = [b"<timeout: connect/send>"]
        me = 0
    finally:
        s.close()
    for _ in range(200 if _timeouts[0] < 3 else 2):
        if me in RECORDS:
            break
        time.sleep(0.005)
    n, left = RECORDS.pop(me, (0, 0))
    SCRIPTS.pop(c["path"], None)
    return (b"".join(chunks), n, left)


# ----------------------------------------------------------------------------- independent strict parser
_STATUS_RE = re.compile(rb"HTTP/1\.[01] ([1-9][0-9][0-9]) ([^\r\n]*)")
_HEADER_RE = re.compile(rb"([!#$%&'*+\-.^_`|~0-9A-Za-z]+): ([^\r\n]*)")
_DATE_RE = re.compile(rb"(Mon|Tue|Wed|Thu|Fri|Sat|Sun), [0-3][0-9] (Jan|Feb|Mar|Apr|May|Jun|Jul|Aug|Sep|Oct|Nov|Dec) "
                      rb"[0-9]{4} [0-2][0-9]:[0-5][0-9]:[0-6][0-9] GMT")


def parse_strict(raw):
    """status-line CRLF *(field-name ":" SP field-value CRLF) CRLF body-until-EOF; None if malformed"""
    head, sep, body = raw.partition(b"\r\n\r\n")
    if not sep:
        return None
    lines = head.split(b"\r\n")
    m = _STATUS_RE.fullmatch(lines[0])
    if not m:
        return None
    hdrs = []
    for ln in lines[1:]:
        h = _HEADER_RE.fullmatch(ln)
        if not h:
            return None
        hdrs.append([h.group(1), h.group(2)])
    return [int(m.group(1)), m.group(2), hdrs, body]


_VERSION = None


def canonical(raw):
    """parsed response with Server/Date values replaced by S/D after validating them"""
    global _VERSION
    if _VERSION is None:
        _VERSION = (http.server.BaseHTTPRequestHandler.server_version + " "
                    + http.server.BaseHTTPRequestHandler.sys_version).encode()
    p = parse_strict(raw)
    if p is None:
        return [0, big(raw)]
    code, reason, hdrs, body = p
    if len(hdrs) >= 1 and hdrs[0] == [b"Server", _VERSION]:
        hdrs[0] = [b"Server", b"S"]
    if len(hdrs) >= 2 and hdrs[1][0] == b"Date" and _DATE_RE.fullmatch(hdrs[1][1]):
        hdrs[1] = [b"Date", b"D"]
    return [1, code, reason, hdrs, big(body)]


# ----------------------------------------------------------------------------- cases
def handler(can=True, act=None, prep_raises=False, can_raises=False, exc=None):
    return {"prep_raises": prep_raises, "can_raises": can_raises, "can": can, "act": act, "exc": exc}


def body_bytes(b):
    """what the client is to receive: what the returned stream yields from its CURRENT position until it ends or fails"""
    if len(b) > 2 and b[2] is not None:
        if b[2][0] == "failmid":
            return b[0][:b[2][2]]
        if b[2][0] in ("piecewise", "pipe", "socketpair"):
            return b[0]
        if b[2][1] is not None:
            return b[0][b[2][2]:]
    return b[0]


def H(n):
    if n is None:
        return None
    return [("X-Verif-%d" % i, "value %d; q=0.%d" % (i, i)) for i in range(n)]


SMALL = b"hello, world\r\n\r\nsecond paragraph\n"
_BIGBODY = None


def bigbody():
    global _BIGBODY
    if _BIGBODY is None:
        _BIGBODY = bytes((i * 7 + (i >> 8)) & 0xFF for i in range(3 * 1024 * 1024))
    return _BIGBODY


class C03(Check):
    ident = "C03"
    technique = ("Coq proof (parser/renderer round trip + emission invariant of _delegate_request over the "
                 "http.server buffer model) + differential correspondence over real TCP sockets")
    rule = ("case = (method, request path, handler list with scripted prepare/can/handle behaviour, handler result "
            "(status, headers None/{}/n, body None/empty/small/3 MB/failing stream)); full product of the DESIGN scope "
            "plus seeded random header names/values/bodies; non-trivial = a handler result reached the emission "
            "branch or an error path was taken; distinct by (outcome kind, status, header kind, body kind, method)")
    assumptions = [
        "http.server.BaseHTTPRequestHandler buffers status line and headers until end_headers and writes "
        "wfile.write data directly to the socket (environment model Http/Emit.v part 1, validated by the correspondence)",
        "handlers return http.HTTPStatus members, header names that are RFC 7230 tokens other than Connection, "
        "latin-1 header values without CR/LF",
        "bodies above 2 KiB are compared by length and SHA-256 on both sides (the model is parametric in the body)",
    ]
    trusted_extra = ["harness/c03.py: independent strict response parser parse_strict; Server/Date canonicalisation; "
                     "wrappers counting send_response_only calls"]

    def __init__(self):
        self._seq = itertools.count()

    def mk(self, method, handlers, path=None, version=0, reqbody=b"", reqheaders=None, loglevel=None):
        i = next(self._seq)
        return {"method": method, "path": path if path is not None else "/c/%d" % i, "handlers": handlers,
                "version": version, "reqbody": reqbody, "reqheaders": reqheaders, "loglevel": loglevel}

    def survives_faulty_handlers(self):
        """history on the ONE long-lived server: many requests whose handler raises (or returns garbage), ordinary
        requests in between and afterwards - every one answered within the deadline"""
        deadline = 2.0
        hist = []
        server_port()
        # the second server object (no handlers) answers 404 and leaves the first one alone
        try:
            sk = socket.create_connection(("::1", _second._server.server_address[1]), timeout=deadline)
            sk.sendall(b"GET /c/other-server HTTP/1.0\r\n\r\n")
            other = b""
            while True:
                d = sk.recv(65536)
                if not d:
                    break
                other += d
            sk.close()
        except OSError as ex:
            other = repr(ex).encode()
        if not other.startswith(b"HTTP/1.0 "):          # that it answers; a class-level handler list would show on the FIRST server
            return ({"_extra": True, "probe": "a second HttpServer object with an empty handler list, alive next to the first",
                     "its_answer": common._jsonable(other[:80])}, ["keeps_answering_subsequent_requests"], None, None)
        kinds = [("handle raises", dict(act=None, exc=("RuntimeError", 0))), ("prepare_context raises", dict(prep_raises=True, act=(200, None, None))),
                 ("handle returns a 2-tuple", dict(act=None, exc="badresult")), ("can_handle raises", dict(can_raises=True, act=(200, None, None))),
                 ("handle raises OSError", dict(act=None, exc=("ConnectionResetError", 1))), ("body stream fails", dict(act=(200, None, (b"x", True))))]
        for i in range(40):
            name, kw = kinds[i % len(kinds)]
            raw, _n, _l = do_request(self.mk(METHODS[i % 5], [handler(**kw)]), timeout=deadline)
            p = canonical(raw)
            hist.append("%s -> %s" % (name, p[1] if p[0] == 1 else common._jsonable(p)))
            ok = b"<timeout" not in raw          # WHAT is answered is judged by the ordinary cases; here: that it is answered
            if ok and i % 4 == 3:
                raw, _n, _l = do_request(self.mk("GET", [handler(act=(200, H(1), (b"still here %d" % i, False)))]), timeout=deadline)
                p = canonical(raw)
                hist.append("ordinary request -> %s" % (p[1] if p[0] == 1 else common._jsonable(p)))
                ok = b"<timeout" not in raw
            if not ok:
                return ({"_extra": True, "probe": "requests to one long-lived server, in this order; the last one was not answered "
                                                  "correctly within %.1f s" % deadline, "history": hist},
                        ["keeps_answering_subsequent_requests"], common._jsonable(p), None)
        return None

    def persistent_connection(self):
        """two requests on ONE connection: the handler of the first asks for a persistent connection (Connection: keep-alive
        + Content-Length - http.server then keeps the connection open); the second is answered like any first request"""
        deadline = 2.0
        seconds = [("handle raises", dict(act=None, exc=("RuntimeError", 0)), None, 500),
                   ("prepare_context raises", dict(prep_raises=True, act=(200, None, None)), None, 500),
                   ("no handler accepts", dict(can=False), None, 404), ("bad path", dict(act=(200, None, None)), "c/nolead", 400),
                   ("bare 403", dict(act=(403, None, None)), None, 403), ("ordinary", dict(act=(200, H(1), (b"second", False))), None, 200)]
        for name, kw, path, want in seconds:
            c1 = self.mk("GET", [handler(act=(200, [("Connection", "keep-alive"), ("Content-Length", "5")], (b"first", False)))])
            c2 = self.mk("GET", [handler(**kw)], path=path)
            for c in (c1, c2):
                if c["path"].startswith("/"):
                    SCRIPTS[c["path"]] = c
            sk = socket.socket(socket.AF_INET6, socket.SOCK_STREAM)
            sk.settimeout(deadline)
            r1 = r2 = b""
            try:
                sk.connect(("::1", server_port()))
                sk.sendall(request_bytes(c1))
                while b"\r\n\r\n" not in r1 or len(r1.partition(b"\r\n\r\n")[2]) < 5:
                    d = sk.recv(65536)
                    if not d:
                        break
                    r1 += d
                sk.sendall(request_bytes(c2))
                while True:
                    d = sk.recv(65536)
                    if not d:
                        break
                    r2 += d
            except OSError as ex:
                r2 += b"<%s>" % type(ex).__name__.encode()
            finally:
                sk.close()
                SCRIPTS.pop(c1["path"], None)
                SCRIPTS.pop(c2["path"], None)
            p1, p2 = canonical(r1), canonical(r2)
            if not (p1[0] == 1 and p1[1] == 200 and p1[4] == b"first" and p2[0] == 1 and p2[1] == want):
                return ({"_extra": True, "probe": "two requests on one connection; the first handler returns Connection: keep-alive + "
                                                  "Content-Length, the second request: " + name, "expected_status_of_second": want,
                         "first": common._jsonable(p1[:2]), "second": common._jsonable(p2)}, ["well_formed", "status"], None, None)
        return None

    def gen(self, tier, rng):
        self.tier = tier
        self._early_fail = self.survives_faulty_handlers() or self.persistent_connection()
        if self._early_fail is not None:
            return                  # the server has stopped serving: report that, do not time out case by case
        yield from self.gen_cases(tier, rng)

    def gen_cases(self, tier, rng):
        bodies = [None, (b"", False), (SMALL, False), (bigbody(), False)]
        # full product of the design scope
        for status in (200, 204, 301, 404, 500):
            for nh in (None, 0, 1, 3):
                for b in bodies:
                    for m in METHODS:
                        yield self.mk(m, [handler(act=(status, H(nh), b))],
                                      reqbody=b"request body" if m in ("POST", "PUT") and status == 200 else b"")
        # boundary of the bare-error rule: status 400 exactly, 399 does not exist; 304/204/205 never get a page
        for m in METHODS:
            for st in (400, 403, 503, 304, 205):
                yield self.mk(m, [handler(act=(st, None, None))])
                yield self.mk(m, [handler(act=(st, [], None))])
                yield self.mk(m, [handler(act=(st, None, (b"", False)))])
                yield self.mk(m, [handler(act=(st, H(1), None))])
        # what kind of stream the handler returns and where it stands: the body is what it yields from there
        medium = bytes((i * 31 + (i >> 7)) & 0xFF for i in range(200_000))
        for data in (SMALL, medium):
            for kind in ("bytesio", "file", "rawfile", "nonseekable"):
                for how, k in ((None, 0), ("read", 0), ("read", 7), ("read", len(data) - 1), ("read", len(data)),
                               ("seek", 7), ("seek", len(data) // 2), ("seek", len(data))):
                    if kind == "nonseekable" and how == "seek":
                        continue
                    for st, nh in ((200, 1), (404, None)):
                        yield self.mk("GET", [handler(act=(st, H(nh), (data, False, (kind, how, k))))])
        # streams with short reads (legal for raw streams, pipes, sockets): the body is the WHOLE stream; a read that
        # fails in the middle ends the response there
        edge = [bytes((i * 13) & 0xFF for i in range(n)) for n in (65535, 65536, 65537, 131072, 200_001)]
        for data in [SMALL, medium] + edge:
            for how in PIECES:
                if how in ("1", "7") and len(data) > 70000 and tier == "quick":
                    continue            # hundreds of thousands of one-byte writes: thorough only
                yield self.mk("GET", [handler(act=(200, H(1), (data, False, ("piecewise", how, 0))))])
            yield self.mk("GET", [handler(act=(200, H(1), (data, False, ("pipe", None, 0))))])
            yield self.mk("POST", [handler(act=(404, H(2), (data, False, ("socketpair", None, 0))))])
            yield self.mk("GET", [handler(act=(200, None, (data, False, ("bytesio", None, 0))))])
            for k in (0, 1, len(data) // 2, len(data) - 1):
                yield self.mk("GET", [handler(act=(200, H(1), (data, True, ("failmid", "1000", k))))])
        # header NAMES that collide with what http.server emits itself (Server, Date; Connection / Content-Type / Content-Length
        # on the error path), in every letter case and repeated: the handler's headers are all sent, after the library's
        lib = ["Date", "date", "DATE", "Server", "server", "SERVER", "Content-Length", "content-length", "Content-Type",
               "CONTENT-TYPE", "content-type", "Connection", "X-Date", "Last-Modified", "X-Server-Id"]
        vals = {"date": "Mon, 01 Jan 2001 00:00:00 GMT", "server": "mirror/1.0", "content-length": "5", "content-type": "text/x-verif",
                "connection": "close"}
        for name in lib:
            v = vals.get(name.lower(), "v")
            for st, b in ((200, (b"12345", False)), (404, None), (200, None), (500, (b"12345", False))):
                yield self.mk("GET", [handler(act=(st, [(name, v)], b))])
            yield self.mk("HEAD", [handler(act=(200, [("X-Before", "1"), (name, v), ("X-After", "2")], (b"12345", False)))])
        yield self.mk("GET", [handler(act=(200, [("Date", "a"), ("date", "b"), ("DATE", "c"), ("Server", "d"), ("server", "e")], (b"12345", False)))])
        yield self.mk("GET", [handler(act=(404, [("Content-Type", "a"), ("content-type", "b"), ("Content-Length", "5"), ("Connection", "close")],
                                           (b"12345", False)))])
        # REQUEST headers the handler result does not depend on: Host in every legal and odd form, none, repeated;
        # other headers a server-side convenience might parse
        hosts = ["verif", "[::1]:8080", "[fd00::2]", "[::1]", "[fe80::1%25eth0]:80", "example.org:8080", "example.org:", "example.org:http",
                 ":80", "example.org:99999", "example.org:-1", "", " ", "a" * 300, "xn--bcher-kva.example", "b\u00fccher.example", "127.0.0.1:0",
                 "[::ffff:127.0.0.1]:80", "host:80:80", "user@host:80"]
        for hv in hosts:
            for m, st, b in (("GET", 200, (b"hosted", False)), ("HEAD", 404, None), ("POST", 200, (b"posted", False))):
                yield self.mk(m, [handler(act=(st, H(1), b))], reqheaders=[("Host", hv)])
        for rh in ([], [("Host", "a"), ("Host", "[::1]:1")], [("host", "[::1]:8080"), ("X-Forwarded-Host", "[::2]:1")],
                   [("Host", "verif"), ("Content-Length", "abc")], [("Host", "verif"), ("Content-Length", "-1")],
                   [("Host", "verif"), ("Accept-Encoding", "gzip;q=x"), ("Range", "bytes=a-b"), ("If-Modified-Since", "yesterday"),
                    ("Cookie", "a=b; c"), ("Authorization", "Basic !!!"), ("User-Agent", ""), ("Accept-Language", "\xff")],
                   [("Host", "verif"), ("X-Forwarded-For", "[::1]:x, unknown"), ("Forwarded", "for=\"[::1]:80\";proto=:"), ("Via", "1.0 :")]):
            yield self.mk("GET", [handler(act=(200, H(2), (b"rh", False)))], reqheaders=rh)
            yield self.mk("GET", [handler(can=False)], reqheaders=rh)
            yield self.mk("GET", [handler(act=None, exc=("ValueError", 0))], reqheaders=rh)
        # the same answers at every logging level of the server module
        for lvl in (logging.DEBUG, logging.INFO, logging.ERROR):
            for m in METHODS:
                yield self.mk(m, [handler(act=(200, H(1), (SMALL, False)))], loglevel=lvl, path="/c/l\\og%%09name%d" % next(self._seq))
            yield self.mk("GET", [handler(act=None, exc=("RuntimeError", 1))], loglevel=lvl)
            yield self.mk("GET", [handler(can=False)], loglevel=lvl)
            yield self.mk("GET", [handler(act=(404, None, None))], loglevel=lvl, path="c/bad%d" % next(self._seq))
        # legal values at and beyond natural limits: long header values, many headers, every token character in a name,
        # long paths, the extreme status codes
        yield self.mk("GET", [handler(act=(200, [("X-Long", "v" * 8190), ("X-Longer", "w" * 70000)], (b"b", False)))])
        yield self.mk("GET", [handler(act=(200, [("X-%03d" % i, str(i)) for i in range(300)], (b"b", False)))])
        yield self.mk("GET", [handler(act=(404, [(TCHARS, "all token characters"), ("X", "\t tab and \x7f and \xff \x01")], None))])
        for n in (255, 256, 4096, 60000):
            yield self.mk("GET", [handler(act=(200, None, (b"p", False)))], path="/c/" + "p" * n)
            yield self.mk("GET", [handler(can=False)], path="/c/" + "q" * n)
        for st in (100, 101, 102, 103, 226, 300, 308, 399 if False else 307, 400, 418, 451, 499 if False else 431, 511):
            for b in (None, (b"x", False)):
                yield self.mk("GET", [handler(act=(st, None, b))])
                yield self.mk("HEAD", [handler(act=(st, H(1), b))])
        # falsy but valid header values, names that differ only in letter case
        yield self.mk("GET", [handler(act=(200, [("X-Empty", ""), ("X-Zero", "0"), ("x-empty", " "), ("X-EMPTY", "False")], (b"b", False)))])
        yield self.mk("GET", [handler(act=(404, [("X-Empty", "")], None))])
        yield self.mk("GET", [handler(act=(200, [("X-Empty", "")], (b"", False)))])
        yield self.mk("HEAD", [handler(act=(200, H(1), (medium, False, ("file", "seek", 100))))])
        yield self.mk("POST", [handler(act=(200, None, (medium, False, ("rawfile", "read", 65536))))], reqbody=b"abc")
        # every exception class a handler may let escape, from each of its three methods: always the 500 page
        for ci, cls in enumerate(EXC_CLASSES):
            for mi in range(len(EXC_MESSAGES)):
                if tier == "quick" and (ci + mi) % 2 and mi > 0:
                    continue
                yield self.mk("GET", [handler(act=None, exc=(cls, mi))])
                yield self.mk(METHODS[(ci + mi) % 5], [handler(prep_raises=True, act=(200, None, None), exc=(cls, mi))])
                yield self.mk("GET", [handler(can=False), handler(can_raises=True, act=(200, None, None), exc=(cls, mi))])
        # raising handlers, failing streams
        for m in METHODS:
            yield self.mk(m, [handler(act=None)])
            yield self.mk(m, [handler(prep_raises=True, act=(200, None, None))])
            yield self.mk(m, [handler(can_raises=True, act=(200, None, None))])
            yield self.mk(m, [handler(can=False), handler(act=None)])
            for nh in (None, 0, 2):
                for st in (200, 404):
                    yield self.mk(m, [handler(act=(st, H(nh), (SMALL, True)))])
                    yield self.mk(m, [handler(act=(st, H(nh), (b"", True)))])
            yield self.mk(m, [handler(act=(200, H(1), (bigbody(), True)))])
        # handler lists: nobody accepts -> 404; first accepting one answers
        for m in METHODS:
            yield self.mk(m, [])
            yield self.mk(m, [handler(can=False, act=(200, None, (b"wrong", False)))])
            yield self.mk(m, [handler(can=False), handler(can=False), handler(can=False)])
            yield self.mk(m, [handler(can=False, act=(500, None, None)), handler(act=(200, H(1), (b"second", False))),
                              handler(act=(404, None, None))])
            yield self.mk(m, [handler(act=(403, None, None)), handler(act=(200, None, (b"never", False)))])
            # bad request paths
            yield self.mk(m, [handler(act=(200, None, (b"x", False)))], path="c/nolead")
            yield self.mk(m, [handler(act=(200, None, (b"x", False)))], path="/c/nul\x00byte")
            yield self.mk(m, [handler(act=(200, None, (b"x", False)))], path="*")
            yield self.mk(m, [handler(act=(200, H(2), (SMALL, False)))], version=1)
            yield self.mk(m, [handler(act=(404, None, None))], version=1)
        # random
        codes = sorted(int(k) for k in RESPONSES if int(k) >= 200)
        n = 250 if tier == "quick" else 3000
        tricky = [b"HTTP/1.0 200 OK\r\n\r\n", b"\r\n", b"\r\n\r\n", b"\n", b"\r", b"a: b\r\n", b"\x00\xff"]
        for _ in range(n):
            hs = []
            for _k in range(rng.randrange(1, MAXH + 1)):
                r = rng.random()
                if r < 0.08:
                    act = None
                else:
                    st = rng.choice(codes) if rng.random() < 0.7 else rng.choice([200, 404, 500, 400, 304, 204, 205])
                    hk = rng.choice([None, 0, 1, 2, 5])
                    hd = None
                    if hk is not None:
                        hd = []
                        seen = set()
                        while len(hd) < hk:
                            name = "".join(rng.choice(TCHARS) for _ in range(rng.randrange(1, 12)))
                            if rng.random() < 0.25:      # names the library emits itself, in a random letter case
                                name = "".join(ch.upper() if rng.random() < 0.5 else ch.lower()
                                               for ch in rng.choice(["date", "server", "content-length", "content-type"]))
                            if name.lower() == "connection" or name in seen:
                                continue
                            seen.add(name)
                            val = "".join(chr(rng.choice([32, 9, 58, 44, 59, 34, 233, 255, 127, 1]
                                                         + list(range(33, 127))))
                                          for _ in range(rng.randrange(0, 20)))
                            hd.append((name, val))
                    bk = rng.random()
                    if bk < 0.3:
                        b = None
                    else:
                        parts = [rng.choice(tricky) if rng.random() < 0.4 else
                                 bytes(rng.randrange(256) for _ in range(rng.randrange(0, 40)))
                                 for _ in range(rng.randrange(0, 4))]
                        data = b"".join(parts)
                        if rng.random() < 0.05:
                            data = data * rng.randrange(1000, 5000)
                        b = (data, rng.random() < 0.15)
                    act = (st, hd, b)
                hs.append(handler(can=rng.random() < 0.6, act=act, prep_raises=rng.random() < 0.03,
                                  can_raises=rng.random() < 0.03))
            yield self.mk(rng.choice(METHODS), hs, version=rng.choice([0, 1]))

    # -- real code
    def impl(self, c):
        lg = logging.getLogger("vinegar.http.server")
        old = lg.level
        if c.get("loglevel"):                    # the logging level is configuration: the response must not depend on it
            lg.setLevel(c["loglevel"])
        try:
            raw, n, left = do_request(c)
        finally:
            lg.setLevel(old)
        return (raw, n, left)

    def table(self, c):
        codes = {400, 404, 500}
        for h in c["handlers"]:
            if h["act"] is not None:
                codes.add(h["act"][0])
        return [[int(k), RESPONSES[k][0].encode("latin-1"), RESPONSES[k][1].encode("utf-8")]
                for k in sorted(codes) if k in RESPONSES]

    def enc_handler(self, h):
        act = h["act"]
        if act is None:
            a = [0]
        else:
            st, hd, b = act
            a = [1, st,
                 [0] if hd is None else [1, [[k.encode("latin-1"), v.encode("latin-1")] for k, v in hd]],
                 [0] if b is None else [1, big(body_bytes(b)), bool(b[1])]]
        return [bool(h["prep_raises"]), bool(h["can_raises"]), bool(h["can"]), a]

    def line(self, c, obs):
        return sx([False, b"S", b"D", self.table(c), c["method"].encode(), c["path"].encode("latin-1"),
                   [self.enc_handler(h) for h in c["handlers"]], self.canon(obs)])

    def canon(self, obs):
        raw, n, left = obs
        return [canonical(raw), n, left]

    def nontrivial(self, c, obs):
        kind = "404"
        st = hk = bk = None
        if not c["path"].startswith("/") or "\0" in c["path"]:
            kind = "badpath"
        else:
            for h in c["handlers"]:
                if h["prep_raises"] or h["can_raises"]:
                    kind = "raise-outer"
                    break
                if h["can"]:
                    if h["act"] is None:
                        kind = "raise-handle"
                    else:
                        st, hd, b = h["act"]
                        kind = "result"
                        hk = None if hd is None else min(len(hd), 2)
                        bk = None if b is None else (("fail" if b[1] else "ok"),
                                                     0 if not b[0] else (1 if len(b[0]) <= BIG else 2))
                    break
        key = (kind, st, hk, bk, c["method"])
        return key

    def show(self, c):
        if c.get("_extra"):
            return c

        def sh(h):
            a = h["act"]
            if a is not None:
                st, hd, b = a
                a = {"status": st, "headers": hd,
                     "body": None if b is None else {"len": len(b[0]), "head": b[0][:40].hex(), "fails": b[1],
                                                     "stream(kind, consumed how, k bytes)": b[2] if len(b) > 2 else None}}
            return {"prep_raises": h["prep_raises"], "can_raises": h["can_raises"], "can": h["can"], "act": a,
                    "raises": None if h.get("exc") is None else ("handle returns a 2-tuple" if h["exc"] == "badresult" else
                                                                [h["exc"][0], EXC_MESSAGES[h["exc"][1] % len(EXC_MESSAGES)]])}
        return {"method": c["method"], "path": c["path"], "http_version": "1.%d" % c.get("version", 0),
                "request_headers": c.get("reqheaders") if c.get("reqheaders") is not None else [["Host", "verif"]],
                "server_log_level": c.get("loglevel"), "handlers": [sh(h) for h in c["handlers"]]}

    def shrink(self, c):
        hs = c["handlers"]
        for i in range(len(hs)):
            if not hs[i]["can"] and not hs[i]["prep_raises"] and not hs[i]["can_raises"]:
                yield dict(c, handlers=hs[:i] + hs[i + 1:], path="/c/%d" % next(self._seq))
        for i in range(len(hs) - 1, 0, -1):
            yield dict(c, handlers=hs[:i], path="/c/%d" % next(self._seq))
        for i, h in enumerate(hs):
            if h["act"] is None:
                continue
            st, hd, b = h["act"]
            alts = []
            if b is not None and len(b[0]) > 4:
                alts.append((st, hd, (b"BODY", b[1])))
            if b is not None and b[0]:
                alts.append((st, hd, (b"", b[1])))
            if hd:
                for j in range(len(hd)):
                    alts.append((st, hd[:j] + hd[j + 1:], b))
            for a in alts:
                yield dict(c, handlers=hs[:i] + [dict(h, act=a)] + hs[i + 1:], path="/c/%d" % next(self._seq))
        if c["method"] != "GET":
            yield dict(c, method="GET", path="/c/%d" % next(self._seq) if c["path"].startswith("/c/") else c["path"])
        if c.get("version"):
            yield dict(c, version=0)
        if c.get("reqbody"):
            yield dict(c, reqbody=b"")

    # -- concurrency and liveness (real threads; exercised, not proved)
    def judge(self, cases, obs):
        lines = [self.line(c, o) for c, o in zip(cases, obs)]
        outs = run_model(self.ident, lines)
        res = []
        for c, o, out in zip(cases, obs, outs):
            r = unsx(out)
            if len(r) >= 5 and r[4] in (0, 1) and getattr(self, "_report", None) is not None:
                key = "cases_within_theorem_hypotheses" if r[4] == 1 else "cases_outside_theorem_hypotheses"
                self._report["extra"][key] = self._report["extra"].get(key, 0) + 1
            res.append((c, o, r[0], names(r[2])))
        return res

    def probe(self):
        c = self.mk("GET", [handler(act=(200, [("X-Probe", "1")], (b"alive", False)))])
        raw, n, left = do_request(c, timeout=10.0)
        p = canonical(raw)
        return p[0] == 1 and p[1] == 200 and p[4] == b"alive" and n == 1 and left == 0

    def concurrency_probe(self, report):
        """the server keeps answering while other requests are in flight (both tiers):
        (1) a client has sent only part of its request head - another request must be answered meanwhile;
        (2) rendezvous: a handler waits until a SECOND request has been handled."""
        deadline = 1.5
        fails = []
        port = server_port()
        # (1) half-sent request
        a = socket.socket(socket.AF_INET6, socket.SOCK_STREAM)
        a.settimeout(5.0)
        try:
            a.connect(("::1", port))
            a.sendall(b"GET /c/half-sent HTTP/1.0\r\nHost: verif\r\n")          # no blank line yet
            time.sleep(0.05)
            c = self.mk("GET", [handler(act=(200, H(1), (b"second client", False)))])
            t0 = time.time()
            raw, n, left = do_request(c, timeout=deadline)
            p = canonical(raw)
            if not (p[0] == 1 and p[1] == 200 and p[4] == b"second client"):
                fails.append(({"_extra": True, "probe": "second request while a first client has sent half of its request head",
                               "deadline_s": deadline, "waited_s": round(time.time() - t0, 2)},
                              ["keeps_answering_concurrent_requests"], common._jsonable(p), None))
            a.sendall(b"\r\n")
            try:
                while a.recv(65536):
                    pass
            except OSError:
                pass
        finally:
            a.close()
        # (2) rendezvous of two handlers
        key = "rv%d" % next(self._seq)
        h1 = handler(act=(200, H(1), (b"met", False)))
        h1["rendezvous"] = ("wait", key)
        h2 = handler(act=(200, None, (b"setter", False)))
        h2["rendezvous"] = ("set", key)
        c1, c2 = self.mk("GET", [h1]), self.mk("POST", [h2])
        res = {}

        def first():
            res["r1"] = do_request(c1, timeout=4.0)
        t = threading.Thread(target=first)
        t0 = time.time()
        t.start()
        time.sleep(0.1)
        raw2, _n2, _l2 = do_request(c2, timeout=deadline)
        t.join()
        p1, p2 = canonical(res["r1"][0]), canonical(raw2)
        took = time.time() - t0
        if not (p1[0] == 1 and p1[1] == 200 and p1[4] == b"met" and p2[0] == 1 and p2[1] == 200 and took < 2.5):
            fails.append(({"_extra": True, "probe": "rendezvous: the handler of request 1 waits until request 2 has been handled",
                           "deadline_s": deadline, "took_s": round(took, 2)},
                          ["keeps_answering_concurrent_requests"], common._jsonable([p1, p2]), None))
        EVENTS.pop(key, None)
        report["extra"]["concurrency_probes"] = 2
        # (4) many requests pending at once (handlers blocked on an Event, some clients with a half-sent head):
        #     one more request must still be answered in time - no bound on simultaneously served connections
        if not fails:
            f = self.many_pending(40 if self.tier == "quick" else 80, deadline)
            report["extra"]["concurrency_probes"] += 1
            if f is not None:
                fails.append(f)
        # (3) two large bodies in flight at once: one client stalls (tiny receive buffer, not reading) while the other
        #     downloads completely, then the first reads the rest; both bodies must arrive byte for byte
        if not fails:
            for mib in ((8,) if self.tier == "quick" else (3, 8, 24, 48)):
                f = self.interleaved_bodies(mib)
                report["extra"]["concurrency_probes"] += 1
                if f is not None:
                    fails.append(f)
                    break
        # (5) a client that stops reading for a while in the middle of a large body and then goes on: the whole body
        #     arrives. Real wall-clock time: quick stalls 2.5 s - or, when http.server was seen to put a timeout T <= 30 s
        #     on the connection socket, T + 1.5 s; thorough stalls at least 12 s. Longer server-side limits are not reached.
        if not fails:
            t = CONN_TIMEOUT[0]
            stall = 2.5 if self.tier == "quick" else 12.0
            if isinstance(t, (int, float)) and t <= 30:
                stall = max(stall, t + 1.5)
            f = self.stalled_reader(stall)
            report["extra"]["concurrency_probes"] += 1
            report["extra"]["stalled_reader_s"] = stall
            if f is not None:
                fails.append(f)
        if fails:
            report["impl_failures"] += len(fails)
            report.setdefault("extra_failing", []).extend(fails)
        return not fails

    def many_pending(self, n, deadline):
        key = "hold%d" % next(self._seq)
        EVENTS[key] = threading.Event()
        port = server_port()
        results = [None] * n
        halves = []

        def held(i):
            h = handler(act=(200, None, (b"released %d" % i, False)))
            h["rendezvous"] = ("hold", key)
            results[i] = do_request(self.mk("GET", [h]), timeout=25.0)
        ths = [threading.Thread(target=held, args=(i,)) for i in range(n)]
        try:
            for t in ths:
                t.start()
            for _ in range(max(4, n // 8)):
                a = socket.socket(socket.AF_INET6, socket.SOCK_STREAM)
                a.connect(("::1", port))
                a.sendall(b"GET /c/half-sent HTTP/1.0\r\n")
                halves.append(a)
            time.sleep(0.4)                                    # all of them have reached the server
            c = self.mk("GET", [handler(act=(200, H(1), (b"one more", False)))])
            t0 = time.time()
            raw, _n, _l = do_request(c, timeout=deadline)
            p = canonical(raw)
            waited = time.time() - t0
        finally:
            EVENTS[key].set()
            for t in ths:
                t.join(30.0)
            for a in halves:
                a.close()
            EVENTS.pop(key, None)
        ok_held = sum(1 for i, r in enumerate(results) if r is not None and canonical(r[0])[:2] == [1, 200]
                      and canonical(r[0])[4] == b"released %d" % i)
        if not (p[0] == 1 and p[1] == 200 and p[4] == b"one more") or ok_held != n:
            return ({"_extra": True, "probe": "%d requests pending (handlers blocked on an Event) and %d half-sent heads, then one more request"
                                              % (n, len(halves)),
                     "deadline_s": deadline, "waited_s": round(waited, 2), "held_requests_answered_after_release": ok_held},
                    ["keeps_answering_concurrent_requests"], common._jsonable(p), None)
        return None

    def stalled_reader(self, stall):
        body = (b"S" * 4095 + b"\n") * (16 * 256)             # 16 MiB: more than the socket buffers hold
        c = self.mk("GET", [handler(act=(200, H(1), (body, False)))])
        SCRIPTS[c["path"]] = c
        a = socket.socket(socket.AF_INET6, socket.SOCK_STREAM)
        a.setsockopt(socket.SOL_SOCKET, socket.SO_RCVBUF, 4096)
        a.settimeout(20.0)
        me = 0
        try:
            a.connect(("::1", server_port()))
            me = a.getsockname()[1]
            a.sendall(request_bytes(c))
            first = a.recv(4096)
            time.sleep(stall)                                 # the server is blocked in sendall all this time
            chunks = [first]
            try:
                while True:
                    d = a.recv(1 << 20)
                    if not d:
                        break
                    chunks.append(d)
            except OSError as ex:
                chunks.append(b"<%s>" % type(ex).__name__.encode())
            raw = b"".join(chunks)
        finally:
            a.close()
            SCRIPTS.pop(c["path"], None)
            RECORDS.pop(me, None)
        p = parse_strict(raw)
        if p is None or p[0] != 200 or p[3] != body:
            got = len(p[3]) if p else len(raw)
            return ({"_extra": True, "probe": "one client reads the first 4 KiB of a 16 MiB body, stops reading for %.1f s, then reads the rest" % stall,
                     "body_bytes_received": got, "body_bytes_sent": len(body)}, ["body"], None, None)
        return None

    def interleaved_bodies(self, mib):
        nblocks = mib * 256
        body_a = (b"A" * 4095 + b"\n") * nblocks
        body_b = (b"b" * 4095 + b"\n") * nblocks
        port = server_port()
        ca = self.mk("GET", [handler(act=(200, H(1), (body_a, False)))])
        cb = self.mk("GET", [handler(act=(200, H(1), (body_b, False)))])
        SCRIPTS[ca["path"]] = ca
        a = socket.socket(socket.AF_INET6, socket.SOCK_STREAM)
        a.setsockopt(socket.SOL_SOCKET, socket.SO_RCVBUF, 4096)      # before connect: small window, the server blocks in sendall
        a.settimeout(20.0)
        try:
            a.connect(("::1", port))
            me = a.getsockname()[1]
            a.sendall(request_bytes(ca))
            time.sleep(0.3)                                          # the first response is under way and stalled
            raw_b, _n, _l = do_request(cb, timeout=20.0)
            chunks = []
            try:
                while True:
                    d = a.recv(1 << 20)
                    if not d:
                        break
                    chunks.append(d)
            except OSError as ex:
                chunks.append(b"<%s>" % type(ex).__name__.encode())
            raw_a = b"".join(chunks)
        finally:
            a.close()
            SCRIPTS.pop(ca["path"], None)
            RECORDS.pop(me, None)

        def first_bad_block(raw, want):
            p = parse_strict(raw)
            if p is None or p[0] != 200:
                return ("response not parseable or not 200", raw[:80])
            got = p[3]
            if got == want:
                return None
            for i in range(0, max(len(got), len(want)), 4096):
                if got[i:i + 4096] != want[i:i + 4096]:
                    return ("body differs in 4 KiB block %d of %d (length received %d, sent %d)" % (i // 4096, len(want) // 4096, len(got), len(want)),
                            got[i:i + 4096][:16] + b" ... " + bytes(sorted(set(got[i:i + 4096])))[:8])
            return ("length differs", b"")
        bad_a, bad_b = first_bad_block(raw_a, body_a), first_bad_block(raw_b, body_b)
        if bad_a or bad_b:
            return ({"_extra": True, "probe": "two responses with %d MiB bodies in flight: client 1 stalls (SO_RCVBUF 4096, not reading) while "
                                              "client 2 downloads completely, then client 1 reads the rest" % mib,
                     "stalled_client": None if not bad_a else [bad_a[0], common._jsonable(bad_a[1])],
                     "other_client": None if not bad_b else [bad_b[0], common._jsonable(bad_b[1])]},
                    ["keeps_answering_concurrent_requests", "body"], None, None)
        return None

    def extra_checks(self, tier, rng, report):
        self._report = report
        if getattr(self, "_early_fail", None) is not None:
            report["impl_failures"] += 1
            report.setdefault("extra_failing", []).append(self._early_fail)
            return
        if not self.concurrency_probe(report):
            return                      # a server that serialises requests would make the batches below time out one by one
        nthreads = 8
        rounds = 2 if tier == "quick" else 12
        per = 6 if tier == "quick" else 25
        crng = __import__("random").Random(rng.random())
        pool = [c for c in itertools.islice(self.gen_cases("quick", crng), 0, 700)]
        report["extra"]["concurrent_requests"] = 0
        report["extra"]["liveness_probes"] = 0
        for _round in range(rounds):
            batches = [[dict(crng.choice(pool)) for _ in range(per)] for _ in range(nthreads)]
            for bt in batches:
                for c in bt:
                    if c["path"].startswith("/c/"):
                        c["path"] = "/c/%d" % next(self._seq)
            results = [None] * nthreads

            def work(i):
                try:
                    results[i] = [self.impl(c) for c in batches[i]]
                except Exception as ex:   # noqa
                    results[i] = ex
            ths = [threading.Thread(target=work, args=(i,)) for i in range(nthreads)]
            for t in ths:
                t.start()
            for t in ths:
                t.join()
            cases, obs = [], []
            for bt, rs in zip(batches, results):
                if isinstance(rs, Exception) or rs is None:
                    report.setdefault("extra_failing", []).append(
                        ({"_extra": True, "what": "client thread failed", "error": repr(rs)}, ["concurrent_client"], None, None))
                    continue
                cases += bt
                obs += rs
            for (c, o, m, fi) in self.judge(cases, obs):
                report["evaluations"] += 1
                report["extra"]["concurrent_requests"] += 1
                if self.canon(o) != m:
                    report["disagreements"] += 1
                if fi:
                    report["impl_failures"] += 1
                    report.setdefault("extra_failing", []).append(
                        (dict(self.show(c), _extra=True, concurrent=True), fi,
                         common._jsonable(self.canon(o)), common._jsonable(m)))
            report["extra"]["liveness_probes"] += 1
            if not self.probe():
                report.setdefault("extra_failing", []).append(
                    ({"_extra": True, "what": "liveness probe after concurrent batch"}, ["server_keeps_answering"], None, None))


if __name__ == "__main__":
    raise SystemExit(C03().main())
