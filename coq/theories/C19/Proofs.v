(* The checker of C19 accepts the model: lock_linearizable (checker form) for the three lock-protected
   components. *)
From Coq Require Import String.
From Coq Require Import List NArith ZArith Bool Arith Lia.
From VF Require Import Base.Sx Conc.Machine Conc.Lin Conc.MachineProofs Conc.LinProofs Conc.RealTime Conc.Instances
  Conc.InstanceProofs C19.Entry.
Import ListNotations.
Local Open Scope nat_scope.

Lemma fuel_ok {E A} (sch : list (choice E)) (calls : list (list A)) : length sch < fuel_for sch calls.
Proof. unfold fuel_for. lia. Qed.

Lemma opt_r_refl : forall o : option R, opt_eqb r_eqb o o = true.
Proof. apply opt_eqb_refl. apply r_eqb_refl. Qed.

Lemma wrap_plain l : no_none l = true -> wrap_obs (plain l) = l.
Proof. apply wrap_unwrap. Qed.

(* lock_linearizable, real-time form, for the three lock-protected components: the instrumented programs
   are single critical sections, so the results of any complete run are accepted by the search that
   also enforces the real-time order *)
Lemma holds_cache capacity calls st sch :
  valid (Cache capacity calls st sch) ->
  holds (Cache capacity calls st sch) (run_model (Cache capacity calls st sch)) = [].
Proof.
  intros [Hd Hn].
  assert (K : cr_search capacity calls st sch (run_model (Cache capacity calls st sch)) = true).
  { unfold cr_search. cbn [run_model]. rewrite (wrap_plain _ Hn).
    exact (lin_accepts (robj lru) unit (rls (ccall * R)) (rcall ccall) (option R) unit (rbegin _ _ c_begin)
             (rprog _ _ _ _ cache_body) (rret _ _ c_ret) c_env (opt_eqb r_eqb) opt_r_refl
             (rbody _ _ _ _ cache_body) (rprog_cs _ _ _ _ cache_body) (cr_init capacity calls st) sch (fuel_for sch calls)
             (inv_init (robj lru) unit (rls (ccall * R)) (rcall ccall) (option R) _ _ tt _) Hd (fuel_ok sch calls)). }
  cbn [holds]. rewrite K. reflexivity.
Qed.

Lemma holds_text contents badl ce calls st sch :
  valid (Text contents badl ce calls st sch) ->
  holds (Text contents badl ce calls st sch) (run_model (Text contents badl ce calls st sch)) = [].
Proof.
  intros [Hd Hn].
  assert (K : tr_search contents badl ce calls st sch (run_model (Text contents badl ce calls st sch)) = true).
  { unfold tr_search. cbn [run_model]. rewrite (wrap_plain _ Hn).
    exact (lin_accepts (robj tobj) nat (rls tls) (rcall tcall) (option R) nat (rbegin _ _ t_begin)
             (rprog _ _ _ _ (text_body (t_contents contents) (t_bad badl) ce)) (rret _ _ tres) t_env (opt_eqb r_eqb) opt_r_refl
             (rbody _ _ _ _ (text_body (t_contents contents) (t_bad badl) ce))
             (rprog_cs _ _ _ _ (text_body (t_contents contents) (t_bad badl) ce)) (tr_init calls st) sch (fuel_for sch calls)
             (inv_init (robj tobj) nat (rls tls) (rcall tcall) (option R) _ _ 0 _) Hd (fuel_ok sch calls)). }
  cbn [holds]. rewrite K. reflexivity.
Qed.

Lemma holds_store calls st sch :
  valid (Store calls st sch) -> holds (Store calls st sch) (run_model (Store calls st sch)) = [].
Proof.
  intros [Hd Hn].
  assert (K : sr_search calls st sch (run_model (Store calls st sch)) = true).
  { unfold sr_search. cbn [run_model]. rewrite (wrap_plain _ Hn).
    exact (lin_accepts (robj store) unit (rls (scall * R)) (rcall scall) (option R) unit (rbegin _ _ s_begin)
             (rprog _ _ _ _ store_body) (rret _ _ s_ret) c_env (opt_eqb r_eqb) opt_r_refl
             (rbody _ _ _ _ store_body) (rprog_cs _ _ _ _ store_body) (sr_init calls st) sch (fuel_for sch calls)
             (inv_init (robj store) unit (rls (scall * R)) (rcall scall) (option R) _ _ tt _) Hd (fuel_ok sch calls)). }
  cbn [holds]. rewrite K. reflexivity.
Qed.

Lemma existsb_r_eqb r l : In r l -> existsb (r_eqb r) l = true.
Proof. intros H. apply existsb_exists. exists r. split; [exact H | apply r_eqb_refl]. Qed.

Lemma holds_yaml table tree w0 ncalls st sch post :
  valid (Yaml table tree w0 ncalls st sch post) ->
  holds (Yaml table tree w0 ncalls st sch post) (run_model (Yaml table tree w0 ncalls st sch post)) = [].
Proof.
  intros [Hlen Hord]. cbn [holds run_model]. rewrite Hord.
  assert (Hm : y_member (y_specs table tree w0 sch)
                 (results _ _ _ _ _ (y_run table tree true (y_init w0 ncalls) sch)) = true).
  { unfold y_member, results. apply forallb_forall. intros rs Hrs. apply in_map_iff in Hrs.
    destruct Hrs as (t & <- & Ht). apply forallb_forall. intros r Hr. apply existsb_r_eqb.
    exact (yaml_results_in_specs (y_table table) tree w0 (map (fun n => repeat tt n) ncalls) sch Hlen t Ht r Hr). }
  rewrite Hm. reflexivity.
Qed.

Lemma validb_valid c : validb c = true -> valid c.
Proof.
  destruct c; cbn [validb valid]; intros H; apply andb_prop in H; destruct H as [H1 H2]; split; auto.
  apply Nat.leb_le. exact H1.
Qed.

Theorem holds_model c : valid c -> holds c (run_model c) = [].
Proof.
  destruct c; cbn [valid]; intros Hv.
  - apply holds_cache. exact Hv.
  - apply holds_text. exact Hv.
  - apply holds_store. exact Hv.
  - apply holds_yaml. exact Hv.
Qed.
