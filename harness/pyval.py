"""Python value trees <-> the sx encoding of coq/theories/PyVal/Codec.v, canonical forms,
a small-scope enumerator and a random generator.  Shared by C11, C12, C13."""
import functools
import itertools

EXC_CODES = [(TypeError, 1), (KeyError, 3), (RuntimeError, 4), (FileNotFoundError, 5), (OSError, 6), (ValueError, 2)]


def exc_code(e):
    """exception instance -> class code of Codec.exc_code (most specific class first).
    A RecursionError anywhere in the cause/context chain is the code's way of running out of fuel (code 9),
    even when an `except Exception` re-raised it as something else."""
    seen, cur = 0, e
    while cur is not None and seen < 50:
        if isinstance(cur, RecursionError):
            return 9
        cur = cur.__cause__ or cur.__context__
        seen += 1
    for cls, code in EXC_CODES:
        if type(e) is cls:
            return code
    for cls, code in EXC_CODES:
        if isinstance(e, cls):
            return code
    return 100


class Opaque:
    """a value of a type the merge does not know"""
    def __init__(self, n):
        self.n = n

    def __eq__(self, other):
        return isinstance(other, Opaque) and other.n == self.n

    def __hash__(self):
        return hash(("opaque", self.n))

    def __repr__(self):
        return f"Opaque({self.n})"


def enc(v):
    """python value -> nested lists for common.sx()"""
    if v is None:
        return [0]
    if v is True or v is False:
        return [1, 1 if v else 0]
    if isinstance(v, int):
        return [2, v]
    if isinstance(v, str):
        return [3, v]
    if isinstance(v, (bytes, bytearray)):
        return [4, bytes(v)]
    if isinstance(v, list):
        return [5, [enc(x) for x in v]]
    if isinstance(v, tuple):
        return [6, [enc(x) for x in v]]
    if isinstance(v, (set, frozenset)):
        return [7, sorted((enc(x) for x in v), key=repr)]
    if isinstance(v, dict):
        return [8, [[enc(k), enc(x)] for k, x in v.items()]]
    if isinstance(v, Opaque):
        return [9, v.n]
    # other Mapping / Set / Sequence types (MappingProxyType, ChainMap, UserDict, custom classes): what they are to the
    # merge is decided by collections.abc, not by the concrete class
    import collections.abc as _abc
    if isinstance(v, _abc.Mapping):
        return [8, [[enc(k), enc(v[k])] for k in v]]
    if isinstance(v, _abc.Set):
        return [7, sorted((enc(x) for x in v), key=repr)]
    if isinstance(v, _abc.Sequence):
        return [5, [enc(x) for x in v]]
    return [9, 999]


def norm(x):
    """canonical form of an unsx()-decoded value: set members sorted"""
    t = x[0]
    if t in (5, 6):
        return [t, [norm(i) for i in x[1]]]
    if t == 7:
        return [7, sorted((norm(i) for i in x[1]), key=repr)]
    if t == 8:
        return [8, [[norm(k), norm(v)] for k, v in x[1]]]
    return x


def norm_res(x, payload=norm):
    """(0 payload) | (1 class)"""
    if x[0] == 0:
        return [0, payload(x[1])]
    return x


def show(v):
    """readable, JSON-able form that keeps list/tuple/set/bytes apart"""
    if isinstance(v, dict):
        return {"dict": [[show(k), show(x)] for k, x in v.items()]}
    if isinstance(v, list):
        return [show(x) for x in v]
    if isinstance(v, tuple):
        return {"tuple": [show(x) for x in v]}
    if isinstance(v, (set, frozenset)):
        return {"set": sorted((show(x) for x in v), key=repr)}
    if isinstance(v, (bytes, bytearray)):
        return {"bytes": bytes(v).hex()}
    if isinstance(v, Opaque):
        return {"opaque": v.n}
    return v


def thaw(v):
    """frozenset -> set below any mutable container (the enumerator uses frozensets to stay hashable-free)"""
    if isinstance(v, dict):
        return {k: thaw(x) for k, x in v.items()}
    if isinstance(v, list):
        return [thaw(x) for x in v]
    if isinstance(v, tuple):
        return tuple(thaw(x) if not isinstance(x, frozenset) else x for x in v)
    if isinstance(v, frozenset):
        return set(v)
    return v


# ------------------------------------------------------------------ exhaustive small scope
ATOMS = [None, 0, 1, "x", b"x"]
ELEMS = [0, 1, "x"]
KEYS = ["a", "b"]


def compositions(n, k):
    if k == 0:
        if n == 0:
            yield ()
        return
    for f in range(1, n - k + 2):
        for r in compositions(n - f, k - 1):
            yield (f,) + r


@functools.lru_cache(None)
def vals(n, inner=False):
    """all values with exactly n nodes (atoms restricted to ELEMS inside list/tuple/set)"""
    out = []
    if n == 1:
        out += (ELEMS if inner else ATOMS)
        out += [[], (), frozenset(), {}]
        return out
    for k in range(1, n):
        for comp in compositions(n - 1, k):
            for items in itertools.product(*[vals(c, True) for c in comp]):
                out.append(list(items))
                out.append(tuple(items))
    for items in itertools.combinations(ELEMS, n - 1):
        out.append(frozenset(items))
    for k in range(1, min(n - 1, len(KEYS)) + 1):
        for ks in itertools.permutations(KEYS, k):
            for comp in compositions(n - 1, k):
                for items in itertools.product(*[vals(c, inner) for c in comp]):
                    out.append(dict(zip(ks, items)))
    return out


def size(v):
    if isinstance(v, dict):
        return 1 + sum(size(x) for x in v.values())
    if isinstance(v, (list, tuple, set, frozenset)):
        return 1 + sum(size(x) for x in v)
    return 1


def trees(n):
    """all dicts with exactly n nodes"""
    return [v for v in vals(n) if isinstance(v, dict)]


# ------------------------------------------------------------------ random trees
def rand_val(rng, depth, keys=("a", "b", "c", 1, ("t", 0), b"k", None), hashable=False):
    r = rng.random()
    if depth <= 0 or r < 0.35:
        return rng.choice([None, 0, 1, 2, -5, "x", "y", "", b"x", b"", 10 ** 20])
    if hashable:
        return tuple(rand_val(rng, depth - 1, keys, True) for _ in range(rng.randrange(0, 3)))
    k = rng.randrange(6)
    if k == 0:
        return [rand_val(rng, depth - 1, keys) for _ in range(rng.randrange(0, 4))]
    if k == 1:
        return tuple(rand_val(rng, depth - 1, keys) for _ in range(rng.randrange(0, 4)))
    if k == 2:
        return {rand_val(rng, min(depth - 1, 1), keys, True) for _ in range(rng.randrange(0, 4))}
    if k == 3:
        return Opaque(rng.randrange(3))
    return rand_tree(rng, depth - 1, keys)


def rand_tree(rng, depth, keys=("a", "b", "c", 1, ("t", 0), b"k", None)):
    ks = list(keys)
    rng.shuffle(ks)
    return {k: rand_val(rng, depth, keys) for k in ks[:rng.randrange(0, len(ks) + 1)]}
