(* C01/C07/C02, server configuration: the wrap value, the limits and the retry budget that the
   transfers work with are the configured ones, clamped into the documented ranges.  Property
   theorems only (Tftp/ServerConfig.v). *)
From Coq Require Import String.
From Coq Require Import List ZArith Bool Lia.
From VF Require Import Tftp.ServerConfig.
Import ListNotations.
Open Scope Z_scope.

Theorem C01_config_model_holds : forall c, holds_cfg c (normalise c) = [].
Proof. exact model_holds_cfg. Qed.
Print Assumptions C01_config_model_holds.

(* the wrap value is never touched: in particular 0 stays 0 (it is not "false") and None stays None *)
Theorem C01_wrap_value_passed_on : forall c, sc_wrap (normalise c) = sc_wrap c.
Proof. intros c. exact (proj2 (proj2 (proj2 (proj2 (normalise_ranges c))))). Qed.
Print Assumptions C01_wrap_value_passed_on.

Theorem C07_limits_in_range : forall c,
  let n := normalise c in
  1 <= sc_max_tmo n <= 255 /\ 1 <= sc_default_tmo n <= sc_max_tmo n /\ 1 <= sc_retries n /\
  512 <= sc_max_bs n <= 65464.
Proof. intros c. pose proof (normalise_ranges c) as (A & B & C & D & _). cbv zeta in *. auto. Qed.
Print Assumptions C07_limits_in_range.

Theorem C07_limits_unchanged_when_legal : forall c,
  1 <= sc_max_tmo c <= 255 -> 1 <= sc_default_tmo c <= sc_max_tmo c -> 1 <= sc_retries c ->
  512 <= sc_max_bs c <= 65464 -> normalise c = c.
Proof. exact normalise_in_range_unchanged. Qed.
Print Assumptions C07_limits_unchanged_when_legal.

(* ---- the packet builders (Tftp/PacketBuild.v) ---- *)
From VF Require Import Tftp.PacketBuild.
Theorem C01_data_packet_roundtrip : forall blk payload, (blk < 65536)%N ->
  dec_data (enc_data blk payload) = Some (blk, payload).
Proof. exact data_roundtrip. Qed.
Print Assumptions C01_data_packet_roundtrip.
Theorem C01_data_packet_injective : forall b1 p1 b2 p2, (b1 < 65536)%N -> (b2 < 65536)%N ->
  enc_data b1 p1 = enc_data b2 p2 -> b1 = b2 /\ p1 = p2.
Proof. exact data_injective. Qed.
Print Assumptions C01_data_packet_injective.
