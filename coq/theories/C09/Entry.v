(* C09 (transfer part) - invalid, error and foreign packets inside a transfer. *)
From Coq Require Import String.
From Coq Require Import List NArith ZArith Bool.
From VF Require Import Base.Sx Tftp.Transfer Tftp.Run Tftp.Monitor Tftp.Entries.
Import ListNotations.
Definition holds (c : tcase) (l : list tr) : list string :=
  filter (has_tag ["C09:"%string]) (monitor c l).
Definition entry := tftp_entry holds proj_timing.
