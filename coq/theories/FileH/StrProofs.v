(* Lemmas about the string operations of Str.v *)
From Coq Require Import List NArith Bool Arith Lia.
From VF Require Import FileH.Str.
Import ListNotations.
Open Scope N_scope.

Lemma eqb_str_iff a b : eqb_str a b = true <-> a = b.
Proof.
  revert b; induction a as [|x a IH]; destruct b as [|y b]; cbn [eqb_str]; try (split; congruence).
  rewrite andb_true_iff, N.eqb_eq, IH. split; [intros [-> ->]; reflexivity | intros H; inversion H; auto].
Qed.

Lemma eqb_str_refl a : eqb_str a a = true.
Proof. now apply eqb_str_iff. Qed.

Lemma eqb_str_false a b : eqb_str a b = false <-> a <> b.
Proof.
  split.
  - intros H E. apply eqb_str_iff in E. congruence.
  - intros H. destruct (eqb_str a b) eqn:E; [apply eqb_str_iff in E; contradiction | reflexivity].
Qed.

Lemma starts_with_iff p s : starts_with p s = true <-> exists r, s = p ++ r.
Proof.
  revert s; induction p as [|x p IH]; intros s; cbn [starts_with].
  - split; [intros _; exists s; reflexivity | reflexivity].
  - destruct s as [|y s].
    + split; [discriminate | intros [r H]; discriminate].
    + rewrite andb_true_iff, N.eqb_eq, IH. split.
      * intros [-> [r ->]]. exists r. reflexivity.
      * intros [r H]. cbn in H. inversion H; subst. split; [reflexivity | exists r; reflexivity].
Qed.

Lemma starts_with_app p r : starts_with p (p ++ r) = true.
Proof. apply starts_with_iff. exists r. reflexivity. Qed.

Lemma starts_with_length p s : starts_with p s = true -> (length p <= length s)%nat.
Proof. intros H. apply starts_with_iff in H as [r ->]. rewrite app_length. lia. Qed.

Lemma ends_with_iff p s : ends_with p s = true <-> exists a, s = a ++ p.
Proof.
  unfold ends_with. rewrite <- !rev_alt. rewrite starts_with_iff. split.
  - intros [r H]. exists (rev r). apply (f_equal (@rev N)) in H.
    rewrite rev_involutive, rev_app_distr, rev_involutive in H. exact H.
  - intros [a ->]. exists (rev a). now rewrite rev_app_distr.
Qed.

Lemma ends_with_nil s : ends_with [] s = true.
Proof. reflexivity. Qed.

Lemma is_nil_iff {A} (l : list A) : is_nil l = true <-> l = [].
Proof. destruct l; cbn; split; congruence. Qed.

(* ---------- mem ---------- *)
Lemma mem_N_iff c s : mem_N c s = true <-> In c s.
Proof.
  unfold mem_N. rewrite existsb_exists. split.
  - intros [x [Hin E]]. apply N.eqb_eq in E. now subst.
  - intros H. exists c. split; [exact H | apply N.eqb_refl].
Qed.

Lemma mem_N_false c s : mem_N c s = false <-> ~ In c s.
Proof.
  rewrite <- mem_N_iff. destruct (mem_N c s); split; congruence.
Qed.

Lemma mem_N_app c a b : mem_N c (a ++ b) = mem_N c a || mem_N c b.
Proof. unfold mem_N. apply existsb_app. Qed.

(* ---------- split / join ---------- *)
Lemma split_on_not_nil c s : split_on c s <> [].
Proof.
  induction s as [|x r IH]; cbn [split_on]; [discriminate|].
  destruct (x =? c); [discriminate|]. destruct (split_on c r); discriminate.
Qed.

Lemma split_on_cons_ne c x r : x <> c ->
  exists seg segs, split_on c r = seg :: segs /\ split_on c (x :: r) = (x :: seg) :: segs.
Proof.
  intros H. cbn [split_on]. apply N.eqb_neq in H. rewrite H.
  destruct (split_on c r) as [|seg segs] eqn:E; [now apply split_on_not_nil in E|].
  exists seg, segs. auto.
Qed.

Lemma join_cons2 c a b r : join c (a :: b :: r) = a ++ c :: join c (b :: r).
Proof. reflexivity. Qed.

Lemma join_split c s : join c (split_on c s) = s.
Proof.
  induction s as [|x r IH]; [reflexivity|].
  cbn [split_on]. destruct (x =? c) eqn:E.
  - apply N.eqb_eq in E; subst x.
    destruct (split_on c r) as [|seg segs] eqn:E2; [now apply split_on_not_nil in E2|].
    rewrite join_cons2, IH. reflexivity.
  - destruct (split_on c r) as [|seg segs] eqn:E2; [now apply split_on_not_nil in E2|].
    destruct segs as [|s2 segs].
    + cbn in IH |- *. now rewrite IH.
    + rewrite join_cons2 in *. cbn [app]. now rewrite IH.
Qed.

Definition cfree (c : N) (seg : str) : Prop := ~ In c seg.

Lemma split_on_free c s : Forall (cfree c) (split_on c s).
Proof.
  induction s as [|x r IH]; cbn [split_on].
  - constructor; [intros []|constructor].
  - destruct (x =? c) eqn:E.
    + constructor; [intros []|exact IH].
    + destruct (split_on c r) as [|seg segs]; [constructor; [|constructor]|].
      * intros [H|[]]. apply N.eqb_neq in E. congruence.
      * inversion IH; subst. constructor; [|assumption].
        intros [H|H]; [apply N.eqb_neq in E; congruence | contradiction].
Qed.

Lemma split_on_nofree c s : cfree c s -> split_on c s = [s].
Proof.
  induction s as [|x r IH]; intros H; [reflexivity|].
  cbn [split_on]. destruct (x =? c) eqn:E.
  - apply N.eqb_eq in E. exfalso. apply H. left. auto.
  - rewrite IH; [reflexivity|]. intros Hin. apply H. right. exact Hin.
Qed.

Lemma split_on_app c a b : split_on c (a ++ c :: b) = split_on c a ++ split_on c b.
Proof.
  induction a as [|x a IH]; cbn [app split_on].
  - now rewrite N.eqb_refl.
  - destruct (x =? c) eqn:E.
    + now rewrite IH.
    + rewrite IH. destruct (split_on c a) as [|seg segs] eqn:E2; [now apply split_on_not_nil in E2|].
      reflexivity.
Qed.

Lemma split_join c segs : segs <> [] -> Forall (cfree c) segs -> split_on c (join c segs) = segs.
Proof.
  induction segs as [|a r IH]; intros Hne Hf; [congruence|].
  inversion Hf as [|? ? Ha Hr]; subst.
  destruct r as [|b r].
  - cbn [join]. now apply split_on_nofree.
  - rewrite join_cons2, split_on_app, split_on_nofree by exact Ha.
    rewrite IH; [reflexivity | discriminate | exact Hr].
Qed.

Lemma join_app c a b : a <> [] -> b <> [] -> join c (a ++ b) = join c a ++ c :: join c b.
Proof.
  induction a as [|x a IH]; intros Ha Hb; [congruence|].
  destruct a as [|y a].
  - cbn [app]. destruct b as [|z b]; [congruence|]. reflexivity.
  - cbn [app] in *. rewrite !join_cons2. rewrite IH by (auto; discriminate).
    now rewrite <- app_assoc.
Qed.

Lemma join_single c a : join c [a] = a.
Proof. reflexivity. Qed.

Lemma split_on_inj c a b : split_on c a = split_on c b -> a = b.
Proof. intros H. rewrite <- (join_split c a), <- (join_split c b). now rewrite H. Qed.

(* ---------- take_until ---------- *)
Lemma take_until_spec c s :
  cfree c (take_until c s) /\
  (s = take_until c s \/ exists r, s = take_until c s ++ c :: r).
Proof.
  induction s as [|x r [IH1 IH2]]; cbn [take_until].
  - split; [intros []|left; reflexivity].
  - destruct (x =? c) eqn:E.
    + apply N.eqb_eq in E; subst. split; [intros []|right; exists r; reflexivity].
    + split.
      * intros [H|H]; [apply N.eqb_neq in E; congruence|contradiction].
      * destruct IH2 as [IH2|[r' IH2]]; [left|right; exists r']; cbn [app]; congruence.
Qed.

Lemma take_until_cons_ne c x s : x <> c -> take_until c (x :: s) = x :: take_until c s.
Proof. intros H. cbn [take_until]. apply N.eqb_neq in H. now rewrite H. Qed.

(* ---------- find_sub ---------- *)
Lemma find_sub_some p s i : find_sub p s = Some i ->
  s = firstn i s ++ p ++ skipn (i + length p) s /\
  (forall j, (j < i)%nat -> starts_with p (skipn j s) = false).
Proof.
  revert i; induction s as [|x r IH]; intros i; cbn [find_sub].
  - destruct (starts_with p []) eqn:E; [|discriminate].
    intros H; inversion H; subst. apply starts_with_iff in E as [r' E].
    split; [|intros j Hj; lia]. cbn [firstn app plus]. destruct p; [reflexivity|discriminate].
  - destruct (starts_with p (x :: r)) eqn:E.
    + intros H; inversion H; subst. split; [|intros j Hj; lia].
      apply starts_with_iff in E as [r' E]. cbn [firstn app plus]. rewrite E at 1.
      f_equal. rewrite E. clear. induction p as [|y p IHp]; [reflexivity|exact IHp].
    + destruct (find_sub p r) as [k|] eqn:Ek; cbn [option_map]; [|discriminate].
      intros H; inversion H; subst. destruct (IH k eq_refl) as [H1 H2].
      split.
      * cbn [firstn plus skipn app]. f_equal. exact H1.
      * intros [|j] Hj; [exact E|]. cbn [skipn]. apply H2. lia.
Qed.

Lemma find_sub_none p s : find_sub p s = None -> forall a b, s <> a ++ p ++ b.
Proof.
  induction s as [|x r IH]; cbn [find_sub].
  - destruct (starts_with p []) eqn:E; [discriminate|]. intros _ a b H.
    destruct a; [|discriminate]. cbn in H. destruct p; [discriminate E|discriminate].
  - destruct (starts_with p (x :: r)) eqn:E; [discriminate|].
    destruct (find_sub p r) eqn:Ek; [discriminate|]. intros _ a b H.
    destruct a as [|y a].
    + cbn [app] in H. rewrite H, starts_with_app in E. discriminate.
    + cbn [app] in H. inversion H; subst. now apply (IH eq_refl a b).
Qed.

Lemma contains_iff p s : contains p s = true <-> exists a b, s = a ++ p ++ b.
Proof.
  unfold contains. destruct (find_sub p s) as [i|] eqn:E.
  - split; [intros _|reflexivity]. apply find_sub_some in E as [E _]. eauto.
  - split; [discriminate|]. intros [a [b H]]. exfalso. eapply find_sub_none; eauto.
Qed.

Lemma contains_single c s : contains [c] s = mem_N c s.
Proof.
  destruct (mem_N c s) eqn:E.
  - apply mem_N_iff in E. apply contains_iff. apply in_split in E as [a [b ->]]. exists a, b. reflexivity.
  - destruct (contains [c] s) eqn:E2; [|reflexivity]. apply contains_iff in E2 as [a [b ->]].
    apply mem_N_false in E. exfalso. apply E. apply in_or_app. right. left. reflexivity.
Qed.

(* ---------- list_str_eqb ---------- *)
Lemma list_str_eqb_iff a b : list_str_eqb a b = true <-> a = b.
Proof.
  unfold list_str_eqb. revert b; induction a as [|x a IH]; destruct b as [|y b]; cbn; try (split; congruence).
  specialize (IH b). rewrite andb_true_iff in *. rewrite andb_true_iff. rewrite eqb_str_iff. split.
  - intros [H1 [-> H3]]. f_equal. apply IH. auto.
  - intros H; inversion H; subst. split; [apply Nat.eqb_refl|]. split; [reflexivity|]. now apply IH.
Qed.
