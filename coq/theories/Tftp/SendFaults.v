(* Send failures towards the requesting client: the retry loops of
   vinegar/tftp/server.py _send_data_block / _send_options_ack when sendto() itself raises
   socket.timeout (a full send buffer under a socket time-out), with a client that acknowledges
   every packet that does go out at once.  A small model of its own: the transfer machine of
   Tftp/Transfer.v has no failing sendto towards the client.
   - _send_data_block sends inside its try: a failed send uses up one try and the block is sent
     again; after 1 + max_retries failed tries the transfer is given up.
   - _send_options_ack does the same since the repair of D23 (before it, it sent outside its try
     and a failed OACK send ended the transfer at once).
   Sends are numbered 0, 1, 2, ... in the order of the sendto calls for OACK/DATA packets;
   [faults] lists the numbers of the calls that raise.  Definitions only. *)
From Coq Require Import String.
From Coq Require Import List NArith ZArith Bool Arith.
From VF Require Import Base.Sx.
Import ListNotations.

Record scase := { s_oack : bool; s_blocks : nat; s_retries : nat; s_faults : list nat }.

Inductive attempt := AOack (ok : bool) | AData (blk : nat) (ok : bool).

Definition faulty (faults : list nat) (i : nat) : bool := existsb (Nat.eqb i) faults.

(* one DATA packet: at most [tries] sendto calls, the first of them being call number [idx] *)
Fixpoint data_tries (faults : list nat) (blk tries idx : nat) : list attempt * nat * bool :=
  match tries with
  | O => ([], idx, false)
  | S k => if faulty faults idx
           then let '(l, i, ok) := data_tries faults blk k (S idx) in (AData blk false :: l, i, ok)
           else ([AData blk true], S idx, true)
  end.

Fixpoint data_blocks (faults : list nat) (retries blk n idx : nat) : list attempt * bool :=
  match n with
  | O => ([], true)
  | S m => let '(l, i, ok) := data_tries faults blk (S retries) idx in
           if ok then let '(l2, ok2) := data_blocks faults retries (S blk) m i in (l ++ l2, ok2)
           else (l, false)
  end.

(* The OACK is handled like a block numbered 0 (since the repair of D23; before it the OACK was sent
   outside the try of _send_options_ack and a failed send ended the transfer at once: variant
   [oack_no_retry]). *)
Definition to_oack (a : attempt) : attempt := match a with AData O ok => AOack ok | _ => a end.
Definition of_oack (a : attempt) : attempt := match a with AOack ok => AData O ok | _ => a end.

(* the sendto calls for OACK/DATA packets in order, and whether every block was acknowledged *)
Definition run_send_v (oack_no_retry : bool) (c : scase) : list attempt * bool :=
  if s_oack c then
    if oack_no_retry && faulty (s_faults c) 0 then ([AOack false], false)
    else let '(l, ok) := data_blocks (s_faults c) (s_retries c) 0 (S (s_blocks c)) 0 in (map to_oack l, ok)
  else data_blocks (s_faults c) (s_retries c) 1 (s_blocks c) 0.
Definition run_send := run_send_v false.

(* ---------- the checker: what the property says about such a run ----------
   "any pattern of lost ... packets that stays within the retry budget": a packet whose send fails
   is lost before it leaves; as long as no packet fails 1 + max_retries times in a row the client
   gets the OACK (when there is one) and every block, in order, and a failed try is followed by the
   same packet again.  The checker reads an OACK call as a call for block 0. *)
Definition is_data_of (blk : nat) (a : attempt) : bool :=
  match a with AData b _ => Nat.eqb b blk | _ => false end.

(* number of failed sends of block [blk] *)
Fixpoint fails_of (blk : nat) (l : list attempt) : nat :=
  match l with
  | AData b false :: r => if Nat.eqb b blk then S (fails_of blk r) else fails_of blk r
  | _ :: r => fails_of blk r
  | [] => O
  end.
Definition delivered (l : list attempt) : list nat :=
  flat_map (fun a => match a with AData b true => [b] | _ => [] end) l.

(* after a failed send of block b the next call sends block b again (or there is no next call) *)
Fixpoint retried (retries : nat) (l : list attempt) : bool :=
  match l with
  | AData b false :: r =>
      match r with
      | a :: _ => is_data_of b a && retried retries r
      | [] => true
      end
  | _ :: r => retried retries r
  | [] => true
  end.

Definition within_budget (retries first n : nat) (l : list attempt) : bool :=
  forallb (fun b => Nat.leb (fails_of b l) retries) (seq first n).

Definition holds_core (retries first n : nat) (o : list attempt * bool) : list string :=
  let '(l, done) := o in
  (if retried retries l || (negb (within_budget retries first n l)) then []
   else ["C01:failed_send_is_retried"%string]) ++
  (if within_budget retries first n l
   then (if done && (if list_eq_dec Nat.eq_dec (delivered l) (seq first n) then true else false) then []
         else ["C01:delivers_under_send_failures_within_budget"%string])
   else (if done then ["C01:gives_up_when_send_budget_is_exhausted"%string] else [])).

Definition holds_send (c : scase) (o : list attempt * bool) : list string :=
  if s_oack c then holds_core (s_retries c) 0 (S (s_blocks c)) (map of_oack (fst o), snd o)
  else holds_core (s_retries c) 1 (s_blocks c) (map of_oack (fst o), snd o).
