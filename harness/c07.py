"""C07 - TFTP option negotiation follows RFC 2347-2349; the transfer honours the OACK."""
import io
import itertools
import os
import re
import tempfile
import types

import common
from common import Check, sx
import tftp_common as T
from c01 import C01

KNOWN = ("blksize", "timeout", "tsize")
ORDER = {"blksize": 0, "timeout": 1, "tsize": 2}
UNKNOWN_NAMES = ["windowsize", "x", "blksize2", "tsiz", "time out", "", "blksiz\xe9", "\xc0", "tsize\xa0", "o" * 200,
                 "timeout ", " blksize", "multicast"]
NON_DECIMAL = ["", "0", "08", "008", "+8", "-8", " 8", "8 ", "8\n", "8.0", "0x10", "1e3", "1_0", "eight", "8a", "a8",
               "1024x", "5s", "512.0", "8\xa0", "\xb2", "\xbd", "8\xe9", "\xb9\xb2", "8\x00", "8\t", "True", "None"]
HUGE = ["99999999999999999999", "1" + "0" * 60, "9" * 300]


def styles(name, rng=None):
    """the three letter cases of an option name"""
    mixed = "".join(ch.upper() if i % 2 == 0 else ch.lower() for i, ch in enumerate(name))
    return [name.lower(), name.upper(), mixed]


def blksize_grid(max_bs):
    nums = [0, 1, 7, 8, 9, 15, 16, 511, 512, 513, max_bs - 1, max_bs, max_bs + 1, 65464, 65465, 65535, 65536]
    return sorted({str(n) for n in nums if n >= 0}) + NON_DECIMAL + HUGE


def timeout_grid(max_tmo):
    m = int(max_tmo)                      # max_timeout may be fractional: n is accepted iff n <= max_timeout
    nums = [0, 1, 2, 3, m - 1, m, m + 1, 254, 255, 256]
    return sorted({str(n) for n in nums if n >= 0}) + ["01", "+1", "-1", " 1", "1 ", "", "1.0", "one", "1s"] + HUGE[:2]


TSIZE_GRID = ["0", "1", "00", "", "-0", "+0", " 0", "0 ", "512", "0\n", "O"]

# default_timeout / max_timeout are numbers of seconds and may be fractional (the server clamps, it does not round);
# all values are exact in ticks of 1/1024 s
FRACTIONAL = [1.5, 1.25, 2.75, 1.0009765625, 1.9990234375, 10.0, 2.0]
KINDS = [("bytesio", 0), ("bytesio", 3), ("file", 0), ("file", 4), ("pipe",), ("noreg",), ("sized",),
         # seekable stream without a file descriptor handed over at a (non-)zero position: size unknown, no tsize,
         # and the transfer starts at the position the handler left it at
         ("seekpos", 0), ("seekpos", 3)]
# ("fileread", k): a real buffered file (open(path, "rb")) whose first k bytes the handler has READ (not seek()ed)
# before returning it: the logical position is k while the descriptor offset is at the end of the read-ahead
# buffer.  Model: KRealFile (k + len(content)) k true, as for ("file", k).
READ_KINDS = [("fileread", 1), ("fileread", 3)]


def predict(c):
    """what a correct server would negotiate - used ONLY to size contents and client scripts
    (the verdict comes from the Coq specification, never from this function)"""
    o = {}
    for (k, v) in c["options"]:
        o[k.lower()] = v
    dec = re.compile(r"[1-9][0-9]*\Z")
    bs, tmo, n = 512, c["default_tmo"], 0
    v = o.get("blksize")
    if v is not None and dec.match(v) and int(v) >= 8:
        bs = min(int(v), c["max_bs"])
        n += 1
    v = o.get("timeout")
    if v is not None and dec.match(v) and 1 <= int(v) <= c["max_tmo"]:
        tmo = int(v)
        n += 1
    if o.get("tsize") == "0" and not c["netascii"] and model_kind(c["kind"])[0] in ("bytesio", "file"):
        n += 1
    return bs, tmo, n > 0


def content_for(bs, rng, netascii=False):
    """small content that still has >= 2 full blocks when the block size is small enough"""
    if bs <= 1024:
        n = 2 * bs + rng.choice([0, 1, 3, bs - 1])
    else:
        n = rng.choice([0, 5, 20])
    if netascii:
        return bytes(rng.choice([65, 66, 13, 10, 0]) for _ in range(n))
    return bytes((i * 7 + 1) % 251 for i in range(n))


def with_script(c, style, rng):
    """attach a client script: coop = ACK 0 then every block; silent = nothing (retransmission interval
    visible); skip0 = acknowledges block 1 without ACK 0; late = ACKs arriving just before the deadline"""
    bs, tmo, oack = predict(c)
    tmt = int(tmo * T.TICKS)                 # the interval in ticks (default_timeout may be fractional)
    n = len(c["content"]) + (c["content"].count(b"\n") + c["content"].count(b"\r") if c["netascii"] else 0)
    wants = ([0] if oack else []) + T.numbering(n // bs + 1, c["wrap"])
    if style == "coop":
        ev = [(i + 1, 0, T.ack(w)) for i, w in enumerate(wants)]
    elif style == "coop0":      # always starts with ACK 0, whether or not an OACK is due
        ev = [(i + 1, 0, T.ack(w)) for i, w in enumerate([0] + T.numbering(n // bs + 1, c["wrap"]))]
    elif style == "silent":
        ev = []
    elif style == "skip0":
        ev = [(i + 1, 0, T.ack(w)) for i, w in enumerate(T.numbering(n // bs + 1, c["wrap"]))]
    elif style == "late":
        ev, t = [], 0
        for w in wants:
            t += tmt - 1
            ev.append((t, 0, T.ack(w)))
    elif style == "dup":        # a duplicate of the previous ACK arrives at mid-interval, the matching ACK a little later
        ev, t, prev = [], 0, None
        for w in wants:
            if prev is not None:
                t += tmt // 2
                ev.append((t, 0, T.ack(prev)))
                ev.append((t + 1, 0, T.ack(prev)))
                t += 3
            else:
                t += 1
            ev.append((t, 0, T.ack(w)))
            prev = w
    elif style == "lose1":      # the first packet and block 1 are lost once each: retransmission after one interval
        ev, t = [], 0
        for i, w in enumerate(wants):
            t += (tmt + 2) if i < 2 else 1
            ev.append((t, 0, T.ack(w)))
    elif style.startswith("badack"):
        # "block 1 follows only ACK 0" / lock-step: a datagram with the ACK opcode that is no ACK (truncated to 2 or 3
        # bytes: no or half a block number; over-long: 5 or 6 bytes, zero- or non-zero-padded) arrives while packet
        # number k of the transfer (0 = the first one, i.e. the OACK if one is due) is outstanding; it must be
        # answered with an ERROR and end the transfer, never be taken for the acknowledgement
        k = min(int(style[6:] or 0), len(wants) - 1)
        bad = rng.choice([b"\x00\x04", b"\x00\x04\x00", b"\x00\x04\x00\x00\x00", b"\x00\x04\x00\x00\x00\x00",
                          b"\x00\x04\x00\x01\x00", b"\x00\x04\x00\x00\x01", b"\x00\x04\x01",
                          T.ack(wants[k]) + b"\x00", T.ack(wants[k])[:3], T.ack(wants[k])[:2]])
        ev = [(i + 1, 0, T.ack(w)) for i, w in enumerate(wants[:k])]
        t = k + 1
        ev.append((t, 0, bad))
        ev += [(t + 1 + i, 0, T.ack(w)) for i, w in enumerate(wants[k:])]
    elif style == "lossy":
        ev = T.coop_script(rng, wants, tmt, c["retries"], fault_rate=0.6)
    else:
        raise ValueError(style)
    return dict(c, events=[(int(t), int(a), bytes(d)) for (t, a, d) in ev])


def canon_oack(trace):
    """OACK compared as a map with case-insensitive names: names lower-cased, known options first in the
    fixed order blksize, timeout, tsize"""
    out = []
    for e in trace:
        if e[0] == 1 and e[3][0] == 6:
            opts = [[bytes(k).lower(), v] for (k, v) in e[3][1]]
            opts.sort(key=lambda kv: (ORDER.get(kv[0].decode("latin-1"), 9), kv[0]))
            e = [e[0], e[1], e[2], [6, opts]]
        out.append(e)
    return out


# stream kinds with an OS/library call that fails or behaves unusually-but-legally at one point; the model kind each
# of them must behave as (tftp_common.kind_sx encoding):
#   ("fileread", k)      buffered file advanced by read(k): fd offset != tell()          -> as ("file", k)
#   ("bytesio_err",)     BytesIO whose getbuffer() raises ValueError                      -> size unknown ("noreg")
#   ("file_tell_err", k) real file (seek(k)) whose tell() raises OSError                  -> size unknown
#   ("file_fstat_err",)  stream whose fileno() is a descriptor fstat() rejects (EBADF)    -> size unknown
#   ("file_unlinked", k) real file whose directory entry is removed before the transfer    -> as ("file", k)
FAULT_KINDS = [("bytesio_err",), ("file_tell_err", 0), ("file_tell_err", 4), ("file_fstat_err",), ("file_unlinked", 0),
               ("file_unlinked", 2)]


def model_kind(kind):
    if kind[0] in ("fileread", "file_unlinked"):
        return ("file", kind[1])
    if kind[0] in ("bytesio_err", "file_tell_err", "file_fstat_err"):
        return ("noreg",)
    return kind


class _BytesIONoBuffer(io.BytesIO):
    """a real BytesIO (the isinstance test of the code holds) whose getbuffer() fails; its release is recorded"""
    _released = None

    def getbuffer(self):
        raise ValueError("buffer not available")

    def __exit__(self, *a):
        if self._released is not None:
            self._released.append(("close_file",))
        return super().__exit__(*a)


class _NoTell:
    """real file object whose tell() fails"""
    def __init__(self, f):
        self._f = f

    def __getattr__(self, name):
        return getattr(self._f, name)

    def tell(self):
        raise OSError(29, "Illegal seek")

    def __enter__(self):
        self._f.__enter__()
        return self

    def __exit__(self, *a):
        return self._f.__exit__(*a)


class _BadFdStream(io.RawIOBase):
    def __init__(self, content):
        super().__init__()
        self._b = io.BytesIO(content)

    def readable(self):
        return True

    def read(self, n=-1):
        return self._b.read(n)

    def fileno(self):
        return 1000000                      # os.fstat -> OSError(EBADF)


def make_stream(c, paths):
    kind, content = c["kind"], c["content"]
    if kind[0] == "bytesio_err":
        return _BytesIONoBuffer(content)
    if kind[0] == "file_fstat_err":
        return _BadFdStream(content)
    k = kind[1]
    fd, path = tempfile.mkstemp(prefix="vf_tsize_k_")
    os.write(fd, b"P" * k + content)
    os.close(fd)
    paths.append(path)
    f = open(path, "rb")
    if kind[0] == "fileread":
        assert f.read(k) == b"P" * k
        return f
    f.seek(k)
    if kind[0] == "file_tell_err":
        return _NoTell(f)
    if kind[0] == "file_unlinked":
        os.remove(path)
        return f
    raise ValueError(kind)


def run_impl_custom(c):
    """own handler (tftp_common is not changed) for the stream kinds defined in this file"""
    released = []
    paths = []

    def handler(filename, client, server, context):
        f = make_stream(c, paths)
        if isinstance(f, _BytesIONoBuffer):
            f._released = released
            return f
        return T._LoggedFile(f, released)
    try:
        tr = T.run_impl(c, handler=handler)
    finally:
        for p in paths:
            try:
                os.remove(p)
            except OSError:
                pass
    if released:
        # the real code releases the file directly before the socket (nested with-blocks)
        i = max((j for j, e in enumerate(tr) if e == [6]), default=len(tr))
        tr = tr[:i] + [[5]] + tr[i:]
    return tr


# ----------------------------------------------------------------------------- end to end through the request port
def encode_rrq(fn, mode, opts):
    d = b"\x00\x01" + fn + b"\x00" + mode + b"\x00"
    for k, v in opts:
        d += k.encode("latin-1") + b"\x00" + v.encode("latin-1") + b"\x00"
    return d


class _SeqHandler:
    """request handler of the end-to-end runs (made a TftpRequestHandler subclass at first use)"""


def run_sequence(cases, rrqs, limits):
    """ONE real TftpServer object serves the read requests `rrqs` one after the other through its PUBLIC interface:
    start() on a fake request socket that delivers the requests, the real serve loop, decode_read_request, the real
    constructor and transfer thread; each transfer runs under its own fake socket with the client script of the
    corresponding case; stop() at the end.  The module under test is patched by scanning its namespace (nspatch), no
    private name of it is used.  Returns one trace per request (as tftp_common.run_impl does)."""
    import logging
    import socket as real_socket
    import threading
    import time as real_time
    import fake_net
    import nspatch
    from vinegar.tftp import server as S
    state = {"clock": [0.0], "log": [], "paths": [], "script": [], "case": None}

    class Handler(S.TftpRequestHandler):
        def can_handle(self, filename, context):
            return True

        def handle(self, filename, client_address, server_address, context):
            c = state["case"]
            if model_kind(c["kind"]) != c["kind"]:
                f = make_stream(c, state["paths"])
                if isinstance(f, _BytesIONoBuffer):
                    f._released = state["log"]
                    return f
                return T._LoggedFile(f, state["log"])
            f = T.open_stream(c, state["log"], state["paths"])
            return f if isinstance(f, (T._LoggedBytesIO, T.BufferedChunkedStream)) else T._LoggedFile(f, state["log"])

    class ReqSock:
        """request socket: hands out the queued requests, blocks (in short time-outs) while there is none"""
        def __init__(self):
            self.queue = []
            self.taken = 0
            self.idle = threading.Event()
            self.replies = []

        def settimeout(self, t):
            pass

        def bind(self, addr):
            pass

        def getsockname(self):
            return fake_net.SRV

        def setsockopt(self, level, opt, value):
            if level == real_socket.IPPROTO_IPV6 and opt == getattr(real_socket, "IPV6_RECVPKTINFO", -1):
                raise OSError("not available")

        def recvfrom(self, n):
            if self.queue:
                self.idle.clear()
                self.taken += 1
                return self.queue.pop(0)
            self.idle.set()
            real_time.sleep(0.0005)
            raise real_socket.timeout("timed out")

        def sendto(self, data, addr):
            self.replies.append((bytes(data), addr))

        def close(self):
            pass
    req = ReqSock()
    made = []
    started = []

    def make_socket(*a, **k):
        made.append(1)
        if len(made) == 1:
            return req
        return fake_net.FakeSock(list(state["script"]), state["clock"], state["log"], 0)

    class RecThread(threading.Thread):
        def start(self_t):
            started.append(self_t)
            return super().start()

    class ErrLog(logging.Handler):
        def emit(self, record):
            if record.exc_info and record.levelno >= logging.ERROR:
                state["log"].append(("logexc", record.exc_info[0].__name__ if record.exc_info[0] else "exc"))
    max_bs, max_tmo, dflt, retries = limits
    srv = S.TftpServer([Handler()], default_timeout=dflt, max_timeout=max_tmo, max_retries=retries,
                       max_block_size=max_bs, block_counter_wrap_value=0)
    undo = nspatch.patch_namespace(S, make_socket=make_socket, monotonic=lambda: state["clock"][0], thread_class=RecThread)
    h = ErrLog()
    lgs = nspatch.loggers(S) or [logging.getLogger("vinegar.tftp.server")]
    saved = [(lg, lg.level, lg.propagate) for lg in lgs]
    for lg in lgs:
        lg.addHandler(h)
        lg.setLevel(logging.INFO)
        lg.propagate = False
    traces = []
    try:
        srv.start()
        for c, rq in zip(cases, rrqs):
            log = []
            state.update(case=c, log=log, paths=[], clock=[0.0],
                         script=[(t, T.ADDRS[a], d) for (t, a, d) in c["events"]])
            del req.replies[:]
            n_before = len(started)
            taken = req.taken
            req.idle.clear()
            req.queue.append((bytes(rq), fake_net.CLI))
            deadline = real_time.time() + 60
            while real_time.time() < deadline and not (req.taken > taken and req.idle.is_set()):
                if started and not started[0].is_alive():
                    break                              # the serve loop has ended
                req.idle.wait(0.002)
            transfer_threads = started[max(n_before, 1):]
            for t in transfer_threads:
                t.join(300)
                if t.is_alive():
                    log.append(("hang",))
            for p in state["paths"]:
                try:
                    os.remove(p)
                except OSError:
                    pass
            out = []
            if req.replies or not transfer_threads:
                out.append([99, b"request port: no transfer started / reply " + b"".join(r[0] for r in req.replies)[:40]])
            for e in log:
                if e[0] == "send":
                    out.append([1, e[1], T.ADDR_ID.get(e[2], 9), T.parse_packet(e[3])])
                elif e[0] == "recv":
                    out.append([2, e[1], T.ADDR_ID.get(e[2], 9), e[3]])
                elif e[0] == "timeout":
                    out.append([3, e[1]])
                elif e[0] == "logexc":
                    out.append([4])
                elif e[0] == "close_file":
                    out.append([5])
                elif e[0] == "close_sock":
                    out.append([6])
                elif e[0] == "hang":
                    out.append([98])
            traces.append(out)
    finally:
        try:
            srv.stop()
        except Exception:      # noqa: BLE001
            pass
        undo()
        for lg, lvl, prop in saved:
            lg.removeHandler(h)
            lg.setLevel(lvl)
            lg.propagate = prop
    return traces


class C07(C01):
    ident = "C07"
    technique = ("Coq proof: negotiate = declarative RFC 2347-2349 specification (blksize/timeout/tsize rules, "
                 "case-insensitive names, canonical decimals), RRQ codec round trip; monitor + specification clauses "
                 "evaluated on the real _TftpReadRequest; extracted-model correspondence")
    rule = ("case = (ordered option list with names in lower/UPPER/MiXeD case incl. duplicates differing in case, values from "
            "the boundary grid 0,1,7,8,9,511,512,513,max-1,max,max+1,65464,65465,65535,65536 + non-decimal/signed/padded/empty/"
            "huge, server limits max_block_size {8,512,1024,65464} x max_timeout {1,5,30,255} x default_timeout {1,2,5}, stream "
            "kind bytesio@0/@3, file@0/@4 (seek), buffered file advanced by read(1|3) below/above the 8 KiB read-ahead, pipe, no-fileno, mode octet/netascii, client script coop/silent/skip-ACK0/late/lossy/duplicate-ACK at mid-interval); "
            "exhaustive: every single option x value grid x limits (x kinds x modes for tsize), all 65 ordered selections of "
            "{blksize,timeout,tsize,unknown} x 3 letter cases x accept/reject values; random mixes; non-trivial = request has "
            ">= 1 option; distinct by (options, limits, kind, mode, script)")
    assumptions = C01.assumptions + [
        "option strings are ASCII (they come from decode('ascii','ignore')) and shorter than a request packet",
        "a BytesIO / regular file announces len - position resp. st_size - tell() bytes and then delivers exactly those",
    ]

    def base(self, options, max_bs=65464, max_tmo=30, default_tmo=2, kind=("noreg",), netascii=False, retries=1,
             wrap=0):
        # the option argument of _TftpReadRequest is a dict: exact duplicates collapse as in decode_read_request
        options = list(dict(options).items())
        return T.mk_case(b"", [], netascii=netascii, options=options, max_bs=max_bs, max_tmo=max_tmo,
                         default_tmo=default_tmo, retries=retries, wrap=wrap, kind=kind, events=[])

    def finish(self, c, rng, style):
        bs, _tmo, _ = predict(c)
        c = dict(c, content=content_for(bs, rng, c["netascii"]))
        if c["kind"][0] == "noreg" and rng.random() < 0.3:
            c = dict(c, chunks=[rng.randrange(1, 9) for _ in range(rng.randrange(0, 6))])
        return with_script(c, style, rng)

    def gen(self, tier, rng):
        """all cases on the unchanged code; when the private per-transfer class is not available with the known
        signature (a structural refactoring), only the cases the PUBLIC route can express are evaluated: server limits
        inside the documented ranges and option strings that survive the wire (ASCII, no NUL) - see docs/C07.md"""
        import fake_net
        private = fake_net.private_class() is not None
        skipped = 0
        for c in self.gen_all(tier, rng):
            if private or (fake_net.public_domain(c["default_tmo"], c["max_tmo"], c["retries"], c["max_bs"], c["wrap"])
                           and c.get("proc", 0) == 0
                           and all(ch != "\x00" and ord(ch) < 128 for kv in c["options"] for x in kv for ch in x)):
                yield c
            else:
                skipped += 1
        self.skipped_not_publicly_expressible = skipped

    def gen_all(self, tier, rng):
        quick = tier == "quick"
        # (0) witnesses of the repaired defects first (D2: blksize above the limit; D3: file offset, pipe)
        for name in ("blksize", "BlkSize"):
            yield self.finish(self.base([(name, "1400")], max_bs=1024), rng, "coop")
        for kind in (("file", 4), ("pipe",), ("bytesio", 3)):
            yield self.finish(self.base([("tsize", "0")], kind=kind), rng, "coop")
        # D21: a stream positioned beyond its end delivers nothing and announces tsize=0
        for kind in (("bytesio", 3, 7), ("bytesio", 0, 1), ("file", 4, 2), ("file", 0, 1)):
            for opts in ([("tsize", "0")], [("tsize", "0"), ("blksize", "8")], [("blksize", "8")], []):
                for na in (False, True):
                    yield with_script(self.base(opts, kind=kind, netascii=na), "coop", rng)
        # (a) blksize alone: value grid x max_block_size x letter case
        for max_bs in (8, 512, 1024, 65464):
            for v in blksize_grid(max_bs):
                for name in styles("blksize"):
                    c = self.base([(name, v)], max_bs=max_bs)
                    yield self.finish(c, rng, "coop")
                    if name == "blksize":
                        yield self.finish(c, rng, "skip0")
        # (b) timeout alone: value grid x max_timeout x default_timeout, silent client shows the interval
        for max_tmo in (1, 5, 30, 255):
            for dflt in (1, 2, 5):
                if dflt > max_tmo:
                    continue
                for v in timeout_grid(max_tmo):
                    if v.isdigit() and int(v) > 40 and quick and dflt != 2:
                        continue
                    for name in styles("timeout"):
                        if name != "timeout" and (quick and rng.random() < 0.3):
                            continue
                        c = self.base([(name, v)], max_tmo=max_tmo, default_tmo=dflt, retries=rng.choice([0, 1, 2]))
                        yield self.finish(c, rng, "silent")
                        if name == "timeout":
                            yield self.finish(c, rng, rng.choice(["coop", "late"]))
        # (c) tsize alone: value grid x stream kind x mode x letter case
        for v in TSIZE_GRID:
            for kind in KINDS:
                for na in (False, True):
                    for name in styles("tsize"):
                        c = self.base([(name, v)], kind=kind, netascii=na)
                        yield self.finish(c, rng, "coop")
        # (d) all ordered selections of {blksize, timeout, tsize, unknown} x letter case x accept/reject values
        vals = {"blksize": ["8", "7", "MAX+1", "08"], "timeout": ["1", "MAXT+1", "0"], "tsize": ["0", "1"],
                "unknown": ["x", "0"]}
        for k in range(0, 5):
            for sel in itertools.permutations(("blksize", "timeout", "tsize", "unknown"), k):
                for st in range(3):
                    for combo in itertools.product(*[vals[s] for s in sel]):
                        if quick and k >= 3 and rng.random() < 0.5:
                            continue
                        max_bs = rng.choice([8, 512, 1024, 65464])
                        max_tmo = rng.choice([1, 5, 30])
                        opts = []
                        for s, v in zip(sel, combo):
                            nm = rng.choice(UNKNOWN_NAMES) if s == "unknown" else s
                            v = v.replace("MAXT+1", str(max_tmo + 1)).replace("MAX+1", str(max_bs + 1))
                            opts.append((styles(nm)[st], v))
                        c = self.base(opts, max_bs=max_bs, max_tmo=max_tmo, default_tmo=1,
                                      kind=rng.choice(KINDS), netascii=rng.random() < 0.3)
                        yield self.finish(c, rng, rng.choice(["coop", "coop", "coop0", "silent", "skip0"]))
        # (e) duplicates differing in letter case (later one wins), also against an exact repetition of a value
        for nm in KNOWN:
            good = {"blksize": ["16", "9", "2000"], "timeout": ["1", "3"], "tsize": ["0"]}[nm]
            bad = {"blksize": ["7", "08", ""], "timeout": ["0", "999"], "tsize": ["1", ""]}[nm]
            for (a, b) in itertools.product(good + bad, repeat=2):
                for (n1, n2) in itertools.permutations(styles(nm), 2):
                    c = self.base([(n1, a), (n2, b)], max_bs=rng.choice([512, 1024]), kind=("bytesio", 2))
                    yield self.finish(c, rng, "coop")
        # (g) handler has read part of a real file: below and above the 8 KiB read-ahead buffer
        for kind in READ_KINDS:
            for n in (0, 5, 600, 8191, 8192, 9000):
                for opts in ([("tsize", "0")], [("TSIZE", "0"), ("blksize", "4096")]):
                    for na in (False, True):
                        if na and n > 600:
                            continue
                        c = self.base(opts, kind=kind, netascii=na)
                        c = dict(c, content=bytes((i * 5 + 2) % 251 for i in range(n)))
                        yield with_script(c, "coop", rng)
        # (i) the size cannot be determined because one call fails (getbuffer / tell / fstat), or the file has lost
        #     its directory entry: the option is dropped resp. announced, and the transfer is complete either way
        for kind in FAULT_KINDS:
            for opts in ([("tsize", "0")], [("tsize", "0"), ("blksize", "8")], [("TSIZE", "0"), ("timeout", "1")], []):
                for na in (False, True):
                    c = self.base(opts, kind=kind, netascii=na)
                    yield self.finish(c, rng, "coop")
        # (j) fractional default_timeout / max_timeout: the default is used exactly when no timeout option is
        #     acknowledged (absent, rejected), an acknowledged one is used as whole seconds; a timeout option n is
        #     accepted iff n <= max_timeout also for a fractional maximum
        for dflt in FRACTIONAL:
            for max_tmo in (dflt, 2.5, 30, 254.9990234375, 255.0):
                if dflt > max_tmo:
                    continue
                for opts in ([], [("timeout", "0")], [("timeout", "08")], [("timeout", "999")], [("TIMEOUT", "2")],
                             [("timeout", "3")], [("blksize", "8")], [("tsize", "0"), ("timeout", "256")],
                             [("timeout", str(int(max_tmo)))], [("timeout", str(int(max_tmo) + 1))]):
                    for style in (("silent", "lose1") if quick else ("silent", "lose1", "late", "dup", "coop")):
                        c = self.base(opts, max_tmo=max_tmo, default_tmo=dflt, retries=rng.choice([1, 2]),
                                      kind=("bytesio", 0))
                        yield self.finish(c, rng, style)
        # (k) datagrams with the ACK opcode that are no ACKs (2, 3, 5, 6 bytes) while the OACK / block 1 / block 2 is
        #     outstanding, for every kind of accepted option and without options
        for opts in ([("blksize", "8")], [("timeout", "1")], [("tsize", "0")], [("BLKSIZE", "16"), ("timeout", "3")], []):
            for k in (0, 1, 2):
                for _rep in range(6 if quick else 30):
                    c = self.base(opts, max_tmo=5, default_tmo=rng.choice([1, 2, 1.5]), retries=rng.choice([0, 1, 2]),
                                  kind=("bytesio", 0))
                    yield self.finish(c, rng, f"badack{k}")
        # (h) duplicate / stale ACKs at mid-interval with a negotiated time-out different from the default
        for (tmo, dflt) in ((1, 2), (3, 1), (2, 5), (None, 2)):
            for extra in ([], [("blksize", "8")], [("tsize", "0")]):
                for retries in (1, 2):
                    opts = ([("timeout", str(tmo))] if tmo else []) + extra
                    if not opts:
                        continue
                    c = self.base(opts, max_tmo=5, default_tmo=dflt, retries=retries, kind=("bytesio", 0))
                    yield self.finish(c, rng, "dup")
        # (f) random mixtures
        for _ in range(6000 if quick else 60000):
            max_bs = rng.choice([8, 512, 1024, 1428, 65464])
            max_tmo = rng.choice([1, 2, 5, 30, 255])
            dflt = rng.choice([d for d in (1, 2, 5, 1.5, 1.25, 2.75) if d <= max_tmo])
            if rng.random() < 0.15:
                max_tmo = max(dflt, rng.choice([1.5, 2.5, 29.5]))
            opts = []
            for _k in range(rng.randrange(0, 6)):
                s = rng.choice(["blksize", "timeout", "tsize", "unknown"])
                nm = rng.choice(UNKNOWN_NAMES) if s == "unknown" else s
                nm = rng.choice(styles(nm))
                if s == "blksize":
                    v = rng.choice(blksize_grid(max_bs))
                elif s == "timeout":
                    v = rng.choice(timeout_grid(max_tmo))
                elif s == "tsize":
                    v = rng.choice(TSIZE_GRID + ["0"] * 6)
                else:
                    v = rng.choice(["", "0", "8", "x"])
                opts.append((nm, v))
            c = self.base(opts, max_bs=max_bs, max_tmo=max_tmo, default_tmo=dflt, kind=rng.choice(KINDS + READ_KINDS + FAULT_KINDS),
                          netascii=rng.random() < 0.25, retries=rng.choice([0, 1, 2, 3]), wrap=rng.choice([0, 1, None]))
            yield self.finish(c, rng, rng.choice(["coop", "coop", "coop0", "silent", "skip0", "late", "lossy", "dup", "badack0", "badack1"]))

    def impl(self, c):
        try:
            if model_kind(c["kind"]) != c["kind"]:
                return canon_oack(run_impl_custom(c))
            return canon_oack(T.run_impl(c))
        except Exception as ex:      # noqa: BLE001
            # the constructor of _TftpReadRequest raised: it runs in the request-port thread, where this is the
            # internal-error path (nothing is sent, an exception is logged) - a concrete failing input, not a crash.
            # Only exceptions raised INSIDE the code under test count; an exception raised by the harness itself (the
            # module has no such attribute, the constructor's signature has changed) is a harness problem and must
            # not be turned into a failing input
            tb = ex.__traceback__
            while tb.tb_next is not None:
                tb = tb.tb_next
            if os.path.join("vinegar", "") not in tb.tb_frame.f_code.co_filename:
                raise
            return [[4]]

    def line(self, c, obs):
        return sx([T.case_sx(dict(c, kind=model_kind(c["kind"]))), obs])

    def extra_checks(self, tier, rng, report):
        """(B) histories: one TftpServer object serves 3-5 read requests with different options, modes and stream
        kinds one after the other, from the bytes of the request (decode_read_request) to the last DATA packet; each
        transfer is judged like a directly constructed one (negotiation must not depend on earlier requests)"""
        quick = tier == "quick"
        import c01_cfg
        c01_cfg.cfg_checks(tier, rng, report)       # the limits the transfers are created with (Tftp/ServerConfig.v)
        n_seq, n_req, fails = 0, 0, []
        for _ in range(60 if quick else 800):
            # raw configuration values as an administrator may give them (fractional, out of range); TftpServer clamps
            # max_timeout into [1, 255] and default_timeout into [1, max_timeout] and does not round
            raw_max = rng.choice([1, 5, 30, 255, 2.5, 1.5, 29.75, 0.5, 300.25, 255.0])
            raw_dflt = rng.choice([1, 2, 5, 1.5, 1.25, 2.75, 1.0009765625, 0.25, 40.5, 10.0])
            eff_max = min(max(raw_max, 1), 255)
            eff_dflt = min(max(raw_dflt, 1), eff_max)
            limits = (rng.choice([512, 1024, 1428, 65464]), eff_max, eff_dflt, rng.choice([1, 2, 3]))
            raw_limits = (limits[0], raw_max, raw_dflt, limits[3])
            cases, rrqs = [], []
            for _k in range(rng.randrange(3, 6)):
                wire = []
                for _o in range(rng.randrange(0, 5)):
                    nm = rng.choice(["blksize", "timeout", "tsize", rng.choice(UNKNOWN_NAMES)])
                    nm = rng.choice(styles(nm))
                    v = rng.choice({"blksize": blksize_grid(limits[0]), "timeout": timeout_grid(limits[1]),
                                    "tsize": TSIZE_GRID + ["0"] * 6}.get(nm.lower(), ["", "0", "8", "x"]))
                    if "\x00" in v or "\x00" in nm:
                        continue
                    wire.append((nm, v))
                na = rng.random() < 0.25
                mode = rng.choice([b"netascii", b"NETASCII", b"NetAscii"] if na else [b"octet", b"OCTET", b"OcTeT"])
                # what decode_read_request makes of the wire form: ASCII only, later exact duplicate wins in place
                dec = {}
                for (nm, v) in wire:
                    dec["".join(ch for ch in nm if ord(ch) < 128)] = "".join(ch for ch in v if ord(ch) < 128)
                c = self.base(list(dec.items()), max_bs=limits[0], max_tmo=limits[1], default_tmo=limits[2],
                              kind=rng.choice(KINDS + READ_KINDS + FAULT_KINDS), netascii=na, retries=limits[3])
                c = self.finish(c, rng, rng.choice(["coop", "coop", "dup", "silent", "skip0", "lose1", "badack0", "badack2"]))
                cases.append(c)
                rrqs.append(encode_rrq(b"some/file", mode, wire))
            traces = run_sequence(cases, rrqs, raw_limits)
            n_seq += 1
            not_served = [any(e[0] in (98, 99) for e in tr) for tr in traces]
            traces = [[e for e in tr if e[0] not in (98, 99)] for tr in traces]
            lines = [self.line(c, canon_oack(tr)) for c, tr in zip(cases, traces)]
            for i, (c, tr, out) in enumerate(zip(cases, traces, common.run_model(self.ident, lines))):
                n_req += 1
                r = common.unsx(out) if not out.startswith(("!", "#")) else None
                fi = common.names(r[2]) if r else ["C07:e2e_case_rejected_by_driver"]
                if not_served[i]:
                    fi = ["C07:e2e_request_not_served"] + fi
                if r and not fi and r[0] != r[3]:
                    fi = ["C07:e2e_differs_from_model"]
                if fi and len(fails) < 2:
                    case = dict(c, _extra=True, part=f"end to end: request {i + 1} of {len(cases)} served by one "
                                                     "TftpServer object", rrq_hex=rrqs[i].hex(),
                                earlier_requests=[x.hex() for x in rrqs[:i]])
                    fails.append((case, fi, common._jsonable(canon_oack(tr)), common._jsonable(r[0] if r else None)))
        report.setdefault("extra_failing", []).extend(fails)
        report["evaluations"] += n_req
        report["impl_failures"] += len(fails)
        report["extra"].update({"e2e_sequences": n_seq, "e2e_requests": n_req})

    def nontrivial(self, c, obs):
        if c["options"]:
            return (tuple(c["options"]), c["max_bs"], c["max_tmo"], c["default_tmo"], c["kind"], c["netascii"],
                    len(c["content"]), tuple(c["events"][:8]))
        return None

    def shrink(self, c):
        opts = c["options"]
        for i in range(len(opts)):
            yield dict(c, options=opts[:i] + opts[i + 1:])
        ev = c["events"]
        for i in range(len(ev) - 1, -1, -1):
            yield dict(c, events=ev[:i] + ev[i + 1:])
        if c["chunks"]:
            yield dict(c, chunks=[])
        ct = c["content"]
        if len(ct) > 0:
            yield dict(c, content=ct[:len(ct) // 2])
            yield dict(c, content=ct[:-1])


if __name__ == "__main__":
    raise SystemExit(C07().main())
