"""Directory trees for the YAML target source: writing them, listing them for the model, oracle
tables (Jinja, PyYAML and the target matcher called directly), generators.  Shared by C11 and C12."""
import os
import shutil
import tempfile

import jinja2
import yaml

import pyval
from pyval import enc, exc_code

from vinegar.utils.smart_dict import SmartLookupDict
from vinegar.utils import system_matcher

DIR = None          # tree value of an (explicit) directory
SHM = "/dev/shm" if os.path.isdir("/dev/shm") else None


def new_root():
    return tempfile.mkdtemp(prefix="vfy_yaml_", dir=SHM)


_clock = [1_600_000_000]


def write_file(root, rel, text):
    p = os.path.join(root, rel)
    os.makedirs(os.path.dirname(p), exist_ok=True)
    with open(p, "w", encoding="utf-8") as f:
        f.write(text)
    # every edit changes the stat version (mtime strictly increasing), see DESIGN section 4
    _clock[0] += 7
    os.utime(p, (_clock[0], _clock[0]))


def remove_path(root, rel):
    p = os.path.join(root, rel)
    if os.path.isdir(p) and not os.path.islink(p):
        shutil.rmtree(p)
    elif os.path.exists(p):
        os.remove(p)


def materialise(tree, root):
    for rel, text in tree.items():
        if text is DIR:
            os.makedirs(os.path.join(root, rel), exist_ok=True)
        else:
            write_file(root, rel, text)


import builtins
import errno as _errno

ERRNOS = {"EIO": _errno.EIO, "EACCES": _errno.EACCES, "ESTALE": _errno.ESTALE}


class Faults:
    """fault injection for the calls the YAML source makes on given files of the tree:
    {"rel/path": ("stat", "EIO")}  - os.stat on that path raises OSError(errno)  (Path.exists() re-raises it)
    {"rel/path": ("read", "EACCES")} - stat works, open() raises.
    Everything else on the machine is untouched."""
    def __init__(self, root, faults):
        self.stat = {os.path.abspath(os.path.join(root, r)): ERRNOS[e] for r, (k, e) in (faults or {}).items() if k == "stat"}
        self.read = {os.path.abspath(os.path.join(root, r)): ERRNOS[e] for r, (k, e) in (faults or {}).items() if k == "read"}
        self.hits = 0

    @staticmethod
    def _path(p):
        try:
            return os.path.abspath(os.fspath(p))
        except TypeError:
            return None

    def __enter__(self):
        if not self.stat and not self.read:
            return self
        self._os_stat, self._open = os.stat, builtins.open

        def stat(path, *a, **kw):
            e = self.stat.get(self._path(path))
            if e is not None:
                self._os_stat(path, *a, **kw)          # a file that is not there is simply not there
                self.hits += 1
                raise OSError(e, os.strerror(e), str(path))
            return self._os_stat(path, *a, **kw)

        def open_(file, *a, **kw):
            e = self.read.get(self._path(file)) if not isinstance(file, int) else None
            if e is not None and os.path.isfile(file):
                self.hits += 1
                raise OSError(e, os.strerror(e), str(file))
            return self._open(file, *a, **kw)
        os.stat, builtins.open = stat, open_
        return self

    def __exit__(self, *exc):
        if self.stat or self.read:
            os.stat, builtins.open = self._os_stat, self._open
        return False


def write_inplace_keep_mtime(root, rel, text):
    """rewrites a file in place (same inode) with text of the same byte length and puts the old mtime back, as cp -p,
    rsync --inplace -t or a deployment script that normalises time stamps does.  Only ctime tells (no user-space tool can
    put it back); the function makes sure that it really differs from the old one (kernel time stamps are coarse)."""
    import time
    p = os.path.join(root, rel)
    st = os.stat(p)
    data = text.encode("utf-8")
    assert len(data) == st.st_size, (rel, len(data), st.st_size)
    with open(p, "r+b") as f:
        f.write(data)
    for _ in range(200):
        os.utime(p, ns=(st.st_atime_ns, st.st_mtime_ns))
        if os.stat(p).st_ctime_ns != st.st_ctime_ns:
            break
        time.sleep(0.002)


def touch(root, rel):
    """a permission / ownership change shows in ctime: the stat version of the file changes"""
    p = os.path.join(root, rel)
    if os.path.exists(p):
        _clock[0] += 7
        os.utime(p, (_clock[0], _clock[0]))


def listing(tree, faults=None):
    """[(segments, 0) | (segments, 1, text) | (segments, 2) stat fails | (segments, 3) unreadable] for files and all
    directories (explicit and implied)"""
    dirs = set()
    out = []
    for rel, text in tree.items():
        segs = rel.split("/")
        for i in range(1, len(segs)):
            dirs.add(tuple(segs[:i]))
        if text is DIR:
            dirs.add(tuple(segs))
    for rel, text in tree.items():
        if text is not DIR:
            f = (faults or {}).get(rel)
            if f is None:
                out.append([rel.split("/"), 1, text])
            else:
                out.append([rel.split("/"), 2 if f[0] == "stat" else 3])
    for d in sorted(dirs):
        out.append([list(d), 0])
    return out


_env = jinja2.Environment(autoescape=False, keep_trailing_newline=True,
                          extensions=["jinja2.ext.do", "jinja2.ext.loopcontrols"])


_env.globals["peek"] = lambda: ""      # a function offered to the templates through template_config.context (see c12 "nested")


def enc_res(r, payload):
    return [0, payload(r[1])] if r[0] == "ok" else [1, r[1]]


def oracle_tables(tree, engine, sys_id, pd):
    """render / yaml_load / match tables for every file of the tree, by calling the libraries directly"""
    render, yload, match = oracle_dicts(tree, engine, sys_id, pd)
    return [enc_render(render), enc_yload(yload), enc_match(match)]


def enc_render(render):
    return [[k, enc_res(v, lambda x: x)] for k, v in render.items()]


def enc_yload(yload):
    return [[k, enc_res(v, enc)] for k, v in yload.items()]


def enc_match(match):
    return [[k, enc_res(v, lambda x: 1 if x else 0)] for k, v in match.items()]


def oracle_dicts(tree, engine, sys_id, pd):
    render, yload, match = {}, {}, {}
    loaded = []
    for rel, t in tree.items():
        if t is DIR:
            continue
        if engine:
            if t not in render:
                try:
                    render[t] = ("ok", _env.from_string(t).render(id=sys_id, data=SmartLookupDict(pd)))
                except Exception as e:     # noqa: BLE001
                    render[t] = ("exc", exc_code(e))
            if render[t][0] != "ok":
                continue
            r = render[t][1]
        else:
            r = t
        if r not in yload:
            try:
                yload[r] = ("ok", yaml.safe_load(r))
            except Exception as e:     # noqa: BLE001
                yload[r] = ("exc", exc_code(e))
        if yload[r][0] == "ok" and rel == "top.yaml":
            loaded.append(yload[r][1])
    for v in loaded:
        if isinstance(v, dict):
            for k in v:
                if isinstance(k, str) and k not in match:
                    try:
                        match[k] = ("ok", bool(system_matcher.match(k, system_id=sys_id, system_data=SmartLookupDict(pd))))
                    except Exception as e:     # noqa: BLE001
                        match[k] = ("exc", exc_code(e))
    return render, yload, match


# ------------------------------------------------------------------ content generation
def flow(v):
    """YAML flow text of a python value (JSON is YAML flow syntax; sets through the !!set tag)"""
    import json
    if isinstance(v, set):
        return "!!set {" + ", ".join(flow(x) + ": null" for x in sorted(v, key=repr)) + "}"
    if isinstance(v, dict):
        return "{" + ", ".join(flow(k) + ": " + flow(x) for k, x in v.items()) + "}"
    if isinstance(v, list):
        return "[" + ", ".join(flow(x) for x in v) + "]"
    return json.dumps(v)


def yaml_text(items):
    """items: list of (key, value) | ("include", list or raw) | ("raw", line)"""
    if not items:
        return "{}\n"
    lines = []
    for k, v in items:
        if k == "raw":
            lines.append(v)
        else:
            lines.append(flow(k) + ": " + flow(v))
    return "\n".join(lines) + "\n"


DATA_VALUES = [1, 2, "s", [1], [2, 1], {"p": 1}, {"q": [1]}, {"p": {"r": 2}}, {1, 2}, {2, 3}, None, {}, [],
               0, "", False, "\u00e9t\u00e9", -7, 10 ** 20, {"": None}, [None, ""],
               {"p": None}, {"p": {"r": None}}, {"q": None}, {"p": {}}, " ", "a\tb"]
DATA_KEYS = ["k", "m", "l", "d"]


def rand_data_items(rng, n):
    ks = rng.sample(DATA_KEYS, min(n, len(DATA_KEYS)))
    return [(k, rng.choice(DATA_VALUES)) for k in ks]


JINJA_LINES = [
    "{% if id == 's1' %}k: 1{% else %}k: 2{% endif %}",
    "j: {{ data.get('x', 0) }}",
    "{% if data.get('x') %}m: {p: 5}{% endif %}",
    "i: {{ id }}",
]

INCLUDE_NAMES_OK = ["a", "b", "c", "d", "d.x", "d.y", "d.init", "d.sub.z", ".x", ".y", ".a", ".b", "..a", "..b", "..d.x",
                    ".sub.z", "..x", "...a", ".init", "..init", ".sub.init", "d.sub"]
INCLUDE_NAMES_BAD = ["", ".", "..", "....x", "zz", ".zz", 5, None, ["a"], "...."]
FILE_NAMES = ["a.yaml", "b.yaml", "c.yaml", "d/x.yaml", "d/y.yaml", "d/init.yaml", "d/sub/z.yaml", "d/sub/init.yaml",
              "d.yaml", "a/init.yaml"]


def names_of(rel):
    """the dotted names under which a file of the tree can be referenced"""
    segs = rel[:-len(".yaml")].split("/")
    out = [".".join(segs)]
    if segs[-1] == "init" and len(segs) > 1:
        out.append(".".join(segs[:-1]))
    return out


def relative_form(rel_from, target):
    """dotted relative reference from the file rel_from to the name target, or None"""
    d = rel_from.split("/")[:-1]
    tsegs = target.split(".")
    common = 0
    while common < len(d) and common < len(tsegs) - 1 and d[common] == tsegs[common]:
        common += 1
    return "." + "." * (len(d) - common) + ".".join(tsegs[common:])


def rand_include_name(rng, rel, avail, p_bad):
    r = rng.random()
    if r < p_bad:
        return rng.choice(INCLUDE_NAMES_BAD)
    if r < 0.15 or not avail:
        return rng.choice(INCLUDE_NAMES_OK)
    tgt = rng.choice(avail)
    if rng.random() < 0.45:
        return relative_form(rel, tgt)
    return tgt


def rand_file_text(rng, engine, rel="a.yaml", avail=(), p_include=0.55, p_bad=0.05):
    before = rand_data_items(rng, rng.randrange(0, 3))
    after = rand_data_items(rng, rng.randrange(0, 3))
    used = {k for k, _ in before}
    after = [(k, v) for k, v in after if k not in used] if rng.random() < 0.5 else \
        [(k + "2" if k in used else k, v) for k, v in after]
    items = list(before)
    if rng.random() < p_include:
        r = rng.random()
        if r < p_bad:
            inc = rng.choice(["a", 5, {"a": 1}, {}, None, "", [], "ab"])
        else:
            inc = [rand_include_name(rng, rel, list(avail), p_bad) for _ in range(rng.randrange(1, 3))]
        items.append(("include", inc))
        items += after
    if engine and rng.random() < 0.4:
        line = rng.choice(JINJA_LINES)
        key = line.split(":")[0].split("%}")[-1].strip() if ":" in line else None
        items = [(k, v) for k, v in items if k != key]
        items.insert(rng.randrange(0, len(items) + 1), ("raw", line))
    r = rng.random()
    if r < 0.01:
        return ""                        # empty file: None, not a mapping
    if r < 0.02:
        return "- 1\n- 2\n"              # a list
    if r < 0.03:
        return "k: [1\n"                 # YAML syntax error
    if r < 0.04 and engine:
        return "{% if %}\nk: 1\n"        # template syntax error
    return yaml_text(items)


TOP_TARGETS = ["*", "*", "s1", "s2", "not s1", "s*", "*1 or *2", "@data_literal:x@1", "@data_glob:x.y@s*", "zzz"]


def rand_top(rng, engine, avail=()):
    avail = list(avail) or ["a"]
    r = rng.random()
    if r < 0.01:
        return ""
    if r < 0.015:
        return "- a\n"
    if r < 0.02:
        return "'*': [a\n"
    n = rng.randrange(1, 4)
    exprs = rng.sample(TOP_TARGETS[1:], n)
    if rng.random() < 0.75:
        exprs[rng.randrange(n)] = "*"
    lines = []
    for e in exprs:
        r = rng.random()
        if r < 0.02:
            fl = rng.choice(["a", None, 5, {"a": 1}, ["a", ""], ["a", 5], [None]])
        else:
            fl = [rng.choice(avail) if rng.random() < 0.95 else "zz" for _ in range(rng.randrange(0, 4) or 1)]
        if isinstance(fl, list) and len(fl) >= 2 and rng.random() < 0.25:
            fl = fl + [fl[0]]            # a file listed again after others
        if rng.random() < 0.015:
            e = rng.choice(["(", "a and", "@bogus@x", 5])
        lines.append(flow(e) + ": " + flow(fl))
    if engine and rng.random() < 0.3:
        lines.append("{% if id == 's1' %}'s1*': [" + rng.choice(avail) + "]{% endif %}")
    if engine and rng.random() < 0.03:
        return "{% if id == 'nobody' %}'*': [a]{% endif %}\n"
    return "\n".join(lines) + "\n"


def rand_tree(rng, engine, nfiles=None):
    n = rng.randrange(1, 8) if nfiles is None else nfiles
    names = rng.sample(FILE_NAMES, min(n, len(FILE_NAMES)))
    avail = [x for fn in names for x in names_of(fn)]
    tree = {}
    if rng.random() < 0.99:
        tree["top.yaml"] = rand_top(rng, engine, avail)
    for i, fn in enumerate(names):
        later = [x for g in names[i + 1:] for x in names_of(g)]
        tree[fn] = rand_file_text(rng, engine, fn, later if (later and rng.random() < 0.85) else avail)
    if rng.random() < 0.02:
        tree["e/init.yaml"] = DIR          # init.yaml that is a directory
    if rng.random() < 0.01:
        tree["top.yaml"] = DIR
    return tree


SYSTEMS = ["s1", "s2", "x"]
PRECEDING = [({}, ""), ({"x": 1}, "v1"), ({"x": {"y": "s1"}, "k": 9}, "v2"), ({"x": 0, "l": [7]}, "v3")]
