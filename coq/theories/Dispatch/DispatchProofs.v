(* Proofs for C10. *)
From Coq Require Import List NArith ZArith Bool Arith Lia.
From VF Require Import Dispatch.Dispatch.
Import ListNotations.

Section DispatchProofs.
  Variables U C G R : Type.
  Variable mk : U -> C -> G.
  Notation handler := (handler U C G R).

  Lemma probes_no_handle (hs : list handler) u : forall i,
    existsb is_handle (probes_from i hs u) = false.
  Proof. induction hs as [|h r IH]; intros i; cbn; [reflexivity|apply IH]. Qed.

  (* first_idx is the least accepting index *)
  Lemma first_idx_from_some (hs : list handler) u : forall b i, first_idx_from b hs u = Some i ->
    exists h, b <= i /\ nth_error hs (i - b) = Some h /\ accepts h u = true /\
              forall j h', j < i - b -> nth_error hs j = Some h' -> accepts h' u = false.
  Proof.
    induction hs as [|h r IH]; intros b i; cbn [first_idx_from]; [discriminate|].
    destruct (accepts h u) eqn:E.
    - intros [= <-]. exists h. rewrite Nat.sub_diag. cbn. repeat split; auto. intros j h' Hj. lia.
    - intros H. destruct (IH _ _ H) as (h0 & Hb & Hn & Ha & Hl). exists h0.
      assert (Ei : i - b = S (i - S b)) by lia. rewrite Ei. cbn [nth_error].
      repeat split; auto; [lia|]. intros [|j] h' Hj; cbn [nth_error].
      + intros [= <-]. exact E.
      + apply Hl. lia.
  Qed.

  Lemma first_idx_from_none (hs : list handler) u : forall b, first_idx_from b hs u = None ->
    forall h, In h hs -> accepts h u = false.
  Proof.
    induction hs as [|h r IH]; intros b; cbn [first_idx_from]; [intros _ ? []|].
    destruct (accepts h u) eqn:E; [discriminate|]. intros H h' [<-|Hin]; [exact E|]. exact (IH _ H _ Hin).
  Qed.

  Lemma dispatch_from_spec (hs : list handler) u : forall b,
    dispatch_from mk b hs u =
      match first_idx_from b hs u with
      | Some i =>
          match nth_error hs (i - b) with
          | Some h => (probes_from b (firstn (i - b) hs) u ++ probe i h u ++ [Handle i (mk u (prepare h u))],
                       Served i (handle h (mk u (prepare h u))))
          | None => ([], NotFound)
          end
      | None => (probes_from b hs u, NotFound)
      end.
  Proof.
    induction hs as [|h r IH]; intros b; cbn [dispatch_from first_idx_from]; [reflexivity|].
    unfold accepts at 1. destruct (can h u (prepare h u)) eqn:E.
    - rewrite Nat.sub_diag. cbn. reflexivity.
    - rewrite IH. destruct (first_idx_from (S b) r u) as [i|] eqn:F.
      + destruct (first_idx_from_some r u _ _ F) as (h0 & Hb & Hn & _ & _).
        assert (Ei : i - b = S (i - S b)) by lia. rewrite Ei. cbn [nth_error firstn probes_from].
        rewrite Hn. reflexivity.
      + reflexivity.
  Qed.

  Lemma dispatch_is_spec (hs : list handler) u : dispatch mk hs u = spec_dispatch mk hs u.
  Proof.
    unfold dispatch, spec_dispatch, first_idx. rewrite dispatch_from_spec.
    destruct (first_idx_from 0 hs u) as [i|]; [|reflexivity]. rewrite Nat.sub_0_r. reflexivity.
  Qed.

  (* ---- first_match ---- *)
  Theorem first_match (hs : list handler) u :
    match first_idx hs u with
    | Some i =>
        exists h, nth_error hs i = Some h /\ accepts h u = true /\
          (forall j h', j < i -> nth_error hs j = Some h' -> accepts h' u = false) /\
          dispatch mk hs u =
            (probes_from 0 (firstn i hs) u ++ [Prepare i u; Can i u (prepare h u); Handle i (mk u (prepare h u))],
             Served i (handle h (mk u (prepare h u))))
    | None =>
        (forall h, In h hs -> accepts h u = false) /\
        dispatch mk hs u = (probes_from 0 hs u, NotFound) /\
        existsb is_handle (fst (dispatch mk hs u)) = false
    end.
  Proof.
    unfold first_idx, dispatch. rewrite dispatch_from_spec.
    destruct (first_idx_from 0 hs u) as [i|] eqn:F.
    - destruct (first_idx_from_some hs u _ _ F) as (h & _ & Hn & Ha & Hl).
      rewrite Nat.sub_0_r in *. exists h. rewrite Hn. repeat split; auto.
    - repeat split; [exact (first_idx_from_none hs u _ F)|]. cbn [fst]. apply probes_no_handle.
  Qed.

  (* exactly one Handle event when somebody accepts *)
  Lemma one_handle (hs : list handler) u i :
    first_idx hs u = Some i ->
    length (filter is_handle (fst (dispatch mk hs u))) = 1.
  Proof.
    intros F. pose proof (first_match hs u) as H. rewrite F in H.
    destruct H as (h & _ & _ & _ & ->). cbn [fst]. rewrite filter_app.
    assert (E : forall b (l : list handler), filter (@is_handle U C G) (probes_from b l u) = []).
    { intros b l. revert b. induction l as [|x l IH]; intros b; cbn; [reflexivity|apply IH]. }
    rewrite E. reflexivity.
  Qed.

  (* ---- no_shared_state: the answer to the k-th request is the answer to that request alone ---- *)
  Theorem no_shared_state (hs : list handler) (reqs : list U) k :
    nth_error (serve_all mk hs reqs) k = option_map (dispatch mk hs) (nth_error reqs k).
  Proof. unfold serve_all. apply nth_error_map. Qed.
End DispatchProofs.

(* ---------- TFTP destination address ---------- *)
Section NtopProofs.
  Variable ntop : bytes -> bytes.

  Lemma recover_fold_tl k anc : k = 1 -> forall dst,
    fold_left (fun dst c => if cm_match c then FS (ntop (firstn 16 (cm_data c))) :: skipn k dst else dst) anc dst =
    match last_match anc with
    | Some c => FS (ntop (firstn 16 (cm_data c))) :: tl dst
    | None => dst
    end.
  Proof.
    intros ->. induction anc as [|c r IH]; intros dst; cbn [fold_left last_match]; [reflexivity|].
    rewrite IH. destruct (last_match r) as [c'|].
    - destruct (cm_match c); [|reflexivity]. destruct dst; reflexivity.
    - destruct (cm_match c); [|reflexivity]. destruct dst; reflexivity.
  Qed.

  (* host from the packet info; port, flowinfo and scope id of the bound socket *)
  Theorem tftp_server_address pktinfo sockname anc :
    recover_dst ntop 1 pktinfo sockname anc =
      match (if pktinfo then last_match anc else None) with
      | Some c => FS (ntop (firstn 16 (cm_data c))) :: tl sockname
      | None => sockname
      end.
  Proof.
    unfold recover_dst. destruct pktinfo; [|reflexivity]. now apply recover_fold_tl.
  Qed.

  Corollary tftp_server_address4 h p f s anc c :
    last_match anc = Some c ->
    recover_dst ntop 1 true [h; p; f; s] anc = [FS (ntop (firstn 16 (cm_data c))); p; f; s].
  Proof. intros H. rewrite tftp_server_address, H. reflexivity. Qed.
  (* whatever the bound socket reports as its host - "::" for every spelling of the wildcard address, or a
     specific address - plays no role once a packet-info message is present: only the tail of the tuple
     (port, flowinfo, scope id) is taken from it *)
  Corollary tftp_server_address_any_bind h1 h2 tail anc c :
    last_match anc = Some c ->
    recover_dst ntop 1 true (h1 :: tail) anc = FS (ntop (firstn 16 (cm_data c))) :: tail /\
    recover_dst ntop 1 true (h1 :: tail) anc = recover_dst ntop 1 true (h2 :: tail) anc.
  Proof. intros H. rewrite !tftp_server_address, H. split; reflexivity. Qed.
End NtopProofs.

(* ---------- servers ---------- *)
Section ServerProofs.
  Variables C R : Type.
  Variable ntop : bytes -> bytes.
  Notation H := (handler bytes C (hargs C) R).

  (* whatever handle is called with carries the client address, the recovered server address,
     the name as decoded from the packet and the context prepare returned for that name *)
  Theorem tftp_handle_args k pktinfo sockname anc client (hs : list H) raw mail log rep :
    tftp_serve ntop k pktinfo sockname anc client hs raw mail = Dispatched log rep ->
    forall i g, In (Handle i g) log ->
      exists h, nth_error hs i = Some h /\ first_idx hs (ascii_ignore raw) = Some i /\
      g = {| a_uri := ascii_ignore raw; a_ctx := prepare h (ascii_ignore raw); a_client := client;
             a_server := recover_dst ntop k pktinfo sockname anc; a_method := []; a_headers := [] |}.
  Proof.
    unfold tftp_serve. destruct mail; [discriminate|].
    set (mk := fun u c => _). destruct (dispatch mk hs (ascii_ignore raw)) as [l r] eqn:D.
    intros [= <- <-] i g Hin.
    pose proof (first_match _ _ _ _ mk hs (ascii_ignore raw)) as FM.
    destruct (first_idx hs (ascii_ignore raw)) as [i0|].
    - destruct FM as (h & Hn & _ & _ & E). rewrite D in E. injection E as -> _.
      apply in_app_or in Hin as [Hin|Hin].
      + exfalso. pose proof (probes_no_handle _ _ _ _ (firstn i0 hs) (ascii_ignore raw) 0) as Hp.
        assert (existsb is_handle (probes_from 0 (firstn i0 hs) (ascii_ignore raw)) = true)
          by (apply existsb_exists; exists (Handle i g); split; [exact Hin|reflexivity]).
        congruence.
      + cbn in Hin. destruct Hin as [Hin|[Hin|[Hin|[]]]]; try discriminate.
        injection Hin as <- <-. exists h. repeat split; auto.
    - destruct FM as (_ & E & _). rewrite D in E. injection E as -> _.
      exfalso. pose proof (probes_no_handle _ _ _ _ hs (ascii_ignore raw) 0) as Hp.
      assert (existsb is_handle (probes_from (G:=hargs C) 0 hs (ascii_ignore raw)) = true)
        by (apply existsb_exists; exists (Handle i g); split; [exact Hin|reflexivity]).
      congruence.
  Qed.

  (* HttpRequestInfo: method, headers, raw uri, peer and local socket address unchanged *)
  Theorem http_request_info cn (hs : list H) log rep :
    http_serve cn hs = Dispatched log rep ->
    forall i g, In (Handle i g) log ->
      exists h, nth_error hs i = Some h /\ first_idx hs (c_path cn) = Some i /\
      g = {| a_uri := c_path cn; a_ctx := prepare h (c_path cn); a_client := c_peer cn;
             a_server := c_local cn; a_method := c_method cn; a_headers := c_headers cn |}.
  Proof.
    unfold http_serve. destruct (bad_path (c_path cn)); [discriminate|].
    set (mk := fun u c => _). destruct (dispatch mk hs (c_path cn)) as [l r] eqn:D.
    intros [= <- <-] i g Hin.
    pose proof (first_match _ _ _ _ mk hs (c_path cn)) as FM.
    destruct (first_idx hs (c_path cn)) as [i0|].
    - destruct FM as (h & Hn & _ & _ & E). rewrite D in E. injection E as -> _.
      apply in_app_or in Hin as [Hin|Hin].
      + exfalso. pose proof (probes_no_handle _ _ _ _ (firstn i0 hs) (c_path cn) 0) as Hp.
        assert (existsb is_handle (probes_from 0 (firstn i0 hs) (c_path cn)) = true)
          by (apply existsb_exists; exists (Handle i g); split; [exact Hin|reflexivity]).
        congruence.
      + cbn in Hin. destruct Hin as [Hin|[Hin|[Hin|[]]]]; try discriminate.
        injection Hin as <- <-. exists h. repeat split; auto.
    - destruct FM as (_ & E & _). rewrite D in E. injection E as -> _.
      exfalso. pose proof (probes_no_handle _ _ _ _ hs (c_path cn) 0) as Hp.
      assert (existsb is_handle (probes_from (G:=hargs C) 0 hs (c_path cn)) = true)
        by (apply existsb_exists; exists (Handle i g); split; [exact Hin|reflexivity]).
      congruence.
  Qed.
End ServerProofs.
