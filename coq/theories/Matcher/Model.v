(* Model of vinegar/utils/system_matcher: the scannerless recursive-descent parser of
   _parser/compound_expr.py and _parser/simple_expr.py on (last consumed character,
   remaining input), the expression tree, its evaluation with Python's short-circuit
   order, the lru-cached entry point, and the layout-annotated printer used by the
   parse_print theorem.  Definitions only; proofs are in the other files of Matcher/.

   External behaviour (fnmatch.translate, re.escape, re.compile, re.fullmatch, str() of
   data values, the data lookup) enters through two oracles:
     compile : atom -> cres      what re.compile does with the atom's regular expression
     truth   : atom -> nat -> tv the documented truth value of the atom on environment i *)
From Coq Require Import String.
From Coq Require Import List NArith Bool Arith Ascii.
Import ListNotations.
Open Scope N_scope.

Definition str := list N.

(* ---------- characters ---------- *)
Definition SP : N := 32.   Definition LP : N := 40.   Definition RP : N := 41.
Definition AT : N := 64.   Definition BS : N := 92.   Definition SQ : N := 39.
Definition DQ : N := 34.   Definition COLON : N := 58. Definition SLASH : N := 47.

(* str.isspace() of a one-character string (CPython 3.12, Unicode 15): exact for every code point;
   the correspondence run sweeps all code points against the interpreter *)
Definition is_space (c : N) : bool :=
  ((9 <=? c) && (c <=? 13)) || ((28 <=? c) && (c <=? 32)) || (c =? 133) || (c =? 160)
  || (c =? 5760) || ((8192 <=? c) && (c <=? 8202)) || (c =? 8232) || (c =? 8233)
  || (c =? 8239) || (c =? 8287) || (c =? 12288).

(* characters that end an unquoted key or pattern *)
Definition reserved (c : N) : bool := is_space c || (c =? AT) || (c =? LP) || (c =? RP).
Definition is_quote (c : N) : bool := (c =? SQ) || (c =? DQ).

Definition lit (s : string) : str := map N_of_ascii (list_ascii_of_string s).

(* ---------- expressions ---------- *)
Inductive atype := TGlob | TLiteral | TRe.
(* a_key = None: the term looks at the system ID; Some k: at system_data.get(k) *)
Record atom := { a_key : option str; a_type : atype; a_cs : bool; a_pat : str }.
Inductive expr := Atom (a : atom) | Not (e : expr) | And (a b : expr) | Or (a b : expr).

(* ---------- results ---------- *)
Inductive err := ParseErr | Raise (tag : str) | OutOfFuel.
Inductive res (A : Type) := Ok (a : A) | Er (e : err).
Arguments Ok {A} a. Arguments Er {A} e.
Definition bind {A B} (r : res A) (f : A -> res B) : res B :=
  match r with Ok a => f a | Er e => Er e end.
Notation "x <- r ;; k" := (bind r (fun x => k)) (at level 61, r at next level, right associativity).
Notation "' p <- r ;; k" := (bind r (fun p => k)) (at level 61, p pattern, r at next level, right associativity).

(* ---------- oracles and variants ---------- *)
(* result of re.compile on the regular expression belonging to an atom *)
Inductive cres := COk | CReError | COverflow | COther (tag : str).
(* truth of an atom on one environment under the documented semantics; [through_scalar] marks a
   nested key whose path runs through a value that is not a container (finding D14b);
   [tv_fault] = the environment itself fails at this atom (the data object's get() or the value's
   __str__ raises the named exception): the documented behaviour is that the exception is the
   result of that call *)
Record tv := { tv_val : bool; tv_through_scalar : bool; tv_fault : option str }.

Record variants := {
  overflow_escapes : bool;     (* behaviour before 86538e9: OverflowError of re.compile not mapped *)
  lookup_escapes : bool;       (* behaviour of the code (D14b): TypeError of the nested lookup escapes *)
  bare_keyword_atom : bool;    (* behaviour of the code: "(and)" is the ID pattern "and" *)
  eval_depth_limit : nat       (* behaviour of the code (D26): evaluation is recursive, one Python frame per nesting
                                  level of the expression closures (a chain "a or b or c ..." is left-nested, one level
                                  per operand); beyond this many levels RecursionError is raised.  0 = no limit
                                  (the documentation knows none) *)
}.

(* ---------- small string functions ---------- *)
Fixpoint starts (k s : str) : option str :=
  match k, s with
  | [], _ => Some s
  | c :: k', d :: s' => if c =? d then starts k' s' else None
  | _ :: _, [] => None
  end.

Fixpoint str_eqb (a b : str) : bool :=
  match a, b with
  | [], [] => true
  | c :: a', d :: b' => (c =? d) && str_eqb a' b'
  | _, _ => false
  end.

Definition last_of (d : option N) (p : str) : option N :=
  match rev p with c :: _ => Some c | [] => d end.

(* _accept_whitespace, returning the new "last consumed character" *)
Fixpoint skip_ws (prev : option N) (s : str) : option N * str :=
  match s with
  | c :: r => if is_space c then skip_ws (Some c) r else (prev, s)
  | [] => (prev, s)
  end.

(* ---------- keywords (compound_expr.py: _peek_keyword) ---------- *)
Inductive kw := KAnd | KNot | KOr.
Definition kw_str (k : kw) : str :=
  match k with KAnd => lit "and" | KNot => lit "not" | KOr => lit "or" end.
Definition kw_eqb (a b : kw) : bool :=
  match a, b with KAnd, KAnd | KNot, KNot | KOr, KOr => true | _, _ => false end.

(* look-ahead: end of string, "(" or whitespace *)
Definition boundary_after (r : str) : bool :=
  match r with [] => true | c :: _ => (c =? LP) || is_space c end.
(* look-behind: start of string, whitespace or a parenthesis *)
Definition prev_ok (prev : option N) : bool :=
  match prev with None => true | Some c => is_space c || (c =? LP) || (c =? RP) end.

Inductive peek := PErr | PNone | PSome (k : kw) (rest : str).
Fixpoint find_kw (ks : list kw) (s : str) : option (kw * str) :=
  match ks with
  | [] => None
  | k :: ks' =>
      match starts (kw_str k) s with
      | Some r => if boundary_after r then Some (k, r) else find_kw ks' s
      | None => find_kw ks' s
      end
  end.
Definition peek_kw (ks : list kw) (prev : option N) (s : str) : peek :=
  match find_kw ks s with
  | None => PNone
  | Some (k, r) => if prev_ok prev then PSome k r else PErr
  end.
Definition all_kws : list kw := [KAnd; KNot; KOr].

(* ---------- lexing of keys and patterns (simple_expr.py) ---------- *)
(* inside quotes [q]: backslash escapes [q] and backslash only; returns (value, rest after closing quote) *)
Fixpoint lex_quoted (q : N) (s : str) : option (str * str) :=
  match s with
  | [] => None
  | c :: r =>
      if c =? BS then
        match r with
        | d :: r' =>
            if (d =? q) || (d =? BS) then
              match lex_quoted q r' with Some (v, t) => Some (d :: v, t) | None => None end
            else None
        | [] => None
        end
      else if c =? q then Some ([], r)
      else match lex_quoted q r with Some (v, t) => Some (c :: v, t) | None => None end
  end.

Fixpoint lex_unquoted (s : str) : str * str :=
  match s with
  | c :: r => if reserved c then ([], s) else let (p, t) := lex_unquoted r in (c :: p, t)
  | [] => ([], [])
  end.

(* _expect_glob_pattern_or_re: (pattern, last consumed character, rest) *)
Definition lex_pattern (s : str) : res (str * N * str) :=
  match s with
  | c :: r =>
      if is_quote c then
        match lex_quoted c r with Some (v, t) => Ok (v, c, t) | None => Er ParseErr end
      else
        let (p, t) := lex_unquoted s in
        match rev p with [] => Er ParseErr | l :: _ => Ok (p, l, t) end
  | [] => Er ParseErr
  end.

(* _expect_key: like a pattern, but a quoted key must not be empty either *)
Definition lex_key (s : str) : res (str * str) :=
  match s with
  | c :: r =>
      if is_quote c then
        match lex_quoted c r with
        | Some ([], _) => Er ParseErr
        | Some (v, t) => Ok (v, t)
        | None => Er ParseErr
        end
      else
        let (p, t) := lex_unquoted s in
        match p with [] => Er ParseErr | _ => Ok (p, t) end
  | [] => Er ParseErr
  end.

Definition expect (c : N) (s : str) : res str :=
  match s with d :: r => if d =? c then Ok r else Er ParseErr | [] => Er ParseErr end.

(* the prefixes in the order in which _accept_data_expression and _accept_id_expression try them:
   (text, is_data, type, have_options) *)
Definition prefixes : list (str * (bool * atype * bool)) :=
  [ (lit "@data_glob/", (true, TGlob, true));       (lit "@data_glob:", (true, TGlob, false));
    (lit "@data_literal/", (true, TLiteral, true)); (lit "@data_literal:", (true, TLiteral, false));
    (lit "@data_re/", (true, TRe, true));           (lit "@data_re:", (true, TRe, false));
    (lit "@id_glob/", (false, TGlob, true));        (lit "@id_glob@", (false, TGlob, false));
    (lit "@id_literal/", (false, TLiteral, true));  (lit "@id_literal@", (false, TLiteral, false));
    (lit "@id_re/", (false, TRe, true));            (lit "@id_re@", (false, TRe, false)) ].

Fixpoint first_prefix (ps : list (str * (bool * atype * bool))) (s : str)
  : option ((bool * atype * bool) * str) :=
  match ps with
  | [] => None
  | (p, info) :: ps' =>
      match starts p s with Some r => Some (info, r) | None => first_prefix ps' s end
  end.

Definition is_kw_text (p : str) : bool :=
  str_eqb p (kw_str KAnd) || str_eqb p (kw_str KNot) || str_eqb p (kw_str KOr).

Section Parser.
  Variable V : variants.
  Variable compile : atom -> cres.

  (* try: re.compile(...) except (re.error, OverflowError): raise ParseError *)
  Definition compile_qualified (a : atom) : res atom :=
    match compile a with
    | COk => Ok a
    | CReError => Er ParseErr
    | COverflow => if overflow_escapes V then Er (Raise (lit "OverflowError")) else Er ParseErr
    | COther t => Er (Raise t)
    end.
  (* the unqualified shorthand compiles outside any try block *)
  Definition compile_unqualified (a : atom) : res atom :=
    match compile a with
    | COk => Ok a
    | CReError => Er (Raise (lit "re.error"))
    | COverflow => Er (Raise (lit "OverflowError"))
    | COther t => Er (Raise t)
    end.

  (* SimpleExpressionParser.parse(ignore_extra_input=True): (atom, last consumed character, rest) *)
  Definition simple (s : str) : res (atom * N * str) :=
    match first_prefix prefixes s with
    | Some ((isdata, ty, opts), r) =>
        let sep := if isdata then COLON else AT in
        '(cs, r2) <- (if opts then
                        let (cs, r1) := match r with
                                        | c :: r' => if c =? 105 then (false, r') else (true, r)
                                        | [] => (true, r)
                                        end in
                        r2 <- expect sep r1 ;; Ok (cs, r2)
                      else Ok (true, r)) ;;
        if isdata then
          '(k, r3) <- lex_key r2 ;;
          r4 <- expect AT r3 ;;
          '(p, l, r5) <- lex_pattern r4 ;;
          a <- compile_qualified {| a_key := Some k; a_type := ty; a_cs := cs; a_pat := p |} ;;
          Ok (a, l, r5)
        else
          '(p, l, r5) <- lex_pattern r2 ;;
          a <- compile_qualified {| a_key := None; a_type := ty; a_cs := cs; a_pat := p |} ;;
          Ok (a, l, r5)
    | None =>
        match s with
        | c :: _ =>
            if c =? AT then Er ParseErr
            else
              '(p, l, r) <- lex_pattern s ;;
              if negb (bare_keyword_atom V) && negb (is_quote c) && is_kw_text p then Er ParseErr
              else
                a <- compile_unqualified {| a_key := None; a_type := TGlob; a_cs := false; a_pat := p |} ;;
                Ok (a, l, r)
        | [] => Er ParseErr
        end
    end.

  Definition pres := res (expr * option N * str).
  Definition parser := option N -> str -> pres.

  (* the while loop of _expect_generic_compound_expression *)
  Fixpoint loop (k : kw) (sub : parser) (mk : expr -> expr -> expr) (g : nat)
           (left : expr) (prev : option N) (s : str) : pres :=
    match g with
    | O => Er OutOfFuel
    | S g' =>
        match s with
        | [] => Ok (left, prev, s)
        | _ =>
            match peek_kw [k] prev s with
            | PErr => Er ParseErr
            | PNone => Ok (left, prev, s)
            | PSome _ r =>
                let (pv, r1) := skip_ws (last_of prev (kw_str k)) r in
                '(e, pv', r2) <- sub pv r1 ;;
                let (pv2, r3) := skip_ws pv' r2 in
                loop k sub mk g' (mk left e) pv2 r3
            end
        end
    end.

  (* _expect_generic_compound_expression *)
  Definition compound (k : kw) (sub : parser) (mk : expr -> expr -> expr) (g : nat) : parser :=
    fun prev s =>
      let (pv, r) := skip_ws prev s in
      '(e, pv', r2) <- sub pv r ;;
      let (pv2, r3) := skip_ws pv' r2 in
      loop k sub mk g e pv2 r3.

  (* _expect_unary_expression; the fuel bounds the nesting of parentheses and "not"
     as well as the number of loop iterations *)
  Fixpoint unary (f : nat) (prev : option N) (s : str) {struct f} : pres :=
    match f with
    | O => Er OutOfFuel
    | S f' =>
        let and_level := compound KAnd (unary f') And f' in
        let or_level := compound KOr and_level Or f' in
        match s with
        | c :: r =>
            if c =? LP then
              '(e, _, r') <- or_level (Some LP) r ;;
              match r' with
              | d :: r'' => if d =? RP then Ok (e, Some RP, r'') else Er ParseErr
              | [] => Er ParseErr
              end
            else
              match peek_kw all_kws prev s with
              | PErr => Er ParseErr
              | PSome KNot r' =>
                  let (pv, r'') := skip_ws (last_of prev (kw_str KNot)) r' in
                  '(e, pv', r3) <- unary f' pv r'' ;;
                  Ok (Not e, pv', r3)
              | PSome _ _ => Er ParseErr
              | PNone => '(a, l, r') <- simple s ;; Ok (Atom a, Some l, r')
              end
        | [] => '(a, l, r') <- simple s ;; Ok (Atom a, Some l, r')
        end
    end.

  Definition and_level (f : nat) : parser := compound KAnd (unary f) And f.
  Definition or_level (f : nat) : parser := compound KOr (and_level f) Or f.

  Definition fuel_for (s : str) : nat := S (S (length s)).

  (* CompoundExpressionParser(s).parse() *)
  Definition parse (s : str) : res expr :=
    '(e, _, r) <- or_level (fuel_for s) None s ;;
    match r with [] => Ok e | _ => Er ParseErr end.
End Parser.

(* ---------- evaluation ---------- *)
Inductive val := VB (b : bool) | VExc (tag : str).

Section Eval.
  Variable V : variants.
  Variable truth : atom -> nat -> tv.

  Definition atom_val (a : atom) (i : nat) : val :=
    let t := truth a i in
    match tv_fault t with
    | Some tag => VExc tag
    | None => if lookup_escapes V && tv_through_scalar t then VExc (lit "TypeError") else VB (tv_val t)
    end.

  Fixpoint eval (e : expr) (i : nat) : val :=
    match e with
    | Atom a => atom_val a i
    | Not a => match eval a i with VB b => VB (negb b) | x => x end
    | And a b => match eval a i with VB true => eval b i | x => x end
    | Or a b => match eval a i with VB false => eval b i | x => x end
    end.

  (* evaluation with at most [lim] nested calls, as the recursive closures of the code do it *)
  Fixpoint eval_lim (lim : nat) (e : expr) (i : nat) : val :=
    match lim with
    | O => VExc (lit "RecursionError")
    | S l =>
        match e with
        | Atom a => atom_val a i
        | Not a => match eval_lim l a i with VB b => VB (negb b) | x => x end
        | And a b => match eval_lim l a i with VB true => eval_lim l b i | x => x end
        | Or a b => match eval_lim l a i with VB false => eval_lim l b i | x => x end
        end
    end.
  Definition eval_v (e : expr) (i : nat) : val :=
    match eval_depth_limit V with O => eval e i | lim => eval_lim lim e i end.

  (* the documented meaning: plain Boolean connectives over the atoms' truth values *)
  Fixpoint denote (e : expr) (i : nat) : bool :=
    match e with
    | Atom a => tv_val (truth a i)
    | Not a => negb (denote a i)
    | And a b => denote a i && denote b i
    | Or a b => denote a i || denote b i
    end.

  (* atoms in the order in which one evaluation visits them *)
  Fixpoint visited (e : expr) (i : nat) : list atom :=
    match e with
    | Atom a => [a]
    | Not a => visited a i
    | And a b => match eval a i with VB true => visited a i ++ visited b i | _ => visited a i end
    | Or a b => match eval a i with VB false => visited a i ++ visited b i | _ => visited a i end
    end.
End Eval.

(* nesting depth of the evaluation closures *)
Fixpoint depth (e : expr) : nat :=
  match e with
  | Atom _ => 1
  | Not a => S (depth a)
  | And a b | Or a b => S (Nat.max (depth a) (depth b))
  end.

(* nesting along the operands that are evaluated first (a chain a or b or c ... is left-nested) *)
Fixpoint spine (e : expr) : nat :=
  match e with
  | Atom _ => 1
  | Not a => S (spine a)
  | And a _ | Or a _ => S (spine a)
  end.

Fixpoint atoms (e : expr) : list atom :=
  match e with
  | Atom a => [a]
  | Not a => atoms a
  | And a b | Or a b => atoms a ++ atoms b
  end.

(* ---------- match(): outcome on every environment 0..n-1 ---------- *)
Definition outcome (V : variants) (truth : atom -> nat -> tv) (n : nat) (r : res expr) : list val :=
  match r with
  | Ok e => map (eval_v V truth e) (seq 0 n)
  | Er ParseErr => repeat (VExc (lit "ValueError")) n
  | Er (Raise t) => repeat (VExc t) n
  | Er OutOfFuel => repeat (VExc (lit "model-out-of-fuel")) n
  end.

(* ---------- the lru cache of _expression_from_string_cached ---------- *)
(* functools.lru_cache stores results of calls that returned; most recent first *)
Definition cache := list (str * expr).
Fixpoint cache_find (s : str) (c : cache) : option expr :=
  match c with
  | [] => None
  | (k, e) :: c' => if str_eqb k s then Some e else cache_find s c'
  end.
Fixpoint cache_remove (s : str) (c : cache) : cache :=
  match c with
  | [] => []
  | (k, e) :: c' => if str_eqb k s then cache_remove s c' else (k, e) :: cache_remove s c'
  end.
Definition cache_size : nat := 256.
Definition cached_parse (V : variants) (compile : atom -> cres) (c : cache) (s : str) : res expr * cache :=
  match cache_find s c with
  | Some e => (Ok e, (s, e) :: cache_remove s c)
  | None =>
      match parse V compile s with
      | Ok e => (Ok e, firstn cache_size ((s, e) :: c))
      | Er x => (Er x, c)
      end
  end.

(* ---------- printer: concrete syntax trees (expression + layout) ---------- *)
Inductive qstyle := Unq | Sq | Dq.
(* st_short: the unqualified shorthand; st_slash: write "/" although no option follows *)
Record astyle := { st_short : bool; st_slash : bool; st_key : qstyle; st_pat : qstyle }.

Inductive cst :=
| CAtom (a : atom) (st : astyle)
| CNot (w : str) (c : cst)
| CBin (k : kw) (l : cst) (w1 w2 : str) (r : cst)      (* k is KAnd or KOr *)
| CParen (w1 : str) (c : cst) (w2 : str).

Definition escape (q : N) (v : str) : str :=
  flat_map (fun c => if (c =? q) || (c =? BS) then [BS; c] else [c]) v.
Definition print_value (st : qstyle) (v : str) : str :=
  match st with
  | Unq => v
  | Sq => SQ :: escape SQ v ++ [SQ]
  | Dq => DQ :: escape DQ v ++ [DQ]
  end.
Definition type_str (t : atype) : str :=
  match t with TGlob => lit "glob" | TLiteral => lit "literal" | TRe => lit "re" end.
Definition opt_str (a : atom) (st : astyle) : str :=
  if a_cs a then (if st_slash st then [SLASH] else []) else lit "/i".
Definition print_atom (a : atom) (st : astyle) : str :=
  if st_short st then print_value (st_pat st) (a_pat a)
  else
    match a_key a with
    | Some k => lit "@data_" ++ type_str (a_type a) ++ opt_str a st ++ COLON :: print_value (st_key st) k
                ++ AT :: print_value (st_pat st) (a_pat a)
    | None => lit "@id_" ++ type_str (a_type a) ++ opt_str a st ++ AT :: print_value (st_pat st) (a_pat a)
    end.

Fixpoint print (c : cst) : str :=
  match c with
  | CAtom a st => print_atom a st
  | CNot w c => kw_str KNot ++ w ++ print c
  | CBin k l w1 w2 r => print l ++ w1 ++ kw_str k ++ w2 ++ print r
  | CParen w1 c w2 => LP :: w1 ++ print c ++ w2 ++ [RP]
  end.

Definition mk_of (k : kw) : expr -> expr -> expr := match k with KOr => Or | _ => And end.
Fixpoint erase (c : cst) : expr :=
  match c with
  | CAtom a _ => Atom a
  | CNot _ c => Not (erase c)
  | CBin k l _ _ r => mk_of k (erase l) (erase r)
  | CParen _ c _ => erase c
  end.

(* legality of a layout *)
Definition is_ws (w : str) : Prop := forallb is_space w = true.
Definition unquoted_ok (v : str) : Prop :=
  v <> [] /\ forallb (fun c => negb (reserved c)) v = true /\
  match v with c :: _ => is_quote c = false | [] => True end.
Definition value_ok (st : qstyle) (v : str) : Prop :=
  match st with Unq => unquoted_ok v | _ => True end.
(* [allow_kw]: the unquoted shorthand may be one of the keyword texts (the code accepts that when
   the pattern is directly followed by a closing parenthesis, finding D14c) *)
Definition atom_okx (allow_kw : bool) (a : atom) (st : astyle) : Prop :=
  value_ok (st_pat st) (a_pat a) /\
  (if st_short st then
     a_key a = None /\ a_type a = TGlob /\ a_cs a = false /\
     (st_pat st = Unq -> allow_kw = false -> is_kw_text (a_pat a) = false)
   else
     match a_key a with Some k => k <> [] /\ value_ok (st_key st) k | None => True end).
Definition atom_ok : atom -> astyle -> Prop := atom_okx false.

Fixpoint starts_paren (c : cst) : bool :=
  match c with CParen _ _ _ => true | CBin _ l _ _ _ => starts_paren l | _ => false end.
Fixpoint ends_paren (c : cst) : bool :=
  match c with CParen _ _ _ => true | CBin _ _ _ _ r => ends_paren r | CNot _ c => ends_paren c | _ => false end.
Definition lev (k : kw) : nat := match k with KOr => 0 | _ => 1 end.

Definition is_nil (w : str) : bool := match w with [] => true | _ => false end.

(* [okx b rp lvl c]: c may be printed where the grammar expects level lvl (0 = or, 1 = and, 2 = unary).
   b: bare keyword patterns are tolerated directly before a closing parenthesis (what the code does);
   rp: the text is directly followed by a closing parenthesis. *)
Fixpoint okx (b rp : bool) (lvl : nat) (c : cst) : Prop :=
  match c with
  | CAtom a st => atom_okx (b && rp) a st
  | CNot w c => is_ws w /\ okx b rp 2 c /\ (w <> [] \/ starts_paren c = true)
  | CBin k l w1 w2 r =>
      k <> KNot /\ (lvl <= lev k)%nat /\ is_ws w1 /\ is_ws w2 /\ okx b false (lev k) l /\ okx b rp (S (lev k)) r /\
      (w1 <> [] \/ ends_paren l = true) /\ (w2 <> [] \/ starts_paren r = true)
  | CParen w1 c w2 => is_ws w1 /\ is_ws w2 /\ okx b (is_nil w2) 0 c
  end.
(* the documented grammar *)
Definition ok : nat -> cst -> Prop := okx false false.

Fixpoint catoms (c : cst) : list atom :=
  match c with
  | CAtom a _ => [a]
  | CNot _ c => catoms c
  | CBin _ l _ _ r => catoms l ++ catoms r
  | CParen _ c _ => catoms c
  end.
