(* C12 - YAML target caching is transparent: never stale, isolated, versions track data.
   Property theorems only.  cache_transparent is proved in the _partial form stated below. *)
From Coq Require Import String.
From Coq Require Import List NArith ZArith Bool Arith Lia.
From VF Require Import Base.Sx PyVal.Val PyVal.ValProofs PyVal.Codec Merge.Merge Yaml.Target Yaml.TargetProofs Yaml.Exec
  Yaml.Cache Yaml.CacheProofs C12.Entry C12.EntryProofs.
Import ListNotations.

(* ---- lru_spec ---- *)
Theorem C12_lru_get_after_set : forall (A : Type) cap k (v : A) l, (1 <= cap)%nat ->
  fst (lru_get k (lru_set cap k v l)) = Some v.
Proof. exact lru_get_after_set. Qed.
Print Assumptions C12_lru_get_after_set.

Theorem C12_lru_size_bounded : forall (A : Type) cap k (v : A) l, (length l <= cap)%nat ->
  (length (lru_set cap k v l) <= cap)%nat /\ (length (snd (lru_get k l)) <= length l)%nat.
Proof. intros. split; [now apply lru_set_length | apply lru_get_length]. Qed.
Print Assumptions C12_lru_size_bounded.

(* a lookup returns only what was stored under that key; get and set invent no entries *)
Theorem C12_lru_returns_only_what_was_set : forall (A : Type) cap k (v : A) l x,
  (fst (lru_get k l) = Some v -> In (k, v) l) /\
  (In x (snd (lru_get k l)) -> In x l) /\
  (In x (lru_set cap k v l) -> x = (k, v) \/ In x l).
Proof. intros. repeat split; [apply lru_get_sound | apply lru_get_incl | apply lru_set_incl]. Qed.
Print Assumptions C12_lru_returns_only_what_was_set.

Theorem C12_lru_eviction_order : forall (A : Type) cap k (v : A) l,
  (1 <= cap)%nat -> length l = cap -> find (key_is k) l = None ->
  lru_set cap k v l = tl l ++ [(k, v)].
Proof. exact lru_evicts_least_recent. Qed.
Print Assumptions C12_lru_eviction_order.

Theorem C12_lru_get_marks_recent : forall (A : Type) k l (v : A),
  fst (lru_get k l) = Some v -> snd (lru_get k l) = lru_remove k l ++ [(k, v)].
Proof. exact lru_get_moves_to_end. Qed.
Print Assumptions C12_lru_get_marks_recent.

(* ---- cache_transparent, partial ----
   Proved: one get_data call over ANY cache state and capacity returns the specification's data for the
   snapshot of that moment, provided the item stored for that system (if any) is usable for the call:
   every layer answers "same version => same data" (item_ok: top_ok / oc_ok / res_ok of TargetProofs).
   Missing for the full statement over histories: that every item the model stores stays usable for all
   later calls (item_validity_is_state_independent: content validity of stored items + hash injective,
   "|"- and "+"-free, so that equal versions imply equal rendered texts and equal piece lists).  The
   defect variant below shows the statement is false without the "+" tag. *)
Theorem C12_cache_transparent_partial : forall V C H yload cap st k,
  rerender V = false ->
  (forall text v, yload text = Ok v -> wf v = true) ->
  (forall it, In (k_sys k, it) st -> usable V C H yload k it) ->
  step_data (snd (get_data_step V C H yload cap st k)) = spec_of_call V C yload k.
Proof. intros. now apply step_transparent. Qed.
Print Assumptions C12_cache_transparent_partial.

(* with cache_size 0 the long-lived source is literally a new source at every call *)
Theorem C12_null_cache_is_fresh : forall V C H yload ks st,
  run_history V C H yload 0 st ks = map (fresh_result V C H yload) ks.
Proof. intros. apply null_history. Qed.
Print Assumptions C12_null_cache_is_fresh.

(* a new source returns the specification's data (C11) *)
Theorem C12_fresh_is_spec : forall V C H yload k,
  rerender V = false ->
  (forall text v, yload text = Ok v -> wf v = true) ->
  step_data (fresh_result V C H yload k) = spec_of_call V C yload k.
Proof. intros. now apply fresh_data. Qed.
Print Assumptions C12_fresh_is_spec.

(* the executable checker accepts the model - proved for cache_size 0 and the per-call clauses
   (returns_current_data, fresh_source_data, version_equals_fresh); for positive capacities the
   acceptance is observed on every generated history (the harness reports a model that fails its
   own checker) but not proved *)
Theorem C12_holds_partial : forall c, valid c -> cCap c = 0%nat -> holds_steps c (cCalls c) (run_model c) = [].
Proof. exact holds_steps_null. Qed.
Print Assumptions C12_holds_partial.

(* isolation: in the model a returned tree is a value; nothing a caller does to it can reach the cache
   state, which get_data_step threads explicitly.  The code half (deepcopy on return) is carried by the
   correspondence, which scribbles over every returned tree. *)

(* ---- e62fc38: without the "+" tag two different piece sequences share one version list ---- *)
Definition cfg0 : config := {| allow_empty_top := false; cfg_ml := false; cfg_ms := true; engine_on := false; suffix := s_yaml |}.
Definition vs (s : string) : val := VStr (bytes_of_string s).
Definition bs (s : string) : str := bytes_of_string s.
Definition TX : str := [88]%N.  Definition TY : str := [89]%N.  Definition TZ : str := [90]%N.
Definition TT1 : str := [49]%N. Definition TT2 : str := [50]%N.
Definition yl_w : list (str * res val) :=
  [(TT1, Ok (VDict [(vs "*", VList [vs "a.X"; vs "b.Y"; vs "a.X"])]));
   (TT2, Ok (VDict [(vs "*", VList [vs "a.X"])]));
   (TX, Ok (VDict [(vs "k", VInt 1); (vs "include", VList [vs ".n"]); (vs "m", VInt 1)]));
   (TY, Ok (VDict [(vs "m", VInt 2); (vs "include", VList [vs ".n"]); (vs "k", VInt 2)]));
   (TZ, Ok (VDict []))].
Definition tree1 : fstree :=
  [([bs "top.yaml"], File TT1); ([bs "a"; bs "X.yaml"], File TX); ([bs "a"; bs "n.yaml"], File TZ);
   ([bs "b"; bs "Y.yaml"], File TY); ([bs "b"; bs "n.yaml"], File TZ)].
Definition tree2 : fstree :=
  [([bs "top.yaml"], File TT2); ([bs "a"; bs "X.yaml"], File TX); ([bs "a"; bs "n"; bs "init.yaml"], File TX);
   ([bs "a"; bs "n"; bs "n"; bs "init.yaml"], File TY); ([bs "a"; bs "n"; bs "n"; bs "n.yaml"], File TZ);
   ([bs "b"; bs "Y.yaml"], File TY); ([bs "b"; bs "n.yaml"], File TZ)].
Definition mt_w : list (str * res bool) := [(bs "*", Ok true)].
Definition case_w (V : variants) : case :=
  {| cV := V; cC := cfg0; cCap := 64; cYload := yl_w;
     cCalls := [ {| q_sys := [115]%N; q_pv := []; q_tree := tree1; q_render := []; q_match := mt_w |};
                 {| q_sys := [115]%N; q_pv := []; q_tree := tree2; q_render := []; q_match := mt_w |} ] |}.
Definition pre_e62fc38 : variants := {| tag_after := false; rerender := false; empty_raises := false |}.

Theorem C12_refuted_e62fc38 :
  holds (case_w pre_e62fc38) (run_model (case_w pre_e62fc38)) =
    ["returns_current_data"%string] /\
  holds (case_w current_variants) (run_model (case_w current_variants)) = [].
Proof. split; vm_compute; reflexivity. Qed.

(* what the stale answer looks like: the old data {k: 1, m: 1} where the tree now yields {k: 2, m: 1} *)
Example C12_refuted_e62fc38_data :
  map (fun p => step_data (fst p)) (run_model (case_w pre_e62fc38)) =
    [Ok [(vs "k", VInt 1); (vs "m", VInt 1)]; Ok [(vs "k", VInt 1); (vs "m", VInt 1)]] /\
  map (fun p => step_data (fst p)) (run_model (case_w current_variants)) =
    [Ok [(vs "k", VInt 1); (vs "m", VInt 1)]; Ok [(vs "k", VInt 2); (vs "m", VInt 1)]].
Proof. split; vm_compute; reflexivity. Qed.

(* non-vacuity of the partial theorems: a valid case with capacity 0 and a two-call history over
   different snapshots; an empty cache state is usable for every call *)
Definition case_nv : case :=
  {| cV := current_variants; cC := cfg0; cCap := 0; cYload := yl_w; cCalls := cCalls (case_w current_variants) |}.
Example C12_nonvacuous :
  valid case_nv /\ cCap case_nv = 0%nat /\
  map (fun p => step_data (fst p)) (run_model case_nv) =
    [Ok [(vs "k", VInt 1); (vs "m", VInt 1)]; Ok [(vs "k", VInt 2); (vs "m", VInt 1)]].
Proof. repeat split; vm_compute; reflexivity. Qed.
