(* A small model of the parts of posixpath used by vinegar/template/jinja.py and by
   jinja2.loaders: join, normpath, abspath (relative to a given working directory), isabs.
   Strings are lists of code points; '/' = 47, '.' = 46.  Definitions only. *)
From Coq Require Import List NArith Bool Arith.
Import ListNotations.
Open Scope N_scope.

Definition bytes := list N.
Definition SL : N := 47.
Definition DOT : bytes := [46].
Definition DOTDOT : bytes := [46; 46].

Definition bytes_eqb (a b : bytes) : bool := if list_eq_dec N.eq_dec a b then true else false.

(* s.split("/") *)
Fixpoint split_slash (s : bytes) : list bytes :=
  match s with
  | [] => [[]]
  | c :: r =>
      if c =? SL then [] :: split_slash r
      else match split_slash r with
           | x :: xs => (c :: x) :: xs
           | [] => [[c]]
           end
  end.

(* "/".join(l) *)
Fixpoint join_slash (l : list bytes) : bytes :=
  match l with
  | [] => []
  | [x] => x
  | x :: r => x ++ SL :: join_slash r
  end.

Definition starts_slash (s : bytes) : bool := match s with c :: _ => c =? SL | [] => false end.
Definition ends_slash (s : bytes) : bool := match rev s with c :: _ => c =? SL | [] => false end.

(* posixpath.join(a, b) *)
Definition join2 (a b : bytes) : bytes :=
  if starts_slash b then b
  else if (match a with [] => true | _ => false end) || ends_slash a then a ++ b
  else a ++ SL :: b.

(* one iteration of the component loop of normpath; the stack is kept reversed *)
Definition norm_step (absolute : bool) (acc : list bytes) (comp : bytes) : list bytes :=
  if bytes_eqb comp [] || bytes_eqb comp DOT then acc
  else if bytes_eqb comp DOTDOT then
    match acc with
    | [] => if absolute then [] else [DOTDOT]
    | top :: rest => if bytes_eqb top DOTDOT then DOTDOT :: acc else rest
    end
  else comp :: acc.

Definition initial_slashes (p : bytes) : nat :=
  match p with
  | a :: b :: c :: _ => if a =? SL then (if (b =? SL) && negb (c =? SL) then 2%nat else 1%nat) else 0%nat
  | [a; b] => if a =? SL then (if b =? SL then 2%nat else 1%nat) else 0%nat
  | [a] => if a =? SL then 1%nat else 0%nat
  | [] => 0%nat
  end.

Definition normpath (p : bytes) : bytes :=
  match p with
  | [] => DOT
  | _ =>
      let ini := initial_slashes p in
      let comps := rev (fold_left (norm_step (negb (Nat.eqb ini 0))) (split_slash p) []) in
      let r := repeat SL ini ++ join_slash comps in
      match r with [] => DOT | _ => r end
  end.

(* os.path.abspath with the working directory made explicit *)
Definition abspath (cwd p : bytes) : bytes :=
  normpath (if starts_slash p then p else join2 cwd p).

(* a component that normpath keeps as it is *)
Definition plain (c : bytes) : bool :=
  negb (bytes_eqb c []) && negb (bytes_eqb c DOT) && negb (bytes_eqb c DOTDOT) && forallb (fun x => negb (x =? SL)) c.
