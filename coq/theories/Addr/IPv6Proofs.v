(* Proofs about the IPv6 transforms and the generic ip_address module, over the
   inet_pton / inet_ntop oracles.  The oracle facts are Section hypotheses (explicit premises of
   every theorem after the section closes); they only speak about strings that inet_pton accepts,
   so that a finite table closed under ntop satisfies them as well as libc does. *)
From Coq Require Import List NArith ZArith Bool Lia.
From VF Require Import Addr.Text Addr.TextProofs Addr.IPv4 Addr.IPv4Proofs Addr.IPv6 Addr.ArithProofs.
Import ListNotations.
Open Scope N_scope.

Lemma match4_chars s g : match4 s = Some g -> forall c, In c s -> is_digit c = true \/ c = DOT \/ c = SLASH.
Proof.
  intros M. apply match4_sound in M. destruct M as [(Ga & Gb & Gc & Gd & Gm) ->].
  assert (D : forall x c, dgroup x -> In c x -> is_digit c = true).
  { intros x c [_ Hx] Hin. rewrite forallb_forall in Hx. auto. }
  intros c Hin. unfold assemble4 in Hin.
  repeat (apply in_app_or in Hin; destruct Hin as [Hin|Hin]; [left; eapply D; [|exact Hin]; assumption|];
          destruct Hin as [E|Hin]; [right; left; now symmetry|]).
  apply in_app_or in Hin. destruct Hin as [Hin|Hin]; [left; eapply D; [|exact Hin]; assumption|].
  destruct (g5 g) as [m|]; cbn [mask_tail] in Hin; [|contradiction].
  destruct Hin as [E|Hin]; [right; right; now symmetry|]. left. eapply D; [|exact Hin]. assumption.
Qed.

Lemma match4_no_colon s : is_match4 s = true -> has COLON s = false.
Proof.
  unfold is_match4. destruct (match4 s) as [g|] eqn:M; [|discriminate]. intros _.
  apply has_false_In. intros Hin. destruct (match4_chars s g M _ Hin) as [H|[H|H]]; discriminate.
Qed.

Lemma colon_no_match4 s : has COLON s = true -> is_match4 s = false.
Proof.
  intros H. destruct (is_match4 s) eqn:E; [|reflexivity]. apply match4_no_colon in E. congruence.
Qed.

Lemma parse4_is_match4 s d : parse4 s = Some d -> is_match4 s = true.
Proof. unfold parse4, is_match4. destruct (match4 s); [reflexivity|discriminate]. Qed.

Lemma mask6_strict_range g k : mask6 false g = Some k -> k <= 128.
Proof.
  unfold mask6. destruct g as [|c g]; [discriminate|]. destruct (forallb is_digit (c :: g)); [|discriminate].
  destruct (py_int_digits (c :: g)) as [m|]; [|discriminate]. destruct (m <=? 128) eqn:E; [|discriminate].
  intros H. inversion H; subst. now apply N.leb_le.
Qed.

Lemma mask6_print k : k <= 128 -> mask6 false (print_dec k) = Some k.
Proof.
  intros Hk. assert (L : k < 1000) by lia. destruct (print_dec_facts k L) as (_ & D & NE & _).
  unfold mask6. destruct (print_dec k) as [|c g] eqn:E; [congruence|]. rewrite D. rewrite <- E.
  rewrite (py_int_print_dec k L). apply N.leb_le in Hk. now rewrite Hk.
Qed.

Lemma print_dec_no_slash k : k < 1000 -> has SLASH (print_dec k) = false.
Proof.
  intros L. destruct (print_dec_facts k L) as (_ & D & _). apply has_false_In. intros Hin.
  rewrite forallb_forall in D. specialize (D _ Hin). discriminate.
Qed.

Section Oracles.
  Variable pton : str -> pres.
  Variable ntop : list N -> str.
  Hypothesis pton_len : forall s b, pton s = PBytes b -> length b = 16%nat /\ all_bytes b = true.
  Hypothesis pton_ntop : forall s b, pton s = PBytes b -> pton (ntop b) = PBytes b.
  Hypothesis pton_no_slash : forall s b, pton s = PBytes b -> has SLASH s = false.
  Hypothesis pton_colon : forall s b, pton s = PBytes b -> has COLON s = true.

  Notation parse6 := (parse6 pton false).
  Notation normalize6 := (normalize6 pton ntop false).
  Notation strip_mask6 := (strip_mask6 pton false).
  Notation net_address6 := (net_address6 pton ntop false).
  Notation unwrap := (unwrap pton false).
  Notation normalize_ip := (normalize_ip pton ntop false false).
  Notation strip_mask_ip := (strip_mask_ip pton false).
  Notation net_address_ip := (net_address_ip pton ntop false).
  Notation denote_ip := (denote_ip pton false false).

  Definition wf_denot6 (b : list N) (m : option N) : Prop :=
    (exists s, pton s = PBytes b) /\ match m with None => True | Some k => k <= 128 end.

  Lemma parse6_range s b m : parse6 s = Some (b, m) -> wf_denot6 b m.
  Proof.
    unfold IPv6.parse6. destruct (cut SLASH s) as [a g]. destruct (pton a) as [b0| |] eqn:P; try discriminate.
    destruct g as [g|].
    - destruct (mask6 false g) as [k|] eqn:K; [|discriminate]. intros H. inversion H; subst.
      split; [now exists a|]. now apply mask6_strict_range with g.
    - intros H. inversion H; subst. split; [now exists a|trivial].
  Qed.

  Lemma parse6_fmt6 b m : wf_denot6 b m -> parse6 (fmt6 ntop b m) = Some (b, m).
  Proof.
    intros [[s Ps] Hm]. pose proof (pton_ntop s b Ps) as RT. pose proof (pton_no_slash _ _ RT) as NS.
    unfold IPv6.parse6, fmt6. destruct m as [k|]; cbn [fmt_mask].
    - rewrite (cut_app _ _ _ NS), RT, (mask6_print k Hm). reflexivity.
    - rewrite app_nil_r, (cut_none _ _ NS), RT. reflexivity.
  Qed.

  Theorem normalize6_idempotent r s :
    match normalize6 r s with Ok t => normalize6 r t = Ok t | Exc _ => True end.
  Proof.
    unfold IPv6.normalize6 at 1. destruct (parse6 s) as [[b m]|] eqn:P.
    - unfold IPv6.normalize6. now rewrite (parse6_fmt6 _ _ (parse6_range _ _ _ P)).
    - unfold malformed. destruct r; [trivial|]. unfold IPv6.normalize6. now rewrite P.
  Qed.

  Theorem normalize6_canonical r s1 s2 d1 d2 : parse6 s1 = Some d1 -> parse6 s2 = Some d2 ->
    (d1 = d2 <-> normalize6 r s1 = normalize6 r s2).
  Proof.
    intros P1 P2. unfold IPv6.normalize6. rewrite P1, P2. destruct d1 as [b1 m1], d2 as [b2 m2]. split.
    - intros E. inversion E; subst. reflexivity.
    - intros E. inversion E as [E'].
      pose proof (parse6_fmt6 _ _ (parse6_range _ _ _ P1)) as Q1.
      pose proof (parse6_fmt6 _ _ (parse6_range _ _ _ P2)) as Q2.
      rewrite E' in Q1. congruence.
  Qed.

  Theorem ipv6_total s : parse6 s = None ->
    forall r, normalize6 r s = malformed r s /\ strip_mask6 r s = malformed r s /\
              net_address6 r s = malformed r s.
  Proof.
    intros P r. unfold IPv6.normalize6, IPv6.strip_mask6, IPv6.net_address6. rewrite P. auto.
  Qed.

  Theorem ipv6_wellformed_ok s b m r : parse6 s = Some (b, m) ->
    (exists t, normalize6 r s = Ok t) /\ (exists t, strip_mask6 r s = Ok t) /\
    (m <> None -> exists t, net_address6 r s = Ok t) /\
    (m = None -> net_address6 r s = malformed r s).
  Proof.
    intros P. unfold IPv6.normalize6, IPv6.strip_mask6, IPv6.net_address6. rewrite P.
    repeat split; eauto; destruct m; try congruence; eauto.
  Qed.

  (* strip_mask: the text before the first "/", which inet_pton accepts with the same bytes *)
  Theorem strip_mask6_spec r s b m : parse6 s = Some (b, m) ->
    exists t, strip_mask6 r s = Ok t /\ parse6 t = Some (b, None) /\ (m = None -> t = s).
  Proof.
    intros P. unfold IPv6.strip_mask6. rewrite P. exists (fst (cut SLASH s)). split; [reflexivity|].
    unfold IPv6.parse6 in P |- *. destruct (cut SLASH s) as [a g] eqn:C. cbn [fst].
    destruct (pton a) as [b0| |] eqn:Pa; try discriminate.
    rewrite (cut_none _ _ (pton_no_slash _ _ Pa)), Pa.
    destruct (cut_spec _ _ _ _ C) as [_ E]. destruct g as [g|].
    - destruct (mask6 false g); [|discriminate]. inversion P; subst. split; [reflexivity|discriminate].
    - inversion P; subst. split; [reflexivity|]. intros _. now symmetry.
  Qed.

  (* net address on 128 bits: the masked integer equals a / 2^(128-m) * 2^(128-m); its 16
     big-endian bytes are what inet_ntop prints *)
  Theorem net_arith6 r s b m : parse6 s = Some (b, Some m) ->
    let net := to_N b / 2 ^ (128 - m) * 2 ^ (128 - m) in
    net_address6 r s = Ok (fmt6 ntop (bytes128 net) (Some m)) /\
    to_N (bytes128 net) = net /\ length (bytes128 net) = 16%nat /\ all_bytes (bytes128 net) = true.
  Proof.
    intros P. destruct (parse6_range _ _ _ P) as [[s0 Ps] Hm]. destruct (pton_len _ _ Ps) as [L A].
    pose proof (to_N_lt b A) as Lt. rewrite L in Lt. change (256 ^ N.of_nat 16) with (2 ^ 128) in Lt.
    cbv zeta. unfold IPv6.net_address6. rewrite P. rewrite (netmask_land 128 m _ Lt Hm).
    repeat split.
    - apply to_N_bytes128. now apply net_lt.
    - rewrite bytes128_be. apply be_bytes_all.
  Qed.

  (* ---- generic module ---- *)
  Lemma mapped_bytes_wf b : length b = 16%nat -> all_bytes b = true -> wf_denot4 (skipn 12 b) None.
  Proof.
    intros L A. do 17 (destruct b as [|? b]; try discriminate). cbn [skipn].
    unfold all_bytes in A. cbn [forallb] in A.
    repeat (apply andb_true_iff in A; destruct A as [?%N.ltb_lt A]).
    split; [|trivial]. do 4 eexists. split; [reflexivity|]. repeat split; lia.
  Qed.

  (* an IPv4-mapped IPv6 address (dotted or hexadecimal spelling, no mask) normalises to the IPv4 form *)
  Theorem mapped_unwrap r s b : pton s = PBytes b -> is_mapped b = true ->
    normalize_ip r s = Ok (fmt4 (skipn 12 b) None) /\ denote_ip s = Some (D4 (skipn 12 b) None).
  Proof.
    intros P M. destruct (pton_len _ _ P) as [L A]. pose proof (mapped_bytes_wf b L A) as W.
    pose proof (parse4_fmt4 _ _ W) as Q.
    unfold IPv6.normalize_ip, IPv6.denote_ip, IPv6.unwrap. rewrite P, M.
    rewrite (parse4_is_match4 _ _ Q). unfold normalize4. rewrite Q. split; reflexivity.
  Qed.

  Lemma unwrap_cases s : unwrap s = Ok s \/
    exists b, pton s = PBytes b /\ is_mapped b = true /\ unwrap s = Ok (fmt4 (skipn 12 b) None).
  Proof.
    unfold IPv6.unwrap. destruct (pton s) as [b| |] eqn:P; auto.
    destruct (is_mapped b) eqn:M; auto. right. exists b. auto.
  Qed.

  (* text that matches the IPv4 expression is never accepted by inet_pton(AF_INET6), so unwrap keeps it *)
  Lemma unwrap_v4 s : is_match4 s = true -> unwrap s = Ok s.
  Proof.
    intros M. unfold IPv6.unwrap. destruct (pton s) as [b| |] eqn:P; auto.
    pose proof (pton_colon _ _ P). apply match4_no_colon in M. congruence.
  Qed.
  Lemma unwrap_slash s : has SLASH s = true -> unwrap s = Ok s.
  Proof.
    intros M. unfold IPv6.unwrap. destruct (pton s) as [b| |] eqn:P; auto.
    pose proof (pton_no_slash _ _ P). congruence.
  Qed.

  Theorem ip_total s : denote_ip s = None ->
    forall r, normalize_ip r s = malformed r s /\
              (is_match4 s = true -> parse4 s = None -> strip_mask_ip r s = malformed r s /\ net_address_ip r s = malformed r s) /\
              (is_match4 s = false -> parse6 s = None -> strip_mask_ip r s = malformed r s /\ net_address_ip r s = malformed r s).
  Proof.
    intros D r. split; [|split].
    - unfold IPv6.denote_ip in D. unfold IPv6.normalize_ip. destruct (unwrap_cases s) as [U|(b & P & M & U)].
      + rewrite U in *. destruct (is_match4 s).
        * unfold normalize4. destruct (parse4 s); [discriminate|reflexivity].
        * unfold IPv6.normalize6. destruct (parse6 s); [discriminate|reflexivity].
      + destruct (mapped_unwrap r s b P M) as [_ Q]. unfold IPv6.denote_ip in Q. congruence.
    - intros M P. unfold IPv6.strip_mask_ip, IPv6.net_address_ip, strip_mask4, net_address4. now rewrite M, P.
    - intros M P. unfold IPv6.strip_mask_ip, IPv6.net_address_ip, IPv6.strip_mask6, IPv6.net_address6. now rewrite M, P.
  Qed.

  Lemma fmt6_colon b m : wf_denot6 b m -> has COLON (fmt6 ntop b m) = true.
  Proof.
    intros [[s Ps] _]. unfold fmt6. rewrite has_app.
    now rewrite (pton_colon _ _ (pton_ntop _ _ Ps)).
  Qed.

  Lemma normalize_ip_v4 r t : is_match4 t = true -> normalize_ip r t = normalize4 r t.
  Proof. intros M. unfold IPv6.normalize_ip. now rewrite (unwrap_v4 t M), M. Qed.

  Lemma normalize_ip_fmt6 r b m : wf_denot6 b m -> (m = None -> is_mapped b = false) ->
    normalize_ip r (fmt6 ntop b m) = Ok (fmt6 ntop b m) /\ denote_ip (fmt6 ntop b m) = Some (D6 b m).
  Proof.
    intros W NM. pose proof (fmt6_colon b m W) as C. pose proof (colon_no_match4 _ C) as N4.
    assert (U : unwrap (fmt6 ntop b m) = Ok (fmt6 ntop b m)).
    { destruct m as [k|].
      - apply unwrap_slash. unfold fmt6. cbn [fmt_mask]. rewrite has_app. cbn [has existsb].
        change (SLASH =? SLASH) with true. cbn [orb]. apply orb_true_r.
      - destruct W as [[s Ps] _]. unfold fmt6. cbn [fmt_mask]. rewrite app_nil_r.
        unfold IPv6.unwrap. rewrite (pton_ntop _ _ Ps), (NM eq_refl). reflexivity. }
    unfold IPv6.normalize_ip, IPv6.denote_ip. rewrite U, N4. unfold IPv6.normalize6.
    rewrite (parse6_fmt6 _ _ W). split; reflexivity.
  Qed.

  Lemma denote6_not_mapped s b : unwrap s = Ok s -> is_match4 s = false -> parse6 s = Some (b, None) ->
    is_mapped b = false.
  Proof.
    intros U N4 P. unfold IPv6.parse6 in P. destruct (cut SLASH s) as [a g] eqn:C.
    destruct (pton a) as [b0| |] eqn:Pa; try discriminate. destruct g as [g|].
    - destruct (mask6 false g); discriminate.
    - inversion P; subst. destruct (cut_spec _ _ _ _ C) as [_ E]. subst a.
      unfold IPv6.unwrap in U. rewrite Pa in U. destruct (is_mapped b) eqn:M; [|reflexivity].
      assert (E : fmt4 (skipn 12 b) None = s) by congruence. destruct (pton_len _ _ Pa) as [L A].
      pose proof (parse4_is_match4 _ _ (parse4_fmt4 _ _ (mapped_bytes_wf b L A))) as Q.
      rewrite E in Q. congruence.
  Qed.

  Theorem normalize_ip_idempotent r s :
    match normalize_ip r s with Ok t => normalize_ip r t = Ok t | Exc _ => True end.
  Proof.
    destruct (unwrap_cases s) as [U|(b & P & M & U)].
    - unfold IPv6.normalize_ip at 1. rewrite U. destruct (is_match4 s) eqn:M4.
      + pose proof (normalize4_idempotent r s) as I4. destruct (normalize4 r s) as [t|e] eqn:E; [|trivial].
        assert (Mt : is_match4 t = true).
        { unfold normalize4 in E. destruct (parse4 s) as [[bs m]|] eqn:P.
          - inversion E; subst. exact (parse4_is_match4 _ _ (parse4_fmt4 _ _ (parse4_range _ _ _ P))).
          - unfold malformed in E. destruct r; inversion E; subst. exact M4. }
        now rewrite (normalize_ip_v4 r t Mt).
      + unfold IPv6.normalize6. destruct (parse6 s) as [[b m]|] eqn:P.
        * apply normalize_ip_fmt6; [exact (parse6_range _ _ _ P)|].
          intros ->. exact (denote6_not_mapped s b U M4 P).
        * unfold malformed. destruct r; [trivial|]. unfold IPv6.normalize_ip. rewrite U, M4.
          unfold IPv6.normalize6. now rewrite P.
    - destruct (mapped_unwrap r s b P M) as [Q _]. rewrite Q.
      destruct (pton_len _ _ P) as [L A]. pose proof (parse4_fmt4 _ _ (mapped_bytes_wf b L A)) as Q4.
      rewrite (normalize_ip_v4 r _ (parse4_is_match4 _ _ Q4)). unfold normalize4. now rewrite Q4.
  Qed.

  Lemma denote_ip_normal r s d : denote_ip s = Some d ->
    match d with
    | D4 bs m => normalize_ip r s = Ok (fmt4 bs m) /\ wf_denot4 bs m
    | D6 b m => normalize_ip r s = Ok (fmt6 ntop b m) /\ wf_denot6 b m /\ (m = None -> is_mapped b = false)
    end.
  Proof.
    unfold IPv6.denote_ip. intros D. destruct (unwrap_cases s) as [U|(b & P & M & U)].
    - unfold IPv6.normalize_ip. rewrite U in *. destruct (is_match4 s) eqn:M4.
      + destruct (parse4 s) as [[bs m]|] eqn:P; [|discriminate]. inversion D; subst. cbn [fst snd].
        unfold normalize4. rewrite P. split; [reflexivity|exact (parse4_range _ _ _ P)].
      + destruct (parse6 s) as [[b m]|] eqn:P; [|discriminate]. inversion D; subst. cbn [fst snd].
        unfold IPv6.normalize6. rewrite P. split; [reflexivity|]. split; [exact (parse6_range _ _ _ P)|].
        intros ->. exact (denote6_not_mapped s b U M4 P).
    - destruct (mapped_unwrap r s b P M) as [Q Dn]. unfold IPv6.denote_ip in Dn. rewrite Dn in D.
      inversion D; subst. split; [exact Q|]. destruct (pton_len _ _ P) as [L A]. now apply mapped_bytes_wf.
  Qed.

  (* generic canonical: same family, bytes and mask (a mapped address without mask counting as
     its IPv4 address) iff equal normal forms *)
  Theorem normalize_ip_canonical r s1 s2 d1 d2 : denote_ip s1 = Some d1 -> denote_ip s2 = Some d2 ->
    (d1 = d2 <-> normalize_ip r s1 = normalize_ip r s2).
  Proof.
    intros D1 D2. pose proof (denote_ip_normal r s1 d1 D1) as N1. pose proof (denote_ip_normal r s2 d2 D2) as N2.
    split.
    - intros <-. destruct d1; destruct N1 as [-> _]; destruct N2 as [-> _]; reflexivity.
    - intros E. destruct d1 as [b1 m1|b1 m1], d2 as [b2 m2|b2 m2].
      + destruct N1 as [E1 W1], N2 as [E2 W2]. rewrite E1, E2 in E. inversion E as [E'].
        pose proof (parse4_fmt4 _ _ W1) as Q1. pose proof (parse4_fmt4 _ _ W2) as Q2. rewrite E' in Q1. congruence.
      + destruct N1 as [E1 W1], N2 as (E2 & W2 & _). rewrite E1, E2 in E. inversion E as [E'].
        pose proof (fmt6_colon _ _ W2) as C. rewrite <- E' in C.
        pose proof (match4_no_colon _ (parse4_is_match4 _ _ (parse4_fmt4 _ _ W1))). congruence.
      + destruct N1 as (E1 & W1 & _), N2 as [E2 W2]. rewrite E1, E2 in E. inversion E as [E'].
        pose proof (fmt6_colon _ _ W1) as C. rewrite E' in C.
        pose proof (match4_no_colon _ (parse4_is_match4 _ _ (parse4_fmt4 _ _ W2))). congruence.
      + destruct N1 as (E1 & W1 & _), N2 as (E2 & W2 & _). rewrite E1, E2 in E. inversion E as [E'].
        pose proof (parse6_fmt6 _ _ W1) as Q1. pose proof (parse6_fmt6 _ _ W2) as Q2. rewrite E' in Q1. congruence.
  Qed.
End Oracles.

(* ---- the repaired defects, as variants of the model ---- *)
Definition LOOPBACK : list N := [0; 0; 0; 0; 0; 0; 0; 0; 0; 0; 0; 0; 0; 0; 0; 1].
Definition S_LOOP : str := [58; 58; 49].                              (* "::1" *)
Definition S_LOOP_PLUS64 : str := [58; 58; 49; 47; 43; 54; 52].        (* "::1/+64" *)
Definition S_LOOP_64 : str := [58; 58; 49; 47; 54; 52].                (* "::1/64" *)

(* D11: with int() applied to the raw mask text, "::1/+64" (malformed: the mask is not [0-9]+) was
   silently rewritten to "::1/64" *)
Theorem v6_total_refuted_lenient_mask :
  let pton := tab_pton [(S_LOOP, PBytes LOOPBACK)] in
  let ntop := tab_ntop [(LOOPBACK, S_LOOP)] in
  parse6 pton false S_LOOP_PLUS64 = None /\
  normalize6 pton ntop true false S_LOOP_PLUS64 = Ok S_LOOP_64 /\
  normalize6 pton ntop false false S_LOOP_PLUS64 = Ok S_LOOP_PLUS64.
Proof. vm_compute. auto. Qed.

(* D16: ipv6_address_unwrap let inet_pton's ValueError (NUL character in the text) escape although
   raise_error_if_malformed was false *)
Theorem ip_total_refuted_unwrap_valueerror :
  let s := [97; 0; 98] in
  let pton := tab_pton [(s, PValueError)] in
  let ntop := tab_ntop [] in
  normalize_ip pton ntop false true false s = Exc ValueError /\
  normalize_ip pton ntop false false false s = Ok s.
Proof. vm_compute. auto. Qed.

(* the facts about libc's inet_pton / inet_ntop (AF_INET6) that the theorems use, as one premise *)
Definition oracle_facts (pton : str -> pres) (ntop : list N -> str) : Prop :=
  (forall s b, pton s = PBytes b -> length b = 16%nat /\ all_bytes b = true) /\
  (forall s b, pton s = PBytes b -> pton (ntop b) = PBytes b) /\
  (forall s b, pton s = PBytes b -> has SLASH s = false) /\
  (forall s b, pton s = PBytes b -> has COLON s = true).
