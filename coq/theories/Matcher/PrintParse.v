(* parse_print: every legal layout of every expression tree is parsed back to that tree.
   Structure (DESIGN appendix A.7): "eventually enough fuel" statements per grammar level,
   proved once for a generic level (keyword, sub-parser) and instantiated for and / or. *)
From Coq Require Import String.
From Coq Require Import List NArith Bool Arith Lia.
From VF Require Import Matcher.Model Matcher.ParserFacts Matcher.PrintLex.
Import ListNotations.

(* ---------- shape of printed trees ---------- *)
Fixpoint needs_stop (c : cst) : bool :=
  match c with
  | CAtom _ st => match st_pat st with Unq => true | _ => false end
  | CNot _ c => needs_stop c
  | CBin _ _ _ _ r => needs_stop r
  | CParen _ _ _ => false
  end.
Fixpoint head_not (c : cst) : bool :=
  match c with CNot _ _ => true | CBin _ l _ _ _ => head_not l | _ => false end.

Lemma starts_paren_head c : starts_paren c = true -> exists t, print c = LP :: t.
Proof.
  induction c as [a st|w c IH|k l IHl w1 w2 r IHr|w1 c IH w2]; cbn [starts_paren print]; try discriminate.
  - intros H. destruct (IHl H) as (t & ->). eexists. reflexivity.
  - intros _. eexists. reflexivity.
Qed.

Lemma ends_paren_last c : ends_paren c = true -> forall d, last_of d (print c) = Some RP.
Proof.
  induction c as [a st|w c IH|k l IHl w1 w2 r IHr|w1 c IH w2]; cbn [ends_paren print]; try discriminate; intros H d.
  - rewrite !last_of_app. now apply IH.
  - rewrite !last_of_app. now apply IHr.
  - rewrite last_of_cons, !last_of_app. reflexivity.
Qed.

Lemma ends_paren_needs_stop c : ends_paren c = true -> needs_stop c = false.
Proof. induction c; cbn; try discriminate; auto. Qed.

Lemma starts_paren_head_not c : starts_paren c = true -> head_not c = false.
Proof. induction c; cbn; try discriminate; auto. Qed.

Lemma atom_head al a st : atom_okx al a st ->
  exists ch t, print_atom a st = ch :: t /\ is_space ch = false /\ (ch =? LP)%N = false.
Proof.
  intros Hok. destruct (print_atom_head al a st Hok) as [(c & t & E & H1 & H2 & _)|[Hs Hp]].
  - exists c, t. auto.
  - destruct Hok as [Hv _]. unfold print_atom. rewrite Hs, Hp in *. cbn [print_value value_ok] in *.
    destruct (unquoted_head _ Hv) as (c & t & -> & Hr & _). exists c, t. split; [reflexivity|].
    unfold reserved in Hr. apply orb_false_elim in Hr as [Hr _]. apply orb_false_elim in Hr as [Hr Hlp].
    apply orb_false_elim in Hr as [Hsp _]. auto.
Qed.

Lemma print_head c : forall b rp lvl, okx b rp lvl c -> exists ch t, print c = ch :: t /\ is_space ch = false.
Proof.
  induction c as [a st|w c IH|k l IHl w1 w2 r IHr|w1 c IH w2]; intros b rp lvl; cbn [okx print].
  - intros H. destruct (atom_head _ a st H) as (ch & t & E & Hs & _). eauto.
  - intros _. eexists _, _. split; reflexivity.
  - intros (_ & _ & _ & _ & Hl & _). destruct (IHl _ _ _ Hl) as (ch & t & -> & Hs). eexists _, _. split; [reflexivity|exact Hs].
  - intros _. eexists _, _. split; reflexivity.
Qed.

Lemma print_nonspace b rp lvl c rest : okx b rp lvl c -> nonspace_head (print c ++ rest).
Proof. intros H. destruct (print_head c b rp lvl H) as (ch & t & -> & Hs). exact Hs. Qed.

Definition pre (prev : option N) (c : cst) : Prop := head_not c = true -> prev_ok prev = true.
Definition fol (rp : bool) (c : cst) (rest : str) : Prop :=
  (needs_stop c = true -> stop rest) /\ (rp = true -> exists r', rest = RP :: r').

Definition EV {A} (F : nat -> res A) (X : res A) : Prop := exists n0, forall n, (n0 <= n)%nat -> F n = X.

Lemma kw_head k : exists c t, kw_str k = c :: t /\ is_space c = false.
Proof. destruct k; eexists _, _; split; reflexivity. Qed.

Section PP.
  Variable V : variants.
  Variable compile : atom -> cres.

  Definition compiled (c : cst) : Prop := forall a, In a (catoms c) -> compile a = COk.
  Let b := bare_keyword_atom V.

  (* ================= a generic level ================= *)
  Section Level.
    Variable k : kw.
    Variable S : nat -> parser.
    Variable tailS : str -> Prop.
    Hypothesis Htail : forall w t, is_ws w -> tailS (w ++ kw_str k ++ t).
    Let mk := mk_of k.

    Definition item_spec (rp : bool) (c : cst) : Prop :=
      forall prev rest, pre prev c -> fol rp c rest -> tailS rest ->
      exists pv' r2, EV (fun n => S n prev (print c ++ rest)) (Ok (erase c, pv', r2)) /\
                     skip_ws pv' r2 = skip_ws (last_of prev (print c)) rest.

    Definition LoopEV (left : expr) (pv : option N) (s : str) (X : pres) : Prop :=
      exists n0 g0, forall n g, (n0 <= n)%nat -> (g0 <= g)%nat -> loop k (S n) mk g left pv s = X.
    Definition HeadEV (prev : option N) (s : str) (X : pres) : Prop :=
      exists n0 g0, forall n g, (n0 <= n)%nat -> (g0 <= g)%nat ->
        ('(e, pv', r2) <- S n prev s ;; let (pv2, r3) := skip_ws pv' r2 in loop k (S n) mk g e pv2 r3) = X.

    Definition chain_spec (rp : bool) (c : cst) : Prop :=
      forall prev rest X, pre prev c -> fol rp c rest -> tailS rest ->
      LoopEV (erase c) (fst (skip_ws (last_of prev (print c)) rest)) (snd (skip_ws (last_of prev (print c)) rest)) X ->
      HeadEV prev (print c ++ rest) X.

    Lemma chain_of_item rp c : item_spec rp c -> chain_spec rp c.
    Proof.
      intros Hi prev rest X Hpre Hfol Ht (n0 & g0 & HL).
      destruct (Hi prev rest Hpre Hfol Ht) as (pv' & r2 & (n1 & H1) & Hskip).
      exists (Nat.max n0 n1), g0. intros n g Hn Hg. rewrite H1 by lia. cbn [bind]. rewrite Hskip.
      destruct (skip_ws (last_of prev (print c)) rest) as [pv2 r3]. cbn [fst snd] in HL. apply HL; lia.
    Qed.

    Lemma loop_step sub g left pv t : prev_ok pv = true -> boundary_after t = true ->
      loop k sub mk (Datatypes.S g) left pv (kw_str k ++ t) =
      let (pv1, r1) := skip_ws (last_of pv (kw_str k)) t in
      '(e, pv', r2) <- sub pv1 r1 ;;
      let (pv2, r3) := skip_ws pv' r2 in loop k sub mk g (mk left e) pv2 r3.
    Proof.
      intros Hp Hb. cbn [loop].
      assert (Hpk : peek_kw [k] pv (kw_str k ++ t) = PSome k t).
      { unfold peek_kw. cbn [find_kw]. now rewrite starts_app, Hb, Hp. }
      destruct (kw_head k) as (c & t' & E & _). rewrite E in *. cbn [app] in *. now rewrite Hpk.
    Qed.

    Lemma chain_bin rp l w1 w2 r lvl :
      chain_spec false l -> item_spec rp r -> okx b rp lvl r -> is_ws w1 -> is_ws w2 ->
      (w1 <> [] \/ ends_paren l = true) -> (w2 <> [] \/ starts_paren r = true) ->
      chain_spec rp (CBin k l w1 w2 r).
    Proof.
      intros Hl Hr Hokr Hw1 Hw2 Hg1 Hg2 prev rest X Hpre Hfol Ht (n0 & g0 & HL).
      cbn [print]. rewrite <- !app_assoc.
      set (pvl := last_of prev (print l)).
      set (pvk := last_of pvl w1).
      set (pv3 := last_of (last_of pvk (kw_str k)) w2).
      assert (Hlast : last_of prev (print l ++ w1 ++ kw_str k ++ w2 ++ print r) = last_of pv3 (print r)).
      { now rewrite !last_of_app. }
      cbn [print erase] in HL. rewrite Hlast in HL.
      apply Hl.
      - exact Hpre.
      - split; [|discriminate]. intros Hns. destruct Hg1 as [Hne|He].
        + destruct w1 as [|c w]; [congruence|]. unfold is_ws in Hw1. cbn [forallb] in Hw1.
          apply andb_prop in Hw1 as [Hc _]. cbn [app stop]. now left.
        + apply ends_paren_needs_stop in He. congruence.
      - now apply Htail.
      - destruct (kw_head k) as (kc & kt & Ek & Hkc).
        assert (Hsk : skip_ws pvl (w1 ++ kw_str k ++ w2 ++ print r ++ rest) = (pvk, kw_str k ++ w2 ++ print r ++ rest)).
        { apply skip_ws_app; [exact Hw1|]. rewrite Ek. exact Hkc. }
        fold pvl. rewrite Hsk. cbn [fst snd].
        assert (Hpk : prev_ok pvk = true).
        { unfold pvk. destruct Hg1 as [Hne|He]; [now apply prev_ok_ws_nonempty|].
          destruct w1 as [|c w].
          - cbn. unfold pvl. now rewrite (ends_paren_last l He).
          - apply prev_ok_ws_nonempty; [exact Hw1|discriminate]. }
        assert (Hb : boundary_after (w2 ++ print r ++ rest) = true).
        { destruct Hg2 as [Hne|Hs].
          - destruct w2 as [|c w]; [congruence|]. unfold is_ws in Hw2. cbn [forallb] in Hw2.
            apply andb_prop in Hw2 as [Hc _]. cbn [app boundary_after]. now rewrite Hc, orb_true_r.
          - destruct w2 as [|c w].
            + destruct (starts_paren_head r Hs) as (t & ->). reflexivity.
            + unfold is_ws in Hw2. cbn [forallb] in Hw2. apply andb_prop in Hw2 as [Hc _].
              cbn [app boundary_after]. now rewrite Hc, orb_true_r. }
        assert (Hpre3 : pre pv3 r).
        { intros Hn. unfold pv3. destruct Hg2 as [Hne|Hs]; [now apply prev_ok_ws_nonempty|].
          apply starts_paren_head_not in Hs. congruence. }
        destruct (Hr pv3 rest Hpre3 Hfol Ht) as (pv' & r2 & (n1 & H1) & Hskip).
        exists (Nat.max n0 n1), (Datatypes.S g0). intros n g Hn Hg.
        destruct g as [|g]; [lia|]. rewrite (loop_step _ g _ pvk _ Hpk Hb).
        assert (Hsk2 : skip_ws (last_of pvk (kw_str k)) (w2 ++ print r ++ rest) = (pv3, print r ++ rest)).
        { apply skip_ws_app; [exact Hw2|]. now apply (print_nonspace b rp lvl). }
        rewrite Hsk2, H1 by lia. cbn [bind]. rewrite Hskip.
        destruct (skip_ws (last_of pv3 (print r)) rest) as [pv2 r3]. cbn [fst snd] in HL.
        apply HL; lia.
    Qed.

    Definition tailK (rest : str) : Prop := drop_ws rest = [] \/ find_kw [k] (drop_ws rest) = None.

    Lemma compound_of_chain rp c lvl : chain_spec rp c -> okx b rp lvl c ->
      forall prev w0 rest, is_ws w0 -> pre (last_of prev w0) c -> fol rp c rest -> tailS rest -> tailK rest ->
      EV (fun n => compound k (S n) mk n prev (w0 ++ print c ++ rest))
         (Ok (erase c, last_of (last_of (last_of prev w0) (print c)) (ws_prefix rest), drop_ws rest)).
    Proof.
      intros Hc Hok prev w0 rest Hw0 Hpre Hfol Ht Hk.
      set (X := Ok (erase c, last_of (last_of (last_of prev w0) (print c)) (ws_prefix rest), drop_ws rest)).
      assert (HL : LoopEV (erase c) (fst (skip_ws (last_of (last_of prev w0) (print c)) rest))
                     (snd (skip_ws (last_of (last_of prev w0) (print c)) rest)) X).
      { unfold X. rewrite skip_ws_eq. cbn [fst snd]. exists 0%nat, 1%nat. intros n g _ Hg. destruct g as [|g]; [lia|].
        cbn [loop]. destruct Hk as [->|Hk]; [reflexivity|].
        destruct (drop_ws rest) as [|c0 t0]; [reflexivity|]. unfold peek_kw. now rewrite Hk. }
      destruct (Hc (last_of prev w0) rest X Hpre Hfol Ht HL) as (n0 & g0 & H).
      exists (Nat.max n0 g0). intros n Hn. unfold compound.
      rewrite (skip_ws_app w0 (print c ++ rest) prev Hw0 (print_nonspace b rp lvl c rest Hok)).
      apply H; lia.
    Qed.
  End Level.

  (* ================= the three levels ================= *)
  Definition U (rp : bool) (c : cst) : Prop :=
    forall prev rest, pre prev c -> fol rp c rest ->
    EV (fun n => unary V compile n prev (print c ++ rest)) (Ok (erase c, last_of prev (print c), rest)).

  Definition tail1 (rest : str) : Prop := drop_ws rest = [] \/ find_kw [KAnd] (drop_ws rest) = None.
  Definition tail0 (rest : str) : Prop := drop_ws rest = [] \/ find_kw [KOr] (drop_ws rest) = None.

  Definition chain1 := chain_spec KAnd (unary V compile) (fun _ => True).
  Definition chain0 := chain_spec KOr (and_level V compile) tail1.
  Definition item1 := item_spec (unary V compile) (fun _ => True).
  Definition item0 := item_spec (and_level V compile) tail1.

  Lemma item1_of_U rp c : U rp c -> item1 rp c.
  Proof.
    intros HU prev rest Hpre Hfol _. exists (last_of prev (print c)), rest. split; [now apply HU|reflexivity].
  Qed.

  Lemma cmp1 rp c lvl : chain1 rp c -> okx b rp lvl c ->
    forall prev w0 rest, is_ws w0 -> pre (last_of prev w0) c -> fol rp c rest -> tail1 rest ->
    EV (fun n => and_level V compile n prev (w0 ++ print c ++ rest))
       (Ok (erase c, last_of (last_of (last_of prev w0) (print c)) (ws_prefix rest), drop_ws rest)).
  Proof.
    intros Hc Hok prev w0 rest Hw Hpre Hfol Ht.
    apply (compound_of_chain KAnd (unary V compile) (fun _ => True) rp c lvl Hc Hok prev w0 rest Hw Hpre Hfol I Ht).
  Qed.

  Lemma item0_of_chain1 rp c lvl : chain1 rp c -> okx b rp lvl c -> item0 rp c.
  Proof.
    intros Hc Hok prev rest Hpre Hfol Ht.
    exists (last_of (last_of prev (print c)) (ws_prefix rest)), (drop_ws rest). split.
    - apply (cmp1 rp c lvl Hc Hok prev [] rest); auto. reflexivity.
    - rewrite (skip_ws_eq rest). apply skip_ws_nonspace. apply drop_ws_nonspace.
  Qed.

  Lemma tail1_or w t : is_ws w -> tail1 (w ++ kw_str KOr ++ t).
  Proof. intros Hw. right. rewrite drop_ws_app; [reflexivity|exact Hw|reflexivity]. Qed.

  Lemma cmp0 rp c : chain0 rp c -> okx b rp 0 c ->
    forall prev w0 rest, is_ws w0 -> pre (last_of prev w0) c -> fol rp c rest -> tail1 rest -> tail0 rest ->
    EV (fun n => or_level V compile n prev (w0 ++ print c ++ rest))
       (Ok (erase c, last_of (last_of (last_of prev w0) (print c)) (ws_prefix rest), drop_ws rest)).
  Proof.
    intros Hc Hok prev w0 rest Hw Hpre Hfol Ht1 Ht0.
    apply (compound_of_chain KOr (and_level V compile) tail1 rp c 0 Hc Hok prev w0 rest Hw Hpre Hfol Ht1 Ht0).
  Qed.

  (* ---------- unary forms ---------- *)
  Lemma U_atom rp a st : atom_okx (b && rp) a st -> compile a = COk -> U rp (CAtom a st).
  Proof.
    intros Hok Hc prev rest _ [Hfol Hrp]. cbn [print erase]. exists 1%nat. intros n Hn.
    destruct n as [|n]; [lia|]. rewrite unary_S.
    assert (Hs : st_pat st = Unq -> stop_res rest).
    { intros Hp. apply stop_stop_res. apply Hfol. cbn [needs_stop]. now rewrite Hp. }
    assert (Hal : (b && rp)%bool = true -> bare_keyword_atom V = true).
    { intros H. apply andb_prop in H as [H _]. exact H. }
    assert (Hal2 : (b && rp)%bool = true -> exists r', rest = RP :: r').
    { intros H. apply andb_prop in H as [_ H]. now apply Hrp. }
    destruct (atom_head _ a st Hok) as (ch & t & E & _ & Hlp).
    destruct (simple_print V compile _ a st rest Hok Hal Hc Hs) as (l & Hsim & Hlast).
    pose proof (find_kw_print_atom all_kws _ a st rest Hok Hs Hal2) as Hf.
    remember (print_atom a st ++ rest) as s eqn:Es.
    assert (Es' : s = ch :: (t ++ rest)) by (rewrite Es, E; reflexivity).
    destruct s as [|c0 s']; [discriminate|]. injection Es' as -> ->.
    rewrite Hlp. unfold peek_kw. rewrite Hf, Hsim. cbn [bind]. now rewrite Hlast.
  Qed.

  Lemma U_not rp w c : U rp c -> is_ws w -> (w <> [] \/ starts_paren c = true) -> forall lvl, okx b rp lvl c -> U rp (CNot w c).
  Proof.
    intros HU Hw Hg lvl Hok prev rest Hpre Hfol.
    set (pvn := last_of (last_of prev (kw_str KNot)) w).
    assert (Hpre' : pre pvn c).
    { intros Hn. unfold pvn. destruct Hg as [Hne|Hs]; [now apply prev_ok_ws_nonempty|].
      apply starts_paren_head_not in Hs. congruence. }
    destruct (HU pvn rest Hpre' Hfol) as (n0 & H0).
    exists (Datatypes.S n0). intros n Hn. destruct n as [|n]; [lia|]. rewrite unary_S.
    cbn [print erase]. change (kw_str KNot) with [110; 111; 116]%N. cbn [app].
    change (110 =? LP)%N with false. cbv iota.
    assert (Hb : boundary_after (w ++ print c ++ rest) = true).
    { destruct w as [|c0 w0].
      - destruct Hg as [Hne|Hs]; [congruence|]. destruct (starts_paren_head c Hs) as (t & ->). reflexivity.
      - unfold is_ws in Hw. cbn [forallb] in Hw. apply andb_prop in Hw as [Hc _].
        cbn [app boundary_after]. now rewrite Hc, orb_true_r. }
    assert (Hpk : peek_kw all_kws prev (110 :: 111 :: 116 :: w ++ print c ++ rest)%N = PSome KNot (w ++ print c ++ rest)).
    { unfold peek_kw, all_kws. cbn [find_kw].
      change (starts (kw_str KAnd) (110 :: 111 :: 116 :: w ++ print c ++ rest)%N) with (@None str).
      change (starts (kw_str KNot) (110 :: 111 :: 116 :: w ++ print c ++ rest)%N) with (Some (w ++ print c ++ rest)).
      cbv iota beta. rewrite Hb. rewrite (Hpre eq_refl). reflexivity. }
    rewrite <- !app_assoc. rewrite Hpk.
    rewrite (skip_ws_app w (print c ++ rest) _ Hw (print_nonspace b rp lvl c rest Hok)).
    fold pvn. rewrite H0 by lia. cbn [bind]. f_equal. f_equal. f_equal.
    unfold pvn. change (110 :: 111 :: 116 :: w ++ print c)%N with (kw_str KNot ++ w ++ print c). now rewrite !last_of_app.
  Qed.

  Lemma U_paren rp w1 c w2 : chain0 (is_nil w2) c -> okx b (is_nil w2) 0 c -> is_ws w1 -> is_ws w2 -> U rp (CParen w1 c w2).
  Proof.
    intros Hc Hok Hw1 Hw2 prev rest _ _.
    assert (Hrp : nonspace_head (RP :: rest)) by reflexivity.
    assert (Hpre : pre (last_of (Some LP) w1) c).
    { intros _. now apply prev_ok_ws. }
    assert (Hfol : fol (is_nil w2) c (w2 ++ RP :: rest)).
    { split; [intros _; apply stop_ws_app; [exact Hw2|]; now right|].
      destruct w2; [intros _; eexists; reflexivity|discriminate]. }
    assert (Ht1 : tail1 (w2 ++ RP :: rest)).
    { right. rewrite drop_ws_app by assumption. now apply find_kw_other_head. }
    assert (Ht0 : tail0 (w2 ++ RP :: rest)).
    { right. rewrite drop_ws_app by assumption. now apply find_kw_other_head. }
    destruct (cmp0 _ c Hc Hok (Some LP) w1 (w2 ++ RP :: rest) Hw1 Hpre Hfol Ht1 Ht0) as (n0 & H0).
    exists (Datatypes.S n0). intros n Hn. destruct n as [|n]; [lia|]. rewrite unary_S.
    cbn [print erase app]. change (LP =? LP)%N with true. cbv iota.
    replace ((w1 ++ print c ++ w2 ++ [RP]) ++ rest) with (w1 ++ print c ++ w2 ++ RP :: rest)
      by (now rewrite <- !app_assoc).
    rewrite H0 by lia. cbn [bind]. rewrite drop_ws_app by assumption.
    change (RP =? RP)%N with true. cbv iota. f_equal. f_equal. f_equal.
    symmetry. apply (ends_paren_last (CParen w1 c w2)). reflexivity.
  Qed.

  (* ---------- all levels, by induction on the tree ---------- *)
  Lemma up rp c : okx b rp 2 c -> U rp c -> chain1 rp c /\ chain0 rp c.
  Proof.
    intros Hok HU.
    assert (H1 : chain1 rp c) by (apply chain_of_item; now apply item1_of_U).
    split; [exact H1|]. apply chain_of_item. now apply (item0_of_chain1 rp c 2).
  Qed.

  Lemma compiled_bin k l w1 w2 r : compiled (CBin k l w1 w2 r) -> compiled l /\ compiled r.
  Proof. intros H. split; intros a Ha; apply H; cbn [catoms]; apply in_or_app; auto. Qed.

  Theorem all_levels c : compiled c -> forall rp,
    (okx b rp 2 c -> U rp c) /\ (okx b rp 1 c -> chain1 rp c) /\ (okx b rp 0 c -> chain0 rp c).
  Proof.
    induction c as [a st|w c IH|k l IHl w1 w2 r IHr|w1 c IH w2]; intros Hcomp rp.
    - assert (HU : okx b rp 2 (CAtom a st) -> U rp (CAtom a st)).
      { cbn [okx]. intros Hok. apply U_atom; [exact Hok|]. apply Hcomp. now left. }
      split; [exact HU|]. split; intros Hok; apply (up rp (CAtom a st) Hok (HU Hok)).
    - destruct (IH Hcomp rp) as (IHU & _).
      assert (HU : okx b rp 2 (CNot w c) -> U rp (CNot w c)).
      { cbn [okx]. intros (Hw & Hok & Hg). apply (U_not rp w c (IHU Hok) Hw Hg 2 Hok). }
      split; [exact HU|]. split; intros Hok; apply (up rp (CNot w c) Hok (HU Hok)).
    - destruct (compiled_bin _ _ _ _ _ Hcomp) as [Hcl Hcr].
      destruct (IHl Hcl false) as (_ & IHl1 & IHl0). destruct (IHr Hcr rp) as (IHrU & IHr1 & _).
      destruct k.
      + (* and *)
        assert (H1 : okx b rp 1 (CBin KAnd l w1 w2 r) -> chain1 rp (CBin KAnd l w1 w2 r)).
        { cbn [okx lev]. intros (_ & _ & Hw1 & Hw2 & Hl & Hr & Hg1 & Hg2).
          exact (chain_bin KAnd (unary V compile) (fun _ => True) (fun _ _ _ => I) rp l w1 w2 r 2
                   (IHl1 Hl) (item1_of_U rp r (IHrU Hr)) Hr Hw1 Hw2 Hg1 Hg2). }
        split; [cbn [okx lev]; intros (_ & Hle & _); lia|]. split; [exact H1|].
        intros Hok. assert (Hok1 : okx b rp 1 (CBin KAnd l w1 w2 r)).
        { cbn [okx lev] in *. destruct Hok as (Hk & _ & Hrest). split; [exact Hk|]. split; [lia|exact Hrest]. }
        apply chain_of_item. apply (item0_of_chain1 rp _ 1 (H1 Hok1) Hok1).
      + (* not: excluded *)
        split; [|split]; cbn [okx]; intros (Hk & _); congruence.
      + (* or *)
        split; [cbn [okx lev]; intros (_ & Hle & _); lia|]. split; [cbn [okx lev]; intros (_ & Hle & _); lia|].
        cbn [okx lev]. intros (_ & _ & Hw1 & Hw2 & Hl & Hr & Hg1 & Hg2).
        exact (chain_bin KOr (and_level V compile) tail1 tail1_or rp l w1 w2 r 1
                 (IHl0 Hl) (item0_of_chain1 rp r 1 (IHr1 Hr) Hr) Hr Hw1 Hw2 Hg1 Hg2).
    - destruct (IH Hcomp (is_nil w2)) as (_ & _ & IH0).
      assert (HU : okx b rp 2 (CParen w1 c w2) -> U rp (CParen w1 c w2)).
      { cbn [okx]. intros (Hw1 & Hw2 & Hok). apply U_paren; auto. }
      split; [exact HU|]. split; intros Hok; apply (up rp (CParen w1 c w2) Hok (HU Hok)).
  Qed.

  (* ---------- the theorem ---------- *)
  Theorem parse_print_x c w0 w3 : okx b false 0 c -> compiled c -> is_ws w0 -> is_ws w3 ->
    parse V compile (w0 ++ print c ++ w3) = Ok (erase c).
  Proof.
    intros Hok Hcomp Hw0 Hw3.
    destruct (all_levels c Hcomp false) as (_ & _ & H0).
    assert (Hd : drop_ws w3 = []).
    { rewrite <- (app_nil_r w3). apply drop_ws_app; [exact Hw3|exact I]. }
    assert (Hpre : pre (last_of None w0) c) by (intros _; now apply prev_ok_ws).
    assert (Hfol : fol false c w3).
    { split; [|discriminate]. intros _. destruct w3 as [|c0 w]; [exact I|]. unfold is_ws in Hw3. cbn [forallb] in Hw3.
      apply andb_prop in Hw3 as [Hc _]. now left. }
    destruct (cmp0 false c (H0 Hok) Hok None w0 w3 Hw0 Hpre Hfol (or_introl Hd) (or_introl Hd)) as (n0 & Hn0).
    rewrite Hd in Hn0.
    set (s := w0 ++ print c ++ w3) in *.
    unfold parse.
    assert (Hno : or_level V compile (fuel_for s) None s <> Er OutOfFuel).
    { intros H. apply (parse_noof V compile s). unfold parse. now rewrite H. }
    pose proof (or_level_mono V compile (fuel_for s) (Nat.max n0 (fuel_for s)) (Nat.le_max_r _ _) None s Hno) as Hm.
    rewrite Hn0 in Hm by lia. rewrite <- Hm. reflexivity.
  Qed.
End PP.

(* ---------- the documented grammar is legal for both parser variants ---------- *)
Lemma atom_okx_false al a st : atom_okx false a st -> atom_okx al a st.
Proof.
  unfold atom_okx. intros [Hv Hk]. split; [exact Hv|]. destruct (st_short st); [|exact Hk].
  destruct Hk as (H1 & H2 & H3 & H4). repeat split; auto.
Qed.

Lemma okx_of_ok t : forall b rp rp' lvl, okx false rp' lvl t -> okx b rp lvl t.
Proof.
  induction t as [a st|w c IH|k l IHl w1 w2 r IHr|w1 c IH w2]; intros b rp rp' lvl; cbn [okx].
  - apply atom_okx_false.
  - intros (H1 & H2 & H3). split; [exact H1|]. split; [now apply (IH b rp rp')|exact H3].
  - intros (H1 & H2 & H3 & H4 & H5 & H6 & H7).
    split; [exact H1|]. split; [exact H2|]. split; [exact H3|]. split; [exact H4|].
    split; [now apply (IHl b false false)|]. split; [now apply (IHr b rp rp')|exact H7].
  - intros (H1 & H2 & H3). split; [exact H1|]. split; [exact H2|]. now apply (IH b (is_nil w2) (is_nil w2)).
Qed.

Theorem parse_print V compile c w0 w3 : ok 0 c -> compiled compile c -> is_ws w0 -> is_ws w3 ->
  parse V compile (w0 ++ print c ++ w3) = Ok (erase c).
Proof. intros Hok. apply parse_print_x. now apply (okx_of_ok c _ false false). Qed.
