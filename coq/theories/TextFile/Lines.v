(* Line splitting of the text-file source: open(newline="") iteration + the strip loop. *)
From Coq Require Import String.
From Coq Require Import List NArith ZArith Bool Arith Lia.
From VF Require Import TextFile.Model.
Import ListNotations.
Open Scope N_scope.

Definition is_eol (ch : N) : bool := (ch =? 10) || (ch =? 13).
Definition noeol (l : str) : Prop := forallb (fun ch => negb (is_eol ch)) l = true.
Definition term (t : str) : Prop := t = [] \/ t = [10] \/ t = [13] \/ t = [13; 10].
(* a raw line is a body without CR/LF followed by one terminator (or none at end of file) *)
Definition okline (l : str) : Prop := exists b t, l = b ++ t /\ noeol b /\ term t.

Lemma rv_rev l : rv l = rev l.
Proof. unfold rv. rewrite rev_append_rev. apply app_nil_r. Qed.

Lemma noeol_app a b : noeol a -> noeol b -> noeol (a ++ b).
Proof. unfold noeol. intros. rewrite forallb_app. now apply andb_true_iff. Qed.

Lemma raw_lines_concat_n : forall n s cur, (length s <= n)%nat -> concat (raw_lines s cur) = rev cur ++ s.
Proof.
  induction n as [|n IH]; intros s cur Hn.
  - destruct s; [|cbn in Hn; lia]. cbn [raw_lines]. destruct cur; [reflexivity|].
    cbn [concat]. now rewrite rv_rev, !app_nil_r.
  - destruct s as [|ch r]; cbn [raw_lines].
    + destruct cur; [reflexivity|]. cbn [concat]. now rewrite rv_rev, !app_nil_r.
    + cbn [length] in Hn. destruct (ch =? 10) eqn:E10.
      * cbn [concat]. rewrite rv_rev, IH by lia. cbn [rev app]. now rewrite <- app_assoc.
      * destruct (ch =? 13) eqn:E13.
        -- destruct r as [|d r'].
           ++ cbn [concat raw_lines]. rewrite rv_rev. cbn [rev app]. now rewrite app_nil_r.
           ++ cbn [length] in Hn. destruct (d =? 10).
              ** cbn [concat]. rewrite rv_rev, IH by lia. cbn [rev app]. now rewrite <- !app_assoc.
              ** cbn [concat]. rewrite rv_rev, IH by (cbn [length]; lia). cbn [rev app]. now rewrite <- app_assoc.
        -- rewrite IH by lia. cbn [rev]. now rewrite <- app_assoc.
Qed.

(* nothing is lost or reordered: the raw lines concatenate to the content *)
Theorem raw_lines_concat s : concat (raw_lines s []) = s.
Proof. apply (raw_lines_concat_n (length s)). lia. Qed.

Lemma raw_lines_ok_n : forall n s cur, (length s <= n)%nat -> noeol (rev cur) -> Forall okline (raw_lines s cur).
Proof.
  assert (E : forall cur t, noeol (rev cur) -> term t -> okline (rev cur ++ t)).
  { intros cur t H Ht. exists (rev cur), t. auto. }
  induction n as [|n IH]; intros s cur Hn Hc.
  - destruct s; [|cbn in Hn; lia]. cbn [raw_lines]. destruct cur; constructor; [|constructor].
    rewrite rv_rev. rewrite <- (app_nil_r (rev _)). apply E; [exact Hc|left; reflexivity].
  - destruct s as [|ch r]; cbn [raw_lines].
    + destruct cur; constructor; [|constructor].
      rewrite rv_rev. rewrite <- (app_nil_r (rev _)). apply E; [exact Hc|left; reflexivity].
    + cbn [length] in Hn. destruct (ch =? 10) eqn:E10.
      * apply N.eqb_eq in E10. subst ch. constructor.
        -- rewrite rv_rev. cbn [rev]. apply E; [exact Hc|right; left; reflexivity].
        -- apply IH; [lia|reflexivity].
      * destruct (ch =? 13) eqn:E13.
        -- apply N.eqb_eq in E13. subst ch. destruct r as [|d r'].
           ++ constructor; [|cbn [raw_lines]; constructor].
              rewrite rv_rev. cbn [rev]. apply E; [exact Hc|right; right; left; reflexivity].
           ++ cbn [length] in Hn. destruct (d =? 10) eqn:D10.
              ** apply N.eqb_eq in D10. subst d. constructor.
                 --- rewrite rv_rev. cbn [rev]. rewrite <- app_assoc. cbn [app].
                     apply E; [exact Hc|right; right; right; reflexivity].
                 --- apply IH; [lia|reflexivity].
              ** constructor.
                 --- rewrite rv_rev. cbn [rev]. apply E; [exact Hc|right; right; left; reflexivity].
                 --- apply IH; [cbn [length]; lia|reflexivity].
        -- apply IH; [lia|]. cbn [rev]. apply noeol_app; [exact Hc|].
           unfold noeol. cbn [forallb]. unfold is_eol. now rewrite E10, E13.
Qed.

Theorem raw_lines_ok s : Forall okline (raw_lines s []).
Proof. apply (raw_lines_ok_n (length s)); [lia|reflexivity]. Qed.

Lemma drop_eol_noeol_rev b : noeol b -> drop_eol_rev (rev b) = rev b.
Proof.
  intros H. destruct (rev b) as [|x l] eqn:Hr; [reflexivity|].
  cbn [drop_eol_rev]. assert (Hx : In x b) by (apply in_rev; rewrite Hr; now left).
  unfold noeol in H. rewrite forallb_forall in H. specialize (H x Hx).
  apply negb_true_iff in H. unfold is_eol in H. now rewrite H.
Qed.

(* the strip loop removes exactly the terminator *)
Theorem strip_eol_body b t : noeol b -> term t -> strip_eol (b ++ t) = b.
Proof.
  intros Hb Ht. unfold strip_eol. rewrite !rv_rev, rev_app_distr.
  assert (H : drop_eol_rev (rev t ++ rev b) = rev b).
  { destruct Ht as [-> | [-> | [-> | ->]]]; cbn [rev app drop_eol_rev N.eqb Pos.eqb orb];
      apply drop_eol_noeol_rev; exact Hb. }
  rewrite H. apply rev_involutive.
Qed.

(* no parsed line contains CR or LF *)
Theorem file_lines_noeol s : Forall noeol (file_lines s).
Proof.
  unfold file_lines. apply Forall_map. eapply Forall_impl; [|apply raw_lines_ok].
  intros l (b & t & -> & Hb & Ht). now rewrite strip_eol_body.
Qed.
