"""C11 - YAML target source compiles the documented targeting / include / merge semantics."""
import copy
import shutil

import common
from common import Check, sx, unsx, hist
import pyval
from pyval import enc, norm, norm_res, exc_code
import yamlfs
from yamlfs import DIR

import vinegar.data_source
from vinegar.data_source.yaml_target import YamlTargetSource

CURRENT_VARIANTS = [1, 0, 0, 0]      # tag_after, rerender, empty_raises, marker_compared  (what /repo does now)


def run_real(c):
    import logging
    import os
    base_dir = yamlfs.new_root()
    root = base_dir
    lg = logging.getLogger("vinegar")
    old_level = lg.level
    if c.get("loglevel"):
        lg.setLevel(getattr(logging, c["loglevel"]))
    try:
        if c.get("rootname"):
            # unusual characters in root_dir; "@link": root_dir is a symbolic link to the real directory
            real = os.path.join(base_dir, c["rootname"].replace("@link", "target"))
            os.makedirs(real)
            root = real
            if "@link" in c["rootname"]:
                root = os.path.join(base_dir, "cur rent")
                os.symlink(os.path.basename(real) if "/" not in c["rootname"] else real, root)
        yamlfs.materialise(c["tree"], root)
        if c.get("sibling_text") is not None:
            # a file called like the root directory, next to it (above the tree root: no name may reach it)
            with open(root.rstrip("/") + ".yaml", "w", encoding="utf-8") as f:
                f.write(c["sibling_text"])
        if c.get("faults"):
            with yamlfs.Faults(root, c["faults"]):
                return _get_once(c, root)
        return _get_once(c, root)
    finally:
        lg.setLevel(old_level)
        shutil.rmtree(base_dir, ignore_errors=True)


def _get_once(c, root):
    cfg = {"root_dir": root, "template": "jinja" if c["engine"] else None, "merge_lists": c["ml"], "merge_sets": c["ms"],
           "allow_empty_top": c["allow_empty"], "cache_size": c.get("cache_size", 64)}
    cfg.update(c.get("raw_config") or {})
    # the source is created the way the server wires data sources: through the factory (get_data_source -> get_instance);
    # every third case constructs the class directly
    if c.get("factory", True):
        src = vinegar.data_source.get_data_source("yaml_target", cfg)
    else:
        src = YamlTargetSource(cfg)
    pd = copy.deepcopy(c["pd"])
    try:
        d, v = src.get_data(c["sys"], pd, c["pv"])
        r = ("ok", d)
    except Exception as e:     # noqa: BLE001
        r = ("exc", exc_code(e))
    return r


def T(**files):
    return {k.replace("__", "/") + ".yaml": v for k, v in files.items()}


def directed():
    """hand-written trees for every mechanism of the anchored code"""
    out = []
    X = "k: 1\ninclude:\n  - .n\nm: 1\n"
    Y = "m: 2\ninclude:\n  - .n\nk: 2\n"
    Z = "{}\n"
    out.append({"top.yaml": "'*':\n  - a.X\n  - b.Y\n  - a.X\n", "a/X.yaml": X, "a/n.yaml": Z, "b/Y.yaml": Y, "b/n.yaml": Z})
    out.append({"top.yaml": "'*':\n  - a.X\n", "a/n/init.yaml": X, "a/n/n/init.yaml": Y, "a/n/n/n.yaml": Z, "a/X.yaml": X})
    # the finding: files without any data
    out.append({"top.yaml": "'*': [a]\n", "a.yaml": "{}\n"})
    out.append({"top.yaml": "'*': [a]\n", "a.yaml": "include: [b]\n", "b.yaml": "{}\n"})
    # diamond, order, override
    out.append({"top.yaml": "'*': [a, b]\n", "a.yaml": "k: 1\ninclude: [c]\nm: 1\n", "b.yaml": "include: [c]\nk: 3\n",
                "c.yaml": "k: 2\nm: 2\nl: [1]\n"})
    # cycles
    out.append({"top.yaml": "'*': [a]\n", "a.yaml": "include: [b]\n", "b.yaml": "k: 1\ninclude: [a]\n"})
    out.append({"top.yaml": "'*': [a]\n", "a.yaml": "k: 1\ninclude: [a]\n"})
    out.append({"top.yaml": "'*': [d]\n", "d/init.yaml": "k: 1\ninclude: [.init]\n"})
    out.append({"top.yaml": "'*': [d]\n", "d/init.yaml": "k: 1\ninclude: [..d]\n"})
    out.append({"top.yaml": "'*': [d.init]\n", "d/init.yaml": "k: 1\ninclude: [..d]\n"})
    # resolution order: missing file reported before the cycle in an earlier entry
    out.append({"top.yaml": "'*': [a, zz]\n", "a.yaml": "include: [a]\n"})
    out.append({"top.yaml": "'*': [a]\n", "a.yaml": "include: [a, zz]\n"})
    # name.yaml preferred over name/init.yaml; init fallback; relative includes from both
    out.append({"top.yaml": "'*': [d]\n", "d.yaml": "k: file\ninclude: [.x]\n", "d/init.yaml": "k: init\n", "x.yaml": "m: root\n",
                "d/x.yaml": "m: sub\n"})
    out.append({"top.yaml": "'*': [d]\n", "d/init.yaml": "k: init\ninclude: [.x, ..x]\n", "x.yaml": "m: root\nr: 1\n",
                "d/x.yaml": "m: sub\ns: 1\n"})
    out.append({"top.yaml": "'*': [d.sub.z]\n", "d/sub/z.yaml": "include: [...a, ..x, .w]\n", "a.yaml": "a: 1\n", "d/x.yaml": "x: 1\n",
                "d/sub/w.yaml": "w: 1\n"})
    out.append({"top.yaml": "'*': [a]\n", "a.yaml": "include: [..b]\n", "b.yaml": "k: 1\n"})
    out.append({"top.yaml": "'*': [a]\n", "a.yaml": "include: ['.']\n"})
    out.append({"top.yaml": "'*': [d.x]\n", "d/x.yaml": "include: ['..']\n"})
    out.append({"top.yaml": "'*': [a]\n", "a.yaml": "include: ['']\n"})
    out.append({"top.yaml": "'*': [a]\n", "a.yaml": "include: ab\n", "b.yaml": "k: 1\n"})
    out.append({"top.yaml": "'*': [a]\n", "a.yaml": "include: {b: 1}\nk: 0\n", "b.yaml": "k: 1\n"})
    out.append({"top.yaml": "'*': [a]\n", "a.yaml": "include: 5\nk: 0\n"})
    out.append({"top.yaml": "'*': [a]\n", "a.yaml": "include: [5]\nk: 0\n"})
    out.append({"top.yaml": "'*': [a]\n", "a.yaml": "include: 0\nk: 0\n"})
    # top-level shapes
    out.append({"top.yaml": "", "a.yaml": "k: 1\n"})
    out.append({"top.yaml": "'*': a\n", "a.yaml": "k: 1\n"})
    out.append({"top.yaml": "'*': ['']\n"})
    out.append({"top.yaml": "s2: [zz]\n'*': [a]\n5: [a]\n", "a.yaml": "k: 1\n"})
    out.append({"top.yaml": "s2: [zz]\n'(': [a]\n", "a.yaml": "k: 1\n"})
    out.append({"top.yaml": "'*': []\n"})
    out.append({"a.yaml": "k: 1\n"})
    out.append({"top.yaml": DIR})
    out.append({"top.yaml": "'*': [e]\n", "e/init.yaml": DIR})
    out.append({"top.yaml": "'*': [a]\n", "a.yaml": DIR, "a/init.yaml": "k: 1\n"})
    # merge flags
    out.append({"top.yaml": "'*': [a, b]\n", "a.yaml": "l: [1, 2]\ns: !!set {1: null}\nd: {p: 1}\n",
                "b.yaml": "l: [2, 3]\ns: !!set {2: null}\nd: {q: 1}\n"})
    out.append({"top.yaml": "'*': [a, b]\n", "a.yaml": "d: {p: 1}\n", "b.yaml": "d: 5\n"})
    return out


def revisit_family():
    """a NON-LEAF file (include block at start / middle / end, absolute or relative include, plain file or
    init.yaml) reached twice for one system with a conflicting piece in between: repetition in top.yaml,
    several matching targets, diamond includes, repetition inside an include list.  The included leaf
    must override the in-between piece again at the second occurrence."""
    leaf = "v: leaf\nn: {a: leaf, b: leaf}\n"
    mid = "v: mid\nn: {a: mid}\n"
    layouts = {
        "start": "include: [%s]\nw: 1\n",
        "middle": "u: 1\ninclude: [%s]\nw: 1\n",
        "end": "u: 1\ninclude: [%s]\n",
    }
    out = []
    for lname, lay in layouts.items():
        # (shared-file path, name to reference it, include expression for the leaf, leaf path)
        for spath, sname, inc, lpath in (("s.yaml", "s", "l", "l.yaml"),
                                         ("d/s.yaml", "d.s", ".l", "d/l.yaml"),
                                         ("d/init.yaml", "d", ".l", "d/l.yaml")):
            shared = {spath: lay % inc, lpath: leaf, "m.yaml": mid}
            out.append(dict(shared, **{"top.yaml": "'*': [%s, m, %s]\n" % (sname, sname)}))
            out.append(dict(shared, **{"top.yaml": "'*': [%s, m]\n's*': [%s]\n" % (sname, sname)}))
            out.append(dict(shared, **{"top.yaml": "'*': [x, y]\n", "x.yaml": "include: [%s]\n" % sname,
                                       "y.yaml": "v: mid\nn: {a: mid}\ninclude: [%s]\nt: 2\n" % sname}))
            out.append(dict(shared, **{"top.yaml": "'*': [x, m, y]\n", "x.yaml": "include: [%s]\n" % sname,
                                       "y.yaml": "include: [%s]\nt: 2\n" % sname}))
            out.append(dict(shared, **{"top.yaml": "'*': [x]\n", "x.yaml": "q: 0\ninclude: [%s, m, %s]\n" % (sname, sname)}))
    return out


FALSY_DOCS = ["[]\n", "false\n", "0\n", "''\n", "{}\n", "~\n", "# only a comment\n", "", "\n\n", "0.0\n", "no\n", "[0]\n", "x\n"]


def falsy_family():
    """limits (include chains of depth 16/17/40/100, include and top lists of 17/40/100 files, directory depth 20, name "
            "segments of 240 characters, keys and values of 4096 characters, 300 keys, unusual characters), special values "
            "at nesting depth 2-4 of an overriding piece, truthy/falsy non-bool configuration values; fault injection (os.stat or open of one file fails with EIO/EACCES/ESTALE during the call: every file of three "
            "trees, incl. one where both name.yaml and name/init.yaml exist); falsy / empty / non-mapping documents as top.yaml and as data files (also as an included file)"""
    out = []
    for doc in FALSY_DOCS:
        out.append({"top.yaml": doc, "a.yaml": "k: 1\n"})
        out.append({"top.yaml": "'*': [a]\n", "a.yaml": doc})
        out.append({"top.yaml": "'*': [a, b]\n", "a.yaml": "k: 1\ninclude: [c]\n", "b.yaml": "m: 1\n", "c.yaml": doc})
    return out


def nested_value_family():
    """two applicable pieces share a mapping-valued key; the later one sets a NESTED key (depth 2..4) to each special
    value (null, empty, falsy, ...) - through the top list, through an include before / after the data, and across
    the before/after pieces of one file"""
    out = []
    specials = ["~", "''", "0", "false", "{}", "[]", "' '", "\"\\t\"", "!!set {}", "x"]
    for depth in (2, 3, 4):
        def nest(leaf):
            t = "k: %s" % leaf
            for i in range(depth - 1):
                t = "n%d: {%s}" % (depth - 2 - i, t)
            return t + "\n"
        early = nest("1")
        for sp in specials:
            late = nest(sp)
            out.append({"top.yaml": "'*': [a, b]\n", "a.yaml": early, "b.yaml": late})
            out.append({"top.yaml": "'*': [a]\n", "a.yaml": "include: [b]\n" + late, "b.yaml": early})
            out.append({"top.yaml": "'*': [a]\n", "a.yaml": early + "include: [b]\n", "b.yaml": late})
            out.append({"top.yaml": "'*': [a]\ns1: [b]\n", "a.yaml": early + "include: [c]\nz: 1\n", "b.yaml": late, "c.yaml": "q: 1\n"})
    return out


def limit_family():
    """legal inputs at and beyond every limit a hardening could pick: include chains of depth 16 / 17 / 40 / 100 with data
    at every level, wide include lists and wide top lists (17 / 40 / 100 files), long names, long keys and values,
    many keys, unusual characters in names, keys and values"""
    # D25: a data file may be called like the marker that starts the list of parent files
    out = [{"top.yaml": "'*': ['top file']\n", "top file.yaml": "t: 1\n"}]
    for depth in (16, 17, 40, 100):
        tree = {"top.yaml": "'*': [l1]\n"}
        for i in range(1, depth + 1):
            inc = "include: [l%d]\n" % (i + 1) if i < depth else ""
            tree["l%d.yaml" % i] = "d%d: %d\nshared: {at: %d, k%d: 1}\n%sa%d: %d\n" % (i, i, i, i, inc, i, i)
        out.append(tree)
        # the same chain inside nested directories with relative includes
        tree = {"top.yaml": "'*': [p.l1]\n"}
        for i in range(1, depth + 1):
            inc = "include: [.l%d]\n" % (i + 1) if i < depth else ""
            tree["p/l%d.yaml" % i] = "d%d: %d\n%s" % (i, i, inc)
        out.append(tree)
    for width in (17, 40, 100):
        names = ["w%d" % i for i in range(width)]
        files = {"%s.yaml" % n: "v: %d\nm: {%s: 1}\n" % (i, n) for i, n in enumerate(names)}
        out.append(dict(files, **{"top.yaml": "'*': [%s]\n" % ", ".join(names)}))
        out.append(dict(files, **{"top.yaml": "'*': [a]\n", "a.yaml": "x: 1\ninclude: [%s]\ny: 1\n" % ", ".join(names)}))
        out.append(dict(files, **{"top.yaml": "".join("'%s or s1': [%s]\n" % (n, n) for n in names)}))
    # directory depth
    deep = ".".join("d%d" % i for i in range(20))
    out.append({"top.yaml": "'*': [%s.f]\n" % deep, deep.replace(".", "/") + "/f.yaml": "k: 1\ninclude: [%s]\n" % ("." * 21 + "r"),
                "r.yaml": "root: 1\n"})
    # long names, keys, values; many keys
    long_seg = "n" * 240
    out.append({"top.yaml": "'*': [%s, %s.%s]\n" % (long_seg, long_seg, long_seg), long_seg + ".yaml": "k: 1\n",
                long_seg + "/" + long_seg + ".yaml": "m: 1\n"})
    out.append({"top.yaml": "'*': [a, b]\n", "a.yaml": "%s: %s\n" % ("k" * 4096, "v" * 4096), "b.yaml": "%s: {x: 1}\nshort: ''\n" % ("k" * 255)})
    out.append({"top.yaml": "'*': [a, b]\n", "a.yaml": "".join("k%d: %d\n" % (i, i) for i in range(300)),
                "b.yaml": "".join("k%d: {n: %d}\n" % (i, i) for i in range(299, 150, -1))})
    # unusual but legal characters in file names, keys and values (YAML escapes for the non-printable ones)
    out.append({"top.yaml": "'*': ['My File-1', 'd.Sub Dir.x_y', '\u00e9t\u00e9', '0', 'top file']\n", "My File-1.yaml": "a: 1\n",
                "d/Sub Dir/x_y.yaml": "b: 1\ninclude: ['.z z']\n", "d/Sub Dir/z z.yaml": "c: 1\n", "\u00e9t\u00e9.yaml": "e: 1\n",
                "0.yaml": "z: 0\n", "top file.yaml": "t: 1\n"})
    # ... and a real cycle through a file of that name is still a cycle
    out.append({"top.yaml": "'*': ['top file']\n", "top file.yaml": "t: 1\ninclude: ['top file']\n"})
    out.append({"top.yaml": "'*': [a]\n", "a.yaml": "include: ['top file']\n", "top file.yaml": "t: 1\ninclude: [a]\n"})
    out.append({"top.yaml": "'*': [a, 'top file']\n", "a.yaml": "k: 1\ninclude: ['top file']\n", "top file.yaml": "t: 1\n"})
    out.append({"top.yaml": "'*': [a, b]\n",
                "a.yaml": "\"ke y\": \"\\t tab \\x01 \\x7f \\xe9 \\n nl\"\n' ': ' '\n\"\\xa0\": 1\n'#': '#'\n'k:k': 'a: b'\n",
                "b.yaml": "' ': {' ': ' '}\n'ke y': ''\n\"\\xa0\": ~\n"})
    return out


def fault_family():
    """(tree, faults): one file of the tree whose os.stat or open fails during the call (EIO / EACCES / ESTALE).  The
    error is the result (OSError from the existence test, RuntimeError from reading a data file or the top file);
    in particular a name whose name.yaml cannot be examined is NOT silently served from name/init.yaml."""
    both = {"top.yaml": "'*': [a, b]\n", "a.yaml": "k: file\ninclude: [.c]\n", "a/init.yaml": "k: init\n", "b.yaml": "m: 1\n",
            "c.yaml": "w: 1\n", "a/c.yaml": "w: 2\n"}
    only_init = {k: v for k, v in both.items() if k != "a.yaml"}
    nested = {"top.yaml": "'*': [d.x]\ns1: [b]\n", "d/x.yaml": "u: 1\ninclude: [.y, ..b]\nw: 1\n", "d/y.yaml": "v: 1\n",
              "d/y/init.yaml": "v: init\n", "b.yaml": "m: 1\n"}
    out = []
    for err in ("EIO", "EACCES", "ESTALE"):
        for kind in ("stat", "read"):
            for tree in (both, only_init, nested):
                for rel in tree:
                    out.append((tree, {rel: (kind, err)}))
    # a file that is not referenced at all may fail as it likes
    out.append((dict(both, **{"zz.yaml": "q: 1\n"}), {"zz.yaml": ("stat", "EIO")}))
    out.append((both, {"a.yaml": ("stat", "EIO"), "b.yaml": ("read", "EIO")}))
    return out


def longlived_family():
    """histories for ONE long-lived source: (base tree, ops, merge_lists); every get is judged against the
    specification of the tree at that moment (the machinery of C12)"""
    out = []
    inc = "k: 1\ninclude: [.c]\nm: 1\n"
    both = {"top.yaml": "'*': [pkg]\n", "c.yaml": "w: root\n", "pkg/c.yaml": "w: sub\n"}
    # the including file moves between pkg/init.yaml and pkg.yaml at identical content
    out.append((dict(both, **{"pkg/init.yaml": inc}), [("get", "s1"), ("swap", "pkg"), ("get", "s1"), ("swap", "pkg"), ("get", "s1")], False))
    out.append((dict(both, **{"pkg.yaml": inc}), [("get", "s1"), ("swap", "pkg"), ("get", "s1"), ("get", "s2")], False))
    out.append((dict(both, **{"pkg/init.yaml": "include: [..c, .c]\n"}), [("get", "s1"), ("swap", "pkg"), ("get", "s1")], False))
    # list / set merging pairs: only the LATER file is edited between two gets
    pair = {"top.yaml": "'*': [a, b]\n", "a.yaml": "l: [1, 2]\nst: !!set {1: null}\nd: {q: [1]}\n", "b.yaml": "l: [2, 3]\nst: !!set {2: null}\nd: {q: [5]}\n"}
    for ml in (True, False):
        out.append((pair, [("get", "s1"), ("edit", "b.yaml", "l: [4]\nd: {q: [6]}\n"), ("get", "s1"),
                           ("edit", "b.yaml", "l: [7]\nst: !!set {3: null}\n"), ("get", "s1"), ("get", "s2")], ml))
        out.append((dict(pair, **{"a.yaml": "l: [1]\ninclude: [c]\n", "c.yaml": "l: [9]\n"}),
                    [("get", "s1"), ("edit", "b.yaml", "l: [4]\n"), ("get", "s1"), ("edit", "c.yaml", "l: [8]\n"), ("get", "s1")], ml))
    # a fault during one call, recovery afterwards (the failed call must leave nothing behind)
    fb = {"top.yaml": "'*': [a, b]\n", "a.yaml": "k: file\n", "a/init.yaml": "k: init\n", "b.yaml": "m: 1\n"}
    for kind, err in (("stat", "EIO"), ("read", "EACCES")):
        for rel in ("a.yaml", "top.yaml", "b.yaml"):
            out.append((fb, [("get", "s1"), ("fault", rel, kind, err), ("get", "s1"), ("unfault", rel), ("get", "s1"),
                             ("edit", "b.yaml", "m: 2\n"), ("get", "s1")], False))
    # plain edits, deletion, top change
    base = {"top.yaml": "'*': [a, d]\ns1: [d.x]\n", "a.yaml": "k: 1\ninclude: [d.x]\nm: 1\n",
            "d/init.yaml": "l: [1]\ninclude: [.x]\nk: 3\n", "d/x.yaml": "m: 2\nn: {p: 1}\n"}
    for ops in ([("get", "s1"), ("edit", "d/x.yaml", "m: 5\n"), ("get", "s1"), ("get", "s2")],
                [("get", "s1"), ("delete", "d/x.yaml"), ("get", "s1"), ("edit", "d/x.yaml", "m: 6\n"), ("get", "s1")],
                [("get", "s2"), ("edit", "top.yaml", "'*': [d, a]\n"), ("get", "s2"), ("swap", "a"), ("get", "s2")],
                [("get", "s1"), ("pre", 1), ("get", "s1"), ("edit", "a.yaml", "k: 4\n"), ("get", "s1")]):
        out.append((base, ops, False))
    return out


def run_longlived(c):
    """the last get of the history on a source that has lived through all of it"""
    import c12
    root = yamlfs.new_root()
    try:
        tree = dict(c["base"])
        yamlfs.materialise(tree, root)
        src = YamlTargetSource({"root_dir": root, "template": "jinja" if c["engine"] else None, "merge_lists": c["ml"],
                                "merge_sets": c["ms"], "allow_empty_top": c["allow_empty"], "cache_size": 64})
        pd, pv = yamlfs.PRECEDING[0]
        faults = {}
        r = None
        for op in c["ops"]:
            if op[0] == "get":
                with yamlfs.Faults(root, faults):
                    try:
                        d, _v = src.get_data(op[1], copy.deepcopy(pd), pv)
                        r = ("ok", d)
                    except Exception as e:     # noqa: BLE001
                        r = ("exc", exc_code(e))
            elif op[0] == "pre":
                pd, pv = yamlfs.PRECEDING[op[1]]
            elif op[0] == "fault":
                faults[op[1]] = (op[2], op[3])
                if op[2] == "read":
                    yamlfs.touch(root, op[1])
            elif op[0] == "unfault":
                if faults.pop(op[1], (None,))[0] == "read":
                    yamlfs.touch(root, op[1])
            else:
                new = c12.apply_op(tree, op)
                c12.sync_fs(root, tree, new)
                tree = new
        return r
    finally:
        shutil.rmtree(root, ignore_errors=True)


def longlived_cases(engine_values=(False, True)):
    import c12
    for base, ops, ml in longlived_family():
        for engine in engine_values:
            for i, op in enumerate(ops):
                if op[0] != "get" or i == 0:
                    continue
                prefix = ops[:i + 1]
                c = {"base": base, "ops": prefix, "engine": engine, "ml": ml, "ms": True, "allow_empty": False}
                tree, pd, pv, sysid, faults = c12.snapshots(c)[-1]
                yield dict(c, tree=tree, sys=sysid, pd=pd, pv=pv, faults=faults, longlived=True)


class C11(Check):
    ident = "C11"
    technique = ("Coq proofs about a Gallina model of _DataCompiler (top evaluation, name resolution, relative includes, "
                 "three-way split, depth-first expansion with cycle check) against a cache-free recursive specification, "
                 "+ differential correspondence with the real YamlTargetSource on generated directory trees")
    rule = ("case = (directory tree of <= 8 YAML/Jinja files incl. top.yaml, template engine on/off, merge flags, "
            "allow_empty_top, system id, preceding data); falsy / empty / non-mapping documents as top.yaml and as data files under both settings of allow_empty_top; a "
            "long-lived-source family (two or three get_data calls on ONE source with an edit / move in between, each judged "
            "against the specification of the tree at that moment); the revisit family (a non-leaf file reached twice with a conflicting "
            "piece in between: 3 include positions x 3 file kinds x 5 ways of reaching it twice); directed trees for every mechanism x all ids x preceding data x "
            "engine, then seeded random trees; non-trivial = get_data succeeded with >= 2 pieces or raised a "
            "non-top error; distinct by (tree, id, preceding data, flags)")
    assumptions = [
        "Jinja, PyYAML and the target matcher are oracle tables filled by calling the libraries directly on every file of the tree",
        "file names in top/include lists have no empty segment and no '/' (otherwise the model answers 'outside')",
        "YAML values stay within None/bool/int/str/bytes/list/set/dict",
    ]

    def gen(self, tier, rng):
        for tree in revisit_family():
            for engine in (False, True):
                for ml in (False, True):
                    yield {"tree": tree, "engine": engine, "ml": ml, "ms": True, "allow_empty": False,
                           "sys": "s1", "pd": {}, "pv": ""}
        for tree in nested_value_family():
            for ml in (False, True):
                yield {"tree": tree, "engine": False, "ml": ml, "ms": True, "allow_empty": False, "sys": "s1", "pd": {}, "pv": ""}
        for i, tree in enumerate(limit_family()):
            yield {"tree": tree, "engine": bool(i % 2), "ml": False, "ms": True, "allow_empty": False, "sys": "s1", "pd": {}, "pv": ""}
        # names that are white space only or carry leading / trailing white space (quoted or templated), in top lists and
        # include lists, with an init.yaml in the tree root and a file called like the root directory next to it: such a
        # name is a (most likely missing) file of exactly that name - never the empty name, never the root's init.yaml
        ws_names = ["' '", "'  '", "\"\\t\"", "' a'", "'a '", "' a '", "'. '", "' .a'", "'.a '", "'a. '", "'a .b'", "\"\\u00a0\"", "\"a\\n\""]
        base_ws = {"init.yaml": "rootinit: 1\n", "a.yaml": "k: 1\n", "a /init.yaml": "k: padded\n", " a.yaml": "k: lead\n", "b.yaml": "m: 1\n"}
        for nm in ws_names:
            trees = [dict(base_ws, **{"top.yaml": "'*': [c]\n", "c.yaml": "q: 1\ninclude: [%s]\n" % nm}),
                     dict(base_ws, **{"top.yaml": "'*': [d.e]\n", "d/e.yaml": "q: 1\ninclude: [%s]\n" % nm, "d/init.yaml": "dinit: 1\n"})]
            if not nm.startswith("'."):          # in a top list a leading dot gives an empty segment (outside the model)
                trees += [dict(base_ws, **{"top.yaml": "'*': [%s]\n" % nm}), dict(base_ws, **{"top.yaml": "'*': [b, %s]\n" % nm})]
            for tree in trees:
                yield {"tree": tree, "engine": False, "ml": False, "ms": True, "allow_empty": False, "sys": "s1", "pd": {}, "pv": "",
                       "rootname": "treeroot", "sibling_text": "above: 1\n"}
        for pd, pv in (({}, ""), ({"role": "b"}, "v1"), ({"role": " "}, "v2")):
            for tree in (dict(base_ws, **{"top.yaml": "'*': [\"{{ data.get('role', '') }} \"]\n"}),
                         dict(base_ws, **{"top.yaml": "'*': [c]\n", "c.yaml": "include: [\" {{ data.get('role', '') }}\"]\n"})):
                yield {"tree": tree, "engine": True, "ml": False, "ms": True, "allow_empty": False, "sys": "s1", "pd": pd, "pv": pv,
                       "rootname": "treeroot", "sibling_text": "above: 1\n"}
        # text that a template engine would treat as markup, with templating switched off (template: None) and on; the
        # source is created through the factory and directly
        markup = [{"top.yaml": "'*': [a, b]\n# {% if id == 's1' %}\n's1': [c]\n# {% endif %}\n", "a.yaml": "k: '{{ later }}'\nm: \"{# note #}x\"\n",
                   "b.yaml": "# {{ id }}\nn: '{% raw %}'\ninclude: [c]\n", "c.yaml": "o: '{{ 1 + 1 }}'\n"},
                  {"top.yaml": "'{{ id }}': [a]\n'*': [b]\n", "a.yaml": "k: 1\n", "b.yaml": "m: '{{ data }}'\n"},
                  {"top.yaml": "'*': [a]\n", "a.yaml": "k: '{%'\n"},
                  {"top.yaml": "'*': [a]\n", "a.yaml": "{% if id == 's1' %}k: 1{% endif %}\n"}]
        for tree in markup:
            for engine in (False, True):
                for factory in (True, False):
                    for sysid in ("s1", "s2"):
                        yield {"tree": tree, "engine": engine, "ml": False, "ms": True, "allow_empty": False, "sys": sysid, "pd": {"x": 1}, "pv": "v1",
                               "factory": factory}
        # documented None / "" / defaulted option values handed to the factory
        for tree in directed()[:5] + markup[:2]:
            for raw in ({"template": None, "template_config": {}, "cache_size": 0}, {"template": None, "file_suffix": ".yaml", "merge_lists": None},
                        {"template": "jinja", "template_config": {}, "allow_empty_top": None, "merge_sets": None}):
                yield {"tree": tree, "engine": raw["template"] is not None, "ml": bool(raw.get("merge_lists", False)),
                       "ms": bool(raw.get("merge_sets", True)) if "merge_sets" in raw else True, "allow_empty": False,
                       "raw_config": raw, "sys": "s1", "pd": {}, "pv": "", "factory": True}
        # root_dir with unusual characters / as a symbolic link, logging levels, YAML tags giving tuples, bytes, dates
        exotic = {"top.yaml": "'*': [a, b]\n", "a.yaml": "bo: !!omap [ disk: {timeout: 5}, net: [1, 2] ]\nbin: !!binary aGVsbG8=\nwhen: 2001-12-14\n",
                  "b.yaml": "bo: !!pairs [ a: {x: 1}, a: [2] ]\nst: !!set {a: null}\ninclude: [c]\n", "c.yaml": "bo: !!omap [ disk: {timeout: 6} ]\n"}
        for i, name in enumerate(("r %41", "\u00e9 dir", "a b/c", "x%", "@link", "d @link")):
            for tree in (exotic, directed()[4], revisit_family()[3]):
                for ml in (False, True):
                    yield {"tree": tree, "engine": bool(i % 2), "ml": ml, "ms": True, "allow_empty": False, "sys": "s1", "pd": {}, "pv": "",
                           "rootname": name, "loglevel": ("DEBUG", "INFO", "WARNING")[i % 3]}
        # unusual but valid configuration values (truthy / falsy non-bools where the code only tests truth)
        for tree in directed()[:6] + falsy_family()[:6]:
            for raw in ({"merge_lists": 1, "merge_sets": 0, "allow_empty_top": "yes"}, {"merge_lists": "", "merge_sets": 2.5, "allow_empty_top": 0},
                        {"merge_lists": [0], "merge_sets": None, "allow_empty_top": 1.0}):
                yield {"tree": tree, "engine": False, "ml": bool(raw["merge_lists"]), "ms": bool(raw["merge_sets"]),
                       "allow_empty": bool(raw["allow_empty_top"]), "raw_config": raw, "sys": "s1", "pd": {}, "pv": ""}
        for tree in falsy_family():
            for engine in (False, True):
                for ae in (False, True):
                    yield {"tree": tree, "engine": engine, "ml": False, "ms": True, "allow_empty": ae,
                           "sys": "s1", "pd": {}, "pv": ""}
        for tree, faults in fault_family():
            for engine in (False, True):
                yield {"tree": tree, "faults": faults, "engine": engine, "ml": False, "ms": True, "allow_empty": False,
                       "sys": "s1", "pd": {}, "pv": ""}
        yield from longlived_cases()
        for tree in directed():
            for engine in (False, True):
                for sysid in ("s1", "s2"):
                    for pd, pv in yamlfs.PRECEDING[:2]:
                        for ml, ms in ((False, True), (True, False)):
                            yield {"tree": tree, "engine": engine, "ml": ml, "ms": ms, "allow_empty": False,
                                   "sys": sysid, "pd": pd, "pv": pv}
            yield {"tree": tree, "engine": True, "ml": False, "ms": True, "allow_empty": True, "sys": "s1", "pd": {}, "pv": ""}
        n = 2500 if tier == "quick" else 30000
        for _ in range(n):
            engine = rng.random() < 0.5
            tree = yamlfs.rand_tree(rng, engine)
            pd, pv = rng.choice(yamlfs.PRECEDING)
            yield {"tree": tree, "engine": engine, "ml": rng.random() < 0.4, "ms": rng.random() < 0.7,
                   "allow_empty": rng.random() < 0.3, "sys": rng.choice(yamlfs.SYSTEMS), "pd": pd, "pv": pv}

    def impl(self, c):
        if c.get("longlived"):
            return run_longlived(c)
        return run_real(c)

    def line(self, c, o):
        orc = yamlfs.oracle_tables(c["tree"], c["engine"], c["sys"], c["pd"])
        cfg = [c["allow_empty"], c["ml"], c["ms"], c["engine"]]
        io = [0, enc(o[1])] if o[0] == "ok" else [1, o[1]]
        return sx([c.get("variants", CURRENT_VARIANTS), cfg, orc, yamlfs.listing(c["tree"], c.get("faults")), c["pv"], io])

    def evaluate(self, cases):
        res = super().evaluate(cases)
        out = []
        for (c, o, m, fm, fi, rest) in res:
            if m[0] == 1 and m[1] in (101, 177):
                raise RuntimeError(f"C11: case outside the model (code {m[1]}): {self.show(c)}")
            self._valid[id(c)] = bool(rest[1]) if len(rest) > 1 else True
            out.append((c, o, norm_res(m), fm, fi, rest))
        return out

    _valid = {}
    def model_should_hold(self, c):
        return self._valid.get(id(c), True)

    def canon(self, o):
        x = [0, enc(o[1])] if o[0] == "ok" else [1, o[1]]
        return norm_res(unsx(sx(x)))

    def nontrivial(self, c, o):
        if o[0] == "ok" and len(o[1]) >= 2 or o[0] == "exc" and o[1] != 5:
            return repr((sorted((k, v) for k, v in c["tree"].items() if v is not DIR), c["sys"], c["pd"], c["ml"], c["ms"], c["engine"]))
        return None

    def show(self, c):
        if c.get("longlived"):
            return {"long_lived_source": True, "base": c["base"], "ops": [list(o) for o in c["ops"]], "engine": c["engine"],
                    "merge_lists": c["ml"], "merge_sets": c["ms"], "tree_at_last_get": c["tree"], "sys": c["sys"]}
        d = dict(c)
        d["tree"] = {k: ("<dir>" if v is DIR else v) for k, v in c["tree"].items()}
        if c.get("faults"):
            d["faults"] = {k: list(v) for k, v in c["faults"].items()}
        d["pd"] = pyval.show(c["pd"])
        return d

    def match_known(self, entry, c, failed):
        return entry.get("clause") in failed and len(failed) == 1

    def shrink(self, c):
        if c.get("longlived"):
            import c12
            ops = c["ops"]
            for i in range(len(ops) - 1):
                cand = dict(c, ops=ops[:i] + ops[i + 1:])
                if cand["ops"][-1][0] != "get":
                    continue
                tree, pd, pv, sysid, faults = c12.snapshots(cand)[-1]
                yield dict(cand, tree=tree, sys=sysid, pd=pd, pv=pv, faults=faults)
            if c["engine"]:
                yield dict(c, engine=False)
            return
        t = c["tree"]
        for k in list(t):
            if k != "top.yaml":
                s = dict(t)
                del s[k]
                yield dict(c, tree=s)
        for k, v in t.items():
            if v is DIR:
                continue
            lines = v.split("\n")
            for i in range(len(lines)):
                s = dict(t)
                s[k] = "\n".join(lines[:i] + lines[i + 1:])
                if s[k] != v:
                    yield dict(c, tree=s)
        if c["pd"]:
            yield dict(c, pd={}, pv="")
        if c["engine"]:
            yield dict(c, engine=False)


if __name__ == "__main__":
    raise SystemExit(C11().main())
