"""
Fake UDP socket and virtual clock for driving the real vinegar.tftp.server._TftpReadRequest
without source hooks: `socket` and `time` in the module's namespace are replaced in this process.

Time unit: ticks of 1/1024 s (exact in binary floating point, so the code's float arithmetic on
deadlines is exact).  The clock moves only inside recvfrom: to the arrival time of a delivered
datagram plus `proc` ticks (the time the server needs to take a datagram off the socket; 0 in most
cases), or by the socket time-out.  Rule of the fake socket (mirrored by the Coq transfer machine): the head event
of the script is delivered iff its time stamp is before now+timeout, otherwise the clock advances by
the socket timeout and socket.timeout is raised (the event stays queued).
"""
import errno
import io
import logging
import socket as real_socket
import types

import common  # noqa: F401  (sets sys.path to the repo)
from vinegar.tftp import server as S
from vinegar.tftp.protocol import TransferMode

TICK = 1024.0
CLI = ("::1", 5555, 0, 0)
OTH = ("::1", 7777, 0, 0)
SRV = ("::1", 69, 0, 0)


class ChunkedStream(io.RawIOBase):
    """binary stream whose read(n) returns at most the next chunk bound (at least 1 byte)"""
    def __init__(self, content, chunks):
        super().__init__()
        self.content = bytes(content)
        self.pos = 0
        self.chunks = list(chunks)
        self.closed_by_server = False

    def readable(self):
        return True

    def read(self, n=-1):
        if n is None or n < 0:
            n = len(self.content) - self.pos
        if self.chunks:
            n = min(n, max(1, self.chunks.pop(0)))
        d = self.content[self.pos:self.pos + n]
        self.pos += len(d)
        return d

    def close(self):
        self.closed_by_server = True
        super().close()


class _Log(logging.Handler):
    def __init__(self, sink):
        super().__init__()
        self.sink = sink

    def emit(self, record):
        if record.exc_info:
            self.sink.append(("logexc", record.exc_info[0].__name__))


class FakeSock:
    def __init__(self, script, clock, log, proc=0):
        self.script = script
        self.clock = clock
        self.log = log
        self.to = None
        self.proc = proc
        self.timeout_class = real_socket.timeout

    def __enter__(self):
        return self

    def __exit__(self, *a):
        self.log.append(("close_sock",))

    def settimeout(self, t):
        self.to = t

    def setsockopt(self, *a):
        pass

    def sendto(self, data, addr):
        # a "send" record means sendto() was called; like Linux, sendto to port 0 fails with EINVAL (a datagram
        # with source port 0 can be received, but it cannot be answered)
        self.log.append(("send", int(round(self.clock[0] * TICK)), addr, bytes(data)))
        if addr[1] == 0:
            raise OSError(errno.EINVAL, "Invalid argument")

    def recvfrom(self, n):
        if self.to is not None and self.to <= 0:
            # settimeout(0) is non-blocking mode: a real socket raises BlockingIOError when nothing is queued, not
            # socket.timeout (the transfer code never asks for it; a change that does must show)
            if self.script and self.script[0][0] / TICK <= self.clock[0]:
                t, addr, data = self.script.pop(0)
                self.clock[0] = max(self.clock[0], t / TICK) + self.proc / TICK
                self.log.append(("recv", t, addr, bytes(data)))
                return bytes(data)[:n], addr
            raise BlockingIOError(errno.EAGAIN, "Resource temporarily unavailable")
        if self.script:
            t, addr, data = self.script[0]
            if t / TICK < self.clock[0] + self.to:
                self.script.pop(0)
                # taking the datagram off the socket costs `proc` ticks of server time
                self.clock[0] = max(self.clock[0], t / TICK) + self.proc / TICK
                self.log.append(("recv", t, addr, bytes(data)))
                return bytes(data)[:n], addr
        self.clock[0] += self.to
        self.log.append(("timeout", int(round(self.clock[0] * TICK))))
        raise self.timeout_class("timed out")


def run_transfer(script, handler, options, mode="octet", default_timeout=2, max_timeout=30,
                 max_retries=1, max_block_size=65464, wrap=0, filename="f", context=None, shared_log=None, proc=0,
                 sock_class=None):
    """
    Run one real _TftpReadRequest to completion under the fake socket.
    script: list of (t_ticks, addr, datagram).  handler(filename, client, server, context) -> file object.
    Returns the event log: ("send", t, addr, data) | ("recv", ...) | ("timeout", t) | ("close_sock",) |
    ("logexc", class)
    """
    clock = [0.0]
    log = shared_log if shared_log is not None else []
    shim = types.SimpleNamespace(**{k: getattr(real_socket, k) for k in dir(real_socket) if not k.startswith("__")})

    class LoggedTimeout(real_socket.timeout):
        """socket.timeout as the server module sees it: when the server raises it itself (no time left in a
        try: _set_socket_timeout) the trace gets its "timeout" record here; the fake socket passes a message
        and has already written the record"""
        def __init__(self, *a):
            super().__init__(*a)
            if not a:
                log.append(("timeout", int(round(clock[0] * TICK))))

    def mk_sock(**k):
        fs = (sock_class or FakeSock)(list(script), clock, log, proc)
        fs.timeout_class = LoggedTimeout
        return fs
    shim.timeout = LoggedTimeout
    shim.socket = mk_sock
    old = (S.socket, S.time)
    S.socket = shim
    S.time = types.SimpleNamespace(monotonic=lambda: clock[0])
    h = _Log(log)
    S.logger.addHandler(h)
    old_level = S.logger.level
    S.logger.setLevel(logging.INFO)
    S.logger.propagate = False
    try:
        tm = {"octet": TransferMode.OCTET, "netascii": TransferMode.NETASCII}[mode]
        r = S._TftpReadRequest(filename, tm, dict(options), CLI, SRV, handler, context,
                               default_timeout, max_timeout, max_retries, max_block_size, wrap)
        r._thread.join(60)
        if r._thread.is_alive():
            log.append(("hang",))
    finally:
        S.socket, S.time = old
        S.logger.removeHandler(h)
        S.logger.setLevel(old_level)
    return log
