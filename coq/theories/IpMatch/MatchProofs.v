(* CIDR membership: the bytewise-and-mask algorithm equals the arithmetic definition for every
   prefix length; contains_ip_address equals membership in the 128-bit embedding. *)
From Coq Require Import List NArith ZArith Bool Lia.
From VF Require Import Addr.Text Addr.TextProofs Addr.IPv6 Addr.ArithProofs IpMatch.Match.
Import ListNotations.
Open Scope N_scope.

(* ---- the partial-byte mask: 256 x 7 sweep ---- *)
Definition mask_ok (x r : N) : bool := N.land x (byte_mask r) =? x / 2 ^ (8 - r) * 2 ^ (8 - r).
Lemma mask_sweep :
  forallb (fun x => forallb (mask_ok x) [1; 2; 3; 4; 5; 6; 7]) (map N.of_nat (seq 0 256)) = true.
Proof. vm_compute. reflexivity. Qed.

Lemma byte_mask_spec x r : x < 256 -> 1 <= r -> r <= 7 ->
  N.land x (byte_mask r) = x / 2 ^ (8 - r) * 2 ^ (8 - r).
Proof.
  intros Hx H1 H7. pose proof (below_sweep 256 _ mask_sweep x Hx) as H. cbn beta in H.
  rewrite forallb_forall in H. apply N.eqb_eq. apply H.
  assert (r = 1 \/ r = 2 \/ r = 3 \/ r = 4 \/ r = 5 \/ r = 6 \/ r = 7) as D by lia.
  cbn [In]. intuition.
Qed.

(* ---- big-endian values ---- *)
Lemma to_N_app a b : to_N (a ++ b) = to_N a * 256 ^ N.of_nat (length b) + to_N b.
Proof.
  induction b as [|x b IH] using rev_ind.
  - rewrite app_nil_r. cbn. lia.
  - rewrite app_assoc, !to_N_snoc, IH, app_length. cbn [length].
    rewrite Nat.add_1_r, Nat2N.inj_succ, N.pow_succ_r'. lia.
Qed.

Lemma all_bytes_app a b : all_bytes (a ++ b) = all_bytes a && all_bytes b.
Proof. unfold all_bytes. apply forallb_app. Qed.

Lemma div_split A p q : p <> 0 -> q < p -> (A * p + q) / p = A.
Proof.
  intros Hp Hq. rewrite (N.add_comm (A * p) q). rewrite N.div_add by assumption.
  rewrite (N.div_small q p Hq). reflexivity.
Qed.
Lemma mod_split A p q : p <> 0 -> q < p -> (A * p + q) mod p = q.
Proof.
  intros Hp Hq. rewrite (N.add_comm (A * p) q). rewrite N.mod_add by assumption. now apply N.mod_small.
Qed.

Lemma be_bytes_to_N a : all_bytes a = true -> be_bytes (length a) (to_N a) = a.
Proof.
  induction a as [|x a IH] using rev_ind; intros H; [reflexivity|].
  rewrite all_bytes_app in H. apply andb_true_iff in H. destruct H as [Ha Hx].
  unfold all_bytes in Hx. cbn [forallb] in Hx. rewrite andb_true_r in Hx. apply N.ltb_lt in Hx.
  rewrite app_length. cbn [length]. rewrite Nat.add_1_r, be_bytes_S, to_N_snoc.
  rewrite (div_split (to_N a) 256 x) by (try discriminate; assumption).
  rewrite (mod_split (to_N a) 256 x) by (try discriminate; assumption).
  now rewrite (IH Ha).
Qed.

Lemma to_N_inj a b : length a = length b -> all_bytes a = true -> all_bytes b = true ->
  to_N a = to_N b -> a = b.
Proof.
  intros L Ha Hb E. rewrite <- (be_bytes_to_N a Ha), <- (be_bytes_to_N b Hb), L, E. reflexivity.
Qed.

Lemma all_bytes_firstn n a : all_bytes a = true -> all_bytes (firstn n a) = true.
Proof.
  intros H. rewrite <- (firstn_skipn n a), all_bytes_app in H. now apply andb_true_iff in H.
Qed.
Lemma all_bytes_skipn n a : all_bytes a = true -> all_bytes (skipn n a) = true.
Proof.
  intros H. rewrite <- (firstn_skipn n a), all_bytes_app in H. now apply andb_true_iff in H.
Qed.

Lemma pow256 k : 256 ^ k = 2 ^ (8 * k).
Proof. change 256 with (2 ^ 8). now rewrite <- N.pow_mul_r. Qed.

Lemma pair_unique p A B qx qy : qx < p -> qy < p -> (A * p + qx = B * p + qy <-> A = B /\ qx = qy).
Proof.
  intros Hx Hy. split; [|intros [-> ->]; reflexivity]. intros E.
  apply (N.div_mod_unique p A B qx qy Hx Hy). lia.
Qed.

(* the algorithm of _ip_address_in_subnet decides equality of the leading m bits, for EVERY m *)
Theorem subnet_arith a net m : length a = length net -> all_bytes a = true -> all_bytes net = true ->
  m <= 8 * N.of_nat (length a) ->
  (in_subnet a net m = true <->
   to_N a / 2 ^ (8 * N.of_nat (length a) - m) = to_N net / 2 ^ (8 * N.of_nat (length a) - m)).
Proof.
  intros L Ha Hn Hm. unfold in_subnet.
  set (w := N.to_nat (m / 8)). set (r := m mod 8).
  assert (Em : m = 8 * N.of_nat w + r). { unfold w, r. rewrite N2Nat.id. apply N.div_mod. discriminate. }
  assert (Hr : r < 8) by (apply N.mod_upper_bound; discriminate).
  assert (Hw : (w <= length a)%nat) by lia.
  set (a1 := firstn w a). set (n1 := firstn w net).
  assert (La1 : length a1 = w) by (unfold a1; rewrite firstn_length; lia).
  assert (Ln1 : length n1 = w) by (unfold n1; rewrite firstn_length; lia).
  assert (Ea : a = a1 ++ skipn w a) by (symmetry; apply firstn_skipn).
  assert (En : net = n1 ++ skipn w net) by (symmetry; apply firstn_skipn).
  assert (B1 : all_bytes a1 = true) by now apply all_bytes_firstn.
  assert (B2 : all_bytes n1 = true) by now apply all_bytes_firstn.
  assert (I1 : str_eqb a1 n1 = true <-> to_N a1 = to_N n1).
  { rewrite str_eqb_eq. split; [now intros ->|]. apply to_N_inj; congruence. }
  set (a2 := skipn w a) in *. set (n2 := skipn w net) in *.
  assert (La2 : (length a2 + w = length a)%nat) by (unfold a2; rewrite skipn_length; lia).
  assert (Ln2 : (length n2 + w = length a)%nat) by (unfold n2; rewrite skipn_length; lia).
  assert (B3 : all_bytes a2 = true) by now apply all_bytes_skipn.
  assert (B4 : all_bytes n2 = true) by now apply all_bytes_skipn.
  destruct (r =? 0) eqn:R0.
  - (* whole bytes only *)
    apply N.eqb_eq in R0.
    assert (EK : 8 * N.of_nat (length a) - m = 8 * N.of_nat (length a2)) by lia.
    rewrite EK, <- pow256.
    assert (Q : forall x1 x2, length x2 = length a2 -> all_bytes x2 = true ->
                to_N (x1 ++ x2) / 256 ^ N.of_nat (length a2) = to_N x1).
    { intros x1 x2 Lx Bx. rewrite to_N_app, Lx. apply div_split.
      - apply N.pow_nonzero. discriminate.
      - rewrite <- Lx. now apply to_N_lt. }
    replace (to_N a) with (to_N (a1 ++ a2)) by (now rewrite <- Ea).
    replace (to_N net) with (to_N (n1 ++ n2)) by (now rewrite <- En).
    rewrite (Q a1 a2 eq_refl B3), (Q n1 n2 ltac:(lia) B4).
    destruct (str_eqb a1 n1) eqn:S; cbn [negb].
    + split; [intros _; now apply I1|reflexivity].
    + split; [discriminate|]. intros E. apply I1 in E. congruence.
  - (* partial byte *)
    apply N.eqb_neq in R0.
    assert (Wlt : (w < length a)%nat) by lia.
    destruct a2 as [|x a3] eqn:Ea2; [cbn in La2; lia|]. destruct n2 as [|y n3] eqn:En2; [cbn in Ln2; lia|].
    cbn [length] in La2, Ln2.
    assert (Nx : nth w a 0 = x). { rewrite Ea, app_nth2 by lia. now rewrite La1, Nat.sub_diag. }
    assert (Ny : nth w net 0 = y). { rewrite En, app_nth2 by lia. now rewrite Ln1, Nat.sub_diag. }
    rewrite Nx, Ny.
    unfold all_bytes in B3, B4. cbn [forallb] in B3, B4.
    apply andb_true_iff in B3. destruct B3 as [Hx B3]. apply andb_true_iff in B4. destruct B4 as [Hy B4].
    apply N.ltb_lt in Hx. apply N.ltb_lt in Hy.
    rewrite (byte_mask_spec x r Hx) by lia. rewrite (byte_mask_spec y r Hy) by lia.
    set (k := N.of_nat (length a3)).
    assert (EK : 8 * N.of_nat (length a) - m = 8 * k + (8 - r)) by (unfold k; lia).
    rewrite EK, N.pow_add_r, <- pow256.
    assert (P8 : 2 ^ (8 - r) <> 0) by (apply N.pow_nonzero; discriminate).
    assert (Pk : 256 ^ k <> 0) by (apply N.pow_nonzero; discriminate).
    assert (E256 : 256 = 2 ^ r * 2 ^ (8 - r)). { rewrite <- N.pow_add_r. replace (r + (8 - r)) with 8 by lia. reflexivity. }
    assert (Q : forall x1 z x3, length x3 = length a3 -> all_bytes x3 = true -> z < 256 ->
                to_N (x1 ++ z :: x3) / (256 ^ k * 2 ^ (8 - r)) = to_N x1 * 2 ^ r + z / 2 ^ (8 - r)).
    { intros x1 z x3 Lx Bx Hz. rewrite <- N.div_div by assumption.
      replace (x1 ++ z :: x3) with ((x1 ++ [z]) ++ x3) by (rewrite <- app_assoc; reflexivity).
      rewrite to_N_app, Lx. fold k. rewrite div_split; [|assumption|unfold k; rewrite <- Lx; now apply to_N_lt].
      rewrite to_N_snoc.
      replace (to_N x1 * 256) with (to_N x1 * 2 ^ r * 2 ^ (8 - r)) by (rewrite <- N.mul_assoc, <- E256; reflexivity).
      rewrite (N.add_comm _ z), N.div_add by assumption. apply N.add_comm. }
    replace (to_N a) with (to_N (a1 ++ x :: a3)) by (now rewrite <- Ea).
    replace (to_N net) with (to_N (n1 ++ y :: n3)) by (now rewrite <- En).
    rewrite (Q a1 x a3 eq_refl B3 Hx), (Q n1 y n3 ltac:(lia) B4 Hy).
    assert (Qx : x / 2 ^ (8 - r) < 2 ^ r). { apply N.div_lt_upper_bound; [assumption|]. rewrite N.mul_comm, <- E256. exact Hx. }
    assert (Qy : y / 2 ^ (8 - r) < 2 ^ r). { apply N.div_lt_upper_bound; [assumption|]. rewrite N.mul_comm, <- E256. exact Hy. }
    rewrite (pair_unique _ _ _ _ _ Qx Qy).
    destruct (str_eqb a1 n1) eqn:S; cbn [negb].
    + rewrite N.eqb_eq, N.mul_cancel_r by assumption.
      split; [intros E; split; [now apply I1|exact E]|tauto].
    + split; [discriminate|]. intros [E _]. apply I1 in E. congruence.
Qed.

Lemma in_subnet_in_net a net m : length a = length net -> all_bytes a = true -> all_bytes net = true ->
  m <= 8 * N.of_nat (length a) ->
  in_subnet a net m = (to_N a / 2 ^ (8 * N.of_nat (length a) - m) =? to_N net / 2 ^ (8 * N.of_nat (length a) - m)).
Proof.
  intros L Ha Hn Hm. apply eq_true_iff_eq. rewrite N.eqb_eq. now apply subnet_arith.
Qed.

(* ---- embedding IPv4 into the mapped range ---- *)
Definition PV : N := to_N MAPPED_PREFIX.

Lemma to_N_prefix b : length b = 4%nat -> to_N (MAPPED_PREFIX ++ b) = PV * 2 ^ 32 + to_N b.
Proof. intros L. rewrite to_N_app, L. reflexivity. Qed.

Lemma in_subnet4_embed a nb m : length a = 4%nat -> length nb = 4%nat -> all_bytes a = true ->
  all_bytes nb = true -> m <= 32 ->
  in_subnet a nb m = in_net (to_N (MAPPED_PREFIX ++ a)) (to_N (MAPPED_PREFIX ++ nb), 96 + m).
Proof.
  intros La Ln Ba Bn Hm. rewrite in_subnet_in_net by (rewrite ?La; try assumption; try lia).
  rewrite La. unfold in_net. cbn [fst snd]. rewrite !to_N_prefix by assumption.
  replace (8 * N.of_nat 4 - m) with (32 - m) by lia. replace (128 - (96 + m)) with (32 - m) by lia.
  set (p := 2 ^ (32 - m)).
  assert (Pp : p <> 0) by (apply N.pow_nonzero; discriminate).
  assert (E32 : 2 ^ 32 = 2 ^ m * p). { unfold p. rewrite <- N.pow_add_r. f_equal. lia. }
  assert (D : forall z, (PV * 2 ^ 32 + z) / p = PV * 2 ^ m + z / p).
  { intros z. replace (PV * 2 ^ 32) with (PV * 2 ^ m * p) by (rewrite E32, N.mul_assoc; reflexivity).
    rewrite (N.add_comm _ z), N.div_add by assumption. apply N.add_comm. }
  rewrite !D. apply eq_true_iff_eq. rewrite !N.eqb_eq. lia.
Qed.

Lemma not_mapped_not_in v6 nb m : length v6 = 16%nat -> all_bytes v6 = true -> is_mapped v6 = false ->
  length nb = 4%nat -> all_bytes nb = true -> m <= 32 ->
  in_net (to_N v6) (to_N (MAPPED_PREFIX ++ nb), 96 + m) = false.
Proof.
  intros L B M Ln Bn Hm. unfold in_net. cbn [fst snd]. apply N.eqb_neq. intros E.
  replace (128 - (96 + m)) with (32 - m) in E by lia.
  assert (E2 : to_N v6 / 2 ^ 32 = to_N (MAPPED_PREFIX ++ nb) / 2 ^ 32).
  { replace (2 ^ 32) with (2 ^ (32 - m) * 2 ^ m) by (rewrite <- N.pow_add_r; f_equal; lia).
    rewrite <- !N.div_div by (apply N.pow_nonzero; discriminate). now rewrite E. }
  rewrite to_N_prefix in E2 by assumption.
  rewrite (div_split PV (2 ^ 32) (to_N nb)) in E2;
    [|discriminate|pose proof (to_N_lt nb Bn) as Q; rewrite Ln in Q; exact Q].
  rewrite <- (firstn_skipn 12 v6) in E2. rewrite to_N_app in E2.
  assert (Ls : length (skipn 12 v6) = 4%nat) by (rewrite skipn_length; lia).
  rewrite Ls in E2. change (256 ^ N.of_nat 4) with (2 ^ 32) in E2.
  rewrite div_split in E2; [|discriminate|].
  2:{ pose proof (to_N_lt _ (all_bytes_skipn 12 v6 B)) as Q. rewrite Ls in Q. exact Q. }
  unfold is_mapped in M. assert (firstn 12 v6 = MAPPED_PREFIX); [|apply str_eqb_eq in H; congruence].
  apply to_N_inj; try assumption.
  - rewrite firstn_length, L. reflexivity.
  - now apply all_bytes_firstn.
  - reflexivity.
Qed.

Section Oracles.
  Variable pton4 : str -> pres.
  Variable pton6 : str -> pres.
  Hypothesis pton4_len : forall s b, pton4 s = PBytes b -> length b = 4%nat /\ all_bytes b = true.
  Hypothesis pton6_len : forall s b, pton6 s = PBytes b -> length b = 16%nat /\ all_bytes b = true.

  Notation parse_ip := (parse_ip pton4 pton6).
  Notation split46 := (split46 pton4 pton6).
  Notation scan := (scan pton4 pton6).
  Notation contains := (contains pton4 pton6).
  Notation embed_net := (embed_net pton4 pton6).
  Notation embed_client := (embed_client pton4 pton6).
  Notation member := (member pton4 pton6).

  Lemma parse_ip_facts allow s f b m : parse_ip allow s = Some (f, b, m) ->
    all_bytes b = true /\
    match f with F4 => length b = 4%nat /\ m <= 32 | F6 => length b = 16%nat /\ m <= 128 end.
  Proof.
    unfold Match.parse_ip. destruct (split_mask allow s) as [ip g].
    destruct (match g with Some g0 => option_map Some (py_int_digits g0) | None => Some None end) as [mk|]; [|discriminate].
    destruct (pton4 ip) as [b4| |] eqn:P4; try discriminate.
    - destruct (pton4_len _ _ P4) as [L A]. destruct mk as [k|].
      + destruct (32 <? k) eqn:K; [discriminate|]. apply N.ltb_ge in K. intros H. inversion H; subst. auto.
      + intros H. inversion H; subst. split; [assumption|split; [assumption|lia]].
    - destruct (pton6 ip) as [b6| |] eqn:P6; try discriminate.
      destruct (pton6_len _ _ P6) as [L A]. destruct mk as [k|].
      + destruct (128 <? k) eqn:K; [discriminate|]. apply N.ltb_ge in K. intros H. inversion H; subst. auto.
      + intros H. inversion H; subst. split; [assumption|split; [assumption|lia]].
  Qed.

  (* what split46 returns: the IPv6 bytes, and the IPv4 bytes iff the address lies in the mapped range *)
  Definition client_ok (v4 : option (list N)) (v6 : list N) : Prop :=
    length v6 = 16%nat /\ all_bytes v6 = true /\
    match v4 with
    | Some a => v6 = MAPPED_PREFIX ++ a /\ length a = 4%nat /\ all_bytes a = true
    | None => is_mapped v6 = false
    end.

  Lemma split46_facts addr v4 v6 : split46 addr = Some (v4, v6) ->
    client_ok v4 v6 /\ embed_client addr = Some (to_N v6).
  Proof.
    unfold Match.split46, Match.embed_client. destruct (parse_ip false addr) as [[[f b] m]|] eqn:P; [|discriminate].
    destruct (parse_ip_facts _ _ _ _ _ P) as [A F]. destruct f.
    - destruct F as [L _]. intros H. inversion H; subst. split; [|reflexivity].
      split; [change (length (MAPPED_PREFIX ++ b) = 16%nat); rewrite app_length, L; reflexivity|].
      split; [change (all_bytes (MAPPED_PREFIX ++ b) = true); rewrite all_bytes_app, A; reflexivity|auto].
    - destruct F as [L _]. destruct (is_mapped b) eqn:M; intros H; injection H as <- <-; (split; [|reflexivity]).
      + split; [assumption|]. split; [assumption|]. split; [|split].
        * change (b = MAPPED_PREFIX ++ skipn 12 b).
          unfold is_mapped in M. apply str_eqb_eq in M. rewrite <- M. symmetry. apply firstn_skipn.
        * change (length (skipn 12 b) = 4%nat). rewrite skipn_length. lia.
        * change (all_bytes (skipn 12 b) = true). now apply all_bytes_skipn.
      + split; [assumption|]. split; assumption.
  Qed.

  Definition ematch (v4 : option (list N)) (v6 : list N) (e : entry) : bool :=
    match e with
    | EBad => false
    | EStr s =>
        match parse_ip true s with
        | Some (F4, nb, m) => match v4 with Some a => in_subnet a nb m | None => false end
        | Some (F6, nb, m) => in_subnet v6 nb m
        | None => false
        end
    end.

  Lemma ematch_embed v4 v6 e : client_ok v4 v6 ->
    ematch v4 v6 e = match embed_net e with Some n => in_net (to_N v6) n | None => false end.
  Proof.
    intros (L & B & C). destruct e as [s|]; [|reflexivity]. cbn [ematch Match.embed_net].
    destruct (parse_ip true s) as [[[f nb] m]|] eqn:P; [|reflexivity].
    destruct (parse_ip_facts _ _ _ _ _ P) as [A F]. destruct f.
    - destruct F as [Ln Hm]. destruct v4 as [a|].
      + destruct C as (-> & La & Ba). now apply in_subnet4_embed.
      + symmetry. now apply not_mapped_not_in.
    - destruct F as [Ln Hm]. rewrite in_subnet_in_net by (rewrite ?L; try assumption; try lia; congruence).
      rewrite L. unfold in_net. cbn [fst snd]. reflexivity.
  Qed.

  Lemma scan_true r v4 v6 l : scan r v4 v6 l = CTrue -> existsb (ematch v4 v6) l = true.
  Proof.
    induction l as [|e l IH]; cbn [Match.scan existsb]; [discriminate|].
    destruct e as [s|]; [|discriminate]. cbn [ematch].
    destruct (parse_ip true s) as [[[f nb] m]|]; [|destruct r; [discriminate|exact IH]].
    destruct f.
    - destruct v4 as [a|]; [|exact IH]. destruct (in_subnet a nb m); [reflexivity|exact IH].
    - destruct (in_subnet v6 nb m); [reflexivity|exact IH].
  Qed.

  Definition well_typed (l : list entry) : Prop := Forall (fun e => e <> EBad) l.

  Lemma scan_well_typed v4 v6 l : well_typed l ->
    scan false v4 v6 l = if existsb (ematch v4 v6) l then CTrue else CFalse.
  Proof.
    induction l as [|e l IH]; intros W; [reflexivity|]. inversion W as [|? ? He Wl]; subst.
    cbn [Match.scan existsb]. destruct e as [s|]; [|congruence]. cbn [ematch].
    destruct (parse_ip true s) as [[[f nb] m]|]; [|exact (IH Wl)].
    destruct f.
    - destruct v4 as [a|]; [|exact (IH Wl)]. destruct (in_subnet a nb m); [reflexivity|exact (IH Wl)].
    - destruct (in_subnet v6 nb m); [reflexivity|exact (IH Wl)].
  Qed.

  Lemma scan_never_valueerror v4 v6 l : scan false v4 v6 l <> CValueError.
  Proof.
    induction l as [|e l IH]; cbn [Match.scan]; [discriminate|]. destruct e as [s|]; [|discriminate].
    destruct (parse_ip true s) as [[[f nb] m]|]; [|exact IH].
    destruct f.
    - destruct v4 as [a|]; [|exact IH]. destruct (in_subnet a nb m); [discriminate|exact IH].
    - destruct (in_subnet v6 nb m); [discriminate|exact IH].
  Qed.

  Lemma member_existsb addr v4 v6 l : split46 addr = Some (v4, v6) ->
    member l addr = existsb (ematch v4 v6) l.
  Proof.
    intros S. destruct (split46_facts _ _ _ S) as [C E]. unfold Match.member. rewrite E.
    induction l as [|e l IH]; [reflexivity|]. cbn [existsb]. now rewrite IH, (ematch_embed v4 v6 e C).
  Qed.

  (* True only for a member of the 128-bit embedding (for any collection, also with ill-typed entries) *)
  Theorem contains_sound r set addr : contains r set addr = CTrue -> member set addr = true.
  Proof.
    unfold Match.contains. destruct (split46 addr) as [[v4 v6]|] eqn:S; [|destruct r; discriminate].
    intros H. rewrite (member_existsb _ _ _ _ S). now apply scan_true with r.
  Qed.

  (* for collections of strings: exactly the members; malformed client or entries contribute nothing *)
  Theorem membership_spec set addr : well_typed set ->
    contains false set addr = if member set addr then CTrue else CFalse.
  Proof.
    intros W. unfold Match.contains. destruct (split46 addr) as [[v4 v6]|] eqn:S.
    - rewrite (member_existsb _ _ _ _ S). now apply scan_well_typed.
    - unfold Match.member, Match.embed_client. unfold Match.split46 in S.
      destruct (parse_ip false addr) as [[[f b] m]|]; [|reflexivity].
      destruct f; [discriminate|]. destruct (is_mapped b); discriminate.
  Qed.

  Theorem contains_outcomes set addr : contains false set addr <> CValueError.
  Proof.
    unfold Match.contains. destruct (split46 addr) as [[v4 v6]|]; [apply scan_never_valueerror|discriminate].
  Qed.

  (* membership is a disjunction over the entries; entries that are malformed, ill-typed or have a
     mask out of range contribute nothing *)
  Lemma member_app a b addr : member (a ++ b) addr = member a addr || member b addr.
  Proof.
    unfold Match.member. destruct (embed_client addr); [apply existsb_app|reflexivity].
  Qed.
  Definition useless (e : entry) : Prop := embed_net e = None.
  Lemma member_useless set addr : Forall useless set -> member set addr = false.
  Proof.
    intros F. unfold Match.member. destruct (embed_client addr) as [x|]; [|reflexivity].
    induction F as [|e l He Fl IH]; [reflexivity|]. cbn [existsb]. unfold useless in He. now rewrite He, IH.
  Qed.

  (* adding malformed / ill-typed entries anywhere never turns a deny into True *)
  Theorem malformed_never_widens set extra1 extra2 addr :
    Forall useless extra1 -> Forall useless extra2 -> member set addr = false ->
    contains false (extra1 ++ set ++ extra2) addr <> CTrue.
  Proof.
    intros U1 U2 M H. apply contains_sound in H.
    rewrite !member_app, M, (member_useless _ _ U1), (member_useless _ _ U2) in H. discriminate.
  Qed.
End Oracles.

(* the facts about libc's inet_pton that the theorems use, as one premise *)
Definition pton_lengths (pton4 pton6 : str -> pres) : Prop :=
  (forall s b, pton4 s = PBytes b -> length b = 4%nat /\ all_bytes b = true) /\
  (forall s b, pton6 s = PBytes b -> length b = 16%nat /\ all_bytes b = true).
