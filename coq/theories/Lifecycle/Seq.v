(* Sequential histories of start / stop / request on one server object: the pool machine with a
   single caller thread under the canonical scheduler of Pool.run_call (the caller runs while it can,
   the main thread runs while the caller is blocked).  [STick] lets the main thread take one step
   between calls, so that a history also fixes where in its loop the main thread is when the next
   call arrives.  Definitions only. *)
From Coq Require Import List Arith Bool.
From VF Require Import Lifecycle.Pool.
Import ListNotations.

(* SStopBusy: stop() is called while the main thread is busy inside a request handler (can_handle /
   prepare_context run on the main thread); the handler is released only after it has been observed
   whether stop() returned in the meantime *)
(* SStartFail: start() while a foreign socket holds the port: the call raises unless the server is already
   running (then it returns at once); observation: did it raise *)
(* SStartThreadFail: start() while the OS refuses a new thread: bind succeeds, Thread.start() raises *)
(* SStopOpenConn: stop() while a client connection is open but idle (no request sent yet): stop() must return
   and release everything all the same -- for the lifecycle machine it is a stop() *)
Inductive sop := SStart | SStop | SRequest | STick | SStopBusy | SStartFail | SStartThreadFail | SStopOpenConn.

Section Seq.
  Variables (G PC OP : Type).
  Variable lkof : G -> lk.
  Variable cstep : G -> bool -> PC -> option OP -> option (G * PC * bool).
  Variable mstep : G -> option G.
  Variable is_idle : PC -> bool.
  Variable idle : PC.
  Variables (op_start op_stop op_startf op_startt : OP).
  Variable view : G -> list nat.       (* [a call raised / internal error; listening socket open; main thread alive] *)
  Variable busy : G -> G.              (* the main thread moves into the request handler (if it is in its loop) *)
  Variable alive : G -> bool.          (* the main thread is alive *)
  Variable serving : G -> nat.         (* a request now: 1 answered, 0 refused / no reply, 2 accepted but never answered *)

  Definition solo (gl : G) (o : OP) : st G PC OP :=
    {| g := gl; owner := 0; callers := [ {| pc := idle; todo := [o] |} ] |}.

  Definition call (gl : G) (o : OP) : option G :=
    match run_call G PC OP lkof cstep mstep is_idle 40 (solo gl o) false with
    | Some s => Some (g s)
    | None => None
    end.

  (* the caller alone, the main thread frozen: run until the call returns or blocks *)
  Fixpoint run_frozen (fuel : nat) (s : st G PC OP) (started : bool) : st G PC OP * bool :=
    match fuel with
    | 0 => (s, false)
    | S f =>
        match nth_error (callers s) 0 with
        | None => (s, false)
        | Some c =>
            if started && is_idle (pc c) then (s, true)
            else match step G PC OP lkof cstep mstep s (C 0) with
                 | Some s' => run_frozen f s' true
                 | None => (s, false)
                 end
        end
    end.

  (* stop() while the handler blocks: (state afterwards, did stop() return while the main thread was alive) *)
  Definition call_busy (gl : G) : option (G * bool) :=
    let '(s1, returned) := run_frozen 40 (solo (busy gl) op_stop) false in
    let early := returned && alive (g s1) in
    if returned then Some (g s1, early)
    else match run_call G PC OP lkof cstep mstep is_idle 40 s1 true with
         | Some s2 => Some (g s2, early)
         | None => None
         end.

  (* observation after an operation: view ++ [request outcome; the call never returned] *)
  Definition seq_step (gl : G) (o : sop) : option (G * list nat) :=
    match o with
    | SStart => match call gl op_start with Some g' => Some (g', view g' ++ [0; 0]) | None => None end
    | SStop | SStopOpenConn => match call gl op_stop with Some g' => Some (g', view g' ++ [0; 0]) | None => None end
    | SRequest => Some (gl, view gl ++ [serving gl; 0])
    | STick => let g' := match mstep gl with Some g' => g' | None => gl end in Some (g', view g' ++ [0; 0])
    | SStartFail => match call gl op_startf with
                    | Some g' => Some (g', view g' ++ [if alive gl then 0 else 1; 0])
                    | None => None
                    end
    | SStartThreadFail => match call gl op_startt with
                          | Some g' => Some (g', view g' ++ [if alive gl then 0 else 1; 0])
                          | None => None
                          end
    | SStopBusy => match call_busy gl with
                   | Some (g', early) => Some (g', view g' ++ [if early then 1 else 0; 0])
                   | None => None
                   end
    end.

  Fixpoint run_seq (gl : G) (h : list sop) : list (list nat) :=
    match h with
    | [] => []
    | o :: r => match seq_step gl o with
                | Some (g', ob) => ob :: run_seq g' r
                | None => [view gl ++ [0; 1]]         (* hang: the history ends here *)
                end
    end.
End Seq.

(* the specification: a two-state automaton; r = "running" *)
Definition spec_next (r : bool) (o : sop) : bool :=
  match o with SStart => true | SStop | SStopBusy | SStopOpenConn => false | _ => r end.
Definition b2 (b : bool) : nat := if b then 1 else 0.
Definition spec_obs (r : bool) (o : sop) : list nat :=
  let r' := spec_next r o in
  [0; b2 r'; b2 r'; match o with SRequest => b2 r' | SStartFail | SStartThreadFail => b2 (negb r) | _ => 0 end; 0].
Fixpoint spec_run (r : bool) (h : list sop) : list (list nat) :=
  match h with
  | [] => []
  | o :: t => spec_obs r o :: spec_run (spec_next r o) t
  end.
