(* Model for the HTTP half of C09: what decides the reaction of the HTTP port to an arbitrary
   byte stream sent by a client.
   Part 1 (environment, CPython 3.12 http.server / http.client): BaseHTTPRequestHandler.
   handle_one_request + parse_request + http.client._read_headers, as a function of the bytes the
   client sent and of whether the client has shut down its sending side: request line limit (414),
   empty line / no words (close), version syntax (400), version >= 2.0 (505), word count (400),
   HTTP/0.9 requests (only GET; no status line and no headers in the answer), '//' collapsing,
   header block (431 for an over-long line or more than 100 lines; end of stream ends the block),
   unknown method (501).  protocol_version is "HTTP/1.0", so Connection / Expect never matter and the
   connection is closed after one request.  Message texts of http.server's own errors are not
   modelled (they contain repr() of client strings); their codes and whether a status line is
   produced are.
   Part 2 (vinegar): _delegate_request on top of Http/Emit.v, with prepare_context + can_handle of
   a handler abstracted as ONE TOTAL predicate on the request path.
   Definitions only; proofs are in ClassifyProofs.v. *)
From Coq Require Import String.
From Coq Require Import List NArith ZArith Bool Arith.
From VF Require Import Base.Sx Http.Response Http.Emit.
Import ListNotations.
Open Scope N_scope.

(* ---------- the byte stream ---------- *)
(* rfile.readline(limit): up to [n] bytes, ending with the first LF; at the end of the data either
   the rest (client has shut down: eof) or nothing yet (the call blocks) *)
Fixpoint readline (eof : bool) (n : N) (s : bytes) : option (bytes * bytes) :=
  if n =? 0 then Some ([], s) else
  match s with
  | [] => if eof then Some ([], []) else None
  | c :: r =>
      if c =? 10 then Some ([c], r)
      else match readline eof (n - 1) r with
           | Some (l, rest) => Some (c :: l, rest)
           | None => None
           end
  end.

Definition blen (s : bytes) : N := N.of_nat (length s).

(* str.split() on a latin-1 decoded string: Unicode white space below 256 *)
Definition is_ws (c : N) : bool :=
  ((9 <=? c) && (c <=? 13)) || ((28 <=? c) && (c <=? 32)) || (c =? 133) || (c =? 160).

(* [cur] is the current word, reversed; rev_append cur [] = rev cur in linear time *)
Fixpoint words_go (s : bytes) (cur : bytes) : list bytes :=
  match s with
  | [] => match cur with [] => [] | _ => [rev_append cur []] end
  | c :: r =>
      if is_ws c then match cur with [] => words_go r [] | _ => rev_append cur [] :: words_go r [] end
      else words_go r (c :: cur)
  end.
Definition words (s : bytes) : list bytes := words_go s [].

Definition beqb (a b : bytes) : bool := if list_eq_dec N.eq_dec a b then true else false.

Definition S_HTTP_slash := bytes_of_string "HTTP/".
Definition S_HTTP09 := bytes_of_string "HTTP/0.9".
Definition S_GET := bytes_of_string "GET".
Definition S_HEAD := bytes_of_string "HEAD".
Definition S_POST := bytes_of_string "POST".
Definition S_PUT := bytes_of_string "PUT".
Definition S_DELETE := bytes_of_string "DELETE".

Fixpoint split_dot (s : bytes) : list bytes :=
  match s with
  | [] => [[]]
  | c :: r => if c =? 46 then [] :: split_dot r
              else match split_dot r with x :: xs => (c :: x) :: xs | [] => [[c]] end
  end.

Fixpoint dec_value (acc : N) (s : bytes) : N :=
  match s with [] => acc | c :: r => dec_value (acc * 10 + (c - 48)) r end.

(* a version component accepted by parse_request: isdigit(), at most 10 characters, int() works *)
Definition vcomp_ok (s : bytes) : bool :=
  negb (match s with [] => true | _ => false end) && forallb is_digit s && (blen s <=? 10).

Inductive vres := VBad | VTooNew | VOk.
Definition check_version (v : bytes) : vres :=
  match strip_prefix S_HTTP_slash v with
  | None => VBad
  | Some base =>
      match split_dot base with
      | [a; b] => if vcomp_ok a && vcomp_ok b then (if 2 <=? dec_value 0 a then VTooNew else VOk) else VBad
      | _ => VBad
      end
  end.

(* what http.server decided about the head *)
Inductive head :=
| HClose                                     (* nothing is sent, the connection is closed *)
| HWait                                      (* blocked in readline: the head is incomplete and the client keeps the connection open *)
| HError (simple : bool) (code : N) (is_head : bool)   (* http.server's own send_error; simple = request_version is HTTP/0.9: no status line, no headers *)
| HDispatch (simple : bool) (method path : bytes).     (* do_<method> exists: _delegate_request runs *)

Definition MAXLINE : N := 65536.

(* http.client._read_headers: [budget] = lines that may still be read (101 at the start) *)
Fixpoint read_headers (budget : nat) (eof : bool) (s : bytes) : option (option N) :=
  (* None = blocked; Some None = header block read; Some (Some 431) = LineTooLong / too many headers *)
  match budget with
  | O => Some (Some 431)
  | S k =>
      match readline eof (MAXLINE + 1) s with
      | None => None
      | Some (line, rest) =>
          if MAXLINE <? blen line then Some (Some 431)
          else match k with
               | O => Some (Some 431)                       (* the 101st line, whatever it is *)
               | _ => if beqb line [13; 10] || beqb line [10] || beqb line [] then Some None
                      else read_headers k eof rest
               end
      end
  end.

Definition is_method (m : bytes) : bool :=
  beqb m S_GET || beqb m S_HEAD || beqb m S_POST || beqb m S_PUT || beqb m S_DELETE.

(* if self.path.startswith('//'): self.path = '/' + self.path.lstrip('/') *)
Fixpoint lstrip_slash (p : bytes) : bytes :=
  match p with c :: r => if c =? 47 then lstrip_slash r else p | [] => [] end.
Definition collapse (p : bytes) : bytes :=
  match p with a :: b :: _ => if (a =? 47) && (b =? 47) then 47 :: lstrip_slash p else p | _ => p end.

Definition after_request_line (eof : bool) (request_version command path rest : bytes) : head :=
  let simple := beqb request_version S_HTTP09 in
  match read_headers 101 eof rest with
  | None => HWait
  | Some (Some code) => HError simple code (beqb command S_HEAD)
  | Some None =>
      if is_method command then HDispatch simple command (collapse path)
      else HError simple 501 (beqb command S_HEAD)
  end.

(* handle_one_request + parse_request *)
Definition parse_head (eof : bool) (data : bytes) : head :=
  match readline eof (MAXLINE + 1) data with
  | None => HWait
  | Some (raw, rest) =>
      if MAXLINE <? blen raw then HError false 414 false       (* request_version = '' *)
      else match raw with
           | [] => HClose
           | _ =>
             let ws := words raw in
             match ws with
             | [] => HClose                                      (* parse_request returns False without an answer *)
             | [_] => HError true 400 false                      (* "Bad request syntax", request_version still HTTP/0.9 *)
             | [command; path] =>
                 if beqb command S_GET then after_request_line eof S_HTTP09 command path rest
                 else HError true 400 false                      (* "Bad HTTP/0.9 request type" *)
             | command :: path :: more =>
                 let version := last more [] in
                 match check_version version with
                 | VBad => HError true 400 false                 (* "Bad request version", request_version still HTTP/0.9 *)
                 | VTooNew => HError true 505 false
                 | VOk =>
                     match more with
                     | [_] => after_request_line eof version command path rest
                     | _ => HError (beqb version S_HTTP09) 400 false   (* more than three words *)
                     end
                 end
             end
           end
  end.

(* ---------- vinegar's part ---------- *)
(* a request handler as far as dispatch is concerned: prepare_context and can_handle together are a
   predicate on the path; [h_boom] says for which paths prepare_context raises (constantly false for
   the repository's handlers; a scripted faulty handler uses it); handle does what [h_act] says *)
Record hspec := { h_pred : bytes -> bool; h_boom : bytes -> bool; h_act : hact }.
Definition to_handler (path : bytes) (h : hspec) : handler :=
  {| prep_raises := h_boom h path; can_raises := false; can := h_pred h path; act := h_act h |}.

Definition act_raises (a : hact) : bool :=
  match a with
  | HRaise => true
  | HReturn _ _ (Some (_, true)) => true       (* the returned stream fails while being copied *)
  | _ => false
  end.

(* does _delegate_request log an exception (inner or outer `except Exception`)? *)
Fixpoint logs_exception (hs : list handler) : bool :=
  match hs with
  | [] => false
  | h :: r => if prep_raises h || can_raises h then true
              else if can h then act_raises (act h) else logs_exception r
  end.

Inductive reaction :=
| RClosed
| RWait
| REnvError (simple : bool) (code : N) (is_head : bool)
| RVinegar (simple : bool) (wire : bytes) (r : response) (internal : bool).
   (* wire = what _delegate_request wrote; r = the response it stands for; internal = an exception was logged *)

Definition set_head (e : env) (m : bytes) : env :=
  {| e_server := e_server e; e_date := e_date e; e_responses := e_responses e; e_head := beqb m S_HEAD |}.

(* with request_version HTTP/0.9, send_response_only / send_header / end_headers do nothing: only what
   goes through wfile.write reaches the client, i.e. the body of the specified response *)
Definition vinegar_react (e : env) (hs : list hspec) (simple : bool) (method path : bytes) : reaction :=
  let e' := set_head e method in
  let hs' := map (to_handler path) hs in
  let r := expected e' path hs' in
  RVinegar simple
           (if simple then r_body r else wire (delegate false e' path hs'))
           r
           (if bad_path path then false else logs_exception hs').

Definition react (e : env) (hs : list hspec) (eof : bool) (data : bytes) : reaction :=
  match parse_head eof data with
  | HClose => RClosed
  | HWait => RWait
  | HError s c h => REnvError s c h
  | HDispatch s m p => vinegar_react e hs s m p
  end.

(* ---------- what the client observes ---------- *)
Inductive cobs :=
| OClosed                       (* end of stream, no byte received *)
| OResponse (code : N)          (* a well-formed HTTP/1.x response *)
| OSimple                       (* bytes without a status line (HTTP/0.9 style answer) *)
| OHang.                        (* neither bytes nor end of stream *)

Definition observe (r : reaction) : cobs :=
  match r with
  | RClosed => OClosed
  | RWait => OHang
  | REnvError simple code is_head => if simple then (if is_head then OClosed else OSimple) else OResponse code
  | RVinegar simple w resp _ =>
      if simple then (match w with [] => OClosed | _ => OSimple end) else OResponse (r_code resp)
  end.

Definition internal_of (r : reaction) : bool :=
  match r with RVinegar _ _ _ i => i | _ => false end.

(* ---------- a request head as a client means it ---------- *)
Definition CRLF2 : bytes := [13; 10].
Definition render_head (method target version : bytes) (header_lines : list bytes) : bytes :=
  method ++ 32 :: target ++ 32 :: version ++ CRLF2 ++ flat_map (fun l => l ++ CRLF2) header_lines ++ CRLF2.

Definition token (s : bytes) : bool :=
  negb (match s with [] => true | _ => false end) && forallb (fun c => negb (is_ws c)) s.
Definition header_line_ok (l : bytes) : bool :=
  negb (match l with [] => true | _ => false end) && forallb (fun c => negb (c =? 10)) l && (blen l <? 65000).
