(* Model for C17, part 2: JinjaEngine._PythonHelper._check_access - the allow-list test and its
   result cache with the reset at 1024 entries.  Definitions only. *)
From Coq Require Import List NArith Bool Arith.
From VF Require Import Jinja.PosixPath.
Import ListNotations.
Open Scope N_scope.

Fixpoint starts_with (p s : bytes) : bool :=
  match p, s with
  | [], _ => true
  | a :: p', b :: s' => (a =? b) && starts_with p' s'
  | _ :: _, [] => false
  end.
Definition ends_with (suffix s : bytes) : bool := starts_with (rev suffix) (rev s).

Definition STAR : bytes := [42].
Definition DOTSTAR : bytes := [46; 42].

(* one iteration of the loop over the allow-list;
   [cut] = how many characters are removed from a "p.*" entry before the prefix test:
   1 as written (allowed[:-1] = "p."), 2 for the mutant startswith(allowed[:-2]) *)
Definition allowed_by (cut : nat) (entry m : bytes) : bool :=
  if bytes_eqb entry STAR then true
  else if ends_with DOTSTAR entry then starts_with (firstn (length entry - cut) entry) m
  else bytes_eqb entry m.

Definition allowed (cut : nat) (allow : list bytes) (m : bytes) : bool := existsb (fun e => allowed_by cut e m) allow.

(* self._cache: module name -> bool, insertion ordered, unique keys *)
Definition acache := list (bytes * bool).
Fixpoint clookup (c : acache) (m : bytes) : option bool :=
  match c with
  | [] => None
  | (k, v) :: r => if bytes_eqb k m then Some v else clookup r m
  end.

(* _check_access: returns the new cache and whether access is granted (False = RuntimeError) *)
Definition check_access (cut : nat) (limit : nat) (allow : list bytes) (c : acache) (m : bytes) : acache * bool :=
  match clookup c m with
  | Some b => (c, b)
  | None =>
      let b := allowed cut allow m in
      ((if (limit <=? length c)%nat then [] else c) ++ [(m, b)], b)
  end.

Fixpoint check_all (cut limit : nat) (allow : list bytes) (c : acache) (ms : list bytes) : acache * list bool :=
  match ms with
  | [] => (c, [])
  | m :: r => let '(c1, b) := check_access cut limit allow c m in
              let '(c2, bs) := check_all cut limit allow c1 r in (c2, b :: bs)
  end.

(* ---------- _PythonHelper.__getitem__ ---------- *)
(* key.rsplit(".", 1): module name and attribute name, split at the LAST dot *)
Fixpoint cut_at_dot (l : bytes) : option (bytes * bytes) :=
  match l with
  | [] => None
  | c :: r => if c =? 46 then Some ([], r)
              else match cut_at_dot r with Some (a, b) => Some (c :: a, b) | None => None end
  end.
Definition rsplit_dot (key : bytes) : option (bytes * bytes) :=
  match cut_at_dot (rev key) with
  | Some (rattr, rmod) => Some (rev rmod, rev rattr)
  | None => None
  end.

Inductive goutcome :=
| GValueError      (* key without a dot *)
| GDenied          (* RuntimeError from _check_access *)
| GNoModule        (* ModuleNotFoundError from importlib.import_module(module_name) *)
| GNoAttr          (* AttributeError from getattr (jinja2 turns it into an undefined value) *)
| GValue.          (* getattr(module, attribute) is handed to the template *)

(* is_module / has_attr: the Python installation (oracles) *)
Definition getitem (cut : nat) (allow : list bytes) (is_module : bytes -> bool) (has_attr : bytes -> bytes -> bool)
           (key : bytes) : goutcome :=
  match rsplit_dot key with
  | None => GValueError
  | Some (m, a) =>
      if negb (allowed cut allow m) then GDenied
      else match m with
           | [] => GValueError                (* importlib.import_module(""): ValueError("Empty module name") *)
           | 46 :: _ => GNoAttr               (* relative name: TypeError, which jinja2 turns into an undefined value *)
           | _ => if negb (is_module m) then GNoModule
                  else if has_attr m a then GValue else GNoAttr
           end
  end.
