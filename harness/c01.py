"""C01 - TFTP octet transfers deliver the handler's bytes exactly, even under packet loss."""
import itertools

import common
from common import Check, sx, all_chunkings
import tftp_common as T


class C01(Check):
    ident = "C01"
    technique = "Coq proof: reader refinement + monitor acceptance of every model trace; extracted-model correspondence"
    impl_canon_from_driver = True
    rule = ("case = (content, chunking of source reads, block size via blksize option, wrap value, retries, script of "
            "time-stamped client/foreign datagrams); exhaustive: contents of length 0..2*bs+1 x all chunkings (<=6 bytes) "
            "and all scripts of <= 3 datagrams over an ACK/ERROR/garbage alphabet x arrival offsets; random: cooperative "
            "clients with bounded loss/duplicate/stale/future/foreign faults, and one transfer crossing block 65535 per "
            "wrap value; non-trivial = trace has >= 2 DATA packets or a retransmission; distinct by full case")
    assumptions = ["fake socket delivers the head datagram iff its time stamp is before the socket timeout elapses; "
                   "processing takes no virtual time", "file.read(n) returns 1..n bytes until EOF"]

    def gen(self, tier, rng):
        quick = tier == "quick"
        # (a) reader chunkings, small contents, well-behaved client
        for n in range(0, 7):
            content = bytes((65 + i) % 256 for i in range(n))
            for ch in all_chunkings(n):
                wants = [0] + T.numbering(n // 8 + 1, 0)
                ev = [(i + 1, 0, T.ack(w)) for i, w in enumerate(wants)]
                yield T.mk_case(content, ch, options=[("blksize", "8")], events=ev)
        for n in (7, 8, 9, 15, 16, 17, 24):
            for _ in range(4 if quick else 30):
                content = bytes(rng.randrange(256) for _ in range(n))
                ch = [rng.randrange(1, 9) for _ in range(rng.randrange(0, n + 1))]
                wants = [0] + T.numbering(n // 8 + 1, 0)
                ev = T.coop_script(rng, wants, 2 * T.TICKS, 2)
                yield T.mk_case(content, ch, options=[("blksize", "8")], retries=2, events=ev)
        # (b) exhaustive short scripts
        tm = 2 * T.TICKS
        full_pk = [p for (_, p) in T.PACKET_ALPHABET]
        if quick:
            plans = [(2, [0, 1, tm - 1, tm, tm + 1], (0, 5, 2), full_pk[:8], (0, 600, 1024))]
        else:
            plans = [(2, T.time_steps(tm), (0, 0, 1, 2), full_pk, (0, 600)),
                     (3, [0, tm - 1, tm, tm + 1], (0, 1), full_pk[:4] + full_pk[4:6] + [full_pk[8]], (600, 1024))]
        for (L, steps, addrs, pk, sizes) in plans:
            for n in sizes:
                content = bytes(i % 251 for i in range(n))
                for k in range(0, L + 1):
                    for combo in itertools.product(itertools.product(steps, addrs, pk), repeat=k):
                        t = 0
                        ev = []
                        for (dt, a, p) in combo:
                            t += dt
                            ev.append((t, a, p))
                        yield T.mk_case(content, [], retries=1, events=ev)
        # (c) random cooperative clients, various block sizes / wraps / faults
        for _ in range(150 if quick else 2500):
            bs = rng.choice([8, 9, 16, 512, 1428])
            nb = rng.randrange(0, 6)
            n = rng.choice([nb * bs, nb * bs + rng.randrange(0, bs), max(0, nb * bs - 1)])
            content = bytes(rng.randrange(256) for _ in range(n))
            retries = rng.choice([1, 2, 3])
            tmo = rng.choice([1, 2, 5])
            opts = [] if bs == 512 and rng.random() < 0.5 else [("blksize", str(bs))]
            if rng.random() < 0.3:
                opts.append(("timeout", str(tmo)))
            else:
                tmo = 2
            # a server limit below / at / above the requested size: the blocks have the size the OACK announces
            max_bs = 65464
            if opts and opts[0][0] == "blksize" and rng.random() < 0.3:
                max_bs = rng.choice([8, max(8, bs - 1), bs, bs + 1])
            ebs = min(bs, max_bs)
            wants = ([0] if opts else []) + T.numbering(n // ebs + 1, 0)
            ev = T.coop_script(rng, wants, tmo * T.TICKS, retries, fault_rate=rng.choice([0.0, 0.3, 0.8]))
            if rng.random() < 0.25 and ev:       # truncate: client disappears
                ev = ev[:rng.randrange(0, len(ev))]
            ch = [rng.randrange(1, bs + 3) for _ in range(rng.randrange(0, 12))]
            # delivery does not depend on how long the server needs per datagram as long as the ACKs stay in time
            proc = rng.choice([0, 0, 0, 1, 3])
            yield T.mk_case(content, ch, options=opts, retries=retries, wrap=rng.choice([0, 1, None]), events=ev,
                            max_bs=max_bs, proc=proc)
        # (d) crossing block 65535: plain, and with duplicated / stale / future ACKs around the wrap
        for wrap in ((0, 1, None) if not quick else (None,)):
            nblocks = 65538
            content = bytes(i % 253 for i in range(8 * (nblocks - 1) + 3))
            wants = [0] + T.numbering(nblocks, wrap)
            ev = [(i, 0, T.ack(w)) for i, w in enumerate(wants)]
            yield T.mk_case(content, [], options=[("blksize", "8")], wrap=wrap, events=ev)
        # exactly 65536 blocks: the short final block is the one numbered `wrap`; 65540: data after the wrap
        for (wrap, nblocks) in (((0, 65536),) if quick else ((0, 65536), (1, 65536), (0, 65540), (1, 65540))):
            content = bytes(i % 253 for i in range(8 * (nblocks - 1) + 5))
            wants = [0] + T.numbering(nblocks, wrap)
            ev = []
            t = 0
            for i, w in enumerate(wants):
                if i >= 65534 and i > 0:
                    # noise while block w is outstanding: duplicate of the previous ACK, stale and future ones
                    for noise in (wants[i - 1], 65535, 65534, (w + 1) & 0xFFFF, 1):
                        if noise != w:
                            ev.append((t, 0, T.ack(noise)))
                            t += 1
                ev.append((t, 0, T.ack(w)))
                t += 1
            yield T.mk_case(content, [], options=[("blksize", "8")], wrap=wrap, retries=6, events=ev)
        # handler streams that are io.BufferedIOBase subclasses and still return short reads
        for _ in range(40 if quick else 400):
            bs = rng.choice([8, 16, 512])
            n = rng.randrange(0, 5 * bs)
            content = bytes(rng.randrange(256) for _ in range(n))
            ch = [rng.randrange(1, bs + 2) for _ in range(rng.randrange(1, 12))]
            opts = [("blksize", str(bs))] if bs != 512 else []
            wants = ([0] if opts else []) + T.numbering(n // bs + 1, 0)
            ev = [(i + 1, 0, T.ack(w)) for i, w in enumerate(wants)]
            yield T.mk_case(content, ch, options=opts, kind=("bufshort",), events=ev)
        # streams of every kind that the handler has already partly consumed (a signature line read and checked,
        # a header skipped): what is supplied is what read() returns from the current position on, whatever the
        # options (tsize makes the server look at the stream before the first read)
        for _ in range(60 if quick else 600):
            bs = rng.choice([8, 16, 512])
            n = rng.randrange(0, 4 * bs)
            content = bytes(rng.randrange(256) for _ in range(n))
            p = rng.choice([0, 1, 3, bs, bs + 5])
            kind = rng.choice([("bytesio", p), ("file", p), ("seekpos", p), ("seekpos", p), ("sized",), ("pipe",)])
            opts = ([("blksize", str(bs))] if bs != 512 else []) + ([("tsize", "0")] if rng.random() < 0.7 else [])
            rng.shuffle(opts)
            size_known = kind[0] in ("bytesio", "file")
            oack = any(nm == "blksize" for nm, _ in opts) or (size_known and any(nm == "tsize" for nm, _ in opts))
            wants = ([0] if oack else []) + T.numbering(n // bs + 1, 0)
            ev = [(i + 1, 0, T.ack(w)) for i, w in enumerate(wants)]
            ch = [] if kind[0] in ("bytesio", "file", "pipe") else [rng.randrange(1, bs + 2) for _ in range(rng.randrange(0, 6))]
            yield T.mk_case(content, ch, options=opts, kind=kind, events=ev)

    extra_bins = ("c01send", "c01cfg", "c01pkt")

    def accept_case(self, c):
        import fake_net
        return fake_net.can_drive(c["default_tmo"], c["max_tmo"], c["retries"], c["max_bs"], c["wrap"])

    def extra_checks(self, tier, rng, report):
        # send failures towards the client: the retry loops against Tftp/SendFaults.v (C01: delivery within the
        # budget; C02: at most 1 + max_retries sends of one packet; C07/C09 subclass this class and skip it)
        if self.ident in ("C01", "C02"):
            import c01_pkt
            c01_pkt.pkt_checks(tier, rng, report, self.ident)
            import c01_send
            c01_send.send_checks(tier, rng, report)
        if self.ident in ("C01", "C02"):
            # what the CLI wiring and TftpServer.__init__ hand to the transfers (wrap value, limits): Tftp/ServerConfig.v
            import c01_cfg
            c01_cfg.cfg_checks(tier, rng, report)

    def replay_extra(self, case):
        if case.get("part") == "send-faults":
            import c01_send
            return c01_send.replay(case)
        if case.get("part") == "server-config":
            import c01_cfg
            return c01_cfg.replay(case)
        if case.get("part") == "handler-outcome" and not case.get("through_real_file_handler_with_filename"):
            import c09_outcome
            return c09_outcome.replay(case)
        return None

    def impl(self, c):
        return T.run_impl(c)

    def line(self, c, obs):
        return sx([T.case_sx(c), obs])

    def canon(self, obs):
        return obs

    def nontrivial(self, c, obs):
        nd = sum(1 for e in obs if e[0] == 1 and e[2] == 0 and e[3][0] == 3)
        if nd >= 2:
            return (c["content"][:64], len(c["content"]), tuple(c["chunks"]), tuple(c["options"]), c["wrap"], c["retries"],
                    tuple(c["events"][:40]))
        return None

    def show(self, c):
        d = dict(c)
        if c.get("_extra") and "content" not in c:
            return d
        d["content"] = c["content"].hex() if len(c["content"]) <= 64 else f"<{len(c['content'])} bytes: i%251 or random>"
        d["events"] = [(t, a, p.hex()) for (t, a, p) in c["events"][:50]] + (["..."] if len(c["events"]) > 50 else [])
        return d

    def shrink(self, c):
        ev = c["events"]
        for i in range(len(ev)):
            yield dict(c, events=ev[:i] + ev[i + 1:])
        ct = c["content"]
        if len(ct) > 0:
            yield dict(c, content=ct[:len(ct) // 2])
            yield dict(c, content=ct[:-1])
        if c["chunks"]:
            yield dict(c, chunks=c["chunks"][:-1])


if __name__ == "__main__":
    raise SystemExit(C01().main())
