"""C07 - TFTP option negotiation follows RFC 2347-2349; the transfer honours the OACK."""
import itertools
import os
import re
import tempfile

import common
from common import Check, sx
import tftp_common as T
from c01 import C01

KNOWN = ("blksize", "timeout", "tsize")
ORDER = {"blksize": 0, "timeout": 1, "tsize": 2}
UNKNOWN_NAMES = ["windowsize", "x", "blksize2", "tsiz", "time out", ""]
NON_DECIMAL = ["", "0", "08", "008", "+8", "-8", " 8", "8 ", "8\n", "8.0", "0x10", "1e3", "1_0", "eight", "8a", "a8"]
HUGE = ["99999999999999999999", "1" + "0" * 60, "9" * 300]


def styles(name, rng=None):
    """the three letter cases of an option name"""
    mixed = "".join(ch.upper() if i % 2 == 0 else ch.lower() for i, ch in enumerate(name))
    return [name.lower(), name.upper(), mixed]


def blksize_grid(max_bs):
    nums = [0, 1, 7, 8, 9, 15, 16, 511, 512, 513, max_bs - 1, max_bs, max_bs + 1, 65464, 65465, 65535, 65536]
    return sorted({str(n) for n in nums if n >= 0}) + NON_DECIMAL + HUGE


def timeout_grid(max_tmo):
    nums = [0, 1, 2, 3, max_tmo - 1, max_tmo, max_tmo + 1, 254, 255, 256]
    return sorted({str(n) for n in nums if n >= 0}) + ["01", "+1", "-1", " 1", "1 ", "", "1.0", "one", "1s"] + HUGE[:2]


TSIZE_GRID = ["0", "1", "00", "", "-0", "+0", " 0", "0 ", "512", "0\n", "O"]

KINDS = [("bytesio", 0), ("bytesio", 3), ("file", 0), ("file", 4), ("pipe",), ("noreg",)]
# ("fileread", k): a real buffered file (open(path, "rb")) whose first k bytes the handler has READ (not seek()ed)
# before returning it: the logical position is k while the descriptor offset is at the end of the read-ahead
# buffer.  Model: KRealFile (k + len(content)) k true, as for ("file", k).
READ_KINDS = [("fileread", 1), ("fileread", 3)]


def predict(c):
    """what a correct server would negotiate - used ONLY to size contents and client scripts
    (the verdict comes from the Coq specification, never from this function)"""
    o = {}
    for (k, v) in c["options"]:
        o[k.lower()] = v
    dec = re.compile(r"[1-9][0-9]*\Z")
    bs, tmo, n = 512, c["default_tmo"], 0
    v = o.get("blksize")
    if v is not None and dec.match(v) and int(v) >= 8:
        bs = min(int(v), c["max_bs"])
        n += 1
    v = o.get("timeout")
    if v is not None and dec.match(v) and 1 <= int(v) <= c["max_tmo"]:
        tmo = int(v)
        n += 1
    if o.get("tsize") == "0" and not c["netascii"] and c["kind"][0] in ("bytesio", "file", "fileread"):
        n += 1
    return bs, tmo, n > 0


def content_for(bs, rng, netascii=False):
    """small content that still has >= 2 full blocks when the block size is small enough"""
    if bs <= 1024:
        n = 2 * bs + rng.choice([0, 1, 3, bs - 1])
    else:
        n = rng.choice([0, 5, 20])
    if netascii:
        return bytes(rng.choice([65, 66, 13, 10, 0]) for _ in range(n))
    return bytes((i * 7 + 1) % 251 for i in range(n))


def with_script(c, style, rng):
    """attach a client script: coop = ACK 0 then every block; silent = nothing (retransmission interval
    visible); skip0 = acknowledges block 1 without ACK 0; late = ACKs arriving just before the deadline"""
    bs, tmo, oack = predict(c)
    n = len(c["content"]) + (c["content"].count(b"\n") + c["content"].count(b"\r") if c["netascii"] else 0)
    wants = ([0] if oack else []) + T.numbering(n // bs + 1, c["wrap"])
    if style == "coop":
        ev = [(i + 1, 0, T.ack(w)) for i, w in enumerate(wants)]
    elif style == "coop0":      # always starts with ACK 0, whether or not an OACK is due
        ev = [(i + 1, 0, T.ack(w)) for i, w in enumerate([0] + T.numbering(n // bs + 1, c["wrap"]))]
    elif style == "silent":
        ev = []
    elif style == "skip0":
        ev = [(i + 1, 0, T.ack(w)) for i, w in enumerate(T.numbering(n // bs + 1, c["wrap"]))]
    elif style == "late":
        ev, t = [], 0
        for w in wants:
            t += tmo * T.TICKS - 1
            ev.append((t, 0, T.ack(w)))
    elif style == "dup":        # a duplicate of the previous ACK arrives at mid-interval, the matching ACK a little later
        ev, t, prev = [], 0, None
        for w in wants:
            if prev is not None:
                t += (tmo * T.TICKS) // 2
                ev.append((t, 0, T.ack(prev)))
                ev.append((t + 1, 0, T.ack(prev)))
                t += 3
            else:
                t += 1
            ev.append((t, 0, T.ack(w)))
            prev = w
    elif style == "lossy":
        ev = T.coop_script(rng, wants, tmo * T.TICKS, c["retries"], fault_rate=0.6)
    else:
        raise ValueError(style)
    return dict(c, events=[(int(t), int(a), bytes(d)) for (t, a, d) in ev])


def canon_oack(trace):
    """OACK compared as a map with case-insensitive names: names lower-cased, known options first in the
    fixed order blksize, timeout, tsize"""
    out = []
    for e in trace:
        if e[0] == 1 and e[3][0] == 6:
            opts = [[bytes(k).lower(), v] for (k, v) in e[3][1]]
            opts.sort(key=lambda kv: (ORDER.get(kv[0].decode("latin-1"), 9), kv[0]))
            e = [e[0], e[1], e[2], [6, opts]]
        out.append(e)
    return out


def run_impl_fileread(c):
    """own handler (tftp_common is not changed): real buffered file advanced by read(k)"""
    k = c["kind"][1]
    released = []
    paths = []

    def handler(filename, client, server, context):
        fd, path = tempfile.mkstemp(prefix="vf_tsize_rd_")
        os.write(fd, b"P" * k + c["content"])
        os.close(fd)
        paths.append(path)
        f = open(path, "rb")
        assert f.read(k) == b"P" * k
        return T._LoggedFile(f, released)
    try:
        tr = T.run_impl(c, handler=handler)
    finally:
        for p in paths:
            try:
                os.remove(p)
            except OSError:
                pass
    if released:
        # the real code releases the file directly before the socket (nested with-blocks)
        i = max((j for j, e in enumerate(tr) if e == [6]), default=len(tr))
        tr = tr[:i] + [[5]] + tr[i:]
    return tr


class C07(C01):
    ident = "C07"
    technique = ("Coq proof: negotiate = declarative RFC 2347-2349 specification (blksize/timeout/tsize rules, "
                 "case-insensitive names, canonical decimals), RRQ codec round trip; monitor + specification clauses "
                 "evaluated on the real _TftpReadRequest; extracted-model correspondence")
    rule = ("case = (ordered option list with names in lower/UPPER/MiXeD case incl. duplicates differing in case, values from "
            "the boundary grid 0,1,7,8,9,511,512,513,max-1,max,max+1,65464,65465,65535,65536 + non-decimal/signed/padded/empty/"
            "huge, server limits max_block_size {8,512,1024,65464} x max_timeout {1,5,30,255} x default_timeout {1,2,5}, stream "
            "kind bytesio@0/@3, file@0/@4 (seek), buffered file advanced by read(1|3) below/above the 8 KiB read-ahead, pipe, no-fileno, mode octet/netascii, client script coop/silent/skip-ACK0/late/lossy/duplicate-ACK at mid-interval); "
            "exhaustive: every single option x value grid x limits (x kinds x modes for tsize), all 65 ordered selections of "
            "{blksize,timeout,tsize,unknown} x 3 letter cases x accept/reject values; random mixes; non-trivial = request has "
            ">= 1 option; distinct by (options, limits, kind, mode, script)")
    assumptions = C01.assumptions + [
        "option strings are ASCII (they come from decode('ascii','ignore')) and shorter than a request packet",
        "a BytesIO / regular file announces len - position resp. st_size - tell() bytes and then delivers exactly those",
    ]

    def base(self, options, max_bs=65464, max_tmo=30, default_tmo=2, kind=("noreg",), netascii=False, retries=1,
             wrap=0):
        # the option argument of _TftpReadRequest is a dict: exact duplicates collapse as in decode_read_request
        options = list(dict(options).items())
        return T.mk_case(b"", [], netascii=netascii, options=options, max_bs=max_bs, max_tmo=max_tmo,
                         default_tmo=default_tmo, retries=retries, wrap=wrap, kind=kind, events=[])

    def finish(self, c, rng, style):
        bs, _tmo, _ = predict(c)
        c = dict(c, content=content_for(bs, rng, c["netascii"]))
        if c["kind"][0] == "noreg" and rng.random() < 0.3:
            c = dict(c, chunks=[rng.randrange(1, 9) for _ in range(rng.randrange(0, 6))])
        return with_script(c, style, rng)

    def gen(self, tier, rng):
        quick = tier == "quick"
        # (0) witnesses of the repaired defects first (D2: blksize above the limit; D3: file offset, pipe)
        for name in ("blksize", "BlkSize"):
            yield self.finish(self.base([(name, "1400")], max_bs=1024), rng, "coop")
        for kind in (("file", 4), ("pipe",), ("bytesio", 3)):
            yield self.finish(self.base([("tsize", "0")], kind=kind), rng, "coop")
        # D21: a stream positioned beyond its end delivers nothing and announces tsize=0
        for kind in (("bytesio", 3, 7), ("bytesio", 0, 1), ("file", 4, 2), ("file", 0, 1)):
            for opts in ([("tsize", "0")], [("tsize", "0"), ("blksize", "8")], [("blksize", "8")], []):
                for na in (False, True):
                    yield with_script(self.base(opts, kind=kind, netascii=na), "coop", rng)
        # (a) blksize alone: value grid x max_block_size x letter case
        for max_bs in (8, 512, 1024, 65464):
            for v in blksize_grid(max_bs):
                for name in styles("blksize"):
                    c = self.base([(name, v)], max_bs=max_bs)
                    yield self.finish(c, rng, "coop")
                    if name == "blksize":
                        yield self.finish(c, rng, "skip0")
        # (b) timeout alone: value grid x max_timeout x default_timeout, silent client shows the interval
        for max_tmo in (1, 5, 30, 255):
            for dflt in (1, 2, 5):
                if dflt > max_tmo:
                    continue
                for v in timeout_grid(max_tmo):
                    if v.isdigit() and int(v) > 40 and quick and dflt != 2:
                        continue
                    for name in styles("timeout"):
                        if name != "timeout" and (quick and rng.random() < 0.3):
                            continue
                        c = self.base([(name, v)], max_tmo=max_tmo, default_tmo=dflt, retries=rng.choice([0, 1, 2]))
                        yield self.finish(c, rng, "silent")
                        if name == "timeout":
                            yield self.finish(c, rng, rng.choice(["coop", "late"]))
        # (c) tsize alone: value grid x stream kind x mode x letter case
        for v in TSIZE_GRID:
            for kind in KINDS:
                for na in (False, True):
                    for name in styles("tsize"):
                        c = self.base([(name, v)], kind=kind, netascii=na)
                        yield self.finish(c, rng, "coop")
        # (d) all ordered selections of {blksize, timeout, tsize, unknown} x letter case x accept/reject values
        vals = {"blksize": ["8", "7", "MAX+1", "08"], "timeout": ["1", "MAXT+1", "0"], "tsize": ["0", "1"],
                "unknown": ["x", "0"]}
        for k in range(0, 5):
            for sel in itertools.permutations(("blksize", "timeout", "tsize", "unknown"), k):
                for st in range(3):
                    for combo in itertools.product(*[vals[s] for s in sel]):
                        if quick and k >= 3 and rng.random() < 0.5:
                            continue
                        max_bs = rng.choice([8, 512, 1024, 65464])
                        max_tmo = rng.choice([1, 5, 30])
                        opts = []
                        for s, v in zip(sel, combo):
                            nm = rng.choice(UNKNOWN_NAMES) if s == "unknown" else s
                            v = v.replace("MAXT+1", str(max_tmo + 1)).replace("MAX+1", str(max_bs + 1))
                            opts.append((styles(nm)[st], v))
                        c = self.base(opts, max_bs=max_bs, max_tmo=max_tmo, default_tmo=1,
                                      kind=rng.choice(KINDS), netascii=rng.random() < 0.3)
                        yield self.finish(c, rng, rng.choice(["coop", "coop", "coop0", "silent", "skip0"]))
        # (e) duplicates differing in letter case (later one wins), also against an exact repetition of a value
        for nm in KNOWN:
            good = {"blksize": ["16", "9", "2000"], "timeout": ["1", "3"], "tsize": ["0"]}[nm]
            bad = {"blksize": ["7", "08", ""], "timeout": ["0", "999"], "tsize": ["1", ""]}[nm]
            for (a, b) in itertools.product(good + bad, repeat=2):
                for (n1, n2) in itertools.permutations(styles(nm), 2):
                    c = self.base([(n1, a), (n2, b)], max_bs=rng.choice([512, 1024]), kind=("bytesio", 2))
                    yield self.finish(c, rng, "coop")
        # (g) handler has read part of a real file: below and above the 8 KiB read-ahead buffer
        for kind in READ_KINDS:
            for n in (0, 5, 600, 8191, 8192, 9000):
                for opts in ([("tsize", "0")], [("TSIZE", "0"), ("blksize", "4096")]):
                    for na in (False, True):
                        if na and n > 600:
                            continue
                        c = self.base(opts, kind=kind, netascii=na)
                        c = dict(c, content=bytes((i * 5 + 2) % 251 for i in range(n)))
                        yield with_script(c, "coop", rng)
        # (h) duplicate / stale ACKs at mid-interval with a negotiated time-out different from the default
        for (tmo, dflt) in ((1, 2), (3, 1), (2, 5), (None, 2)):
            for extra in ([], [("blksize", "8")], [("tsize", "0")]):
                for retries in (1, 2):
                    opts = ([("timeout", str(tmo))] if tmo else []) + extra
                    if not opts:
                        continue
                    c = self.base(opts, max_tmo=5, default_tmo=dflt, retries=retries, kind=("bytesio", 0))
                    yield self.finish(c, rng, "dup")
        # (f) random mixtures
        for _ in range(6000 if quick else 60000):
            max_bs = rng.choice([8, 512, 1024, 1428, 65464])
            max_tmo = rng.choice([1, 2, 5, 30, 255])
            dflt = rng.choice([d for d in (1, 2, 5) if d <= max_tmo])
            opts = []
            for _k in range(rng.randrange(0, 6)):
                s = rng.choice(["blksize", "timeout", "tsize", "unknown"])
                nm = rng.choice(UNKNOWN_NAMES) if s == "unknown" else s
                nm = rng.choice(styles(nm))
                if s == "blksize":
                    v = rng.choice(blksize_grid(max_bs))
                elif s == "timeout":
                    v = rng.choice(timeout_grid(max_tmo))
                elif s == "tsize":
                    v = rng.choice(TSIZE_GRID + ["0"] * 6)
                else:
                    v = rng.choice(["", "0", "8", "x"])
                opts.append((nm, v))
            c = self.base(opts, max_bs=max_bs, max_tmo=max_tmo, default_tmo=dflt, kind=rng.choice(KINDS + READ_KINDS),
                          netascii=rng.random() < 0.25, retries=rng.choice([0, 1, 2, 3]), wrap=rng.choice([0, 1, None]))
            yield self.finish(c, rng, rng.choice(["coop", "coop", "coop0", "silent", "skip0", "late", "lossy", "dup"]))

    def impl(self, c):
        if c["kind"][0] == "fileread":
            return canon_oack(run_impl_fileread(c))
        return canon_oack(T.run_impl(c))

    def line(self, c, obs):
        if c["kind"][0] == "fileread":
            c = dict(c, kind=("file", c["kind"][1]))
        return sx([T.case_sx(c), obs])

    def nontrivial(self, c, obs):
        if c["options"]:
            return (tuple(c["options"]), c["max_bs"], c["max_tmo"], c["default_tmo"], c["kind"], c["netascii"],
                    len(c["content"]), tuple(c["events"][:8]))
        return None

    def shrink(self, c):
        opts = c["options"]
        for i in range(len(opts)):
            yield dict(c, options=opts[:i] + opts[i + 1:])
        ev = c["events"]
        for i in range(len(ev) - 1, -1, -1):
            yield dict(c, events=ev[:i] + ev[i + 1:])
        if c["chunks"]:
            yield dict(c, chunks=[])
        ct = c["content"]
        if len(ct) > 0:
            yield dict(c, content=ct[:len(ct) // 2])
            yield dict(c, content=ct[:-1])


if __name__ == "__main__":
    raise SystemExit(C07().main())
