"""C05 - client-address restrictions fail closed, leak nothing, deny before any change."""
import atexit
import builtins
import http.client
import io
import json
import ipaddress
import logging
import os
import re
import shutil
import socket
import sqlite3
import tempfile
import urllib.parse

import common
import pubscan
from common import Check, sx

from vinegar.request_handler import file as F
from vinegar.request_handler import sqlite_update as U
from vinegar.http.server import HttpRequestInfo
from vinegar.tftp.server import TftpError
from vinegar.tftp.protocol import ErrorCode as TftpErrorCode
from vinegar.utils.socket import contains_ip_address

_VLOG = logging.getLogger("vinegar")
_VLOG.addHandler(logging.NullHandler())
_VLOG.propagate = False                      # records are produced (level is a case dimension) but go nowhere
_VLOG.setLevel(logging.CRITICAL)
LOGLEVELS = [logging.CRITICAL, logging.WARNING, logging.INFO, logging.DEBUG]

KIND = {"contains": 0, "http": 1, "tftp": 1, "update": 2}
ACT = {"error": 0, "ignore": 1, "warn": 2}
FIND = {"found": 0, "none": 1, "raise": 2}
# file-system situations -> fs outcome of the model (Handlers.fs_out)
FS = {"content": 0, "missing": 1, "oserror": 2,
      "perm": 3,          # open() raises PermissionError on the file (injected fault)
      "perm_dir": 1,      # PermissionError on a directory (the Windows case): treated as not found
      "toolong": 1,       # ENAMETOOLONG: not found
      "rootdir": 0,       # directory mode, existing file below root_dir
      "nopath": 4}        # directory mode, request path that does not translate (".": no access at all)
CONTAINERS = {"list": list, "tuple": tuple, "frozenset": frozenset, "dict": lambda l: {e: None for e in l},
              "iter": lambda l: (e for e in l)}
ACTIONS = ["set_value", "delete_data", "delete_value", "set_json_value_from_request_body",
           "set_text_value_from_request_body"]
BODY_ACTIONS = ACTIONS[3:]


# ----------------------------------------------------------------------------- oracles
def pton(fam, s):
    try:
        return (0, socket.inet_pton(fam, s))
    except OSError:
        return (1, b"")
    except ValueError:
        return (2, b"")


def S(s):
    """a str for the driver: itself (-> #hex) when Latin-1, otherwise the list of its code points"""
    try:
        s.encode("latin-1")
        return s
    except UnicodeEncodeError:
        return [ord(ch) for ch in s]


def tables(strings):
    t4, t6 = {}, {}
    for s in strings:
        if not isinstance(s, str):
            continue
        for y in {s, s.rsplit("/", 1)[0]}:
            if y not in t4:
                t4[y] = pton(socket.AF_INET, y)
                t6[y] = pton(socket.AF_INET6, y)
    return ([[S(k), v[0], v[1]] for k, v in sorted(t4.items())], [[S(k), v[0], v[1]] for k, v in sorted(t6.items())])


# ----------------------------------------------------------------------------- independent decision (ipaddress)
_DIG = re.compile("[0-9]+")


def _embed(a):
    return a if a.version == 6 else ipaddress.IPv6Address((0xFFFF << 32) | int(a))


def ref_member(entries, client):
    """membership of the client in the union of the entries, decided with the ipaddress module
    (which, like inet_pton, accepts ASCII digits only; the mask must be ASCII [0-9]+);
    None when the decision is outside the reference's competence (scoped addresses)"""
    if not isinstance(client, str) or "%" in client:
        return None
    try:
        c = ipaddress.ip_address(client)
    except ValueError:
        return False
    res = False
    for e in entries:
        if not isinstance(e, str):
            continue
        if "%" in e:
            return None
        addr, mask = e, None
        if "/" in e:
            a0, m0 = e.rsplit("/", 1)
            if _DIG.fullmatch(m0):
                addr, mask = a0, int(m0)
        try:
            a = ipaddress.ip_address(addr)
        except ValueError:
            continue
        if mask is None:
            mask = a.max_prefixlen
        if mask > a.max_prefixlen:
            continue
        if a.version == 4:
            c4 = c if c.version == 4 else c.ipv4_mapped
            if c4 is not None and c4 in ipaddress.IPv4Network((int(a), mask), strict=False):
                res = True
        else:
            if _embed(c) in ipaddress.IPv6Network((int(a), mask), strict=False):
                res = True
    return res


# ----------------------------------------------------------------------------- real handlers
def nest(keypath, value):
    """the data tree that holds value under the colon-separated key (numeric components index a list)"""
    comps = keypath.split(":")
    d = value
    for i in range(len(comps) - 1, -1, -1):
        comp = comps[i]
        d = [None] * int(comp) + [d] if (i > 0 and comp.isdigit() and comp.isascii()) else {comp: d}
    return d


def _smart(d):
    from vinegar.utils.smart_dict import SmartLookupDict
    return SmartLookupDict(d)


def _ordered(d):
    import collections
    return collections.OrderedDict(d)


def _proxy(d):
    import types
    return types.MappingProxyType(d)


DATA_TYPES = [dict, _smart, _ordered, _proxy]


class DS:
    """recording data source whose calls can raise"""

    def __init__(self, find, getd, sys="sys1"):
        self.find, self.getd, self.sys, self.log = find, getd, sys, []
        self.keypath = "net:ip"

    def find_system(self, key, value):
        self.log.append(("find_system", key, value))
        if self.find == "raise":
            raise RuntimeError("find_system failed")
        return self.sys if self.find == "found" else None

    def get_data(self, system_id, preset, version):
        self.log.append(("get_data", system_id))
        if self.getd[0] == "raise":
            raise RuntimeError("get_data failed")
        d = self.data()
        # the data tree as other Mapping types a data source may legally return
        self.calls = getattr(self, "calls", 0) + 1
        wrap = DATA_TYPES[(self.calls + len(repr(self.getd))) % len(DATA_TYPES)]
        return wrap(d), "v1"

    def data(self):
        g = self.getd
        if g[0] == "missing":
            return g[1]                      # a dict without the key
        if g[0] == "typeerror":
            return g[1]                      # {"net": "text"} / {"net": 5}
        return nest(self.keypath, g[1])


class FaultyStore:
    """fault injection: every modifying operation of the data store fails like a locked database"""

    def __init__(self, real):
        self._real = real

    def _fail(self, *a, **k):
        raise sqlite3.OperationalError("database is locked")
    delete_data = delete_value = set_value = _fail

    def close(self):
        self._real.close()


class FakeEngine:
    def __init__(self, opener):
        self.opener = opener

    def render(self, path, context):
        with self.opener(path, mode="rb") as f:
            return f.read().decode()


class World:
    """temp dir with the served file, a missing path, a symlink loop, and the sqlite file"""

    def __init__(self):
        self.dir = tempfile.mkdtemp(prefix="c05-", dir="/dev/shm" if os.path.isdir("/dev/shm") else None)
        self.content = os.path.join(self.dir, "file.txt")
        with open(self.content, "wb") as f:
            f.write(b"secret content\n")
        self.missing = os.path.join(self.dir, "nope.txt")
        self.loop = os.path.join(self.dir, "loop")
        os.symlink(self.loop, self.loop)
        self.adir = os.path.join(self.dir, "adir")
        os.mkdir(self.adir)
        self.toolong = os.path.join(self.dir, "x" * 300)
        self.db = os.path.join(self.dir, "db.sqlite")
        self.counter = 0
        self.opens = 0
        self.perm_paths = set()               # fault injection: open() of these raises PermissionError
        self.prep = None
        real_open = builtins.open

        def rec_open(path, *a, **k):
            if str(path).startswith(self.dir):
                self.opens += 1
                if str(path) in self.perm_paths:
                    raise PermissionError(13, "Permission denied", str(path))
            return real_open(path, *a, **k)
        self.rec_open = rec_open
        F.open = rec_open                     # module-global lookup precedes builtins
        # the public template-engine factory hands out the recording fake for the engine name "c05-fake"
        import vinegar.template as VT
        self._real_factory = VT.get_template_engine

        def factory(name, config=None, *a, **k):
            if name == "c05-fake":
                return FakeEngine(rec_open)
            return self._real_factory(name, config, *a, **k)
        VT.get_template_engine = factory
        self._patched_f = "get_template_engine" in F.__dict__
        if self._patched_f:
            self._real_f_factory = F.get_template_engine
            F.get_template_engine = factory

    def prep_store(self):
        """a second data store object on the same file, used to put a fresh value in place before a request"""
        if self.prep is None:
            from vinegar.utils.sqlite_store import open_data_store
            self.prep = open_data_store(self.db)
        return self.prep

    def close(self):
        if self.prep is not None:
            try:
                self.prep.close()
            except Exception:   # noqa: BLE001
                pass
            self.prep = None
        import vinegar.template as VT
        VT.get_template_engine = self._real_factory
        if self._patched_f:
            F.get_template_engine = self._real_f_factory
        if "open" in F.__dict__:
            del F.open
        shutil.rmtree(self.dir, ignore_errors=True)

    def snapshot(self):
        con = sqlite3.connect(self.db)
        try:
            out = []
            for (name,) in con.execute("SELECT name FROM sqlite_master WHERE type='table' ORDER BY name").fetchall():
                out.append((name, sorted(map(repr, con.execute(f"SELECT * FROM {name}").fetchall()))))
            return out
        finally:
            con.close()


def getd_py(g):
    """case encoding of the data-source outcome -> (tag, python value)"""
    return g


def getd_sx(g):
    t = g[0]
    if t == "raise":
        return [0]
    if t == "missing":
        return [1]
    if t == "typeerror":
        return [2]
    v = g[1]
    if isinstance(v, str):
        return [3, S(v)]
    if isinstance(v, (list, tuple, set, frozenset, dict)):
        return [5, [S(e) if isinstance(e, str) else 0 for e in v]] if len(v) else [4]
    return [6] if v else [4]


# ----------------------------------------------------------------------------- non-ASCII digits
# decimal digits of other scripts (str.isdigit / isdecimal / int() accept them, the ASCII-only [0-9]+ and
# inet_pton do not), and characters that isdigit accepts but int() rejects
UDIGIT_ZERO = {"arabic-indic": 0x0660, "ext-arabic-indic": 0x06F0, "devanagari": 0x0966, "bengali": 0x09E6,
               "thai": 0x0E50, "fullwidth": 0xFF10, "math-bold": 0x1D7CE}
SUPERSCRIPT = {0: "\u2070", 1: "\u00b9", 2: "\u00b2", 3: "\u00b3", 4: "\u2074", 5: "\u2075", 6: "\u2076",
               7: "\u2077", 8: "\u2078", 9: "\u2079"}
CIRCLED = {1: "\u2460", 2: "\u2461", 3: "\u2462", 4: "\u2463", 5: "\u2464", 6: "\u2465", 7: "\u2466",
           8: "\u2467", 9: "\u2468", 0: "\u24ea"}


def udigit(script, d):
    if script == "superscript":
        return SUPERSCRIPT[d]
    if script == "circled":
        return CIRCLED[d]
    return chr(UDIGIT_ZERO[script] + d)


SCRIPTS = list(UDIGIT_ZERO) + ["superscript", "circled"]


def udigit_variants(text):
    """every way of writing ONE ASCII digit of the text, or ONE whole run of digits (an octet, a hex group's
    decimal digits, the prefix length), with the digits of another script"""
    out = []
    runs = [(m.start(), m.end()) for m in re.finditer("[0-9]+", text)]
    for script in SCRIPTS:
        for (a, b) in runs:
            out.append(text[:a] + "".join(udigit(script, int(ch)) for ch in text[a:b]) + text[b:])
            if b - a > 1:
                for i in (a, b - 1):
                    out.append(text[:i] + udigit(script, int(text[i])) + text[i + 1:])
    seen, res = set(), []
    for x in out:
        if x not in seen and x != text:
            seen.add(x)
            res.append(x)
    return res


class C05(Check):
    ident = "C05"
    technique = "Coq proofs (CIDR arithmetic for every prefix length, 128-bit embedding, handler access logic) + extracted-model correspondence"
    rule = ("case kinds: contains_ip_address directly (entries x client x raise flag), HTTP/TFTP file handler and "
            "sqlite_update handler (client_address_key/list x data under key x data-source outcomes x error action x "
            "no-result action x template x file-system outcome); clients {v4, v6, mapped dotted/hex, scoped, "
            "malformed, NUL}; entries {exact, every prefix length around the boundary bit, mapped nets, masks 33/129/"
            "+8/empty, ill-typed}; non-trivial = restricted case whose collection has a well-formed entry; distinct "
            "by the full case")
    assumptions = [
        "inet_pton(AF_INET, s) = b => len(b) = 4; inet_pton(AF_INET6, s) = b => len(b) = 16 (checked for every table entry)",
        "data source, SmartLookupDict lookup of the address key, file system and data store enter as outcome oracles; "
        "the real handlers are driven with a recording data source, a real temp file tree and a real SQLite file "
        "read back through a second connection",
        "ill-typed entries in hash-ordered collections (set / union with client_address_list) are compared with the "
        "tolerant rule of DESIGN (extra checks): result in {decision over well-typed entries, error}, never a serve "
        "the specification denies",
    ]

    def __init__(self):
        self._hist = {}
        self.world = None

    def mk(self, kind, tag, **kw):
        k = f"{kind}/{tag}"
        self._hist[k] = self._hist.get(k, 0) + 1
        c = {"kind": kind, "raise": False, "entries": [], "client": "", "key": False, "act": "error",
             "nores": "not_found", "template": False, "lookup": True, "find": "found", "getd": ("missing", {}),
             "fs": "content", "ref": None, "method": None, "action": "set_value", "bad_body": False,
             "store_fault": False, "sysid": "sys1", "direct": False}
        c.update(kw)
        self._n = getattr(self, "_n", 0) + 1
        c.setdefault("loglevel", LOGLEVELS[self._n % 4])     # the handlers must not behave differently when they log
        return c

    # ------------------------------------------------------------------ generators
    def boundary_cases(self, rng, q):
        """every prefix length around the boundary bit, all family combinations"""
        v4b = [bytes([192, 168, 77, 129]), bytes([0, 0, 0, 0]), bytes([255, 255, 255, 255]), bytes([10, 1, 2, 3])]
        v6b = [socket.inet_pton(socket.AF_INET6, x) for x in
               ("2001:db8:85a3::8a2e:370:7334", "::", "ffff:ffff:ffff:ffff:ffff:ffff:ffff:ffff", "::ffff:192.168.77.129")]
        if not q:
            v4b += [bytes(rng.randrange(256) for _ in range(4)) for _ in range(8)]
            v6b += [bytes(rng.randrange(256) for _ in range(16)) for _ in range(8)]

        def flip(b, bit):
            bb = bytearray(b)
            bb[bit // 8] ^= 0x80 >> (bit % 8)
            return bytes(bb)

        def t4(b):
            return socket.inet_ntop(socket.AF_INET, b)

        def t6(b):
            return socket.inet_ntop(socket.AF_INET6, b)
        for b in v4b:
            mapped = b"\x00" * 10 + b"\xff\xff" + b
            for m in range(0, 34):
                ents = [f"{t4(b)}/{m}"]
                cl = []
                if m >= 1:
                    cl.append(flip(b, min(m, 32) - 1))        # last bit inside the prefix differs
                if m < 32:
                    cl.append(flip(b, m))                      # first bit outside the prefix differs
                cl.append(b)
                for c in cl:
                    for client in (t4(c), "::ffff:" + t4(c),
                                   "::ffff:%x:%x" % (int.from_bytes(c[:2], "big"), int.from_bytes(c[2:], "big"))):
                        yield ents, client
                    # the same network written as a mapped IPv6 net
                    yield [f"::ffff:{t4(b)}/{96 + m}"], t4(c)
                # native IPv6 clients that only LOOK mapped: ffff in the sixth group and the allowed IPv4
                # address in the low 32 bits, but the first 80 bits are not zero (never members of a v4 net),
                # and near-misses with the marker in another group
                hx = "%x:%x" % (int.from_bytes(b[:2], "big"), int.from_bytes(b[2:], "big"))
                for fake in ("2001:db8::ffff:" + hx, "::1:0:ffff:" + hx, "8000::ffff:" + hx, "::1:ffff:" + hx,
                             "::ffff:0:" + hx, "::fffe:" + hx, "::ffff:ffff:" + hx, "0:0:0:0:ffff:ffff:" + hx):
                    yield ents, fake
                    yield [f"::ffff:{t4(b)}/{96 + m}"], fake
                # and the dual: entries of that shape against the plain / mapped IPv4 client
                yield [f"2001:db8::ffff:{hx}/{96 + m}"], t4(b)
                yield [f"::1:0:ffff:{hx}/{96 + m}"], "::ffff:" + t4(b)
        for b in v6b:
            for m in range(0, 130):
                ents = [f"{t6(b)}/{m}"]
                cl = [b]
                if m >= 1:
                    cl.append(flip(b, min(m, 128) - 1))
                if m < 128:
                    cl.append(flip(b, m))
                for c in cl:
                    yield ents, t6(c)
                    if c[:12] == b"\x00" * 10 + b"\xff\xff":
                        yield ents, t4(c[12:])

    CLIENTS = ["192.168.77.129", "10.0.0.1", "::ffff:192.168.77.129", "::ffff:c0a8:4d81", "2001:db8::1", "::1",
               "fe80::1%eth0", "192.168.77.129%eth0", "", "bogus", "192.168.77", "192.168.077.129", "192.168.77.129\x00",
               "::ffff:192.168.77.129\x00", " 192.168.77.129", "192.168.77.129/32", "1.2.3.4.5", ":::",
               "2001:db8::ffff:c0a8:4d81", "::1:0:ffff:c0a8:4d81", "2001:db8::ffff:192.168.77.129", "::ffff:0:c0a8:4d81",
               "::fffe:c0a8:4d81", "ffff::c0a8:4d81", "::1:ffff:c0a8:4d81"]
    ENTRY_POOL = ["192.168.77.129", "192.168.77.0/24", "192.168.77.128/25", "192.168.77.0/25", "10.0.0.0/8", "0.0.0.0/0",
                  "::/0", "::ffff:0:0/96", "::ffff:192.168.77.0/120", "::ffff:c0a8:4d00/121", "2001:db8::/32", "2001:db8::1",
                  "::1/128", "192.168.77.129/33", "2001:db8::/129", "192.168.77.0/+24", "192.168.77.0/", "/24", "",
                  "192.168.77.0/24/24", "192.168.77.0/ 24", "bogus", "192.168.77.129\x00", "10.0.0.0/008", "0.0.0.0/00",
                  "192.168.77.0/2_4", "fe80::/10", "fe80::1%eth0", "192.168.77.129/0x20", "::ffff:192.168.77.129/128",
                  "2001:db8::ffff:c0a8:4d81", "2001:db8::ffff:c0a8:4d00/120", "::1:0:ffff:0:0/96", "::ffff:0:c0a8:4d81/128"]
    BAD_ENTRIES = [5, None, ["192.168.77.129"], {"a": 1}, b"192.168.77.129", 1.5, True, ("192.168.77.129",)]

    def gen(self, tier, rng):
        q = tier == "quick"
        # ---------------- kind 0: contains_ip_address ----------------
        n = 0
        for ents, client in self.boundary_cases(rng, q):
            n += 1
            yield self.mk("contains", "boundary", entries=ents, client=client, ref=ref_member(ents, client))
        for client in self.CLIENTS:
            for e in self.ENTRY_POOL:
                for raise_ in (False, True):
                    yield self.mk("contains", "pool", entries=[e], client=client, **{"raise": raise_},
                                  ref=ref_member([e], client))
        for _ in range(300 if q else 3000):
            k = rng.randrange(0, 5)
            ents = [rng.choice(self.ENTRY_POOL) for _ in range(k)]
            if rng.random() < 0.3:
                ents.insert(rng.randrange(len(ents) + 1), rng.choice(self.BAD_ENTRIES))
            client = rng.choice(self.CLIENTS)
            raise_ = rng.random() < 0.3
            yield self.mk("contains", "random", entries=ents, client=client, **{"raise": raise_},
                          ref=ref_member(ents, client))
        # ---------------- after the slash: things that look like ANOTHER notation ----------------
        # dotted-decimal netmasks (contiguous, non-contiguous, host/wildcard masks), hex, octal-looking, floats,
        # a second slash, a second address, ranges, wildcards, lists in one string ... after IPv4, IPv6 and mapped
        # addresses; none of them is CIDR notation, so none may admit anybody.  Probe clients lie inside everything
        # a misreading could admit (same /24, /16, /8, everything; same /64, /32; mapped spellings).
        suffixes = ["255.255.255.0", "255.255.0.0", "255.0.0.0", "255.255.255.255", "0.0.0.0", "255.255.255.128",
                    "255.0.255.0", "128.0.0.1", "0.255.0.0", "255.255.0.255", "0.0.0.255", "0.0.255.255", "0.255.255.255",
                    "255.255.255", "255.255.255.0.0", "0x18", "0X18", "18h", "0b11000", "0o30", "24.0", "24.", ".24",
                    "2.4e1", "1e1", "24/24", "/24", "24/", "24 ", " 24", "\t24", "24\n", "+24", "-24", "-0", "24,16",
                    "192.168.77.255", "192.168.77.0/24", "ffff:ff00::", "::ffff:ffff:ff00", "2001:db8::", "twenty-four",
                    "XXIV", "24%", "24%eth0", "*", "24-32", "&24", "024", "0024", "000", "032", "0128"]
        abases = [("192.168.77.0", ["192.168.77.129", "192.168.1.1", "192.9.9.9", "1.2.3.4", "::ffff:192.168.77.129"]),
                  ("10.1.2.0", ["10.1.2.3", "10.1.9.9", "10.200.1.1", "::ffff:10.1.9.9", "99.1.2.3"]),
                  ("2001:db8:1:2::", ["2001:db8:1:2::5", "2001:db8:9::1", "2001::1", "192.168.77.129"]),
                  ("::ffff:192.168.77.0", ["192.168.77.129", "::ffff:192.168.1.1", "1.2.3.4"]),
                  ("::", ["::1", "2001:db8::1", "10.1.2.3"]), ("0.0.0.0", ["10.1.2.3", "255.255.255.255"])]
        self.altentries = []
        for base, probes in abases:
            for suf in suffixes:
                e = base + "/" + suf
                self.altentries.append((e, probes[0]))
                for cl in (probes if not q else [probes[0]] + rng.sample(probes[1:], min(2, len(probes) - 1))):
                    yield self.mk("contains", "other-notation", entries=[e], client=cl, ref=ref_member([e], cl))
                yield self.mk("contains", "other-notation", entries=["172.16.0.0/12", e, "bogus"], client=probes[1],
                              **{"raise": rng.random() < 0.3}, ref=ref_member(["172.16.0.0/12", e, "bogus"], probes[1]))
            for alt in (base + "-" + base.replace("0", "255", 1), base.rsplit(".", 1)[0] + ".*" if "." in base else base + "*",
                        base + "/24," + base + "/8", base + " /24", base + "/ 24", base + "\\24", base + "|24",
                        base + " 255.255.255.0", base + "%24", "[" + base + "]/24", base + "/24#x"):
                yield self.mk("contains", "other-notation", entries=[alt], client=probes[0], ref=ref_member([alt], probes[0]))
        # ---------------- legal inputs at and beyond natural limits ----------------
        # long collections (the match last / absent), masks with many leading zeros (int() stops at 4300 digits),
        # longest textual forms of entries and clients, upper-case hex
        for n in (255, 256, 1000, 4096) if not q else (256, 1000):
            filler = ["10.%d.%d.0/24" % (i // 256 % 256, i % 256) for i in range(n)]
            for tail, cl in ((["192.168.77.0/24"], "192.168.77.129"), ([], "192.168.77.129"), (["2001:db8::/32"], "2001:db8::9")):
                ents = filler + tail
                yield self.mk("contains", "limits", entries=ents, client=cl, ref=ref_member(ents, cl))
        for nz in (1, 3, 254, 255, 256, 1000, 4297, 4298, 4299):
            e = "192.168.77.0/" + "0" * nz + "24"
            yield self.mk("contains", "limits", entries=[e], client="192.168.77.129",
                          ref=(True if nz + 2 <= 4300 else False))
        longest = ["ffff:ffff:ffff:ffff:ffff:ffff:255.255.255.255", "FFFF:FFFF:FFFF:FFFF:FFFF:FFFF:FFFF:FFFF",
                   "0000:0000:0000:0000:0000:ffff:192.168.077.129", "0000:0000:0000:0000:0000:FFFF:C0A8:4D81",
                   "0000:0000:0000:0000:0000:ffff:192.168.77.129", "2001:0DB8:0000:0000:0000:0000:0000:0001"]
        for a in longest:
            for b in longest + ["192.168.77.129", "2001:db8::1", "255.255.255.255"]:
                yield self.mk("contains", "limits", entries=[a + "/128", a], client=b, ref=ref_member([a + "/128", a], b))
                yield self.mk("contains", "limits", entries=[b], client=a, ref=ref_member([b], a))
        # ---------------- non-ASCII digits in every numeric position ----------------
        # entries that str.isdigit()/int() would read as a covering subnet, paired with clients inside it
        ubases = [("192.168.77.0/24", ["192.168.77.129", "::ffff:192.168.77.129"]),
                  ("192.168.77.128/25", ["192.168.77.129"]), ("10.0.0.0/8", ["10.0.0.1", "::ffff:a00:1"]),
                  ("0.0.0.0/0", ["10.0.0.1"]), ("192.168.77.129", ["192.168.77.129"]),
                  ("::ffff:192.168.77.0/120", ["192.168.77.129"]), ("::ffff:10.0.0.0/104", ["10.0.0.1"]),
                  ("2001:db8::/32", ["2001:db8::1"]), ("2001:db8::1", ["2001:db8::1"]), ("::/0", ["2001:db8::1"])]
        self.uentries = []
        for base, cls in ubases:
            vs = udigit_variants(base)
            if q:
                vs = [v for i, v in enumerate(vs) if i % 3 == 0 or "/" in base and v.rsplit("/", 1)[0] == base.rsplit("/", 1)[0]]
            for v in vs:
                self.uentries.append((v, cls[0]))
                for cl in cls:
                    for raise_ in (False, True):
                        yield self.mk("contains", "unicode-digits", entries=[v], client=cl, **{"raise": raise_},
                                      ref=ref_member([v], cl))
                # with a genuine non-matching and an ill-formed neighbour
                yield self.mk("contains", "unicode-digits", entries=["172.16.0.0/12", v, "bogus"], client=cls[0],
                              ref=ref_member(["172.16.0.0/12", v, "bogus"], cls[0]))
            # the client written with such digits against the ASCII entry
            for cv in udigit_variants(cls[0])[:: (4 if q else 1)]:
                yield self.mk("contains", "unicode-digits-client", entries=[base], client=cv, ref=ref_member([base], cv))
        # ---------------- kinds 1, 2: handlers ----------------
        member_cl, other_cl = "192.168.77.129", "10.9.9.9"
        datas = [("missing", {}), ("missing", {"net": {}}), ("missing", {"net": {"other": 1}}),
                 ("typeerror", {"net": "text"}), ("typeerror", {"net": 5}),
                 ("val", "192.168.77.129"), ("val", "192.168.77.0/24"), ("val", "10.0.0.0/8"), ("val", ""),
                 ("val", None), ("val", []), ("val", 0),
                 ("val", ["10.0.0.0/8", "192.168.77.128/25"]), ("val", ("::ffff:192.168.77.0/120",)),
                 ("val", ["bogus", "192.168.77.129/33", "192.168.77.129"]), ("val", ["bogus", "192.168.77.0/+24"]),
                 ("val", {"192.168.77.129": "x"}), ("val", 5), ("val", True),
                 ("val", [5, "192.168.77.129"]), ("val", ["192.168.77.129", None]), ("val", [["192.168.77.129"]]),
                 ("val", ["10.9.9.9", b"192.168.77.129"]),
                 ("raise",)]
        lists = [[], ["192.168.77.129"], ["10.0.0.0/8"], ["bogus", "10.9.9.0/24"], ["::ffff:192.168.77.129"]]
        clients = [member_cl, other_cl, "::ffff:192.168.77.129", "::ffff:a09:909", "fe80::1%eth0", "bogus", "10.9.9.9\x00",
                   "2001:db8::ffff:c0a8:4d81", "::1:0:ffff:c0a8:4d81"]
        for kind in ("http", "tftp"):
            for key in (False, True):
                for lst in lists:
                    for g in datas:
                        illtyped = g[0] == "val" and isinstance(g[1], (list, tuple)) and any(not isinstance(e, str) for e in g[1])
                        if illtyped and lst:
                            continue          # hash-ordered union with ill-typed entries: extra checks
                        for find in ("found", "none", "raise"):
                            combos = [(a, nr, tp, fs) for a in ACT for nr in ("not_found", "continue")
                                      for tp in (False, True) for fs in FS]
                            combos = rng.sample(combos, 3 if q else 12)
                            for (a, nr, tp, fs) in combos:
                                for client in (clients if not q else rng.sample(clients, 3)):
                                    c = self.mk(kind, "handler", key=key, entries=lst, getd=g, find=find, act=a, nores=nr,
                                                template=tp, fs=fs, client=client, lookup=True)
                                    c["ref"] = self.handler_ref(c)
                                    yield c
            # no lookup key at all: only client_address_list
            for lst in lists:
                for fs in FS:
                    for client in clients:
                        c = self.mk(kind, "nolookup", key=False, entries=lst, lookup=False, fs=fs, client=client)
                        c["ref"] = self.handler_ref(c)
                        yield c
        for key in (False, True):
            for lst in lists:
                for g in datas:
                    illtyped = g[0] == "val" and isinstance(g[1], (list, tuple)) and any(not isinstance(e, str) for e in g[1])
                    if illtyped and lst:
                        continue
                    for client in clients:
                        c = self.mk("update", "handler", key=key, entries=lst, getd=g, client=client)
                        c["ref"] = self.handler_ref(c)
                        yield c
        # every configured action of sqlite_update x request body quality x failing data store x HTTP method
        # x data source (incl. get_data raising at the permission check)
        upd_data = [("missing", {}), ("val", "192.168.77.129"), ("val", ["10.0.0.0/8", "192.168.77.128/25"]),
                    ("val", 0), ("val", ""), ("val", False), ("val", {}), ("val", 5), ("typeerror", {"net": "text"}), ("raise",)]
        for action in ACTIONS:
            for key, lst in ((True, []), (False, ["192.168.77.129"]), (True, ["10.9.9.0/24"])):
                for g in (upd_data if key else upd_data[:1]):
                    for client in (member_cl, other_cl, "::ffff:192.168.77.129", "bogus", ""):
                        for (method, bad, sf) in ((None, False, False), (None, True, False), (None, False, True),
                                                  ("GET", False, False), ("PUT", True, True), (None, True, True)):
                            if bad and action not in BODY_ACTIONS and method is None and not sf:
                                continue
                            c = self.mk("update", "actions", key=key, entries=lst, getd=g, client=client, action=action,
                                        method=method, bad_body=bad, store_fault=sf)
                            c["ref"] = self.handler_ref(c)
                            yield c
        # file handlers: HTTP methods, more file-system situations (injected PermissionError, directory, over-long
        # name, directory mode with and without a translatable path), system id taken directly from the request
        # (lookup_key ":system_id:"), falsy-but-valid system ids returned by find_system
        for kind in ("http", "tftp"):
            for fs in FS:
                for key, lst, g in ((True, [], ("val", "192.168.77.0/24")), (False, ["192.168.77.129"], ("missing", {})),
                                    (True, ["10.9.9.9"], ("val", [])), (False, [], ("missing", {}))):
                    for client in (member_cl, other_cl, "bogus"):
                        for method in ((None, "HEAD", "POST") if kind == "http" else (None,)):
                            for (direct, sysid, find) in ((False, "sys1", "found"), (True, "sys1", "found"),
                                                          (False, "", "found"), (False, 0, "found"), (False, "sys1", "none")):
                                if direct and find != "found":
                                    continue
                                tp = rng.random() < 0.4
                                c = self.mk(kind, "fs-method-sysid", key=key, entries=lst, getd=g, client=client, fs=fs,
                                            method=method, direct=direct, sysid=sysid, find=find, template=tp,
                                            lookup=True, nores=rng.choice(["not_found", "continue"]),
                                            act=rng.choice(list(ACT)))
                                c["ref"] = self.handler_ref(c)
                                yield c
                    if not key:
                        c = self.mk(kind, "fs-nolookup", key=False, entries=lst, lookup=False, fs=fs, client=member_cl)
                        c["ref"] = self.handler_ref(c)
                        yield c
        # other notations after the slash, in client_address_list and under the key
        asel = self.altentries if not q else rng.sample(self.altentries, 80)
        for (v, cl) in asel:
            for kind in ("http", "tftp", "update"):
                for (key, lst, g) in ((False, [v], ("missing", {})), (True, [], ("val", v)),
                                      (True, ["172.16.0.0/12"], ("val", ("bogus", v)))):
                    c = self.mk(kind, "other-notation", key=key, entries=lst, getd=g, client=cl,
                                nores=rng.choice(["not_found", "continue"]), action=rng.choice(ACTIONS))
                    c["ref"] = self.handler_ref(c)
                    yield c
        # legal configurations with unusual-but-valid values: the allowed list as tuple / frozenset / dict / iterator,
        # the address key one level or 17 levels deep or through a list index, long / odd system ids, long lists
        deep = ":".join("k%d" % i for i in range(17))
        many = ["10.%d.%d.0/24" % (i // 256, i % 256) for i in range(300)]
        for kind in ("http", "tftp", "update"):
            for client in (member_cl, other_cl, "::ffff:192.168.77.129"):
                for container in CONTAINERS:
                    c = self.mk(kind, "limits", key=False, entries=["10.0.0.0/8", "192.168.77.128/25"], client=client,
                                container=container)
                    c["ref"] = self.handler_ref(c)
                    yield c
                for keypath in ("ip", deep, "net:0:ip", "net:3:ip", "a b:c.d", "net:ip:", "ключ:ip", "0"):
                    for g in (("val", "192.168.77.0/24"), ("val", many + ["192.168.77.129"]), ("val", frozenset(["192.168.77.129"]))):
                        c = self.mk(kind, "limits", key=True, entries=[], getd=g, client=client, keypath=keypath)
                        c["ref"] = self.handler_ref(c)
                        yield c
                for sysname in ("a" * 255, "a" * 256, "b" * 4096, "sys with space", "sys/with/slash", "sÿs-ünï", "0", " ", "%41"):
                    c = self.mk(kind, "limits", key=True, entries=many, getd=("val", ["192.168.77.129"]), client=client,
                                sysid=sysname, usys=sysname)
                    c["ref"] = self.handler_ref(c)
                    yield c
        # non-ASCII digits in client_address_list and under the key
        usel = self.uentries if not q else rng.sample(self.uentries, min(60, len(self.uentries)))
        for (v, cl) in usel:
            for kind in ("http", "tftp", "update"):
                for (key, lst, g) in ((False, [v], ("missing", {})), (True, [], ("val", v)),
                                      (True, ["172.16.0.0/12"], ("val", [v, "bogus"]))):
                    c = self.mk(kind, "unicode-digits", key=key, entries=lst, getd=g, client=cl,
                                nores=rng.choice(["not_found", "continue"]))
                    c["ref"] = self.handler_ref(c)
                    yield c
        yield from self.gen_histories(tier, rng)

    SYSTEMS = {"sysA": ("val", ["10.1.0.0/16"]), "sysB": ("val", "192.168.77.129"), "sysC": ("missing", {}),
               "sysD": ("val", ["2001:db8::/32", "bogus"]), "sysE": ("val", ("10.1.2.3",))}
    H_CLIENTS = ["10.1.2.3", "192.168.77.129", "10.9.9.9", "2001:db8::5", "::ffff:10.1.2.3", "172.16.0.1"]

    def gen_histories(self, tier, rng):
        """sequences of requests for different systems / clients on ONE long-lived handler object"""
        q = tier == "quick"
        steps = [{"sys": sname, "find": "found", "getd": g, "client": cl}
                 for sname, g in self.SYSTEMS.items() for cl in self.H_CLIENTS]
        # the same systems after an external change: re-assigned to another address, revoked, emptied
        changed = {"sysA": [("val", ["10.9.9.0/24"]), ("missing", {}), ("val", [])],
                   "sysB": [("val", "10.1.2.3"), ("val", ""), ("val", None)],
                   "sysE": [("val", ("192.168.77.129",)), ("raise",)]}
        resteps = [{"sys": sname, "find": "found", "getd": g, "client": cl}
                   for sname, gs in changed.items() for g in gs for cl in self.H_CLIENTS]
        unknown = [{"sys": "nosuch", "find": "none", "getd": ("missing", {}), "client": cl} for cl in self.H_CLIENTS]
        cfgs = [(True, ["172.16.0.0/12"]), (True, []), (False, ["172.16.0.0/12", "10.1.2.3"])]
        for hkind in ("update", "http", "tftp"):
            pool = steps + ([] if hkind == "update" else unknown) + \
                   ([{"sys": "nosuch", "find": "found", "getd": ("missing", {}), "client": cl} for cl in self.H_CLIENTS]
                    if hkind == "update" else [])
            for (key, lst) in cfgs:
                pairs = [(a, b) for a in pool for b in pool if a["sys"] != b["sys"] or a["client"] != b["client"]]
                if q:
                    pairs = rng.sample(pairs, 220 if hkind == "update" else 120)
                elif hkind != "update":
                    pairs = rng.sample(pairs, 600)
                for (a, b) in pairs:
                    yield self.mk("hist", hkind + "/pairs", hkind=hkind, key=key, entries=lst, steps=[a, b],
                                  act=rng.choice(list(ACT)), nores=rng.choice(["not_found", "continue"]),
                                  template=rng.random() < 0.3, fs=rng.choice(["content", "content", "missing"]))
                # request(s) for a system, an external change of its addresses, requests from old and new address
                # (the first requests are identical: a memo / cache keyed by the system must not survive the change)
                for _ in range(60 if q else 600):
                    sname = rng.choice(list(changed))
                    first = {"sys": sname, "find": "found", "getd": self.SYSTEMS[sname], "client": rng.choice(self.H_CLIENTS)}
                    reps = rng.randrange(1, 4)
                    g2 = rng.choice(changed[sname])
                    tail = [{"sys": sname, "find": "found", "getd": g2, "client": rng.choice(self.H_CLIENTS)}
                            for _ in range(rng.randrange(1, 3))]
                    if rng.random() < 0.3:
                        tail.insert(rng.randrange(len(tail) + 1), rng.choice(pool))
                    if rng.random() < 0.3:
                        tail.append({"sys": sname, "find": "found", "getd": self.SYSTEMS[sname], "client": first["client"]})
                    yield self.mk("hist", hkind + "/reassigned", hkind=hkind, key=key, entries=lst,
                                  steps=[dict(first) for _ in range(reps)] + tail,
                                  act=rng.choice(list(ACT)), nores=rng.choice(["not_found", "continue"]),
                                  template=rng.random() < 0.3, fs=rng.choice(["content", "content", "missing", "rootdir"]),
                                  action=rng.choice(ACTIONS))
                for _ in range(25 if q else 300):
                    n = rng.randrange(3, 7)
                    yield self.mk("hist", hkind + "/random", hkind=hkind, key=key, entries=lst,
                                  steps=[dict(rng.choice(pool + resteps), **({"method": rng.choice(["GET", "POST", "HEAD"])}
                                                                            if rng.random() < 0.15 and hkind != "tftp" else {}))
                                         for _ in range(n)],
                                  action=rng.choice(ACTIONS), store_fault=(hkind == "update" and rng.random() < 0.15),
                                  act=rng.choice(list(ACT)), nores=rng.choice(["not_found", "continue"]),
                                  template=rng.random() < 0.3, fs=rng.choice(["content", "content", "missing"]))

    @staticmethod
    def handler_ref(c):
        """ipaddress-based decision over config list + data under the key (None when not decidable here)"""
        ents = list(c["entries"])
        if c["key"]:
            g = c["getd"]
            known = c["kind"] == "update" or (c["lookup"] and c["find"] == "found")
            if known and g[0] == "val":
                v = g[1]
                if isinstance(v, str):
                    ents.append(v)
                elif isinstance(v, (list, tuple, set, frozenset, dict)):
                    if any(not isinstance(e, str) for e in v):
                        return None
                    ents.extend(v)
                elif v:
                    return None
            elif known and g[0] in ("typeerror", "raise"):
                return None
        if not c["key"] and not ents:
            return None
        return ref_member(ents, c["client"])

    # ------------------------------------------------------------------ implementation
    def ensure_world(self):
        if self.world is None:
            self.world = World()
            atexit.register(self.world.close)
        return self.world

    def impl(self, c):
        if c["kind"] == "contains":
            try:
                r = contains_ip_address(c["entries"], c["client"], True, c["raise"])
            except ValueError:
                return (2, 0, 0)
            except Exception:   # noqa: BLE001
                return (3, 0, 0)
            return (1 if r is True else 0 if r is False else 3, 0, 0)
        w = self.ensure_world()
        lvl = c.get("loglevel", logging.CRITICAL)
        _VLOG.setLevel(lvl)
        logging.getLogger(F.__name__).setLevel(lvl)
        logging.getLogger(U.__name__).setLevel(lvl)
        if c["kind"] == "hist":
            return self.run_history(w, c)
        ds = DS(c["find"], c["getd"], c["sysid"])
        ds.keypath = c.get("keypath", "net:ip")
        if c["kind"] == "update":
            h = self.make_update(w, c, ds)
            try:
                return self.update_request(w, h, c, c["client"], c.get("usys", "sys1"), c["method"], c["bad_body"])
            finally:
                h.close()
        made = self.make_file(w, c, ds)
        if made is None:
            return (9, 0, 0)
        return self.file_request(w, c["kind"], made, c["client"], c["method"])

    # one long-lived handler object, a sequence of requests (different systems / clients), with external
    # changes (the data source's answer for a system) between any two of them
    def run_history(self, w, c):
        ds = DS("found", ("missing", {}))
        out = []
        if c["hkind"] == "update":
            h = self.make_update(w, c, ds)
            try:
                for st in c["steps"]:
                    ds.find, ds.getd, ds.sys = st["find"], st["getd"], st["sys"]
                    out.append(self.update_request(w, h, c, st["client"], st["sys"], st.get("method"),
                                                   st.get("bad_body", False)))
            finally:
                h.close()
            return out
        made = self.make_file(w, c, ds, kind=c["hkind"])
        if made is None:
            return [(9, 0, 0)] * len(c["steps"])
        for st in c["steps"]:
            ds.find, ds.getd, ds.sys = st["find"], st["getd"], st["sys"]
            out.append(self.file_request(w, c["hkind"], made, st["client"], st.get("method")))
        return out

    def file_config(self, w, c):
        fs = c["fs"]
        cfg = {"request_path": "/f/..." if c["lookup"] else ("/f" if fs in ("rootdir", "nopath") else "/f/x"),
               "data_source_error_action": c["act"], "lookup_no_result_action": c["nores"]}
        if fs in ("rootdir", "nopath"):
            cfg["root_dir"] = w.dir
        else:
            cfg["file"] = {"content": w.content, "missing": w.missing, "oserror": w.loop, "perm": w.content,
                           "perm_dir": w.adir, "toolong": w.toolong}[fs]
        if c["lookup"]:
            cfg["lookup_key"] = ":system_id:" if c["direct"] else "net:mac"
        if c["key"]:
            cfg["client_address_key"] = c.get("keypath", "net:ip")
        if c["entries"]:
            cfg["client_address_list"] = CONTAINERS[c.get("container", "list")](c["entries"])
        if c["template"]:
            cfg["template"] = "c05-fake"
        return cfg

    def make_file(self, w, c, ds, kind=None):
        cfg = self.file_config(w, c)
        kind = kind or c["kind"]
        fs = c["fs"]
        w.perm_paths = {w.content} if fs == "perm" else {w.adir} if fs == "perm_dir" else set()
        try:
            h = F.HttpFileRequestHandler(cfg) if kind == "http" else F.TftpFileRequestHandler(cfg)
            h.set_data_source(ds)
            # c["template"]: the handler was built with the public option template="c05-fake"; the public factory
            # vinegar.template.get_template_engine (patched in World, also where file.py imported it by name)
            # hands out the recording fake engine
            uri = "/f/abc" if c["lookup"] else ("/f" if fs in ("rootdir", "nopath") else "/f/x")
            uri += {"rootdir": "/file.txt", "nopath": "/a/./b"}.get(fs, "")
            ctx = h.prepare_context(uri)
            assert h.can_handle(uri, ctx)
        except Exception:   # noqa: BLE001
            return None
        return (h, uri, ctx)

    def file_request(self, w, kind, made, client, method=None):
        h, uri, ctx = made
        w.opens = 0
        detail = 0            # does the reply carry anything beyond its code (message text, headers, body)?
        try:
            if kind == "http":
                ri = HttpRequestInfo(client_address=(client, 4711), headers=http.client.HTTPMessage(),
                                     method=method or "GET", server_address=("192.0.2.1", 80), uri=uri)
                status, headers, body = h.handle(ri, io.BytesIO(b""), ctx)
                code = {200: 0, 404: 1, 403: 2, 400: 5, 405: 6}.get(int(status), 3)
                if body is not None:
                    data = body.read()
                    body.close()
                    if code != 0 or data != b"secret content\n":
                        code = 8
                elif code == 0 and (method or "GET") != "HEAD":
                    code = 8                       # 200 without a body is only right for HEAD
                if code != 0 and (headers is not None or body is not None):
                    detail = 1
            else:
                try:
                    f = h.handle(uri, (client, 4711), ("192.0.2.1", 69), ctx)
                    data = f.read()
                    f.close()
                    code = 0 if data == b"secret content\n" else 8
                except TftpError as te:
                    code = {TftpErrorCode.FILE_NOT_FOUND: 1, TftpErrorCode.ACCESS_VIOLATION: 2}.get(te.error_code, 3)
                    if te.message or te.args:      # text that the server would put into the ERROR packet
                        detail = 1
        except Exception:   # noqa: BLE001 - anything else is the internal-error path
            code = 3
        return (code, w.opens, detail)

    def make_update(self, w, c, ds):
        w.counter += 1
        action = c["action"]
        cfg = {"request_path": "/u", "db_file": w.db, "action": action}
        if action != "delete_data":
            cfg["key"] = "k"
        if action == "set_value":
            cfg["value"] = f"v{w.counter}"
        if c["key"]:
            cfg["client_address_key"] = c.get("keypath", "net:ip")
        if c["entries"]:
            cfg["client_address_list"] = CONTAINERS[c.get("container", "list")](c["entries"])
        h = U.HttpSQLiteUpdateRequestHandler(cfg)
        h.set_data_source(ds)
        if c["store_fault"]:
            # fault injection: the handler's data store object, found by TYPE, is wrapped
            from vinegar.utils.sqlite_store import DataStore
            name, real = pubscan.attr_of_type(h, DataStore, "sqlite_update handler")
            setattr(h, name, FaultyStore(real))
        return h

    def update_request(self, w, h, c, client, system, method=None, bad_body=False):
        uri = "/u/" + urllib.parse.quote(system, safe="/")
        ctx = h.prepare_context(uri)
        assert h.can_handle(uri, ctx)
        # put a fresh value in place so that EVERY action, when applied, changes the database
        w.counter += 1
        w.prep_store().set_value(system, "k", f"prep{w.counter}")
        action = c["action"]
        if action == "set_json_value_from_request_body":
            body = b"{not json" if bad_body else json.dumps({"n": w.counter}).encode()
        elif action == "set_text_value_from_request_body":
            body = b"\xff\xfe\xfa" if bad_body else f"body{w.counter}".encode()
        else:
            body = b""
        before = w.snapshot()
        hdr = http.client.HTTPMessage()
        if action in BODY_ACTIONS:
            hdr["Content-Length"] = str(len(body))
        ri = HttpRequestInfo(client_address=(client, 4711), headers=hdr, method=method or "POST",
                             server_address=("192.0.2.1", 80), uri=uri)
        detail = 0
        try:
            status, headers, rbody = h.handle(ri, io.BytesIO(body), ctx)
            code = {200: 4, 403: 2, 400: 5, 405: 6}.get(int(status), 3)
            if code == 4:
                if rbody is None or rbody.read() != b"success\n" or dict(headers or {}) != {"Content-Type": "text/plain; charset=UTF-8"}:
                    detail = 1
            elif headers is not None or rbody is not None:
                detail = 1
        except Exception:   # noqa: BLE001
            code = 3
        after = w.snapshot()                      # the whole database, read back through a second connection
        changed = 0 if before == after else 1
        if code == 4 and action == "set_text_value_from_request_body" and body.decode() not in repr(after):
            changed = 9                           # granted but the value is not in the database
        return (code, changed, detail)

    # ------------------------------------------------------------------ protocol
    def struct(self, c, obs):
        strs = [c["client"]] + [e for e in c["entries"] if isinstance(e, str)]
        g = c["getd"]
        if g[0] == "val":
            v = g[1]
            if isinstance(v, str):
                strs.append(v)
            elif isinstance(v, (list, tuple, set, frozenset, dict)):
                strs.extend(e for e in v if isinstance(e, str))
        t4, t6 = tables(strs)
        ref = [] if c["ref"] is None else [1 if c["ref"] else 0]
        ents = [S(e) if isinstance(e, str) else 0 for e in c["entries"]]
        return [KIND[c["kind"]], c["raise"], ents, S(c["client"]), c["key"], ACT[c["act"]],
                0 if c["nores"] == "not_found" else 1, c["template"], c["lookup"], FIND[c["find"]],
                getd_sx(g), FS[c["fs"]], self.method_ok(c), bool(c["bad_body"]) and c["action"] in BODY_ACTIONS,
                c["store_fault"], t4, t6, ref, [obs[0], obs[1], obs[2]]]

    @staticmethod
    def method_ok(c):
        m = c.get("method")
        if c["kind"] == "update":
            return m in (None, "POST")
        if c["kind"] == "http":
            return m in (None, "GET", "HEAD")
        return True

    @staticmethod
    def step_case(c, st):
        """the single-request case of one step of a history"""
        d = {k: v for k, v in c.items() if k not in ("steps", "hkind")}
        d.update(kind=c["hkind"], client=st["client"], find=st["find"], getd=st["getd"],
                 method=st.get("method"), bad_body=st.get("bad_body", False))
        d["ref"] = C05.handler_ref(d)
        return d

    def line(self, c, obs):
        if c["kind"] == "hist":
            return sx([9, [self.struct(self.step_case(c, st), o) for st, o in zip(c["steps"], obs)]])
        return sx(self.struct(c, obs))

    def canon(self, obs):
        if isinstance(obs, list):
            return [[o[0], o[1], o[2]] for o in obs]
        return [obs[0], obs[1], obs[2]]

    def nontrivial(self, c, obs):
        if c["kind"] == "hist":
            return repr((c["hkind"], c["key"], c["entries"], c["steps"]))
        if c["entries"] or c["key"]:
            return repr(sorted(c.items(), key=lambda kv: kv[0]))
        return None

    def show(self, c):
        return {k: (repr(v) if not isinstance(v, (int, bool, type(None))) else v) for k, v in c.items()}

    def shrink(self, c):
        if c["kind"] == "hist":
            for i in range(len(c["steps"])):
                if len(c["steps"]) > 1:
                    yield dict(c, steps=c["steps"][:i] + c["steps"][i + 1:])
            return
        for i in range(len(c["entries"])):
            c2 = dict(c, entries=c["entries"][:i] + c["entries"][i + 1:])
            c2["ref"] = self.handler_ref(c2) if c["kind"] != "contains" else ref_member(c2["entries"], c2["client"])
            yield c2

    # ------------------------------------------------------------------ hash-ordered collections with ill-typed entries
    # ------------------------------------------------------------------ through the real servers
    def wire_checks(self, w, report):
        """What an unauthorised client RECEIVES (every byte of the TFTP ERROR packet / of the HTTP reply except the
        Date header) through a real TftpServer / HttpServer on the loopback interface must be the same whether the
        probed name resolves to a system with addresses, to one without, to none, and whether the file exists."""
        import time
        from vinegar.tftp import server as TS
        from vinegar.http import server as HS

        class MapDS:
            def find_system(self, key, value):
                return {"known": "db01.example.com", "nodata": "db02.example.com"}.get(value)

            def get_data(self, system_id, preset, version):
                return ({"net": {"ip": ["192.168.77.0/24"]}} if system_id.startswith("db01") else {}), "v"

        def cfg(allowed, nores, key=True):
            c = {"request_path": "/f/...", "root_dir": w.dir, "lookup_key": "net:mac", "lookup_no_result_action": nores,
                 "client_address_list": allowed}
            if key:
                c["client_address_key"] = "net:ip"
            return c
        paths = [f"/f/{v}/{f}" for v in ("known", "nodata", "unknown") for f in ("file.txt", "nope.txt", "adir")]
        n = 0
        failing = report.setdefault("extra_failing", [])
        for nores in ("not_found", "continue"):
            for key in (True, False):
                # ---- TFTP
                for allowed, expect_same in ((["192.168.77.129"], True), (["127.0.0.1", "::ffff:127.0.0.1"], False)):
                    h = F.TftpFileRequestHandler(cfg(allowed, nores, key))
                    h.set_data_source(MapDS())
                    srv = TS.TftpServer([h], "::", common.free_udp_port(), default_timeout=1.0, max_retries=0)   # dual stack: the client is ::ffff:127.0.0.1
                    srv.start()
                    try:
                        port = pubscan.udp_socket(srv).getsockname()[1]
                        replies = {}
                        for pth in paths:
                            sk = socket.socket(socket.AF_INET, socket.SOCK_DGRAM)
                            sk.settimeout(2.0)
                            try:
                                sk.sendto(b"\x00\x01" + pth.encode() + b"\x00octet\x00", ("127.0.0.1", port))
                                data, peer = sk.recvfrom(65536)
                                if data[:2] == b"\x00\x03":          # DATA: acknowledge so that the transfer ends
                                    sk.sendto(b"\x00\x04" + data[2:4], peer)
                            except socket.timeout:
                                data = b"<no reply within 2 s>"
                            finally:
                                sk.close()
                            replies[pth] = data
                            n += 1
                        if expect_same and len(set(replies.values())) != 1:
                            failing.append(({"_extra": True, "what": "TFTP ERROR packets for an unauthorised client differ",
                                             "lookup_no_result_action": nores, "client_address_key": key,
                                             "replies": {k: v.hex() for k, v in replies.items()}},
                                            ["no_leak_reply_detail"], sorted({v.hex() for v in replies.values()}), "one reply"))
                        if expect_same and any(v[:4] != b"\x00\x05\x00\x02" for v in replies.values()):
                            failing.append(({"_extra": True, "what": "unauthorised TFTP client does not get ACCESS_VIOLATION",
                                             "replies": {k: v.hex() for k, v in replies.items()}}, ["fail_closed"],
                                            sorted({v.hex()[:16] for v in replies.values()}), "0005 0002"))
                        if not expect_same and replies["/f/known/file.txt"][:4] != b"\x00\x03\x00\x01":
                            failing.append(({"_extra": True, "what": "authorised TFTP client is not served",
                                             "reply": replies["/f/known/file.txt"].hex()}, ["ipaddress_decision_allows"],
                                            replies["/f/known/file.txt"].hex()[:16], "DATA 1"))
                    finally:
                        srv.stop()
                # ---- HTTP
                for allowed, expect_same in ((["192.168.77.129"], True), (["127.0.0.1", "::ffff:127.0.0.1"], False)):
                    h = F.HttpFileRequestHandler(cfg(allowed, nores, key))
                    h.set_data_source(MapDS())
                    srv = HS.HttpServer([h], "::", 0)
                    srv.start()
                    try:
                        port = pubscan.base_server(srv).socket.getsockname()[1]
                        replies = {}
                        for pth in paths:
                            try:
                                con = http.client.HTTPConnection("127.0.0.1", port, timeout=3.0)
                                con.request("GET", pth)
                                r = con.getresponse()
                                body = r.read()
                                hdrs = sorted((k.lower(), v) for k, v in r.getheaders() if k.lower() != "date")
                                replies[pth] = repr((r.status, r.reason, hdrs, body))
                                con.close()
                            except Exception as e:   # noqa: BLE001
                                replies[pth] = "<" + type(e).__name__ + ">"
                            n += 1
                        if expect_same and len(set(replies.values())) != 1:
                            failing.append(({"_extra": True, "what": "HTTP replies for an unauthorised client differ",
                                             "lookup_no_result_action": nores, "client_address_key": key, "replies": replies},
                                            ["no_leak_reply_detail"], sorted(set(replies.values())), "one reply"))
                        if expect_same and any(not v.startswith("(403,") for v in replies.values()):
                            failing.append(({"_extra": True, "what": "unauthorised HTTP client does not get 403", "replies": replies},
                                            ["fail_closed"], sorted(set(replies.values())), "403"))
                        if not expect_same and not replies["/f/known/file.txt"].startswith("(200,"):
                            failing.append(({"_extra": True, "what": "authorised HTTP client is not served",
                                             "reply": replies["/f/known/file.txt"]}, ["ipaddress_decision_allows"],
                                            replies["/f/known/file.txt"], "200"))
                    finally:
                        srv.stop()
        report["extra"]["wire_replies_compared"] = n
        report["extra"]["cases_outside_theorem_hypotheses"] = report["extra"].get("cases_outside_theorem_hypotheses", 0) + n

    def extra_checks(self, tier, rng, report):
        report["hist"] = dict(self._hist)
        n = 0
        w = self.ensure_world()
        bads = [5, None, 1.5, b"192.168.77.129", ("192.168.77.129",)]
        for bad in bads:
            for good in (["192.168.77.129"], ["10.0.0.0/8"], ["192.168.77.0/24", "bogus"]):
                for client in ("192.168.77.129", "10.9.9.9", "172.16.0.1"):
                    spec = ref_member(good, client)
                    # set passed to contains_ip_address
                    try:
                        r = contains_ip_address(set(good) | {bad}, client)
                        got = 1 if r else 0
                    except Exception:   # noqa: BLE001
                        got = 3
                    n += 1
                    if got == 1 and not spec or got == 0 and spec:
                        report.setdefault("extra_failing", []).append(
                            ({"_extra": True, "what": "set with ill-typed entry", "entries": repr(set(good) | {bad}),
                              "client": client}, ["fail_closed" if got == 1 else "membership_spec"], got, 1 if spec else 0))
                    # union in the handlers: client_address_list + ill-typed data under the key
                    for kind in ("http", "update"):
                        c = self.mk(kind, "union-illtyped", key=True, entries=good, getd=("val", [bad, "172.16.0.0/12"]),
                                    client=client)
                        spec2 = ref_member(good + ["172.16.0.0/12"], client)
                        code, cnt, _det = self.impl(c)
                        n += 1
                        served = code in (0, 1, 4)
                        if (served and not spec2) or (not spec2 and cnt != 0) or (code == 2 and spec2):
                            report.setdefault("extra_failing", []).append(
                                ({"_extra": True, "what": "union with ill-typed data entry", "case": self.show(c)},
                                 ["fail_closed" if served else "deny_before_change" if cnt else "malformed_never_widens"],
                                 [code, cnt], [1 if spec2 else 0]))
        report["extra"]["illtyped_hash_order_checks"] = n
        self.wire_checks(w, report)
        # these are judged by the tolerant rule only; the model (and so C05_covered_cases) is not involved
        report["extra"]["cases_outside_theorem_hypotheses"] = \
            report["extra"].get("cases_outside_theorem_hypotheses", 0) + n
        if self.world is not None:
            self.world.close()
            self.world = None


if __name__ == "__main__":
    raise SystemExit(C05().main())
