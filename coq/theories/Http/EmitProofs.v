(* Proofs for C03: the strict parser inverts [render]; the bytes that _delegate_request puts on
   the wire are the rendering of the specified response; one status line; nothing left unflushed. *)
From Coq Require Import String.
From Coq Require Import List NArith ZArith Bool Arith Lia.
From VF Require Import Base.Sx Http.Response Http.Emit.
Import ListNotations.
Open Scope N_scope.

(* ---------- parser lemmas ---------- *)

Lemma split_crlf_app l rest : nocrlf l = true -> split_crlf (l ++ 13 :: 10 :: rest) = Some (l, rest).
Proof.
  induction l as [|x l IH]; intros H.
  - reflexivity.
  - cbn [nocrlf forallb] in H. apply andb_true_iff in H as [Hx Hl].
    apply andb_true_iff in Hx as [H13 H10].
    apply negb_true_iff in H13. apply negb_true_iff in H10.
    cbn [app split_crlf]. rewrite H13, H10. fold (nocrlf l) in Hl. rewrite (IH Hl). reflexivity.
Qed.

Lemma strip_prefix_app p r : strip_prefix p (p ++ r) = Some r.
Proof.
  induction p as [|a p IH]; [reflexivity|].
  cbn [app strip_prefix]. rewrite N.eqb_refl. exact IH.
Qed.

Lemma tchar_not_colon x : tchar x = true -> (x =? 58) = false.
Proof.
  intros H. destruct (N.eqb_spec x 58) as [->|]; [|reflexivity].
  vm_compute in H. discriminate.
Qed.

Lemma split_colon_app name r : forallb tchar name = true -> split_colon (name ++ 58 :: r) = Some (name, r).
Proof.
  induction name as [|x l IH]; intros H.
  - reflexivity.
  - cbn [forallb] in H. apply andb_true_iff in H as [Hx Hl].
    cbn [app split_colon]. rewrite (tchar_not_colon _ Hx), (IH Hl). reflexivity.
Qed.

Lemma parse_header_line (h : header) : token (fst h) = true -> parse_header (fst h ++ 58 :: 32 :: snd h) = Some h.
Proof.
  destruct h as [name value]. cbn [fst snd]. unfold token. intros H.
  apply andb_true_iff in H as [Hne Hall].
  unfold parse_header. rewrite (split_colon_app _ _ Hall), N.eqb_refl, Hne, Hall. reflexivity.
Qed.

Lemma nocrlf_app a b : nocrlf (a ++ b) = nocrlf a && nocrlf b.
Proof. unfold nocrlf. apply forallb_app. Qed.

Lemma tchar_nocrlf l : forallb tchar l = true -> nocrlf l = true.
Proof.
  induction l as [|x l IH]; [reflexivity|].
  cbn [forallb nocrlf]. intros H. apply andb_true_iff in H as [Hx Hl].
  fold (nocrlf l). rewrite (IH Hl), andb_true_r.
  destruct (N.eqb_spec x 13) as [->|]; [vm_compute in Hx; discriminate|].
  destruct (N.eqb_spec x 10) as [->|]; [vm_compute in Hx; discriminate|]. reflexivity.
Qed.

Lemma header_line_nocrlf (h : header) : header_ok h = true -> nocrlf (fst h ++ 58 :: 32 :: snd h) = true.
Proof.
  unfold header_ok, token. intros H. apply andb_true_iff in H as [Hn Hv].
  apply andb_true_iff in Hn as [_ Hn].
  rewrite nocrlf_app, (tchar_nocrlf _ Hn). cbn [nocrlf forallb andb].
  fold (nocrlf (snd h)). rewrite Hv. reflexivity.
Qed.

Lemma header_line_nonempty (h : header) : token (fst h) = true -> exists x l, fst h ++ 58 :: 32 :: snd h = x :: l.
Proof.
  unfold token. destruct (fst h) as [|x l]; [discriminate|]. intros _. eexists; eexists; reflexivity.
Qed.

Lemma hdr_line_eq (h : header) : hdr_line h = (fst h ++ 58 :: 32 :: snd h) ++ 13 :: 10 :: [].
Proof. unfold hdr_line, CRLF. rewrite <- app_assoc. reflexivity. Qed.

Lemma parse_headers_render hs body : forallb header_ok hs = true ->
  forall fuel, (length hs < fuel)%nat ->
  parse_headers fuel (flat_map hdr_line hs ++ CRLF ++ body) = Some (hs, body).
Proof.
  induction hs as [|h hs IH]; intros Hok fuel Hf.
  - destruct fuel as [|f]; [inversion Hf|]. reflexivity.
  - destruct fuel as [|f]; [inversion Hf|].
    cbn [forallb] in Hok. apply andb_true_iff in Hok as [Hh Hhs].
    assert (Ht : token (fst h) = true) by (unfold header_ok in Hh; apply andb_true_iff in Hh; tauto).
    cbn [flat_map]. rewrite hdr_line_eq.
    pose proof (header_line_nocrlf _ Hh) as Hn.
    destruct (header_line_nonempty h Ht) as (x & l & E).
    pose proof (parse_header_line _ Ht) as Hp.
    set (X := fst h ++ 58 :: 32 :: snd h) in *.
    replace (((X ++ [13; 10]) ++ flat_map hdr_line hs) ++ CRLF ++ body)
      with (X ++ 13 :: 10 :: (flat_map hdr_line hs ++ CRLF ++ body))
      by (rewrite <- !app_assoc; reflexivity).
    cbn [parse_headers]. rewrite (split_crlf_app _ _ Hn). rewrite Hp, E.
    rewrite (IH Hhs f) by (cbn [length] in Hf; lia). reflexivity.
Qed.

(* "%d" of a three-digit code is three digits that read back as the code: finite sweep *)
Definition code_chk (c : N) : bool :=
  match dec c with
  | [a; b; d] => match code3 a b d with Some c' => c' =? c | None => false end
  | _ => false
  end.

Fixpoint upto (n : nat) (start : N) : list N :=
  match n with O => [] | S k => start :: upto k (N.succ start) end.

Lemma in_upto n : forall start x, start <= x -> x < start + N.of_nat n -> In x (upto n start).
Proof.
  induction n as [|k IH]; intros start x H1 H2.
  - lia.
  - cbn [upto]. destruct (N.eq_dec start x) as [->|Hne]; [now left|right].
    apply IH; lia.
Qed.

Lemma code_sweep : forallb code_chk (upto 900 100) = true.
Proof. vm_compute. reflexivity. Qed.

Lemma code_chk_ok c : code_ok c = true -> code_chk c = true.
Proof.
  unfold code_ok. intros H. apply andb_true_iff in H as [H1 H2].
  apply N.leb_le in H1. apply N.leb_le in H2.
  pose proof code_sweep as Hs. rewrite forallb_forall in Hs. apply Hs.
  apply in_upto; lia.
Qed.

Lemma parse_status_line_render code msg : code_ok code = true ->
  parse_status_line (HTTP1 ++ 48 :: 32 :: dec code ++ 32 :: msg) = Some (code, msg).
Proof.
  intros H. apply code_chk_ok in H. unfold code_chk in H.
  unfold parse_status_line. rewrite strip_prefix_app.
  destruct (dec code) as [|a [|b [|d [|? ?]]]]; try discriminate.
  cbn [app]. destruct (code3 a b d) as [c'|]; [|discriminate].
  apply N.eqb_eq in H. subst c'. reflexivity.
Qed.

Lemma is_digit_nocrlf c : is_digit c = true -> negb (c =? 13) && negb (c =? 10) = true.
Proof.
  unfold is_digit. intros H. apply andb_true_iff in H as [H1 H2].
  apply N.leb_le in H1. apply N.leb_le in H2.
  destruct (N.eqb_spec c 13); [lia|]. destruct (N.eqb_spec c 10); [lia|]. reflexivity.
Qed.

Lemma dec_uint_nocrlf u : nocrlf (dec_uint u) = true.
Proof. induction u; cbn [dec_uint nocrlf forallb]; try reflexivity; exact IHu. Qed.

Lemma dec_nocrlf n : nocrlf (dec n) = true.
Proof.
  unfold dec, print_Z. destruct (Z.to_int (Z.of_N n)); [apply dec_uint_nocrlf|].
  cbn [nocrlf forallb]. apply dec_uint_nocrlf.
Qed.


Lemma length_flat_map_hdr hs : (length hs <= length (flat_map hdr_line hs))%nat.
Proof.
  induction hs as [|h hs IH]; [apply Nat.le_refl|].
  cbn [flat_map length]. rewrite app_length, hdr_line_eq, !app_length. cbn [length]. lia.
Qed.

Theorem parse_render r : response_ok r = true -> parse_response (render r) = Some r.
Proof.
  destruct r as [code reason hs body]. unfold response_ok. cbn [r_code r_reason r_headers r_body].
  intros H. apply andb_true_iff in H as [H Hhs]. apply andb_true_iff in H as [Hc Hr].
  unfold render, status_line. cbn [r_code r_reason r_headers r_body].
  unfold parse_response.
  replace ((HTTP1 ++ 48 :: 32 :: dec code ++ 32 :: reason ++ CRLF) ++ flat_map hdr_line hs ++ CRLF ++ body)
    with ((HTTP1 ++ 48 :: 32 :: dec code ++ 32 :: reason) ++ 13 :: 10 :: (flat_map hdr_line hs ++ CRLF ++ body)).
  2:{ unfold CRLF. repeat (rewrite <- app_assoc || rewrite <- app_comm_cons). reflexivity. }
  rewrite split_crlf_app.
  2:{ rewrite nocrlf_app. change (nocrlf HTTP1) with true. cbn [andb].
      change (48 :: 32 :: dec code ++ 32 :: reason) with ([48; 32] ++ dec code ++ 32 :: reason).
      rewrite !nocrlf_app, dec_nocrlf. cbn [nocrlf forallb andb]. exact Hr. }
  rewrite (parse_status_line_render _ _ Hc).
  rewrite (parse_headers_render hs body Hhs).
  - reflexivity.
  - rewrite !app_length. pose proof (length_flat_map_hdr hs). lia.
Qed.

(* ---------- emission lemmas ---------- *)

Lemma fold_send_header_pending l : forall st,
  pending (fold_left send_header l st) = pending st ++ flat_map hdr_line l.
Proof.
  induction l as [|h l IH]; intros st; cbn [fold_left flat_map].
  - now rewrite app_nil_r.
  - rewrite IH. cbn [send_header pending]. now rewrite <- app_assoc.
Qed.
Lemma fold_send_header_wire l : forall st, wire (fold_left send_header l st) = wire st.
Proof. induction l as [|h l IH]; intros st; cbn [fold_left]; [reflexivity|]. now rewrite IH. Qed.
Lemma fold_send_header_nlines l : forall st, nlines (fold_left send_header l st) = nlines st.
Proof. induction l as [|h l IH]; intros st; cbn [fold_left]; [reflexivity|]. now rewrite IH. Qed.

(* a state in which exactly the rendering of r has reached the wire *)
Definition delivered (st : hst) (r : response) : Prop :=
  wire st = render r /\ pending st = [] /\ nlines st = 1%nat.

Lemma send_error_delivered e code : delivered (send_error e code init) (error_response e code).
Proof.
  unfold send_error, error_response, delivered.
  destruct (error_texts e code) as [short long] eqn:Et.
  set (body := has_error_body code && negb (e_head e)).
  assert (G : forall stt, stt = end_headers (fold_left send_header (error_headers e code)
                                   (send_response e code (Some short) init)) ->
          wire stt ++ (if body then error_page code short long else []) =
            render {| r_code := code; r_reason := short;
                      r_headers := std_headers e ++ error_headers e code;
                      r_body := if body then error_page code short long else [] |}
          /\ pending stt = [] /\ nlines stt = 1%nat).
  { intros stt ->. cbn [end_headers wire pending nlines].
    rewrite fold_send_header_pending, fold_send_header_wire, fold_send_header_nlines.
    unfold send_response, send_response_only, send_header, init, render, std_headers.
    cbn [pending wire nlines r_code r_reason r_headers r_body app].
    cbn [flat_map]. repeat (rewrite <- app_assoc || rewrite <- app_comm_cons).
    split; [|split]; reflexivity. }
  specialize (G _ eq_refl). destruct G as (G1 & G2 & G3).
  destruct body.
  - cbn [wfile_write wire pending nlines]. auto.
  - rewrite app_nil_r in G1. auto.
Qed.

Lemma emit_result_delivered e s hd b st' :
  emit_result false e s hd b init = Fin st' \/ emit_result false e s hd b init = Exn true st' ->
  delivered st' (result_response e s hd b).
Proof.
  unfold emit_result, result_response.
  destruct ((400 <=? s) && falsy hd && match b with None => true | Some _ => false end).
  - intros [H|H]; [|discriminate]. injection H as <-. apply send_error_delivered.
  - assert (G : delivered (end_headers (match hd with
                                         | Some l => fold_left send_header l (send_response e s None init)
                                         | None => send_response e s None init end))
                          {| r_code := s; r_reason := phrase e s;
                             r_headers := std_headers e ++ match hd with Some l => l | None => [] end;
                             r_body := [] |}).
    { unfold delivered. cbn [end_headers wire pending nlines].
      destruct hd as [l|].
      - rewrite fold_send_header_pending, fold_send_header_wire, fold_send_header_nlines.
        unfold send_response, send_response_only, send_header, init, render, std_headers, phrase.
        cbn [pending wire nlines r_code r_reason r_headers r_body app flat_map].
        rewrite app_nil_r. repeat (rewrite <- app_assoc || rewrite <- app_comm_cons).
        split; [|split]; reflexivity.
      - unfold send_response, send_response_only, send_header, init, render, std_headers, phrase.
        cbn [pending wire nlines r_code r_reason r_headers r_body app flat_map].
        rewrite app_nil_r. repeat (rewrite <- app_assoc || rewrite <- app_comm_cons).
        split; [|split]; reflexivity. }
    destruct b as [[data fails]|].
    + destruct G as (G1 & G2 & G3).
      assert (D : delivered (wfile_write data (end_headers (match hd with
                                         | Some l => fold_left send_header l (send_response e s None init)
                                         | None => send_response e s None init end)))
                    {| r_code := s; r_reason := phrase e s;
                       r_headers := std_headers e ++ match hd with Some l => l | None => [] end;
                       r_body := data |}).
      { unfold delivered. cbn [wfile_write wire pending nlines]. rewrite G1.
        unfold render. cbn [r_code r_reason r_headers r_body]. rewrite app_nil_r, <- !app_assoc.
        split; [|split]; [reflexivity|exact G2|exact G3]. }
      destruct hd as [l|]; destruct fails; intros [H|H]; try discriminate; injection H as <-; exact D.
    + destruct hd as [l|]; intros [H|H]; try discriminate; injection H as <-; exact G.
Qed.

Lemma handler_loop_delivered e hs :
  match handler_loop false e hs init with
  | Fin st => delivered st (expected_loop e hs)
  | Exn true st => delivered st (expected_loop e hs)
  | Exn false st => st = init /\ expected_loop e hs = error_response e 500
  end.
Proof.
  induction hs as [|h r IH]; cbn [handler_loop expected_loop].
  - apply send_error_delivered.
  - destruct (prep_raises h); [cbn [orb]; split; reflexivity|].
    destruct (can_raises h); [cbn [orb]; split; reflexivity|]. cbn [orb].
    destruct (can h); [|exact IH].
    destruct (act h) as [|s hd b]; [apply send_error_delivered|].
    destruct (emit_result false e s hd b init) as [st|[|] st] eqn:E.
    + apply (emit_result_delivered e s hd b st). now left.
    + apply (emit_result_delivered e s hd b st). now right.
    + exfalso. unfold emit_result in E.
      destruct ((400 <=? s) && falsy hd && match b with None => true | Some _ => false end); [discriminate|].
      destruct b as [[d [|]]|]; destruct hd; discriminate.
Qed.

Theorem delegate_delivered e path hs : delivered (delegate false e path hs) (expected e path hs).
Proof.
  unfold delegate, expected. destruct (bad_path path); [apply send_error_delivered|].
  pose proof (handler_loop_delivered e hs) as H.
  destruct (handler_loop false e hs init) as [st|[|] st]; try exact H.
  destruct H as [-> ->]. apply send_error_delivered.
Qed.

(* ---------- validity of the specified response ---------- *)


Lemma lookup_nocrlf code t p :
  forallb (fun kv => nocrlf (fst (snd kv))) t = true -> lookup code t = Some p -> nocrlf (fst p) = true.
Proof.
  induction t as [|[k v] t IH]; cbn [lookup forallb]; [discriminate|].
  intros H. apply andb_true_iff in H as [H1 H2].
  destruct (k =? code); [intros [= <-]; exact H1 | now apply IH].
Qed.

Lemma error_response_ok e code : env_ok e = true -> code_ok code = true ->
  response_ok (error_response e code) = true.
Proof.
  unfold env_ok. intros He Hc. apply andb_true_iff in He as [He Ht]. apply andb_true_iff in He as [Hs Hd].
  unfold error_response, error_headers, error_texts.
  destruct (lookup code (e_responses e)) as [[short long]|] eqn:El.
  - unfold response_ok. cbn [r_code r_reason r_headers]. rewrite Hc.
    rewrite (lookup_nocrlf _ _ _ Ht El : nocrlf short = true). cbn [andb].
    unfold std_headers. cbn [app forallb]. unfold header_ok at 1 2 3. cbn [fst snd].
    rewrite Hs, Hd. change (token S_Server) with true. change (token S_Date) with true.
    change (token S_Connection) with true. change (nocrlf S_close) with true. cbn [andb].
    destruct (has_error_body code); [|reflexivity].
    cbn [forallb]. unfold header_ok. cbn [fst snd]. rewrite dec_nocrlf. reflexivity.
  - unfold response_ok. cbn [r_code r_reason r_headers]. rewrite Hc.
    change (nocrlf S_unknown) with true. cbn [andb].
    unfold std_headers. cbn [app forallb]. unfold header_ok at 1 2 3. cbn [fst snd].
    rewrite Hs, Hd. change (token S_Server) with true. change (token S_Date) with true.
    change (token S_Connection) with true. change (nocrlf S_close) with true. cbn [andb].
    destruct (has_error_body code); [|reflexivity].
    cbn [forallb]. unfold header_ok. cbn [fst snd]. rewrite dec_nocrlf. reflexivity.
Qed.

Lemma result_response_ok e s hd b : env_ok e = true -> hact_ok (HReturn s hd b) = true ->
  response_ok (result_response e s hd b) = true.
Proof.
  intros He Ha. cbn [hact_ok] in Ha. apply andb_true_iff in Ha as [Hc Hh].
  unfold result_response.
  destruct ((400 <=? s) && falsy hd && match b with None => true | Some _ => false end);
    [now apply error_response_ok|].
  unfold response_ok. cbn [r_code r_reason r_headers]. rewrite Hc.
  pose proof He as He'. unfold env_ok in He'. apply andb_true_iff in He' as [He' Ht].
  apply andb_true_iff in He' as [Hs Hd].
  assert (Hp : nocrlf (phrase e s) = true).
  { unfold phrase. destruct (lookup s (e_responses e)) as [[short long]|] eqn:El; [|reflexivity].
    exact (lookup_nocrlf _ _ _ Ht El). }
  rewrite Hp. cbn [andb]. unfold std_headers. cbn [app forallb]. unfold header_ok at 1 2. cbn [fst snd].
  rewrite Hs, Hd. change (token S_Server) with true. change (token S_Date) with true. cbn [andb]. exact Hh.
Qed.

Lemma expected_ok e path hs : case_ok e hs = true -> response_ok (expected e path hs) = true.
Proof.
  unfold case_ok. intros H. apply andb_true_iff in H as [He Hhs].
  unfold expected. destruct (bad_path path); [now apply error_response_ok|].
  induction hs as [|h r IH]; cbn [expected_loop]; [now apply error_response_ok|].
  cbn [forallb] in Hhs. apply andb_true_iff in Hhs as [Hh Hr].
  destruct (prep_raises h || can_raises h); [now apply error_response_ok|].
  destruct (can h); [|exact (IH Hr)].
  destruct (act h) as [|s hd b]; [now apply error_response_ok | now apply result_response_ok].
Qed.

(* ---------- the main statements ---------- *)

Theorem emit_wellformed e path hs : case_ok e hs = true ->
  parse_response (wire (delegate false e path hs)) = Some (expected e path hs).
Proof.
  intros H. destruct (delegate_delivered e path hs) as (Hw & _ & _).
  rewrite Hw. apply parse_render. now apply expected_ok.
Qed.

Theorem exactly_one e path hs :
  nlines (delegate false e path hs) = 1%nat /\ pending (delegate false e path hs) = [].
Proof. destruct (delegate_delivered e path hs) as (_ & Hp & Hn). now split. Qed.


Lemma raising_expected e path hs : bad_path path = false -> first_raises hs = true ->
  expected e path hs = error_response e 500.
Proof.
  intros Hp. unfold expected. rewrite Hp.
  induction hs as [|h r IH]; cbn [first_raises expected_loop]; [discriminate|].
  destruct (prep_raises h || can_raises h); [reflexivity|].
  destruct (can h); [|exact IH]. destruct (act h); [reflexivity|discriminate].
Qed.
