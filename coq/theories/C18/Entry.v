(* C18: case/observation types, run_model, the executable checker [holds], and the sx entry point.

   A case is an expression string, optionally the expression tree it was printed from, the
   number of environments (system id / system data pairs) and a finite oracle table that the
   harness fills by calling re / fnmatch directly: for every atom its re.compile outcome and its
   documented truth value on every environment.  An observation is what match() did on every
   environment, on first use (empty cache) and on cached use. *)
From Coq Require Import String.
From Coq Require Import List NArith ZArith Bool Arith.
From VF Require Import Base.Sx Matcher.Model.
Import ListNotations.

(* ---------- decidable equality ---------- *)
Definition ostr_eqb (a b : option str) : bool :=
  match a, b with
  | None, None => true
  | Some x, Some y => str_eqb x y
  | _, _ => false
  end.
Definition atype_eqb (a b : atype) : bool :=
  match a, b with TGlob, TGlob | TLiteral, TLiteral | TRe, TRe => true | _, _ => false end.
Definition atom_eqb (a b : atom) : bool :=
  ostr_eqb (a_key a) (a_key b) && atype_eqb (a_type a) (a_type b) && Bool.eqb (a_cs a) (a_cs b)
  && str_eqb (a_pat a) (a_pat b).
Fixpoint expr_eqb (a b : expr) : bool :=
  match a, b with
  | Atom x, Atom y => atom_eqb x y
  | Not x, Not y => expr_eqb x y
  | And x1 x2, And y1 y2 => expr_eqb x1 y1 && expr_eqb x2 y2
  | Or x1 x2, Or y1 y2 => expr_eqb x1 y1 && expr_eqb x2 y2
  | _, _ => false
  end.
Definition val_eqb (a b : val) : bool :=
  match a, b with
  | VB x, VB y => Bool.eqb x y
  | VExc x, VExc y => str_eqb x y
  | _, _ => false
  end.
Fixpoint vals_eqb (a b : list val) : bool :=
  match a, b with
  | [], [] => true
  | x :: a', y :: b' => val_eqb x y && vals_eqb a' b'
  | _, _ => false
  end.

(* ---------- sx codec of the model types ---------- *)
Definition sx_str (s : str) : sx := if forallb (fun c => c <? 256)%N s then B s else L (map sxN s).
Definition as_str (x : sx) : option str :=
  match x with B s => Some s | L l => omap asN l | I _ => None end.
Definition sx_atom (a : atom) : sx :=
  L [ match a_key a with None => I 0 | Some k => sx_str k end;
      I (match a_type a with TGlob => 0 | TLiteral => 1 | TRe => 2 end);
      sxBool (a_cs a); sx_str (a_pat a) ].
Definition as_atom (x : sx) : option atom :=
  match x with
  | L [k; I t; cs; p] =>
      obind (match k with I _ => Some None | _ => option_map Some (as_str k) end) (fun k =>
      obind (match t with 0 => Some TGlob | 1 => Some TLiteral | 2 => Some TRe | _ => None end%Z) (fun t =>
      obind (asBool cs) (fun cs =>
      obind (as_str p) (fun p => Some {| a_key := k; a_type := t; a_cs := cs; a_pat := p |}))))
  | _ => None
  end.
Fixpoint sx_expr (e : expr) : sx :=
  match e with
  | Atom a => L [I 0; sx_atom a]
  | Not a => L [I 1; sx_expr a]
  | And a b => L [I 2; sx_expr a; sx_expr b]
  | Or a b => L [I 3; sx_expr a; sx_expr b]
  end.
Fixpoint as_expr (x : sx) : option expr :=
  match x with
  | L [I 0%Z; a] => option_map Atom (as_atom a)
  | L [I 1%Z; a] => option_map Not (as_expr a)
  | L [I 2%Z; a; b] => match as_expr a, as_expr b with Some a, Some b => Some (And a b) | _, _ => None end
  | L [I 3%Z; a; b] => match as_expr a, as_expr b with Some a, Some b => Some (Or a b) | _, _ => None end
  | _ => None
  end.
Definition sx_val (v : val) : sx := match v with VB b => sxBool b | VExc t => B t end.
Definition as_val (x : sx) : option val :=
  match x with I 0%Z => Some (VB false) | I 1%Z => Some (VB true) | B t => Some (VExc t) | _ => None end.
Definition as_cres (x : sx) : option cres :=
  match x with
  | I 0%Z => Some COk | I 1%Z => Some CReError | I 2%Z => Some COverflow
  | B t => Some (COther t) | _ => None
  end.
(* 0/1 = documented truth value; 2/3 = the same, but the key path runs through a non-container;
   a byte string = the environment raises that exception when the atom is evaluated *)
Definition as_tv (x : sx) : option tv :=
  match x with
  | I 0%Z => Some {| tv_val := false; tv_through_scalar := false; tv_fault := None |}
  | I 1%Z => Some {| tv_val := true; tv_through_scalar := false; tv_fault := None |}
  | I 2%Z => Some {| tv_val := false; tv_through_scalar := true; tv_fault := None |}
  | I 3%Z => Some {| tv_val := true; tv_through_scalar := true; tv_fault := None |}
  | B t => Some {| tv_val := false; tv_through_scalar := false; tv_fault := Some t |}
  | _ => None
  end.
Definition sx_res (r : res expr) : sx :=
  match r with
  | Ok e => L [I 0; sx_expr e]
  | Er ParseErr => L [I 1]
  | Er (Raise t) => L [I 2; B t]
  | Er OutOfFuel => L [I 3]
  end.

(* ---------- cases ---------- *)
Definition table := list (atom * (cres * list tv)).
Record case := {
  c_str : str;
  c_expected : option expr;      (* the tree the string was printed from, if it was *)
  c_var : variants;              (* which behaviour the model reproduces *)
  c_envs : nat;
  c_table : table
}.
Definition obs := (list val * list val)%type.     (* first use, cached use *)

Fixpoint tfind (a : atom) (t : table) : option (cres * list tv) :=
  match t with
  | [] => None
  | (b, x) :: t' => if atom_eqb a b then Some x else tfind a t'
  end.
(* an atom the harness has not described yet is reported back through the tag *)
Definition QM : N := 63.
Definition table_compile (t : table) (a : atom) : cres :=
  match tfind a t with Some (c, _) => c | None => COther (QM :: Sx.print (sx_atom a)) end.
Definition tv_default : tv := {| tv_val := false; tv_through_scalar := false; tv_fault := None |}.
Definition table_truth (t : table) (a : atom) (i : nat) : tv :=
  match tfind a t with Some (_, l) => nth i l tv_default | None => tv_default end.

(* the documentation: OverflowError mapped, an unreachable key is an empty value,
   a bare keyword is never a pattern *)
Definition documented : variants :=
  {| overflow_escapes := false; lookup_escapes := false; bare_keyword_atom := false; eval_depth_limit := 0 |}.
(* what the code does now *)
Definition current : variants :=
  {| overflow_escapes := false; lookup_escapes := true; bare_keyword_atom := true; eval_depth_limit := 900 |}.

Definition run_model (c : case) : obs :=
  let comp := table_compile (c_table c) in
  let tr := table_truth (c_table c) in
  let (r1, k1) := cached_parse (c_var c) comp [] (c_str c) in
  let (r2, _) := cached_parse (c_var c) comp k1 (c_str c) in
  (outcome (c_var c) tr (c_envs c) r1, outcome (c_var c) tr (c_envs c) r2).

Definition reference (c : case) : res expr := parse documented (table_compile (c_table c)) (c_str c).
(* what the property demands of match() on every environment: the documented evaluation of that call
   alone (= the Boolean reading [denote] unless the environment itself raises, theorem C18_eval_spec) *)
Definition wanted (c : case) : list val :=
  match reference c with
  | Ok e => map (eval documented (table_truth (c_table c)) e) (seq 0 (c_envs c))
  | Er _ => repeat (VExc (lit "ValueError")) (c_envs c)
  end.

(* every call raised RecursionError (finding D26: evaluation recurses once per nesting level) *)
Definition all_recursion_error (l : list val) : bool :=
  match l with
  | [] => false
  | _ => forallb (fun v => match v with VExc t => str_eqb t (lit "RecursionError") | VB _ => false end) l
  end.

(* failed clauses of the property for observation o (empty list = holds) *)
Definition holds (c : case) (o : obs) : list string :=
  (match c_expected c with
   | Some e => match reference c with
               | Ok e' => if expr_eqb e e' then [] else ["printed_expression_parses_to_its_tree"%string]
               | Er _ => ["printed_expression_parses_to_its_tree"%string]
               end
   | None => []
   end) ++
  (if vals_eqb (fst o) (wanted c) then []
   else match reference c with
        | Ok _ => if all_recursion_error (fst o) then ["legal_expression_raised_RecursionError"%string]
                  else ["value_equals_documented_semantics"%string]
        | Er _ => ["rejected_with_ValueError"%string]
        end) ++
  (if vals_eqb (snd o) (fst o) then [] else ["cache_transparent"%string]).

(* ---------- the hypotheses of theorem C18_holds as a boolean ---------- *)
Definition table_clean (t : table) : bool :=
  forallb (fun row => forallb (fun x => negb (tv_through_scalar x)) (snd (snd row))) t.
Definition err_eqb (a b : err) : bool :=
  match a, b with
  | ParseErr, ParseErr | OutOfFuel, OutOfFuel => true
  | Raise x, Raise y => str_eqb x y
  | _, _ => false
  end.
Definition res_eqb (a b : res expr) : bool :=
  match a, b with
  | Ok x, Ok y => expr_eqb x y
  | Er x, Er y => err_eqb x y
  | _, _ => false
  end.
(* [valid] (C18/HoldsProof.v) is decidable from the case: its last part - the string is a legal layout of the
   intended tree - is equivalent to "the documented grammar yields that tree" by parse_sound / parse_print
   (C18.Props.C18_validb_valid) *)
Definition validb (c : case) : bool :=
  res_eqb (parse (c_var c) (table_compile (c_table c)) (c_str c)) (reference c) &&
  match reference c with Er (Raise _) => false | _ => true end &&
  (negb (lookup_escapes (c_var c)) || table_clean (c_table c)) &&
  match reference c with
  | Ok e => (eval_depth_limit (c_var c) =? 0)%nat || (depth e <=? eval_depth_limit (c_var c))%nat
  | Er _ => true
  end &&
  match c_expected c with
  | Some e => match reference c with Ok e' => expr_eqb e e' | Er _ => false end
  | None => true
  end.

(* ---------- decoding ---------- *)
Definition as_variants (x : sx) : option variants :=
  match x with
  | L [a; b; c; n] =>
      obind (asBool a) (fun a => obind (asBool b) (fun b => obind (asBool c) (fun c => obind (asNat n) (fun n =>
      Some {| overflow_escapes := a; lookup_escapes := b; bare_keyword_atom := c; eval_depth_limit := n |}))))
  | _ => None
  end.
Definition as_row (x : sx) : option (atom * (cres * list tv)) :=
  match x with
  | L [a; c; tvs] =>
      obind (as_atom a) (fun a => obind (as_cres c) (fun c => obind (asListOf as_tv tvs) (fun tvs =>
      Some (a, (c, tvs)))))
  | _ => None
  end.
Definition as_obs (x : sx) : option obs :=
  match x with
  | L [a; b] => obind (asListOf as_val a) (fun a => obind (asListOf as_val b) (fun b => Some (a, b)))
  | _ => None
  end.
Definition decode (x : sx) : option (case * obs) :=
  match x with
  | L [I 0%Z; s; ex; v; n; t; io] =>
      obind (as_str s) (fun s =>
      obind (match ex with L [] => Some None | L [e] => option_map Some (as_expr e) | _ => None end) (fun ex =>
      obind (as_variants v) (fun v =>
      obind (asNat n) (fun n =>
      obind (asListOf as_row t) (fun t =>
      obind (as_obs io) (fun io =>
      Some ({| c_str := s; c_expected := ex; c_var := v; c_envs := n; c_table := t |}, io)))))))
  | _ => None
  end.

Definition sx_obs (o : obs) : sx := L [L (map sx_val (fst o)); L (map sx_val (snd o))].

Definition entry (x : sx) : sx :=
  match x with
  | L [I 1%Z; L cs] =>     (* sweep of is_space over code points *)
      match omap asN cs with
      | Some cs => L [L (map (fun c => sxBool (is_space c)) cs); L []; L []; L []; L []]
      | None => sxS "bad-case"
      end
  | _ =>
      match decode x with
      | None => sxS "bad-case"
      | Some (c, io) =>
          let m := run_model c in
          L [ sx_obs m; L (map sxS (holds c m)); L (map sxS (holds c io));
              L []; sxBool (validb c);
              sx_res (parse (c_var c) (table_compile (c_table c)) (c_str c));
              sx_res (reference c);
              L (map sx_val (wanted c)) ]
      end
  end.
