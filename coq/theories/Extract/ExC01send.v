From Coq Require Import ExtrOcamlBasic.
From Coq Require Extraction.
From VF Require Import Base.Sx C01.SendEntry.
Definition main := wrap send_entry.
Extraction "../ocaml/gen/c01send_model.ml" main.
