(* Completeness of the `search` decision procedure for sequential executions, monotonicity in the fuel,
   and the link to lock_linearizable: under the single-critical-section discipline the results of ANY
   schedule are accepted. *)
From Coq Require Import List Arith Bool Lia.
From VF Require Import Conc.Machine Conc.Lin Conc.MachineProofs.
Import ListNotations.

Section LP.
  Variables (O W LS Call Res E : Type).
  Variable begin : Call -> LS.
  Variable prog : Call -> list (mstep O W LS).
  Variable ret : LS -> Res.
  Variable env : E -> W -> W.
  Variable res_eqb : Res -> Res -> bool.
  Hypothesis res_eqb_refl : forall r, res_eqb r r = true.
  Notation mst := (mst O W LS Call Res).
  Notation thread := (thread O W LS Call Res).
  Notation tstep := (tstep O W LS Call Res begin prog ret).
  Notation step := (step O W LS Call Res E begin prog ret env).
  Notation run := (run O W LS Call Res E begin prog ret env).
  Notation search := (search O W LS Call Res E begin prog ret env res_eqb).
  Notation final_ok := (final_ok O W LS Call Res res_eqb).
  Notation prefix_ok := (prefix_ok O W LS Call Res res_eqb).
  Notation candidates := (candidates O W LS Call Res).
  Notation env_step := (env_step O W LS Call Res E env).

  Definition envs_of (sch : list (choice E)) : list E :=
    flat_map (fun ch => match ch with Ev e => [e] | T _ => [] end) sch.

  (* ---------- results only grow ---------- *)
  Definition grows (a b : list thread) : Prop :=
    Forall2 (fun t t' => exists x, res t' = res t ++ x) a b.

  Lemma grows_refl a : grows a a.
  Proof. induction a; constructor; auto. exists []. rewrite app_nil_r. reflexivity. Qed.

  Lemma grows_trans a b c : grows a b -> grows b c -> grows a c.
  Proof.
    intros H. revert c. induction H as [|x y a b Hxy H IH]; intros c Hc.
    - inversion Hc. constructor.
    - inversion Hc as [|y' z b' c' Hyz Hc' E1 E2]; subst. constructor; [|apply IH; exact Hc'].
      destruct Hxy as (u & Hu). destruct Hyz as (v & Hv). exists (u ++ v). rewrite Hv, Hu, app_assoc. reflexivity.
  Qed.

  Lemma grows_upd a i t t' : nth_error a i = Some t -> (exists x, res t' = res t ++ x) -> grows a (upd i t' a).
  Proof.
    revert i. induction a as [|y r IH]; intros [|i] Hi Hx; cbn in *; try discriminate.
    - injection Hi as ->. constructor; [exact Hx | apply grows_refl].
    - constructor; [exists []; rewrite app_nil_r; reflexivity | eapply IH; eauto].
  Qed.

  Lemma finish_res (t : thread) l rest : exists x, res (finish O W LS Call Res ret t l rest) = res t ++ x.
  Proof. destruct rest; cbn; [eexists; reflexivity | exists []; rewrite app_nil_r; reflexivity]. Qed.

  Lemma tstep_grows s i s' : tstep s i = Some s' -> grows (threads s) (threads s').
  Proof.
    unfold Machine.tstep. destruct (nth_error (threads s) i) as [t|] eqn:Hi; [|discriminate].
    destruct (cur_prog O W LS Call Res begin prog t) as [[l [|m rest]]|]; [| |discriminate].
    - intros H. injection H as <-. cbn [threads]. eapply grows_upd; eauto. apply (finish_res t l []).
    - destruct m as [| |f].
      + destruct (lock s); [discriminate|]. intros H. injection H as <-. cbn [threads].
        eapply grows_upd; eauto. apply finish_res.
      + intros H. injection H as <-. cbn [threads]. eapply grows_upd; eauto. apply finish_res.
      + destruct (f l (obj s) (world s)) as [l' o']. intros H. injection H as <-. cbn [threads].
        eapply grows_upd; eauto. apply finish_res.
  Qed.

  Lemma step_grows s ch s' : step s ch = Some s' -> grows (threads s) (threads s').
  Proof.
    destruct ch as [i|e]; cbn [Machine.step]; [apply tstep_grows|].
    intros H. injection H as <-. apply grows_refl.
  Qed.

  Lemma run_grows sch : forall s, grows (threads s) (threads (run s sch)).
  Proof.
    induction sch as [|ch r IH]; intros s; cbn; [apply grows_refl|].
    destruct (step s ch) eqn:Es; auto. eapply grows_trans; [eapply step_grows; eauto | apply IH].
  Qed.

  Lemma prefix_of_eq a : forall x e, list_eqb Res res_eqb (a ++ x) e = true -> prefix_eqb Res res_eqb a e = true.
  Proof.
    induction a as [|y a IH]; intros x e H; cbn; auto.
    destruct e as [|z e]; cbn in H; [discriminate|].
    apply andb_prop in H. destruct H as [H1 H2]. rewrite H1. cbn. eapply IH; eauto.
  Qed.

  Lemma grows_prefix_ok a b : grows a b -> forall expected,
    all2 (fun t e => list_eqb Res res_eqb (res t) e) b expected = true ->
    all2 (fun t e => prefix_eqb Res res_eqb (res t) e) a expected = true.
  Proof.
    induction 1 as [|x y a b (u & Hu) H IH]; intros [|e expected] Hb; cbn in *; try discriminate; auto.
    apply andb_prop in Hb. destruct Hb as [H1 H2]. rewrite Hu in H1.
    rewrite (prefix_of_eq _ _ _ H1). cbn. apply IH. exact H2.
  Qed.

  (* ---------- sequential (legal) schedules are found ---------- *)
  Inductive Legal : mst -> list (choice E) -> Prop :=
    | L_nil s : Legal s []
    | L_env s e r : Legal (env_step s e) r -> Legal s (Ev e :: r)
    | L_T s i s' r : In i (candidates s) -> tstep s i = Some s' -> Legal s' r -> Legal s (T i :: r).

  Lemma search_S f s envs expected :
    search (S f) s envs expected =
    (final_ok s expected
     || match envs with e :: r => search f (env_step s e) r expected | [] => false end
     || existsb (fun i => match tstep s i with
                          | Some s' => prefix_ok s' expected && search f s' envs expected
                          | None => false
                          end) (candidates s)).
  Proof. reflexivity. Qed.

  Theorem search_complete s sch expected : Legal s sch ->
    final_ok (run s sch) expected = true ->
    search (S (length sch)) s (envs_of sch) expected = true.
  Proof.
    induction 1 as [s|s e r HL IH|s i s' r Hin Hs HL IH]; intros Hf.
    - cbn [Machine.run] in Hf. rewrite search_S, Hf. reflexivity.
    - cbn [Machine.run Machine.step] in Hf. cbn [length envs_of flat_map app]. rewrite search_S.
      change (flat_map _ r) with (envs_of r). fold (env_step s e) in Hf. rewrite (IH Hf).
      rewrite orb_true_r. reflexivity.
    - cbn [Machine.run Machine.step] in Hf. rewrite Hs in Hf. cbn [length envs_of flat_map app]. rewrite search_S.
      change (flat_map _ r) with (envs_of r).
      apply orb_true_iff. right. apply existsb_exists. exists i. split; [exact Hin|]. rewrite Hs.
      rewrite (IH Hf), andb_true_r. unfold Lin.prefix_ok.
      unfold Lin.final_ok in Hf. apply andb_prop in Hf. destruct Hf as [_ Hf].
      eapply grows_prefix_ok; [apply run_grows | exact Hf].
  Qed.

  Theorem search_mono f : forall s envs expected,
    search f s envs expected = true -> search (S f) s envs expected = true.
  Proof.
    induction f as [|f IH]; intros s envs expected H; [discriminate|].
    rewrite search_S in H. rewrite search_S.
    apply orb_true_iff in H. destruct H as [H|H].
    - apply orb_true_iff in H. destruct H as [H|H].
      + rewrite H. reflexivity.
      + destruct envs as [|e r]; [discriminate|]. rewrite (IH _ _ _ H), orb_true_r. reflexivity.
    - apply orb_true_iff. right. apply existsb_exists in H. destruct H as (i & Hin & Hi).
      apply existsb_exists. exists i. split; auto.
      destruct (tstep s i) as [s'|]; [|discriminate]. apply andb_prop in Hi. destruct Hi as [H1 H2].
      rewrite H1, (IH _ _ _ H2). reflexivity.
  Qed.

  Lemma search_le f f' s envs expected : f <= f' -> search f s envs expected = true -> search f' s envs expected = true.
  Proof. induction 1 as [|m Hle IH]; auto. intros Hs. apply search_mono. auto. Qed.

  (* ---------- dropping the choices that had no effect ---------- *)
  Fixpoint eff (s : mst) (sch : list (choice E)) : list (choice E) :=
    match sch with
    | [] => []
    | ch :: r => match step s ch with Some s' => ch :: eff s' r | None => eff s r end
    end.

  Lemma run_eff sch : forall s, run s (eff s sch) = run s sch.
  Proof.
    induction sch as [|ch r IH]; intros s; cbn; auto.
    destruct (step s ch) eqn:Es; cbn; [rewrite Es|]; apply IH.
  Qed.

  Lemma envs_eff sch : forall s, envs_of (eff s sch) = envs_of sch.
  Proof.
    induction sch as [|ch r IH]; intros s; cbn; auto.
    destruct ch as [i|e]; cbn [Machine.step].
    - destruct (tstep s i); cbn; apply IH.
    - cbn. f_equal. apply IH.
  Qed.

  Lemma length_eff sch : forall s, length (eff s sch) <= length sch.
  Proof.
    induction sch as [|ch r IH]; intros s; cbn; auto.
    destruct (step s ch); cbn; [apply le_n_S|apply le_S]; apply IH.
  Qed.

  Lemma mid_from_some l : forall k m, mid_from O W LS Call Res k l = Some m ->
    k <= m /\ exists t, nth_error l (m - k) = Some t /\ pcl t <> [].
  Proof.
    induction l as [|t r IH]; intros k m H; cbn in H; [discriminate|].
    destruct (pcl t) eqn:Ep.
    - destruct (IH _ _ H) as (Hle & t' & Hn & Hp). split; [lia|]. exists t'. split; auto.
      replace (m - k) with (S (m - S k)) by lia. exact Hn.
    - injection H as <-. split; [lia|]. exists t. rewrite Nat.sub_diag. split; [reflexivity|congruence].
  Qed.

  (* under the single-critical-section discipline every effective schedule is sequential *)
  Variable body : Call -> list (LS -> O -> W -> LS * O).
  Hypothesis prog_cs : forall c, prog c = cs_prog O W LS (body c).
  Notation Inv := (Inv O W LS Call Res).

  Lemma eff_legal sch : forall s, Inv s -> Legal s (eff s sch).
  Proof.
    induction sch as [|ch r IH]; intros s HI; cbn; [constructor|].
    destruct ch as [i|e]; cbn [Machine.step].
    - destruct (tstep s i) as [s'|] eqn:Es; [|apply IH; exact HI].
      econstructor; [|exact Es|apply IH; eapply inv_tstep; eauto].
      unfold Lin.candidates. destruct (mid O W LS Call Res s) as [m|] eqn:Em.
      + unfold Lin.mid in Em. destruct (mid_from_some _ _ _ Em) as (_ & t & Hn & Hp).
        rewrite Nat.sub_0_r in Hn. destruct HI as [Ht Ho]. destruct (Ht _ _ Hn) as [_ Hlk].
        assert (Hl : lock s = Some m) by (apply Hlk; exact Hp).
        left. symmetry. eapply (step_owner O W LS Call Res begin prog ret body prog_cs); eauto. split; auto.
      + apply in_seq. split; [lia|]. cbn. unfold Machine.tstep in Es.
        destruct (nth_error (threads s) i) eqn:En; [|discriminate]. apply nth_error_Some. congruence.
    - constructor. apply IH. destruct HI as [Ht Ho]. split; cbn [threads lock]; auto.
  Qed.

  Lemma list_eqb_refl l : list_eqb Res res_eqb l l = true.
  Proof. induction l; cbn; auto. rewrite res_eqb_refl. auto. Qed.

  Lemma final_ok_self s : all_done O W LS Call Res s = true -> final_ok s (results O W LS Call Res s) = true.
  Proof.
    intros Hd. unfold Lin.final_ok, results. rewrite Hd. cbn.
    induction (threads s) as [|t r IH]; cbn; auto. rewrite list_eqb_refl. auto.
  Qed.

  (* lock_linearizable, checker form: the results of ANY complete execution are those of a sequential
     execution found by `search` (with any fuel at least the length of the schedule + 1) *)
  Theorem lin_accepts s sch fuel : Inv s ->
    all_done O W LS Call Res (run s sch) = true -> length sch < fuel ->
    search fuel s (envs_of sch) (results O W LS Call Res (run s sch)) = true.
  Proof.
    intros HI Hd Hf.
    pose proof (search_complete s (eff s sch) (results O W LS Call Res (run s sch)) (eff_legal sch s HI)) as H.
    rewrite run_eff, envs_eff in H. specialize (H (final_ok_self _ Hd)).
    eapply search_le; [|exact H]. pose proof (length_eff sch s). lia.
  Qed.
End LP.
