(* C05: case/observation types, run_model, executable checker [holds], sx entry point.
   Three kinds of case: 0 = contains_ip_address called directly, 1 = file handler (HTTP or TFTP;
   same model), 2 = sqlite_update handler. *)
From Coq Require Import String.
From Coq Require Import List NArith ZArith Bool Arith.
From VF Require Import Base.Sx Addr.Text Addr.IPv6 IpMatch.Match IpMatch.Handlers.
Import ListNotations.
Open Scope N_scope.

Inductive kind := KContains | KFile | KUpdate.

Record case := {
  ckind : kind;
  craise : bool;                       (* raise_error_if_malformed (kind 0) *)
  centries : list entry;               (* the collection (kind 0) / client_address_list (kinds 1, 2) *)
  cclient : str;
  ckey : bool;                         (* client_address_key configured *)
  cact : action; cnores : noresult; ctemplate : bool; clookup : bool;
  cfind : find_out; cgetd : get_out; cfs : fs_out;
  cmethod_ok : bool;                   (* HTTP method accepted by the handler (GET/HEAD resp. POST); TFTP: true *)
  cbad_body : bool; cstore_fault : bool;  (* sqlite_update: unparsable request body; failing data store *)
  p4tab : list (str * pres); p6tab : list (str * pres);
  cref : option bool                   (* independent membership decision built on the ipaddress module *)
}.

(* observation: kind 0: (code of cres, 0); kinds 1, 2: (code of hres, number of fs accesses / store changes) *)
(* odetail: 0 = the reply carries nothing beyond its code (no message text in the TFTP ERROR, no headers or
   body in an HTTP error reply, the fixed body of the update handler's OK); 1 = it carries something else *)
Record obs := { ocode : N; ocount : N; odetail : N }.

Definition cres_code (r : cres) : N :=
  match r with CFalse => 0 | CTrue => 1 | CValueError => 2 | CTypeError => 3 end.
Definition hres_code (r : hres) : N :=
  match r with HContent => 0 | HNotFound => 1 | HForbidden => 2 | HError => 3 | HOk => 4 | HBadRequest => 5 | HMethod => 6 end.

Definition fcfg_of (c : case) : fcfg :=
  {| key_set := ckey c; cfg_list := centries c; act := cact c; nores := cnores c;
     template := ctemplate c; lookup := clookup c |}.
Definition fenv_of (c : case) : fenv := {| find := cfind c; getd := cgetd c; fs := cfs c |}.

Definition P4 (c : case) := tab_pton (p4tab c).
Definition P6 (c : case) := tab_pton (p6tab c).

Definition run_req (c : case) : obs :=
  match ckind c with
  | KContains => {| ocode := cres_code (contains (P4 c) (P6 c) (craise c) (centries c) (cclient c)); ocount := 0; odetail := 0 |}
  | KFile => let r := file_handle (P4 c) (P6 c) (fcfg_of c) (fenv_of c) (cclient c) in
             {| ocode := hres_code (fst r); ocount := snd r; odetail := 0 |}
  | KUpdate => let r := update_handle_f (P4 c) (P6 c) (cbad_body c) (cstore_fault c) (ckey c) (centries c) (cgetd c) (cclient c) in
               {| ocode := hres_code (fst r); ocount := snd r; odetail := 0 |}
  end.

(* the HTTP wrappers refuse other methods before anything else happens *)
Definition method_refused (c : case) : bool :=
  match ckind c with KContains => false | _ => negb (cmethod_ok c) end.
Definition run_model (c : case) : obs :=
  if method_refused c then {| ocode := 6; ocount := 0; odetail := 0 |} else run_req c.

(* ---- the property as a checker ---- *)
Definition chk (b : bool) (name : string) : list string := if b then [] else [name].
Definition implb (a b : bool) : bool := negb a || b.

(* the stage before the access check, and the effective collection, per kind *)
Definition cstage (c : case) : option (bool * option klookup) :=
  match ckind c with
  | KContains => Some (true, None)
  | KFile => stage1 (fcfg_of c) (fenv_of c)
  | KUpdate => update_stage (ckey c) (cgetd c)
  end.
Definition ceffective (c : case) (st : bool * option klookup) : exp :=
  match ckind c with
  | KContains => EList (centries c)
  | _ => combine (centries c) (if ckey c then key_expected (fst st) (snd st) else ENone)
  end.
Definition crestricted (c : case) : bool :=
  match ckind c with KContains => true | _ => restricted (ckey c) (centries c) end.
(* member of the union (128-bit embedding) after a successful stage; false when the stage fails *)
Definition cmember (c : case) : bool :=
  match cstage c with Some st => is_member (P4 c) (P6 c) (ceffective c st) (cclient c) | None => false end.
Definition cwell_typed (c : case) : bool :=
  match cstage c with Some st => exp_well_typed (ceffective c st) | None => false end.

Definition granted_code (c : case) (code : N) : bool :=
  match ckind c with
  | KContains => code =? 1
  | KFile => (code =? 0) || (code =? 1)          (* content, or the not-found decision that follows the check *)
  | KUpdate => (code =? 4) || (code =? 5)       (* applied, or the body was looked at *)
  end.

Definition holds_req0 (c : case) (o : obs) : list string :=
  match ckind c with
  | KContains =>
      chk (implb (negb (craise c) && cwell_typed c) (ocode o =? (if cmember c then 1 else 0))) "membership_spec" ++
      chk (implb (ocode o =? 1) (cmember c)) "fail_closed" ++
      chk (implb (negb (craise c)) (negb (ocode o =? 2))) "valueerror_only_if_requested" ++
      match cref c with
      | Some b => chk (implb (negb (craise c) && cwell_typed c) (Bool.eqb (ocode o =? 1) b)) "agrees_with_ipaddress_decision"
      | None => []
      end
  | _ =>
      chk (implb (crestricted c && granted_code c (ocode o)) (cmember c)) "fail_closed" ++
      chk (implb (crestricted c && negb (cmember c)) ((ocount o =? 0) && negb (granted_code c (ocode o)))) "deny_before_change" ++
      chk (implb (crestricted c)
             (match cstage c with
              | None => (ocode o =? 3) && (ocount o =? 0)
              | Some _ => implb (cwell_typed c && negb (cmember c)) ((ocode o =? 2) && (ocount o =? 0))
              end)) "no_leak" ++
      match cref c with
      | Some false => chk (implb (crestricted c) ((ocount o =? 0) && negb (granted_code c (ocode o)))) "ipaddress_decision_denies"
      | Some true => chk (implb (crestricted c && cwell_typed c) (negb ((ocode o =? 2) && (ocount o =? 0))))
                         "ipaddress_decision_allows"
      | None => []
      end
  end.

(* what a non-member receives carries nothing beyond the code: no text, header or body in which the
   existence of the system, its id, its data or the file could show *)
Definition detail_clause (c : case) (o : obs) : list string :=
  match ckind c with
  | KContains => []
  | _ => chk (implb (crestricted c && negb (cmember c)) (odetail o =? 0)) "no_leak_reply_detail"
  end.
Definition holds_req (c : case) (o : obs) : list string := holds_req0 c o ++ detail_clause c o.

Definition holds (c : case) (o : obs) : list string :=
  if method_refused c then chk ((ocode o =? 6) && (ocount o =? 0) && (odetail o =? 0)) "method_refused_before_anything"
  else holds_req c o.

(* ---- validity: oracle tables with the libc length facts; reference agrees with the specification ---- *)
Definition tab_ok (n : nat) (t : list (str * pres)) : bool :=
  forallb (fun e => match snd e with PBytes b => (length b =? n)%nat && all_bytes b | _ => true end) t.
Definition ref_ok (c : case) : bool :=
  match cref c with
  | None => true
  | Some false => negb (cmember c)
  | Some true => implb (cwell_typed c) (cmember c)
  end.
Definition validb (c : case) : bool := tab_ok 4 (p4tab c) && tab_ok 16 (p6tab c) && ref_ok c.
Definition valid (c : case) : Prop := validb c = true.

(* ---- sx codec ---- *)
(* a Python str: #hex when all code points are below 256, otherwise the list of its code points
   (so that non-Latin-1 text, e.g. non-ASCII decimal digits, reaches the model unchanged) *)
Definition asStr (x : sx) : option str :=
  match x with B s => Some s | L l => omap asN l | _ => None end.
Definition dec_pent (x : sx) : option (str * pres) :=
  match x with
  | L [k; I 0%Z; B b] => option_map (fun k => (k, PBytes b)) (asStr k)
  | L [k; I 1%Z; B _] => option_map (fun k => (k, POSError)) (asStr k)
  | L [k; I 2%Z; B _] => option_map (fun k => (k, PValueError)) (asStr k)
  | _ => None
  end.
Definition dec_entry (x : sx) : option entry :=
  match x with I _ => Some EBad | _ => option_map EStr (asStr x) end.
Definition dec_getd (x : sx) : option get_out :=
  match x with
  | L [I 0%Z] => Some GRaise
  | L [I 1%Z] => Some (GData KMissing)
  | L [I 2%Z] => Some (GData KTypeError)
  | L [I 3%Z; s] => option_map (fun s => GData (KVal (AStr s))) (asStr s)
  | L [I 4%Z] => Some (GData (KVal AFalsy))
  | L [I 5%Z; l] => option_map (fun l => GData (KVal (ASeq l))) (asListOf dec_entry l)
  | L [I 6%Z] => Some (GData (KVal ANonIter))
  | _ => None
  end.
Definition dec_kind (z : Z) : option kind :=
  match z with 0%Z => Some KContains | 1%Z => Some KFile | 2%Z => Some KUpdate | _ => None end.
Definition dec_act (z : Z) : option action :=
  match z with 0%Z => Some AError | 1%Z => Some AIgnore | 2%Z => Some AWarn | _ => None end.
Definition dec_find (z : Z) : option find_out :=
  match z with 0%Z => Some FFound | 1%Z => Some FNone | 2%Z => Some FRaise | _ => None end.
Definition dec_fs (z : Z) : option fs_out :=
  match z with 0%Z => Some FsContent | 1%Z => Some FsMissing | 2%Z => Some FsOSError
             | 3%Z => Some FsPermission | 4%Z => Some FsNoPath | _ => None end.
Definition dec_ref (x : sx) : option (option bool) :=
  match x with L [] => Some None | L [I 0%Z] => Some (Some false) | L [I 1%Z] => Some (Some true) | _ => None end.
Definition nz (z : Z) : bool := negb (z =? 0)%Z.

Definition decode (x : sx) : option (case * obs) :=
  match x with
  | L [I k; I r; ents; clx; I key; I a; I nr; I tp; I lk; I fd; gd; I f; I mok; I bb; I sf; t4; t6; rf; L [I oc; I on; I od]] =>
      obind (asStr clx) (fun cl => obind (dec_kind k) (fun k => obind (asListOf dec_entry ents) (fun ents =>
      obind (dec_act a) (fun a => obind (dec_find fd) (fun fd => obind (dec_getd gd) (fun gd =>
      obind (dec_fs f) (fun f => obind (asListOf dec_pent t4) (fun t4 => obind (asListOf dec_pent t6) (fun t6 =>
      obind (dec_ref rf) (fun rf =>
      Some ({| ckind := k; craise := nz r; centries := ents; cclient := cl; ckey := nz key; cact := a;
               cnores := if nz nr then NRContinue else NRNotFound; ctemplate := nz tp; clookup := nz lk;
               cfind := fd; cgetd := gd; cfs := f; cmethod_ok := nz mok; cbad_body := nz bb; cstore_fault := nz sf;
               p4tab := t4; p6tab := t6; cref := rf |},
            {| ocode := Z.to_N oc; ocount := Z.to_N on; odetail := Z.to_N od |})))))))))))
  | _ => None
  end.

Definition enc_obs (o : obs) : sx := L [sxN (ocode o); sxN (ocount o); sxN (odetail o)].

(* ---- histories: a sequence of requests handled by ONE long-lived handler object ----
   The modelled handlers keep no state between requests (their result is a function of the
   configuration, the request and what the data source answers for the targeted system), so the
   model of a history decides every step on its own; the implementation's per-step observations
   (the real handler object reused across the steps) are judged step by step by [holds]. *)
Definition run_history (h : list case) : list obs := map run_model h.
Fixpoint holds_history (h : list case) (os : list obs) : list string :=
  match h, os with
  | [], [] => []
  | c :: h', o :: os' => holds c o ++ holds_history h' os'
  | _, _ => ["history_length"%string]
  end.
(* the steps of a history share the handler configuration *)
Definition same_handler (a b : case) : bool :=
  Bool.eqb (ckey a) (ckey b) && (length (centries a) =? length (centries b))%nat &&
  match ckind a, ckind b with KFile, KFile | KUpdate, KUpdate => true | _, _ => false end.
Definition valid_history (h : list case) : Prop := Forall valid h.

Definition entry1 (x : sx) : option (obs * list string * list string * bool) :=
  match decode x with
  | None => None
  | Some (c, io) => let m := run_model c in Some (m, holds c m, holds c io, validb c)
  end.

Definition entry (x : sx) : sx :=
  match x with
  | L [I 9%Z; L steps] =>
      match omap entry1 steps with
      | None => sxS "bad-case"
      | Some rs =>
          L [ L (map (fun r => enc_obs (fst (fst (fst r)))) rs);
              L (map sxS (flat_map (fun r => snd (fst (fst r))) rs));
              L (map sxS (flat_map (fun r => snd (fst r)) rs));
              L []; sxBool (forallb (fun r => snd r) rs) ]
      end
  | _ =>
  match decode x with
  | None => sxS "bad-case"
  | Some (c, io) =>
      let m := run_model c in
      (* 5th item: the case satisfies the hypotheses of C05_holds (C05_covered_cases applies) *)
      L [ enc_obs m; L (map sxS (holds c m)); L (map sxS (holds c io)); L [];
          sxBool (validb c); sxBool (cmember c); sxBool (cwell_typed c) ]
  end
  end.
