(* Every transfer ends, and within packets x (1 + max_retries) x timeout of virtual time. *)
From Coq Require Import String.
From Coq Require Import List NArith ZArith Bool Lia.
From VF Require Import Base.Sx Tftp.Readers Tftp.ReadersProofs Tftp.Codec Tftp.Transfer Tftp.Run Tftp.Monitor
  Tftp.MonitorProofs.
Import ListNotations.
Open Scope Z_scope.

Lemma last_time_app l1 l2 acc : last_time (l1 ++ l2) acc = last_time l2 (last_time l1 acc).
Proof.
  revert acc; induction l1 as [|e l1 IH]; intros acc; cbn [app last_time]; [reflexivity|].
  destruct e; apply IH.
Qed.
(* all time stamps in l are <= m *)
Definition times_le (l : list tr) (m : Z) : Prop := forall acc, last_time l acc <= Z.max acc m.

Lemma times_le_nil m : times_le [] m.
Proof. intros acc; cbn [last_time]; lia. Qed.
Lemma times_le_app l1 l2 m : times_le l1 m -> times_le l2 m -> times_le (l1 ++ l2) m.
Proof. intros H1 H2 acc. rewrite last_time_app. specialize (H2 (last_time l1 acc)). specialize (H1 acc). lia. Qed.
Lemma times_le_weaken l m m' : times_le l m -> m <= m' -> times_le l m'.
Proof. intros H Hm acc. specialize (H acc). lia. Qed.
Lemma times_le_send t a p l m : t <= m -> times_le l m -> times_le (TSend t a p :: l) m.
Proof. intros Ht Hl acc. cbn [last_time]. specialize (Hl (Z.max acc t)). lia. Qed.
Lemma times_le_recv t a d l m : t <= m -> times_le l m -> times_le (TRecv t a d :: l) m.
Proof. intros Ht Hl acc. cbn [last_time]. specialize (Hl (Z.max acc t)). lia. Qed.
Lemma times_le_timeout t l m : t <= m -> times_le l m -> times_le (TTimeout t :: l) m.
Proof. intros Ht Hl acc. cbn [last_time]. specialize (Hl (Z.max acc t)). lia. Qed.

Lemma times_le_other e l m :
  match e with TLogExc | TCloseFile | TCloseSock => True | _ => False end ->
  times_le l m -> times_le (e :: l) m.
Proof. intros He Hl acc. destruct e; try contradiction; cbn [last_time]; apply Hl. Qed.

Lemma await_times c w : 0 <= proc c -> v c = current -> forall evs now deadline o n' e' l,
  await c w now deadline evs = (o, n', e', l) ->
  now <= n' <= Z.max now (deadline + proc c) /\ times_le l n'.
Proof.
  intros Hp Hv.
  induction evs as [|[t a d] evs IH]; intros now deadline o n' e' l H; cbn [await] in H;
    rewrite Hv in H; cbn [late_recv current negb andb] in H;
    destruct (Z.leb_spec deadline now) as [Hover|Hin].
  - injection H as <- <- <- <-. split; [lia|]. apply times_le_timeout; [lia|apply times_le_nil].
  - unfold sock_timeout in H; destruct (Z.ltb_spec 0 (deadline - now)) as [_|Hc]; try lia;
      replace (now + (deadline - now)) with deadline in H by lia.
    injection H as <- <- <- <-. split; [lia|]. apply times_le_timeout; [lia|apply times_le_nil].
  - injection H as <- <- <- <-. split; [lia|]. apply times_le_timeout; [lia|apply times_le_nil].
  - unfold sock_timeout in H; destruct (Z.ltb_spec 0 (deadline - now)) as [_|Hc]; try lia;
      replace (now + (deadline - now)) with deadline in H by lia.
    destruct (Z.ltb_spec t deadline) as [Hlt|Hge].
    + destruct (negb (a =? client)%N).
      * destruct (await c w (Z.max now t + proc c) deadline evs) as [[[o2 n2] e2] l2] eqn:E2.
        injection H as <- <- <- <-.
        destruct (IH (Z.max now t + proc c) deadline _ _ _ _ E2) as [I1 I2].
        split; [lia|]. apply times_le_recv; [lia|]. apply times_le_send; [lia|exact I2].
      * destruct (classify current d).
        -- destruct (n =? w)%N.
           ++ injection H as <- <- <- <-. split; [lia|]. apply times_le_recv; [lia|apply times_le_nil].
           ++ destruct (await c w (Z.max now t + proc c) deadline evs) as [[[o2 n2] e2] l2] eqn:E2.
              injection H as <- <- <- <-.
              destruct (IH (Z.max now t + proc c) deadline _ _ _ _ E2) as [I1 I2].
              split; [lia|]. apply times_le_recv; [lia|exact I2].
        -- injection H as <- <- <- <-. split; [lia|]. apply times_le_recv; [lia|apply times_le_nil].
        -- injection H as <- <- <- <-. split; [lia|]. apply times_le_recv; [lia|apply times_le_nil].
        -- injection H as <- <- <- <-. split; [lia|]. apply times_le_recv; [lia|apply times_le_nil].
    + injection H as <- <- <- <-. split; [lia|]. apply times_le_timeout; [lia|apply times_le_nil].
Qed.

Section Times.
  Variable c : cfg.
  Hypothesis tm_pos : 0 < tmo c.
  Hypothesis pr_nonneg : 0 <= proc c.
  Hypothesis v_cur : v c = current.

  Lemma send_tries_times : forall k p w now evs o n' e' l,
    send_tries c (S k) p w now evs = (o, n', e', l) ->
    now <= n' <= now + Z.of_nat (S k) * (tmo c + proc c) /\ times_le l n'.
  Proof.
    induction k as [|k IH]; intros p w now evs o n' e' l H; rewrite send_tries_S in H;
      destruct (await c w now (now + tmo c) evs) as [[[o1 n1] e1] l1] eqn:E1;
      destruct (await_times c w pr_nonneg v_cur evs now (now + tmo c) o1 n1 e1 l1 E1) as [A1 A2].
    - assert (G : forall oo, (oo, n1, e1, TSend now client p :: l1) = (o, n', e', l) ->
                now <= n' <= now + Z.of_nat 1 * (tmo c + proc c) /\ times_le l n').
      { intros oo HH. injection HH as <- <- <- <-. split; [lia|]. apply times_le_send; [lia|exact A2]. }
      destruct o1; try (eapply G; exact H). destruct (retry_fallthrough (v c)); eapply G; exact H.
    - assert (G : forall oo, (oo, n1, e1, TSend now client p :: l1) = (o, n', e', l) ->
                now <= n' <= now + Z.of_nat (S (S k)) * (tmo c + proc c) /\ times_le l n').
      { intros oo HH. injection HH as <- <- <- <-. split; [nia|]. apply times_le_send; [lia|exact A2]. }
      destruct o1; try (eapply G; exact H).
      destruct (send_tries c (S k) p w n1 e1) as [[[o2 n2] e2] l2] eqn:E2.
      injection H as <- <- <- <-.
      destruct (IH _ _ _ _ _ _ _ _ E2) as [B1 B2].
      split; [nia|]. apply times_le_send; [lia|]. apply times_le_app; [|exact B2].
      eapply times_le_weaken; [exact A2|lia].
  Qed.

  Lemma send_blocks_times : forall blocks blk now evs r n' e' l,
    send_blocks c blk blocks now evs = (r, n', e', l) ->
    now <= n' <= now + Z.of_nat (length (fst (number_blocks (wrap c) blk blocks))) *
                        (Z.of_nat (S (retries c)) * (tmo c + proc c))
    /\ times_le l n'.
  Proof.
    induction blocks as [|b rest IH]; intros blk now evs r n' e' l H; cbn [send_blocks] in H.
    - injection H as <- <- <- <-. cbn. split; [lia|apply times_le_nil].
    - cbn [number_blocks]. destruct (next_block (wrap c) blk) as [n|].
      2:{ injection H as <- <- <- <-. cbn. split; [lia|apply times_le_nil]. }
      destruct (send_tries c (S (retries c)) (PData n b) n now evs) as [[[o n1] e1] l1] eqn:E1.
      destruct (send_tries_times _ _ _ _ _ _ _ _ _ E1) as [A1 A2].
      destruct (number_blocks (wrap c) n rest) as [lr orr] eqn:Enb. cbn [fst length].
      assert (G : (inl o : outcome + ending, n1, e1, l1) = (r, n', e', l) ->
                now <= n' <= now + Z.of_nat (S (length lr)) * (Z.of_nat (S (retries c)) * (tmo c + proc c)) /\ times_le l n').
      { intros HH. injection HH as <- <- <- <-. split; [nia|exact A2]. }
      destruct o; try (apply G; exact H).
      destruct (send_blocks c n rest n1 e1) as [[[r2 n2] e2] l2] eqn:E2.
      injection H as <- <- <- <-.
      destruct (IH _ _ _ _ _ _ _ E2) as [B1 B2]. rewrite Enb in B1. cbn [fst] in B1.
      split; [nia|]. apply times_le_app; [|exact B2]. eapply times_le_weaken; [exact A2|lia].
  Qed.
End Times.

Theorem transfer_within_time c : valid c -> within_time c (run_transfer_case c) = true.
Proof.
  intros Hv. pose proof Hv as (Hcur & Hnv & Hna & Hb & Ht & Hpr).
  destruct (negotiate_pos (t_limits c) (t_netascii c) (t_kind c) (t_options c) Hb Ht) as [_ Htm].
  assert (tm_pos : 0 < tmo (t_cfg c)).
  { unfold t_cfg, t_neg; cbn [tmo]. rewrite Hnv. unfold TICKS. lia. }
  assert (pr_nonneg : 0 <= proc (t_cfg c)) by exact Hpr.
  assert (v_cur : v (t_cfg c) = current) by exact Hcur.
  unfold within_time, time_bound, run_transfer_case. rewrite (t_blocks_spec c Hv).
  apply Z.leb_le. unfold expected.
  destruct (number_blocks (t_wrap c) 0%N (spec_blocks c)) as [lb ob] eqn:Enb.
  set (U := Z.of_nat (S (t_retries c)) * (tmo (t_cfg c) + t_proc c)).
  assert (HU : 0 <= U) by (subst U; nia).
  assert (Fin : forall r now, times_le (finish r now ++ [TCloseFile; TCloseSock]) now).
  { intros r now. apply times_le_app.
    - destruct r as [[]|[]]; cbn [finish]; try apply times_le_nil;
        repeat (first [apply times_le_send; [lia|] | apply times_le_nil | apply times_le_other; [exact Logic.I|]]).
    - intros acc. cbn [last_time]. lia. }
  unfold transfer, transfer_r.
  destruct (n_oack (t_neg c)) as [|oa1 oar] eqn:Eoa.
  - destruct (send_blocks (t_cfg c) 0%N (spec_blocks c) 0 (t_events c)) as [[[r n] e] l] eqn:E. cbn [snd].
    destruct (send_blocks_times (t_cfg c) tm_pos pr_nonneg v_cur _ _ _ _ _ _ _ _ E) as [A1 A2].
    cbn [wrap t_cfg] in A1. rewrite Enb in A1. cbn [fst retries proc t_cfg] in A1. fold U in A1.
    cbn [fst]. pose proof (times_le_app l _ n A2 (Fin r n) 0). lia.
  - destruct (send_tries (t_cfg c) (S (retries (t_cfg c))) (POack (oa1 :: oar)) 0%N 0 (t_events c))
      as [[[o n1] e1] l1] eqn:E1. cbn [snd].
    destruct (send_tries_times (t_cfg c) tm_pos pr_nonneg v_cur _ _ _ _ _ _ _ _ _ E1) as [A1 A2].
    cbn [retries proc t_cfg] in A1. fold U in A1. cbn [fst length].
    assert (G : forall oo, times_le (l1 ++ finish (inl oo) n1 ++ [TCloseFile; TCloseSock]) n1).
    { intros oo. apply times_le_app; [exact A2|apply Fin]. }
    destruct o; cbn [snd]; try (match goal with |- context [finish (inl ?x)] => pose proof (G x 0) end; nia).
    destruct (send_blocks (t_cfg c) 0%N (spec_blocks c) n1 e1) as [[[r n] e] l] eqn:E. cbn [snd].
    destruct (send_blocks_times (t_cfg c) tm_pos pr_nonneg v_cur _ _ _ _ _ _ _ _ E) as [B1 B2].
    cbn [wrap t_cfg] in B1. rewrite Enb in B1. cbn [fst retries proc t_cfg] in B1. fold U in B1.
    assert (T : times_le ((l1 ++ l) ++ finish r n ++ [TCloseFile; TCloseSock]) n).
    { apply times_le_app; [|apply Fin]. apply times_le_app; [|exact B2].
      eapply times_le_weaken; [exact A2|lia]. }
    pose proof (T 0). nia.
Qed.
Print Assumptions transfer_within_time.
