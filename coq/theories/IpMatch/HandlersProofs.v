(* Access-control theorems for the handler models. *)
From Coq Require Import List NArith Bool Lia.
From VF Require Import Addr.Text Addr.TextProofs Addr.IPv6 IpMatch.Match IpMatch.MatchProofs IpMatch.Handlers.
Import ListNotations.
Open Scope N_scope.

Section Oracles.
  Variable pton4 : str -> pres.
  Variable pton6 : str -> pres.
  Hypothesis pton4_len : forall s b, pton4 s = PBytes b -> length b = 4%nat /\ all_bytes b = true.
  Hypothesis pton6_len : forall s b, pton6 s = PBytes b -> length b = 16%nat /\ all_bytes b = true.

  Notation check := (check pton4 pton6).
  Notation is_member := (is_member pton4 pton6).
  Notation file_handle := (file_handle pton4 pton6).
  Notation update_handle := (update_handle pton4 pton6).

  Lemma forallb_entry_ok l : forallb entry_ok l = true -> well_typed l.
  Proof.
    intros H. rewrite forallb_forall in H. apply Forall_forall. intros e He Eq. subst.
    specialize (H _ He). discriminate.
  Qed.

  Lemma check_granted e client : check e client = Granted -> e = ENone \/ is_member e client = true.
  Proof.
    destruct e as [|l| |]; cbn [Handlers.check Handlers.is_member]; try discriminate; auto.
    2:{ destruct (split46 pton4 pton6 client); discriminate. }
    destruct (contains pton4 pton6 false l client) eqn:C; try discriminate. intros _. right.
    now apply (contains_sound pton4 pton6 pton4_len pton6_len false).
  Qed.

  Lemma check_denied e client : exp_well_typed e = true -> is_member e client = false ->
    check e client = Denied.
  Proof.
    destruct e as [|l| |]; cbn [exp_well_typed Handlers.check Handlers.is_member]; try discriminate.
    intros W M. rewrite (membership_spec pton4 pton6 pton4_len pton6_len l client (forallb_entry_ok l W)).
    now rewrite M.
  Qed.

  Lemma combine_restricted key cfgl e0 : restricted key cfgl = true ->
    combine cfgl (if key then e0 else ENone) = ENone -> key = true /\ e0 = ENone.
  Proof.
    unfold restricted, combine. destruct cfgl as [|c l].
    - rewrite orb_false_r. intros ->. auto.
    - intros _. destruct key; [destruct e0|]; discriminate.
  Qed.
  Lemma key_expected_not_none s d : key_expected s d <> ENone.
  Proof. unfold key_expected. destruct (negb s); [discriminate|]. destruct d as [[| |[]]|]; discriminate. Qed.

  Lemma effective_restricted cfg st : restricted (key_set cfg) (cfg_list cfg) = true -> effective cfg st <> ENone.
  Proof.
    intros R E. unfold effective in E. destruct (combine_restricted _ _ _ R E) as [_ K].
    exact (key_expected_not_none _ _ K).
  Qed.

  (* content is produced only for members of list U data-under-key *)
  Theorem fail_closed_file cfg env client n : restricted (key_set cfg) (cfg_list cfg) = true ->
    file_handle cfg env client = (HContent, n) ->
    exists st, stage1 cfg env = Some st /\ is_member (effective cfg st) client = true.
  Proof.
    intros R H. unfold Handlers.file_handle in H. destruct (stage1 cfg env) as [st|]; [|discriminate].
    exists st. split; [reflexivity|]. destruct (check (effective cfg st) client) eqn:C; try discriminate.
    destruct (check_granted _ _ C) as [E|M]; [|exact M]. now apply effective_restricted in E.
  Qed.

  (* a store operation is issued only for members *)
  Theorem fail_closed_update key cfgl g client : restricted key cfgl = true ->
    snd (update_handle key cfgl g client) <> 0 ->
    exists st, update_stage key g = Some st /\
      is_member (combine cfgl (if key then key_expected (fst st) (snd st) else ENone)) client = true.
  Proof.
    intros R H. unfold Handlers.update_handle in H. destruct (update_stage key g) as [st|]; [|now cbn in H].
    exists st. split; [reflexivity|].
    destruct (check (combine cfgl (if key then key_expected (fst st) (snd st) else ENone)) client) eqn:C;
      try (now cbn in H).
    destruct (check_granted _ _ C) as [E|M]; [|exact M].
    destruct (combine_restricted _ _ _ R E) as [_ K]. now apply key_expected_not_none in K.
  Qed.

  (* not a member => no file-system access and no content *)
  Theorem deny_before_change_file cfg env client : restricted (key_set cfg) (cfg_list cfg) = true ->
    (forall st, stage1 cfg env = Some st -> is_member (effective cfg st) client = false) ->
    snd (file_handle cfg env client) = 0 /\ fst (file_handle cfg env client) <> HContent /\
    fst (file_handle cfg env client) <> HNotFound.
  Proof.
    intros R NM. unfold Handlers.file_handle. destruct (stage1 cfg env) as [st|]; [|cbn; repeat split; discriminate].
    specialize (NM st eq_refl). destruct (check (effective cfg st) client) eqn:C; try (cbn; repeat split; discriminate).
    destruct (check_granted _ _ C) as [E|M]; [now apply effective_restricted in E|congruence].
  Qed.

  (* not a member => the data store is not touched *)
  Theorem deny_before_change_update key cfgl g client : restricted key cfgl = true ->
    (forall st, update_stage key g = Some st ->
       is_member (combine cfgl (if key then key_expected (fst st) (snd st) else ENone)) client = false) ->
    snd (update_handle key cfgl g client) = 0 /\ fst (update_handle key cfgl g client) <> HOk.
  Proof.
    intros R NM. unfold Handlers.update_handle. destruct (update_stage key g) as [st|]; [|cbn; split; [reflexivity|discriminate]].
    specialize (NM st eq_refl).
    destruct (check (combine cfgl (if key then key_expected (fst st) (snd st) else ENone)) client) eqn:C;
      try (cbn; split; [reflexivity|discriminate]).
    destruct (check_granted _ _ C) as [E|M]; [|congruence].
    destruct (combine_restricted _ _ _ R E) as [_ K]. now apply key_expected_not_none in K.
  Qed.

  (* what a non-member receives: forbidden, or the error when the data source fails visibly -
     the right-hand sides mention neither the file system, nor whether the system is known, nor
     whether it has data, nor lookup_no_result_action *)
  Theorem no_leak cfg env client :
    (stage1 cfg env = None -> file_handle cfg env client = (HError, 0)) /\
    (forall st, stage1 cfg env = Some st -> exp_well_typed (effective cfg st) = true ->
       is_member (effective cfg st) client = false -> file_handle cfg env client = (HForbidden, 0)).
  Proof.
    unfold Handlers.file_handle. split.
    - intros ->. reflexivity.
    - intros st -> W M. now rewrite (check_denied _ _ W M).
  Qed.

  Definition nonmember (cfg : fcfg) (env : fenv) (client : str) : Prop :=
    forall st, stage1 cfg env = Some st ->
      exp_well_typed (effective cfg st) = true /\ is_member (effective cfg st) client = false.

  Theorem no_leak_independent cfg1 env1 cfg2 env2 client :
    nonmember cfg1 env1 client -> nonmember cfg2 env2 client ->
    ds_visible_failure cfg1 env1 = ds_visible_failure cfg2 env2 ->
    file_handle cfg1 env1 client = file_handle cfg2 env2 client.
  Proof.
    intros N1 N2 D. unfold ds_visible_failure in D.
    destruct (no_leak cfg1 env1 client) as [A1 B1]. destruct (no_leak cfg2 env2 client) as [A2 B2].
    destruct (stage1 cfg1 env1) as [s1|] eqn:S1; destruct (stage1 cfg2 env2) as [s2|] eqn:S2; try discriminate.
    - destruct (N1 s1 S1) as [W1 M1]. destruct (N2 s2 S2) as [W2 M2].
      now rewrite (B1 s1 eq_refl W1 M1), (B2 s2 eq_refl W2 M2).
    - now rewrite (A1 eq_refl), (A2 eq_refl).
  Qed.

  (* ill-typed or malformed data never widens: with a non-member the result is never content / a
     store operation, whatever else (ill-typed entries, values, lookup errors) is configured or stored *)
  Theorem never_widens_file cfg env client n : restricted (key_set cfg) (cfg_list cfg) = true ->
    (forall st, stage1 cfg env = Some st -> is_member (effective cfg st) client = false) ->
    file_handle cfg env client <> (HContent, n).
  Proof.
    intros R NM H. destruct (deny_before_change_file cfg env client R NM) as (_ & C & _). rewrite H in C. now apply C.
  Qed.

  (* the same with a malformed request body and / or a failing data store: still nothing is
     stored for a non-member, and whatever is stored was requested by a member *)
  Lemma update_handle_f_plain key cfgl g client :
    Handlers.update_handle_f pton4 pton6 false false key cfgl g client = update_handle key cfgl g client.
  Proof. reflexivity. Qed.

  Theorem deny_before_change_update_f bb sf key cfgl g client : restricted key cfgl = true ->
    (forall st, update_stage key g = Some st ->
       is_member (combine cfgl (if key then key_expected (fst st) (snd st) else ENone)) client = false) ->
    snd (Handlers.update_handle_f pton4 pton6 bb sf key cfgl g client) = 0 /\
    (fst (Handlers.update_handle_f pton4 pton6 bb sf key cfgl g client) = HForbidden \/
     fst (Handlers.update_handle_f pton4 pton6 bb sf key cfgl g client) = HError).
  Proof.
    intros R NM. unfold Handlers.update_handle_f. destruct (update_stage key g) as [st|]; [|cbn; auto].
    specialize (NM st eq_refl).
    destruct (check (combine cfgl (if key then key_expected (fst st) (snd st) else ENone)) client) eqn:C;
      try (cbn; auto).
    destruct (check_granted _ _ C) as [E|M]; [|congruence].
    destruct (combine_restricted _ _ _ R E) as [_ K]. now apply key_expected_not_none in K.
  Qed.

  Theorem fail_closed_update_f bb sf key cfgl g client : restricted key cfgl = true ->
    snd (Handlers.update_handle_f pton4 pton6 bb sf key cfgl g client) <> 0 ->
    exists st, update_stage key g = Some st /\
      is_member (combine cfgl (if key then key_expected (fst st) (snd st) else ENone)) client = true.
  Proof.
    intros R H. unfold Handlers.update_handle_f in H. destruct (update_stage key g) as [st|]; [|now cbn in H].
    exists st. split; [reflexivity|].
    destruct (check (combine cfgl (if key then key_expected (fst st) (snd st) else ENone)) client) eqn:C;
      try (now cbn in H).
    destruct (check_granted _ _ C) as [E|M]; [|exact M].
    destruct (combine_restricted _ _ _ R E) as [_ K]. now apply key_expected_not_none in K.
  Qed.

  (* a failing or refused operation changes nothing *)
  Theorem update_failure_changes_nothing bb sf key cfgl g client :
    fst (Handlers.update_handle_f pton4 pton6 bb sf key cfgl g client) <> HOk ->
    snd (Handlers.update_handle_f pton4 pton6 bb sf key cfgl g client) = 0.
  Proof.
    unfold Handlers.update_handle_f, update_apply. destruct (update_stage key g); [|reflexivity].
    destruct (check _ _); try reflexivity. destruct bb; [reflexivity|]. destruct sf; [reflexivity|].
    cbn. congruence.
  Qed.
End Oracles.
