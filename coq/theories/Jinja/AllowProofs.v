(* Proofs for the allow-list: exact characterisation and transparency of the result cache. *)
From Coq Require Import List NArith Bool Arith Lia.
From VF Require Import Jinja.PosixPath Jinja.PosixPathProofs Jinja.Allow.
Import ListNotations.
Open Scope N_scope.

Lemma starts_with_iff p s : starts_with p s = true <-> exists rest, s = p ++ rest.
Proof.
  revert s. induction p as [|a p IH]; intros s; cbn [starts_with].
  - split; [intros _; exists s; reflexivity|reflexivity].
  - destruct s as [|b s]; [split; [discriminate|intros [r Hr]; discriminate]|].
    rewrite andb_true_iff, IH, N.eqb_eq. split.
    + intros [-> [r ->]]. exists r. reflexivity.
    + intros [r Hr]. injection Hr as -> ->. split; [reflexivity|exists r; reflexivity].
Qed.

Lemma ends_with_iff suffix s : ends_with suffix s = true <-> exists p, s = p ++ suffix.
Proof.
  unfold ends_with. rewrite starts_with_iff. split.
  - intros [r Hr]. exists (rev r). apply (f_equal (@rev N)) in Hr.
    rewrite rev_involutive, rev_app_distr, rev_involutive in Hr. exact Hr.
  - intros [p ->]. exists (rev p). now rewrite rev_app_distr.
Qed.

Lemma firstn_cut1 (p : bytes) : firstn (length (p ++ DOTSTAR) - 1) (p ++ DOTSTAR) = p ++ [46].
Proof.
  unfold DOTSTAR. change (p ++ [46; 42]) with (p ++ [46] ++ [42]). rewrite app_assoc.
  replace (Nat.sub (length ((p ++ [46]) ++ [42])) 1) with (Nat.add (length (p ++ [46])) 0)
    by (rewrite !app_length; cbn [length]; lia).
  rewrite firstn_app_2. cbn [firstn]. now rewrite app_nil_r.
Qed.

(* access is granted iff some entry is "*", or equals the module, or is "p.*" with the module starting with "p." *)
Theorem allow_spec allow m :
  allowed 1 allow m = true <->
  exists e, In e allow /\ (e = STAR \/ e = m \/ exists p rest, e = p ++ DOTSTAR /\ m = p ++ [46] ++ rest).
Proof.
  unfold allowed. rewrite existsb_exists. split.
  - intros (e & Hin & H). exists e. split; [exact Hin|]. unfold allowed_by in H.
    destruct (bytes_eqb e STAR) eqn:E1; [left; now apply beq_eq|].
    destruct (ends_with DOTSTAR e) eqn:E2.
    + right; right. apply ends_with_iff in E2 as [p ->]. rewrite firstn_cut1 in H.
      apply starts_with_iff in H as [rest ->]. exists p, rest. now rewrite <- app_assoc.
    + right; left. now apply beq_eq.
  - intros (e & Hin & H). exists e. split; [exact Hin|]. unfold allowed_by.
    destruct (bytes_eqb e STAR) eqn:E1; [reflexivity|].
    destruct H as [->|[->|(p & rest & -> & ->)]].
    + rewrite beq_refl in E1. discriminate.
    + destruct (ends_with DOTSTAR m) eqn:E2; [|apply beq_refl].
      apply ends_with_iff in E2 as [p ->]. rewrite firstn_cut1. apply starts_with_iff.
      exists [42]. now rewrite <- app_assoc.
    + assert (E2 : ends_with DOTSTAR (p ++ DOTSTAR) = true) by (apply ends_with_iff; eauto).
      rewrite E2, firstn_cut1. apply starts_with_iff. exists rest. now rewrite <- app_assoc.
Qed.

(* ---------- the cache ---------- *)
Definition cache_ok (cut : nat) (allow : list bytes) (c : acache) : Prop :=
  forall m b, clookup c m = Some b -> b = allowed cut allow m.

Lemma clookup_app c kv m :
  clookup (c ++ [kv]) m = match clookup c m with Some b => Some b | None => if bytes_eqb (fst kv) m then Some (snd kv) else None end.
Proof.
  induction c as [|[k v] c IH]; cbn [app clookup].
  - destruct kv as [k v]. reflexivity.
  - destruct (bytes_eqb k m); [reflexivity|exact IH].
Qed.

Lemma check_access_ok cut limit allow c m : cache_ok cut allow c ->
  snd (check_access cut limit allow c m) = allowed cut allow m /\
  cache_ok cut allow (fst (check_access cut limit allow c m)).
Proof.
  intros Hc. unfold check_access. destruct (clookup c m) as [b|] eqn:E.
  - cbn. split; [now apply Hc|exact Hc].
  - cbn [fst snd]. split; [reflexivity|].
    intros m' b'. rewrite clookup_app. cbn [fst snd].
    destruct (limit <=? length c)%nat.
    + cbn [clookup]. destruct (bytes_eqb m m') eqn:E2; [|discriminate].
      apply beq_eq in E2. subst m'. now intros [= <-].
    + destruct (clookup c m') as [b0|] eqn:E3; [intros [= <-]; now apply Hc|].
      destruct (bytes_eqb m m') eqn:E2; [|discriminate].
      apply beq_eq in E2. subst m'. now intros [= <-].
Qed.

(* whatever was asked before, and for every limit (1024 in the code), the answers are those of
   the uncached test *)
Theorem allow_cache_transparent cut limit allow : forall ms c, cache_ok cut allow c ->
  snd (check_all cut limit allow c ms) = map (allowed cut allow) ms /\
  cache_ok cut allow (fst (check_all cut limit allow c ms)).
Proof.
  induction ms as [|m r IH]; intros c Hc; cbn [check_all map].
  - auto.
  - destruct (check_access_ok cut limit allow c m Hc) as [Hb Hc1].
    destruct (check_access cut limit allow c m) as [c1 b]. cbn [fst snd] in Hb, Hc1.
    destruct (IH c1 Hc1) as [Hbs Hc2].
    destruct (check_all cut limit allow c1 r) as [c2 bs]. cbn [fst snd] in *. subst. auto.
Qed.

(* the cache never holds more than max(limit, 1) entries *)
Lemma check_access_bound cut limit allow c m : (length c <= Nat.max limit 1)%nat ->
  (length (fst (check_access cut limit allow c m)) <= Nat.max limit 1)%nat.
Proof.
  intros H. unfold check_access. destruct (clookup c m); [exact H|]. cbn [fst].
  destruct (Nat.leb_spec limit (length c)); rewrite app_length; cbn [length]; lia.
Qed.

Theorem cache_bounded cut limit allow : forall ms c, (length c <= Nat.max limit 1)%nat ->
  (length (fst (check_all cut limit allow c ms)) <= Nat.max limit 1)%nat.
Proof.
  induction ms as [|m r IH]; intros c H; cbn [check_all]; [exact H|].
  pose proof (check_access_bound cut limit allow c m H) as H1.
  destruct (check_access cut limit allow c m) as [c1 b]. cbn [fst] in H1.
  specialize (IH c1 H1). destruct (check_all cut limit allow c1 r) as [c2 bs]. exact IH.
Qed.

(* an attribute reaches the template only through a module that the allow-list admits under its FULL
   dotted name and that really is a module of that name *)
Theorem getitem_confined allow is_module has_attr key :
  getitem 1 allow is_module has_attr key = GValue ->
  exists m a, rsplit_dot key = Some (m, a) /\ allowed 1 allow m = true /\ is_module m = true /\ has_attr m a = true.
Proof.
  unfold getitem. destruct (rsplit_dot key) as [[m a]|]; [|discriminate].
  destruct (allowed 1 allow m) eqn:E1; [|discriminate]. cbn [negb].
  assert (H : (if negb (is_module m) then GNoModule else if has_attr m a then GValue else GNoAttr) = GValue ->
              is_module m = true /\ has_attr m a = true).
  { destruct (is_module m); [|discriminate]. destruct (has_attr m a); [auto|discriminate]. }
  destruct m as [|c m']; [discriminate|]. destruct (N.eqb_spec c 46) as [->|Hc].
  - discriminate.
  - intros Hv. assert (Hv' : (if negb (is_module (c :: m')) then GNoModule else if has_attr (c :: m') a then GValue else GNoAttr) = GValue).
    { revert Hv. clear -Hc. destruct c as [|p]; [auto|]. repeat (destruct p as [p|p|]; try exact (fun h => h)); congruence. }
    destruct (H Hv') as [H1 H2]. exists (c :: m'), a. repeat split; auto.
Qed.

Lemma cut_at_dot_spec l a b : cut_at_dot l = Some (a, b) -> l = a ++ 46 :: b /\ forallb (fun c => negb (c =? 46)) a = true.
Proof.
  revert a. induction l as [|c r IH]; intros a; cbn [cut_at_dot]; [discriminate|].
  destruct (N.eqb_spec c 46) as [->|Hc].
  - intros [= <- <-]. auto.
  - destruct (cut_at_dot r) as [[a' b']|]; [|discriminate]. intros [= <- <-].
    destruct (IH a' eq_refl) as [-> Ha]. split; [reflexivity|]. cbn [forallb]. rewrite Ha, andb_true_r.
    destruct (N.eqb_spec c 46); [contradiction|reflexivity].
Qed.

(* the split is at the last dot: key = module "." attribute with a dot-free attribute *)
Theorem rsplit_dot_spec key m a : rsplit_dot key = Some (m, a) ->
  key = m ++ 46 :: a /\ forallb (fun c => negb (c =? 46)) a = true.
Proof.
  unfold rsplit_dot. destruct (cut_at_dot (rev key)) as [[ra rm]|] eqn:E; [|discriminate].
  intros [= <- <-]. destruct (cut_at_dot_spec _ _ _ E) as [Hk Ha]. split.
  - apply (f_equal (@rev N)) in Hk. rewrite rev_involutive, rev_app_distr in Hk. cbn [rev] in Hk.
    rewrite <- app_assoc in Hk. exact Hk.
  - rewrite forallb_forall in *. intros x Hx. apply Ha. now apply in_rev.
Qed.
