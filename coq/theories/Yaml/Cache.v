(* Model of vinegar/utils/cache.py (LRUCache, NullCache) and of YamlTargetSource.get_data over it.
   Definitions only. *)
From Coq Require Import List NArith ZArith Bool Arith.
From VF Require Import PyVal.Val Merge.Merge Yaml.Target.
Import ListNotations.

(* ---- LRUCache: an OrderedDict, least recently used first; capacity 0 stands for NullCache ---- *)
Section Lru.
  Variable A : Type.
  Definition lru := list (str * A).
  Definition key_is (k : str) (e : str * A) : bool := str_eqb k (fst e).
  Definition lru_remove (k : str) (l : lru) : lru := filter (fun e => negb (key_is k e)) l.
  (* __getitem__ with move_to_end *)
  Definition lru_get (k : str) (l : lru) : option A * lru :=
    match find (key_is k) l with
    | Some e => (Some (snd e), lru_remove k l ++ [(k, snd e)])
    | None => (None, l)
    end.
  (* __setitem__ with mark_on_update, then popitem(last=False) when over capacity *)
  Definition lru_set (cap : nat) (k : str) (v : A) (l : lru) : lru :=
    match cap with
    | O => l
    | _ => let l' := lru_remove k l ++ [(k, v)] in
           if (cap <? length l')%nat then tl l' else l'
    end.
  Definition null_get (k : str) (l : lru) : option A * lru := (None, l).
  Definition cache_get (cap : nat) (k : str) (l : lru) : option A * lru :=
    match cap with O => (None, l) | _ => lru_get k l end.
End Lru.
Arguments lru_get {A}. Arguments lru_set {A}. Arguments cache_get {A}. Arguments lru_remove {A}. Arguments key_is {A}.

(* ---- one call of get_data: everything that can differ from call to call ---- *)
Record call := {
  k_sys : str;
  k_pv : str;
  k_tree : fstree;
  k_render : str -> res str;
  k_match : str -> res bool
}.

Section Source.
  Variable V : variants.
  Variable C : config.
  Variable H : str -> str.
  Variable yload : str -> res val.
  Variable cap : nat.                       (* cache_size; 0 = NullCache *)

  Definition compile_call (k : call) (oc : item) : res (dict * str * option item) :=
    compile V C H (k_render k) yload (k_match k) (k_tree k) (k_pv k) oc.

  (* YamlTargetSource.get_data (the deep copy of the returned data is the identity on values) *)
  Definition get_data_step (st : lru item) (k : call) : lru item * res (dict * str) :=
    let (old, st1) := cache_get cap (k_sys k) st in
    match compile_call k (match old with Some it => it | None => empty_item end) with
    | Err e => (st1, Err e)
    | Ok (d, v, Some new) => (lru_set cap (k_sys k) new st1, Ok (d, v))
    | Ok (d, v, None) => (st1, Ok (d, v))
    end.

  Fixpoint run_history (st : lru item) (ks : list call) : list (res (dict * str)) :=
    match ks with
    | [] => []
    | k :: r => let (st', out) := get_data_step st k in out :: run_history st' r
    end.

  (* a newly constructed source asked once *)
  Definition fresh_result (k : call) : res (dict * str) :=
    match compile_call k empty_item with
    | Ok (d, v, _) => Ok (d, v)
    | Err e => Err e
    end.
End Source.
