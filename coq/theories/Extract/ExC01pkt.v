From Coq Require Import ExtrOcamlBasic.
From Coq Require Extraction.
From VF Require Import Base.Sx Tftp.PacketBuild.
Definition main := wrap build_entry.
Extraction "../ocaml/gen/c01pkt_model.ml" main.
