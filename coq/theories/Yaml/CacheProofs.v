(* Lemmas about the LRU cache model and the cache layers of the YAML target source (C12). *)
From Coq Require Import List NArith ZArith Bool Arith Lia.
From VF Require Import PyVal.Val PyVal.ValProofs Merge.Merge Yaml.Target Yaml.TargetProofs Yaml.Cache.
Import ListNotations.

Section LruFacts.
  Variable A : Type.
  Notation lru := (lru A).

  Lemma find_app_none (f : str * A -> bool) l1 l2 : find f l1 = None -> find f (l1 ++ l2) = find f l2.
  Proof. induction l1 as [|x r IH]; cbn [find app]; [reflexivity|]. destruct (f x); [discriminate | exact IH]. Qed.

  Lemma find_remove_none k (l : lru) : find (key_is k) (lru_remove k l) = None.
  Proof.
    unfold lru_remove. induction l as [|x r IH]; cbn [filter find]; [reflexivity|].
    destruct (key_is k x) eqn:E; cbn [negb]; [exact IH|]. cbn [find]. now rewrite E.
  Qed.

  Lemma remove_length k (l : lru) : length (lru_remove k l) <= length l.
  Proof. unfold lru_remove. induction l as [|x r IH]; cbn [filter length]; [lia|]. destruct (negb (key_is k x)); cbn [length]; lia. Qed.

  Lemma remove_incl k (l : lru) x : In x (lru_remove k l) -> In x l.
  Proof. unfold lru_remove. intros H. now apply filter_In in H. Qed.

  Lemma remove_found_length k (l : lru) e : find (key_is k) l = Some e -> length (lru_remove k l) < length l.
  Proof.
    unfold lru_remove. induction l as [|x r IH]; cbn [find filter length]; [discriminate|].
    destruct (key_is k x) eqn:E; cbn [negb].
    - intros _. pose proof (remove_length k r). unfold lru_remove in *. lia.
    - intros F. specialize (IH F). cbn [length]. lia.
  Qed.

  (* get after set, unless capacity is zero *)
  Theorem lru_get_after_set cap k v (l : lru) : 1 <= cap -> fst (lru_get k (lru_set cap k v l)) = Some v.
  Proof.
    intros Hc. unfold lru_set. destruct cap as [|c]; [lia|].
    assert (F : forall r, find (key_is k) r = None -> find (key_is k) (r ++ [(k, v)]) = Some (k, v)).
    { intros r Hr. rewrite find_app_none by assumption. cbn [find]. unfold key_is. cbn [fst]. now rewrite str_eqb_refl. }
    pose proof (find_remove_none k l) as N.
    destruct (S c <? length (lru_remove k l ++ [(k, v)])) eqn:El.
    - destruct (lru_remove k l) as [|y r] eqn:Er.
      + cbn [app length] in El. apply Nat.ltb_lt in El. lia.
      + cbn [app tl]. cbn [find] in N. destruct (key_is k y) eqn:Ey; [discriminate|].
        unfold lru_get. rewrite (F r N). reflexivity.
    - unfold lru_get. rewrite (F _ N). reflexivity.
  Qed.

  (* never more entries than the capacity *)
  Theorem lru_set_length cap k v (l : lru) : length l <= cap -> length (lru_set cap k v l) <= cap.
  Proof.
    intros Hl. unfold lru_set. destruct cap as [|c]; [assumption|].
    pose proof (remove_length k l) as R.
    destruct (S c <? length (lru_remove k l ++ [(k, v)])) eqn:El.
    - destruct (lru_remove k l ++ [(k, v)]) as [|y r] eqn:E; cbn [tl length] in *; [lia|].
      assert (length (y :: r) = length (lru_remove k l) + 1) by (rewrite <- E, app_length; cbn; lia). cbn [length] in *. lia.
    - apply Nat.ltb_ge in El. exact El.
  Qed.
  Theorem lru_get_length k (l : lru) : length (snd (lru_get k l)) <= length l.
  Proof.
    unfold lru_get. destruct (find (key_is k) l) as [e|] eqn:F; cbn [snd]; [|lia].
    rewrite app_length. cbn [length]. pose proof (remove_found_length k l e F). lia.
  Qed.

  (* what a lookup returns was stored under that key, and the operations invent nothing *)
  Theorem lru_get_sound k (l : lru) v : fst (lru_get k l) = Some v -> In (k, v) l.
  Proof.
    unfold lru_get. destruct (find (key_is k) l) as [e|] eqn:F; cbn [fst]; [|discriminate].
    intros E. injection E as <-. apply find_some in F as [Hin Hk]. unfold key_is in Hk. apply str_eqb_eq in Hk.
    destruct e as [k' x]. cbn [fst snd] in *. now subst.
  Qed.
  Theorem lru_get_incl k (l : lru) x : In x (snd (lru_get k l)) -> In x l.
  Proof.
    unfold lru_get. destruct (find (key_is k) l) as [e|] eqn:F; cbn [snd]; [|auto].
    intros Hin. apply in_app_or in Hin as [Hin|[<-|[]]]; [now apply remove_incl in Hin|].
    apply (lru_get_sound k l (snd e)). unfold lru_get. now rewrite F.
  Qed.
  Theorem lru_set_incl cap k v (l : lru) x : In x (lru_set cap k v l) -> x = (k, v) \/ In x l.
  Proof.
    unfold lru_set. destruct cap as [|c]; [auto|].
    assert (G : In x (lru_remove k l ++ [(k, v)]) -> x = (k, v) \/ In x l).
    { intros Hin. apply in_app_or in Hin as [Hin|[<-|[]]]; [right; now apply remove_incl in Hin | now left]. }
    destruct (S c <? length (lru_remove k l ++ [(k, v)])); [|exact G].
    intros Hin. apply G. destruct (lru_remove k l ++ [(k, v)]); [destruct Hin | now right].
  Qed.

  (* when full, a new key evicts the least recently used entry *)
  Theorem lru_evicts_least_recent cap k v (l : lru) : 1 <= cap -> length l = cap -> find (key_is k) l = None ->
    lru_set cap k v l = tl l ++ [(k, v)].
  Proof.
    intros Hc Hl Hn. unfold lru_set. destruct cap as [|c]; [lia|].
    assert (R : lru_remove k l = l).
    { unfold lru_remove. clear Hl. induction l as [|x r IH]; cbn [filter find] in *; [reflexivity|].
      destruct (key_is k x); [discriminate|]. cbn [negb]. now rewrite IH. }
    rewrite R, app_length. cbn [length]. rewrite Hl.
    replace (S c <? S c + 1) with true by (symmetry; apply Nat.ltb_lt; lia).
    destruct l; [discriminate | reflexivity].
  Qed.
  (* a lookup makes the entry the most recently used one *)
  Theorem lru_get_moves_to_end k (l : lru) v : fst (lru_get k l) = Some v -> snd (lru_get k l) = lru_remove k l ++ [(k, v)].
  Proof. unfold lru_get. destruct (find (key_is k) l) as [e|]; cbn [fst snd]; [intros E; now injection E as <- | discriminate]. Qed.
End LruFacts.

(* ------------------------------------------------------------------ one get_data call *)
Section StepFacts.
  Variable V : variants.
  Variable C : config.
  Variable H : str -> str.
  Variable yload : str -> res val.
  Hypothesis V_norerender : rerender V = false.
  Hypothesis yload_wf : forall text v, yload text = Ok v -> wf v = true.

  Definition usable (k : call) (it : item) : Prop := item_ok V C H yload (k_match k) (k_pv k) it.
  Definition spec_of_call (k : call) : res dict := spec_result V C (k_render k) yload (k_match k) (k_tree k).

  Definition step_data (r : res (dict * str)) : res dict := match r with Ok (d, _) => Ok d | Err e => Err e end.

  (* whatever the cache holds for this system: if it is usable for this call, the call returns the
     specification's data for the snapshot of this moment *)
  Lemma step_transparent cap (st : lru item) (k : call) :
    (forall it, In (k_sys k, it) st -> usable k it) ->
    step_data (snd (get_data_step V C H yload cap st k)) = spec_of_call k.
  Proof.
    intros Hus. unfold get_data_step.
    destruct (cache_get cap (k_sys k) st) as [old st1] eqn:Eg.
    assert (Ho : usable k (match old with Some it => it | None => empty_item end)).
    { destruct old as [it|]; [|apply item_ok_empty]. apply Hus.
      destruct cap; cbn [cache_get] in Eg; [discriminate|].
      apply (lru_get_sound item). now rewrite Eg. }
    pose proof (compile_spec V C H (k_render k) yload (k_match k) (k_tree k) (k_pv k) V_norerender yload_wf _ Ho) as S.
    unfold compile_call. unfold spec_of_call. rewrite <- S.
    destruct (compile V C H (k_render k) yload (k_match k) (k_tree k) (k_pv k)
                (match old with Some it => it | None => empty_item end)) as [[[d v] [new|]]|e]; reflexivity.
  Qed.

  (* with cache_size 0 (NullCache) every call is the call of a new source *)
  Lemma null_cache_fresh (st : lru item) (k : call) :
    get_data_step V C H yload 0 st k = (st, fresh_result V C H yload k).
  Proof.
    unfold get_data_step, fresh_result. cbn [cache_get lru_set].
    destruct (compile_call V C H yload k empty_item) as [[[d v] [new|]]|e]; reflexivity.
  Qed.

  Lemma null_history (ks : list call) : forall st,
    run_history V C H yload 0 st ks = map (fresh_result V C H yload) ks.
  Proof.
    induction ks as [|k r IH]; intros st; cbn [run_history map]; [reflexivity|].
    rewrite null_cache_fresh. now rewrite IH.
  Qed.

  Lemma fresh_data (k : call) : step_data (fresh_result V C H yload k) = spec_of_call k.
  Proof.
    unfold fresh_result, compile_call, spec_of_call.
    rewrite <- (compile_spec V C H (k_render k) yload (k_match k) (k_tree k) (k_pv k) V_norerender yload_wf empty_item
                  (item_ok_empty _ _ _ _ _ _)).
    destruct (compile V C H (k_render k) yload (k_match k) (k_tree k) (k_pv k) empty_item) as [[[d v] o]|e]; reflexivity.
  Qed.
End StepFacts.
