(* Exhaustive exploration of all interleavings of a (small) pool: used by the correspondence to
   compute every final state the model can reach for a given set of caller threads, and to look for
   stuck states.  Worklist search with a visited list; [fuel] bounds the number of expansions. *)
From Coq Require Import List Arith Bool.
From VF Require Import Lifecycle.Pool.
Import ListNotations.

Fixpoint list_nat_eqb (a b : list nat) : bool :=
  match a, b with
  | [], [] => true
  | x :: a', y :: b' => Nat.eqb x y && list_nat_eqb a' b'
  | _, _ => false
  end.

Fixpoint insert_nat (x : nat) (l : list nat) : list nat :=
  match l with
  | [] => [x]
  | y :: r => if Nat.ltb x y then x :: l else if Nat.eqb x y then l else y :: insert_nat x r
  end.
Definition nat_set (l : list nat) : list nat := fold_right insert_nat [] l.

Section Explore.
  Variables (G PC OP : Type).
  Variable lkof : G -> lk.
  Variable cstep : G -> bool -> PC -> option OP -> option (G * PC * bool).
  Variable mstep : G -> option G.
  Variable is_idle : PC -> bool.
  Variables (gcode : G -> nat) (pccode : PC -> nat) (opcode : OP -> nat).
  Notation st := (st G PC OP).

  Definition code (s : st) : list nat :=
    gcode (g s) :: (match lkof (g s) with LCaller => S (owner s) | _ => 0 end)
    :: flat_map (fun c => pccode (pc c) :: length (todo c) :: map opcode (todo c)) (callers s).

  Definition succs (s : st) : list st :=
    flat_map (fun ch => match step G PC OP lkof cstep mstep s ch with Some s' => [s'] | None => [] end)
             (choices G PC OP s).

  Fixpoint explore (fuel : nat) (work visited : list st) : list st * bool :=
    match fuel with
    | O => (visited, match work with [] => true | _ => false end)
    | S f =>
        match work with
        | [] => (visited, true)
        | s :: r =>
            if existsb (fun v => list_nat_eqb (code v) (code s)) visited then explore f r visited
            else explore f (succs s ++ r) (s :: visited)
        end
    end.

  (* summary of an exhaustive exploration from s0: did any state carry the error flag, is any
     unfinished state stuck, and the set of final-state codes (9 = exploration cut off) *)
  Variable errf : G -> bool.
  Variable finalf : G -> nat.

  Definition conc_obs (fuel : nat) (s0 : st) : nat * nat * list nat :=
    let '(vis, complete) := explore fuel [s0] [] in
    let dn := all_done G PC OP is_idle in
    (if existsb (fun s => errf (g s)) vis then 1 else 0,
     if existsb (fun s => negb (dn s) && negb (some_enabled G PC OP lkof cstep mstep s)) vis then 1 else 0,
     nat_set ((if complete then [] else [9]) ++ map (fun s => finalf (g s)) (filter dn vis))).
End Explore.
