(* lock_linearizable, packaged. *)
From Coq Require Import List Arith Bool Lia.
From VF Require Import Conc.Machine Conc.Lin Conc.MachineProofs Conc.LinProofs.
Import ListNotations.

Section Packaged.
  Variables (O W LS Call Res E : Type).
  Variable begin : Call -> LS.
  Variable prog : Call -> list (mstep O W LS).
  Variable ret : LS -> Res.
  Variable env : E -> W -> W.
  Variable res_eqb : Res -> Res -> bool.
  Hypothesis res_eqb_refl : forall r, res_eqb r r = true.
  Variable body : Call -> list (LS -> O -> W -> LS * O).
  Hypothesis prog_cs : forall c, prog c = cs_prog O W LS (body c).

  Theorem lock_linearizable ls0 o w (calls : list (list Call)) (sch : list (choice E)) :
    let s0 := init O W LS Call Res ls0 o w calls in
    let s := run O W LS Call Res E begin prog ret env s0 sch in
    (* atomicity: while the lock is held only its owner moves, so calls never overlap *)
    (forall i j s', tstep O W LS Call Res begin prog ret s i = Some s' -> lock s = Some j -> i = j) /\
    (* no deadlock: some thread can move until every call has returned *)
    (all_done O W LS Call Res s = false -> exists i, tstep O W LS Call Res begin prog ret s i <> None) /\
    (* the results are those of a sequential execution of the same calls (environment events in
       their order, placed somewhere), found by the decision procedure *)
    (all_done O W LS Call Res s = true -> forall fuel, length sch < fuel ->
       search O W LS Call Res E begin prog ret env res_eqb fuel s0 (envs_of E sch) (results O W LS Call Res s) = true).
  Proof.
    intros s0 s.
    assert (HI0 : Inv O W LS Call Res s0) by apply inv_init.
    assert (HI : Inv O W LS Call Res s) by (apply (inv_run O W LS Call Res E begin prog ret env body prog_cs); exact HI0).
    split; [|split].
    - intros i j s' Hs Hl. eapply (step_owner O W LS Call Res begin prog ret body prog_cs); eauto.
    - apply (no_deadlock O W LS Call Res begin prog ret body prog_cs). exact HI.
    - intros Hd fuel Hf.
      apply (lin_accepts O W LS Call Res E begin prog ret env res_eqb res_eqb_refl body prog_cs); auto.
  Qed.
End Packaged.
