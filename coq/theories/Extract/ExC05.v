From Coq Require Import ExtrOcamlBasic.
From Coq Require Extraction.
From VF Require Import Base.Sx C05.Entry.
Definition main := wrap entry.
Extraction "../ocaml/gen/c05_model.ml" main.
