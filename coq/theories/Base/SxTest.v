From Coq Require Import List NArith ZArith String.
From VF Require Import Base.Sx.
Import ListNotations.
Definition t1 := L [I 0; I (-12)%Z; B [0;255;16]%N; L []; L [B []; I 300]]%Z.
Example rt1 : parse (print t1) = Some t1. Proof. vm_compute. reflexivity. Qed.
Example p1 : print t1 = bytes_of_string "(0 -12 #00ff10 () (# 300))". Proof. vm_compute. reflexivity. Qed.
