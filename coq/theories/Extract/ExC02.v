From Coq Require Import ExtrOcamlBasic.
From Coq Require Extraction.
From VF Require Import Base.Sx C02.Entry.
Definition main := wrap entry.
Extraction "../ocaml/gen/c02_model.ml" main.
