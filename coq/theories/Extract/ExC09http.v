From Coq Require Import ExtrOcamlBasic.
From Coq Require Extraction.
From VF Require Import Base.Sx C09.HttpEntry.
Definition main := wrap http_entry.
Extraction "../ocaml/gen/c09http_model.ml" main.
