(* Proofs about the MAC address transform. *)
From Coq Require Import String.
From Coq Require Import List NArith Bool Lia.
From VF Require Import Base.Sx Addr.Text Addr.TextProofs Addr.Mac.
Import ListNotations.
Open Scope N_scope.

Definition hgroup (g : str) : Prop := (length g = 1%nat \/ length g = 2%nat) /\ forallb is_hex g = true.
Definition is_delim (d : N) : Prop := d = COLON \/ d = DASH.

Lemma delim_not_hex d : is_delim d -> is_hex d = false.
Proof. intros [->| ->]; reflexivity. Qed.

Lemma hex12_stop g c r : hgroup g -> is_hex c = false -> hex12 (g ++ c :: r) = Some (g, c :: r).
Proof.
  intros [[L|L] H] Hc.
  - destruct g as [|a [|b g]]; try discriminate. cbn [forallb] in H. rewrite andb_true_r in H.
    cbn [app hex12]. now rewrite H, Hc.
  - destruct g as [|a [|b [|x g]]]; try discriminate. cbn [forallb] in H.
    apply andb_true_iff in H. destruct H as [Ha H]. rewrite andb_true_r in H.
    cbn [app hex12]. now rewrite Ha, H.
Qed.
Lemma hex12_end g : hgroup g -> hex12 g = Some (g, []).
Proof.
  intros [[L|L] H].
  - destruct g as [|a [|b g]]; try discriminate. cbn [forallb] in H. rewrite andb_true_r in H.
    cbn [hex12]. now rewrite H.
  - destruct g as [|a [|b [|x g]]]; try discriminate. cbn [forallb] in H.
    apply andb_true_iff in H. destruct H as [Ha H]. rewrite andb_true_r in H.
    cbn [hex12]. now rewrite Ha, H.
Qed.
Lemma hex12_spec s g r : hex12 s = Some (g, r) -> hgroup g /\ s = g ++ r.
Proof.
  unfold hex12. destruct s as [|a [|b s]]; [discriminate| |].
  - destruct (is_hex a) eqn:Ha; [|discriminate]. intros H. inversion H; subst.
    split; [split; [now left|cbn; now rewrite Ha]|reflexivity].
  - destruct (is_hex a) eqn:Ha; [|discriminate]. destruct (is_hex b) eqn:Hb; intros H; inversion H; subst.
    + split; [split; [now right|cbn; now rewrite Ha, Hb]|reflexivity].
    + split; [split; [now left|cbn; now rewrite Ha]|reflexivity].
Qed.
Lemma delim_then_spec d r r' : delim_then d r = Some r' -> r = d :: r'.
Proof.
  unfold delim_then. destruct r as [|c r0]; [discriminate|]. destruct (c =? d) eqn:E; [|discriminate].
  intros H. inversion H; subst. apply N.eqb_eq in E. now subst.
Qed.

Definition mac_groups_ok (gs : list str) : Prop :=
  exists a b c e f g, gs = [a; b; c; e; f; g] /\ hgroup a /\ hgroup b /\ hgroup c /\ hgroup e /\ hgroup f /\ hgroup g.

Lemma mac_match_complete d gs : is_delim d -> mac_groups_ok gs -> mac_match (intercalate [d] gs) = Some gs.
Proof.
  intros Hd (a & b & c & e & f & g & -> & Ha & Hb & Hc & He & Hf & Hg).
  pose proof (delim_not_hex d Hd) as Nh. cbn [intercalate app]. unfold mac_match.
  rewrite (hex12_stop a d _ Ha Nh).
  assert (Dd : negb ((d =? COLON) || (d =? DASH)) = false) by (destruct Hd as [->| ->]; reflexivity).
  rewrite Dd.
  rewrite (hex12_stop b d _ Hb Nh). cbn [delim_then]. rewrite N.eqb_refl.
  rewrite (hex12_stop c d _ Hc Nh). cbn [delim_then]. rewrite N.eqb_refl.
  rewrite (hex12_stop e d _ He Nh). cbn [delim_then]. rewrite N.eqb_refl.
  rewrite (hex12_stop f d _ Hf Nh). cbn [delim_then]. rewrite N.eqb_refl.
  rewrite (hex12_end g Hg). reflexivity.
Qed.

Lemma mac_match_sound s gs : mac_match s = Some gs ->
  exists d, is_delim d /\ mac_groups_ok gs /\ s = intercalate [d] gs.
Proof.
  unfold mac_match. intros H.
  destruct (hex12 s) as [[a r0]|] eqn:H1; [|discriminate].
  destruct r0 as [|d r1]; [discriminate|].
  destruct (negb ((d =? COLON) || (d =? DASH))) eqn:Dd; [discriminate|].
  destruct (hex12 r1) as [[b r2]|] eqn:H2; [|discriminate].
  destruct (delim_then d r2) as [r3|] eqn:T2; [|discriminate].
  destruct (hex12 r3) as [[c r4]|] eqn:H3; [|discriminate].
  destruct (delim_then d r4) as [r5|] eqn:T3; [|discriminate].
  destruct (hex12 r5) as [[e r6]|] eqn:H4; [|discriminate].
  destruct (delim_then d r6) as [r7|] eqn:T4; [|discriminate].
  destruct (hex12 r7) as [[f r8]|] eqn:H5; [|discriminate].
  destruct (delim_then d r8) as [r9|] eqn:T5; [|discriminate].
  destruct (hex12 r9) as [[g r10]|] eqn:H6; [|discriminate].
  destruct r10; [|discriminate]. inversion H; subst gs.
  apply hex12_spec in H1, H2, H3, H4, H5, H6.
  apply delim_then_spec in T2, T3, T4, T5.
  destruct H1 as [Ga ->], H2 as [Gb ->], H3 as [Gc ->], H4 as [Ge ->], H5 as [Gf ->], H6 as [Gg ->]. subst.
  exists d. split; [|split].
  - apply negb_false_iff, orb_true_iff in Dd. destruct Dd as [E|E]; apply N.eqb_eq in E; [now left|now right].
  - exists a, b, c, e, f, g. tauto.
  - cbn [intercalate app]. now rewrite app_nil_r.
Qed.

(* the recogniser accepts exactly the language of _MAC_REGEXP (same delimiter throughout) *)
Theorem mac_match_spec s gs : mac_match s = Some gs <->
  exists d, is_delim d /\ mac_groups_ok gs /\ s = intercalate [d] gs.
Proof.
  split; [apply mac_match_sound|]. intros (d & Hd & Hg & ->). now apply mac_match_complete.
Qed.

Definition wf_mac (bs : list N) : Prop := length bs = 6%nat /\ Forall (fun b => b < 256) bs.

Lemma hgroup_val g : hgroup g -> hex_val_list g < 256.
Proof.
  intros [[L|L] H].
  - destruct g as [|a [|b g]]; try discriminate. cbn [forallb] in H. rewrite andb_true_r in H.
    unfold hex_val_list. cbn [fold_left]. pose proof (hex_val_lt a H). lia.
  - destruct g as [|a [|b [|x g]]]; try discriminate. cbn [forallb] in H.
    apply andb_true_iff in H. destruct H as [Ha H]. rewrite andb_true_r in H.
    unfold hex_val_list. cbn [fold_left]. pose proof (hex_val_lt a Ha). pose proof (hex_val_lt b H). lia.
Qed.

Lemma mac_bytes_range s bs : mac_bytes s = Some bs -> wf_mac bs.
Proof.
  unfold mac_bytes. destruct (mac_match s) as [gs|] eqn:M; [|discriminate]. cbn [option_map].
  intros H. inversion H; subst. apply mac_match_sound in M.
  destruct M as (d & _ & (a & b & c & e & f & g & -> & Ha & Hb & Hc & He & Hf & Hg) & _).
  split; [reflexivity|]. cbn [map]. repeat constructor; now apply hgroup_val.
Qed.

Lemma hgroup_print up v : v < 256 -> hgroup (print_hex2 up v).
Proof. intros H. split; [now right|]. now destruct (print_hex2_facts up v H). Qed.

Lemma mac_bytes_fmt up d bs : is_delim d -> wf_mac bs -> mac_bytes (fmt_mac up d bs) = Some bs.
Proof.
  intros Hd [L F]. destruct bs as [|a [|b [|c [|e [|f [|g [|x bs]]]]]]]; try discriminate.
  repeat match goal with H : Forall _ (_ :: _) |- _ => inversion H; clear H; subst end.
  unfold mac_bytes, fmt_mac. rewrite mac_match_complete; [|assumption|].
  - cbn [option_map map]. repeat f_equal; now apply print_hex2_facts.
  - cbn [map]. do 6 eexists. split; [reflexivity|]. repeat split; try (now right); now apply print_hex2_facts.
Qed.

Lemma delim_arg_ok a d : mac_delim_arg a = Some d -> is_delim d.
Proof.
  unfold mac_delim_arg. destruct (_ || _); [intros H; inversion H; now left|].
  destruct (_ || _); [intros H; inversion H; now right|discriminate].
Qed.

(* normalising twice = normalising once (same options) *)
Theorem normalize_mac_idempotent ca da r s :
  match normalize_mac ca da r s with Ok t => normalize_mac ca da r t = Ok t | Exc _ => True end.
Proof.
  unfold normalize_mac. destruct (mac_delim_arg da) as [d|] eqn:D; [|trivial].
  destruct (mac_case_arg ca) as [up|]; [|trivial].
  destruct (mac_bytes s) as [bs|] eqn:M.
  - now rewrite (mac_bytes_fmt up d bs (delim_arg_ok _ _ D) (mac_bytes_range _ _ M)).
  - unfold malformed. destruct r; [trivial|]. now rewrite M.
Qed.

(* two well-formed strings denote the same six bytes iff their normalised forms are equal *)
Theorem normalize_mac_canonical ca da r s1 s2 b1 b2 d up :
  mac_delim_arg da = Some d -> mac_case_arg ca = Some up ->
  mac_bytes s1 = Some b1 -> mac_bytes s2 = Some b2 ->
  (b1 = b2 <-> normalize_mac ca da r s1 = normalize_mac ca da r s2).
Proof.
  intros D C M1 M2. unfold normalize_mac. rewrite D, C, M1, M2. split; [now intros ->|].
  intros E. inversion E as [E'].
  pose proof (mac_bytes_fmt up d b1 (delim_arg_ok _ _ D) (mac_bytes_range _ _ M1)) as Q1.
  pose proof (mac_bytes_fmt up d b2 (delim_arg_ok _ _ D) (mac_bytes_range _ _ M2)) as Q2.
  rewrite E' in Q1. congruence.
Qed.

(* malformed: unchanged or ValueError iff requested; invalid options: ValueError; otherwise a string *)
Theorem normalize_mac_total ca da r s :
  (mac_delim_arg da = None \/ mac_case_arg ca = None -> normalize_mac ca da r s = Exc ValueError) /\
  (mac_delim_arg da <> None -> mac_case_arg ca <> None ->
     (mac_bytes s = None -> normalize_mac ca da r s = malformed r s) /\
     (mac_bytes s <> None -> exists t, normalize_mac ca da r s = Ok t)).
Proof.
  unfold normalize_mac. split.
  - intros [H|H]; rewrite H; [reflexivity|]. destruct (mac_delim_arg da); reflexivity.
  - intros H1 H2. destruct (mac_delim_arg da); [|congruence]. destruct (mac_case_arg ca); [|congruence].
    split; intros H; destruct (mac_bytes s); try congruence; eauto.
Qed.
