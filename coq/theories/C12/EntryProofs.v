(* The executable checker of C12 accepts the model, for every history and every cache size. *)
From Coq Require Import String.
From Coq Require Import List NArith ZArith Bool Arith Lia.
From VF Require Import Base.Sx PyVal.Val PyVal.ValProofs PyVal.Codec Merge.Merge Yaml.Target Yaml.TargetProofs Yaml.Exec
  Yaml.ExecProofs Yaml.Cache Yaml.CacheProofs Yaml.Validity Yaml.HistoryProofs C12.Entry.
Import ListNotations.

Lemma table_fun_in {A} (tbl : list (str * res A)) s a : table_fun tbl s = Ok a -> In (s, Ok a) tbl.
Proof.
  unfold table_fun, table_get. destruct (find (fun p => str_eqb s (fst p)) tbl) as [[k r]|] eqn:Ef; [|discriminate].
  apply find_some in Ef as [Hin Hk]. cbn [fst snd] in *. apply str_eqb_eq in Hk. subst k. intros ->. exact Hin.
Qed.
Lemma yload_table_wf tbl : forallb res_wf tbl = true -> forall text v, table_fun tbl text = Ok v -> wf v = true.
Proof. intros Hall text v E. apply table_fun_in in E. rewrite forallb_forall in Hall. apply (Hall _ E). Qed.
Lemma variants_eqb_eq a b : variants_eqb a b = true -> a = b.
Proof.
  destruct a as [a1 a2 a4 a3], b as [b1 b2 b4 b3]. unfold variants_eqb. cbn.
  intros E. apply andb_true_iff in E as [E E4]. apply andb_true_iff in E as [E E3]. apply andb_true_iff in E as [E1 E2].
  apply Bool.eqb_prop in E1, E2, E3, E4. now subst.
Qed.
Lemma exc_eqb_refl e : exc_eqb e e = true.
Proof. apply Z.eqb_refl. Qed.

Section Model.
  Variable c : case.
  Hypothesis Hv : cV c = current_variants.
  Hypothesis Hy : forallb res_wf (cYload c) = true.

  Notation yl := (table_fun (cYload c)).
  Definition sf (k : call) : res (dict * str) := spec_full_of_call current_variants (cC c) model_H yl k.

  Lemma mk_faithful q : faithful (mo_of c) (mk_call c q).
  Proof. reflexivity. Qed.
  Lemma all_faithful qs : Forall (faithful (mo_of c)) (map (mk_call c) qs).
  Proof. apply Forall_forall. intros k Hk. apply in_map_iff in Hk as [q [<- _]]. apply mk_faithful. Qed.

  (* the long-lived source and the new source both return the specified data and version *)
  Lemma run_model_spec : run_model c = List.combine (map sf (map (mk_call c) (cCalls c))) (map sf (map (mk_call c) (cCalls c))).
  Proof.
    unfold run_model. rewrite Hv. f_equal.
    - apply (lru_history_transparent current_variants (cC c) model_H yl (mo_of c) eq_refl eq_refl (yload_table_wf _ Hy)
               model_H_inj model_H_nobar model_H_noplus model_H_nonempty). apply all_faithful.
    - apply map_ext_in. intros k Hk. apply in_map_iff in Hk as [q [<- _]].
      apply (fresh_full current_variants (cC c) model_H yl (mo_of c) eq_refl eq_refl (yload_table_wf _ Hy)
               model_H_inj model_H_nobar model_H_noplus model_H_nonempty). apply mk_faithful.
  Qed.

  Lemma data_clause_ok nm q : data_clause nm c q (sf (mk_call c q)) = [].
  Proof.
    unfold data_clause, spec_of. rewrite Hv. change (no_marker current_variants) with current_variants.
    pose proof (spec_full_data current_variants (cC c) model_H (table_fun (q_render q)) yl (mo_of c (q_sys q) (q_pv q)) (q_tree q)) as D.
    unfold spec_result in D. cbn [empty_raises current_variants andb] in D.
    unfold sf, spec_full_of_call. cbn [mk_call k_render k_match k_tree].
    destruct (spec_full current_variants (cC c) model_H (table_fun (q_render q)) yl (mo_of c (q_sys q) (q_pv q)) (q_tree q)) as [[d v]|e];
      cbn [fst] in D; rewrite <- D.
    - unfold same_dict. now rewrite same_refl.
    - now rewrite exc_eqb_refl.
  Qed.

  Lemma version_clause_same r : version_clause (r, r) = [].
  Proof. destruct r as [[d v]|e]; cbn [version_clause]; [now rewrite str_eqb_refl | now rewrite exc_eqb_refl]. Qed.

  Lemma holds_steps_ok : forall qs,
    holds_steps c qs (List.combine (map sf (map (mk_call c) qs)) (map sf (map (mk_call c) qs))) = [].
  Proof.
    induction qs as [|q r IH]; cbn [map List.combine holds_steps]; [reflexivity|]. cbn [fst snd].
    now rewrite !data_clause_ok, version_clause_same, IH.
  Qed.

  Lemma map_fst_combine_same {A} (l : list A) : map fst (List.combine l l) = l.
  Proof. induction l as [|x r IH]; cbn [List.combine map fst]; [reflexivity | now rewrite IH]. Qed.

  Lemma tracks_ok k k' : faithful (mo_of c) k -> faithful (mo_of c) k' -> tracks (sf k) (sf k') = true.
  Proof.
    intros Hf Hf'. unfold tracks. destruct (sf k) as [[d v]|e] eqn:E; [|reflexivity].
    destruct (sf k') as [[d' v']|e'] eqn:E'; [|reflexivity].
    destruct (str_eqb v v') eqn:Ev; [|reflexivity]. cbn [negb orb]. apply str_eqb_eq in Ev.
    rewrite (spec_version_tracks current_variants (cC c) model_H yl (mo_of c) eq_refl eq_refl (yload_table_wf _ Hy)
               model_H_inj model_H_nobar model_H_noplus model_H_nonempty k k' d v d' v' Hf Hf' E E' Ev).
    unfold same_dict. apply same_refl.
  Qed.

  Lemma holds_model_sec : holds c (run_model c) = [].
  Proof.
    unfold holds. rewrite run_model_spec, holds_steps_ok. cbn [app]. unfold version_tracks.
    rewrite map_fst_combine_same.
    assert (G : forallb (fun a => forallb (tracks a) (map sf (map (mk_call c) (cCalls c)))) (map sf (map (mk_call c) (cCalls c))) = true).
    { apply forallb_forall. intros a Ha. apply forallb_forall. intros b Hb.
      apply in_map_iff in Ha as [k [<- Hk]]. apply in_map_iff in Hb as [k' [<- Hk']].
      apply in_map_iff in Hk as [q [<- _]]. apply in_map_iff in Hk' as [q' [<- _]].
      apply tracks_ok; apply mk_faithful. }
    now rewrite G.
  Qed.
End Model.

Lemma holds_model c : valid c -> holds c (run_model c) = [].
Proof.
  unfold valid, validb. intros Hv. apply andb_true_iff in Hv as [Hv Hy]. apply variants_eqb_eq in Hv.
  now apply holds_model_sec.
Qed.
