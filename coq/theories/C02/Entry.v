(* C02 - lock-step, bounded retransmission on time-out only, always ends. *)
From Coq Require Import String.
From Coq Require Import List NArith ZArith Bool.
From VF Require Import Base.Sx Tftp.Transfer Tftp.Run Tftp.Monitor Tftp.Entries.
Import ListNotations.
Definition holds (c : tcase) (l : list tr) : list string :=
  filter (has_tag ["C02:"; "C20:"]%string) (monitor c l) ++
  (if within_time c l then [] else ["C02:time_bound"%string]).
Definition entry := tftp_entry validb holds proj_timing.
