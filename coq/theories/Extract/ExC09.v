From Coq Require Import ExtrOcamlBasic.
From Coq Require Extraction.
From VF Require Import Base.Sx C09.Entry.
Definition main := wrap entry.
Extraction "../ocaml/gen/c09_model.ml" main.
