#!/bin/sh
# tools/merge_agent.sh <branch> : merge an agent branch (generated _CoqProject dropped, evidence conflicts: theirs), rebuild
cd "$(dirname "$0")/.."
b="$1"
git add -A; git commit -qm "wip before merging $b" 2>/dev/null
git merge --no-edit "$b" 2>&1 | grep -i conflict
git rm -q --cached coq/_CoqProject 2>/dev/null; rm -f coq/_CoqProject
for f in $(git status --short | grep "^UU evidence" | awk '{print $2}'); do git checkout --theirs "$f"; git add "$f"; done
left=$(git status --short | grep "^UU\|^AA\|^DU\|^UD")
if [ -n "$left" ]; then echo "UNRESOLVED: $left"; exit 1; fi
git add -A; git commit -qm "Merge $b" 2>/dev/null
sh tools/build_coq.sh 2>&1 | grep -v "^COQ\|Closed" | head -5
