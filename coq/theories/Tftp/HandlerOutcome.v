(* What the transfer thread (vinegar/tftp/server.py, _TftpReadRequest._run) does with the result of the request
   handler's handle(): a TftpError becomes exactly one ERROR packet carrying the handler's code and message and is
   not logged as an exception (a client chooses the file name, so "file not found" is client-controlled); any other
   exception becomes exactly one ERROR packet with code 0; a stream starts the transfer (modelled in Tftp.Transfer;
   here only the one-block case, to tie the three branches together).  In every case the thread ends by itself and
   releases its socket.  Packets are values of Tftp.PacketBuild.  Definitions and short proofs. *)
From Coq Require Import String.
From Coq Require Import List NArith ZArith Bool Lia.
From VF Require Import Base.Sx Tftp.PacketBuild.
Import ListNotations.
Open Scope N_scope.

Inductive outcome :=
| OTftpError (code : N) (msg : list N)
| OOther
| OStream (content : list N).

(* the text of the ERROR packet after an unexpected exception is not fixed by any property: observed as "*" *)
Definition star : list N := [42].

Inductive pkt := PErr (code : N) (msg : list N) | PData (blk : N) (payload : list N) | PRaw (raw : list N).

Record oobs := { o_packets : list pkt; o_logexc : nat; o_sock_closed : bool; o_thread_exc : nat }.

Definition run_outcome (o : outcome) : oobs :=
  match o with
  | OTftpError c m => {| o_packets := [PErr c m]; o_logexc := 0; o_sock_closed := true; o_thread_exc := 0 |}
  | OOther => {| o_packets := [PErr 0 star]; o_logexc := 0; o_sock_closed := true; o_thread_exc := 0 |}
  | OStream d => {| o_packets := [PData 1 d]; o_logexc := 0; o_sock_closed := true; o_thread_exc := 0 |}
  end.

Definition nul_free (m : list N) : bool := forallb (fun b => negb (b =? 0)) m.
Definition ascii (m : list N) : bool := forallb (fun b => b <? 128) m.
Definition valid_outcome (o : outcome) : bool :=
  match o with
  | OTftpError c m => (c <? 65536) && nul_free m && ascii m
  | OOther => true
  | OStream d => (N.of_nat (length d) <? 512) && forallb (fun b => b <? 256) d
  end.

Fixpoint leqb {A} (eqb : A -> A -> bool) (a b : list A) : bool :=
  match a, b with
  | [], [] => true
  | x :: a', y :: b' => eqb x y && leqb eqb a' b'
  | _, _ => false
  end.
Definition pkt_eqb (a b : pkt) : bool :=
  match a, b with
  | PErr c m, PErr c' m' => (c =? c') && leqb N.eqb m m'
  | PData k d, PData k' d' => (k =? k') && leqb N.eqb d d'
  | PRaw r, PRaw r' => leqb N.eqb r r'
  | _, _ => false
  end.
Definition pkts_eqb (a b : list pkt) : bool := leqb pkt_eqb a b.

Definition clause (b : bool) (name : string) : list string := if b then [] else [name].

(* the checker, applied to the model's and to the implementation's observation *)
Definition holds_outcome (o : outcome) (x : oobs) : list string :=
  (match o with
   | OTftpError c m =>
       clause (pkts_eqb (o_packets x) [PErr c m]) "C09:handler_error_is_exactly_one_error_packet_with_its_code_and_message"
       ++ clause (Nat.eqb (o_logexc x) 0) "C09:handler_error_not_logged_as_exception"
   | OOther =>
       clause (pkts_eqb (o_packets x) [PErr 0 star]) "C09:handler_exception_is_exactly_one_error_packet_code_0"
   | OStream d =>
       clause (pkts_eqb (o_packets x) [PData 1 d]) "C09:handler_stream_is_transferred"
       ++ clause (Nat.eqb (o_logexc x) 0) "C09:transfer_not_logged_as_exception"
   end)
  ++ clause (o_sock_closed x && Nat.eqb (o_thread_exc x) 0) "C09:transfer_thread_ends_and_releases_its_socket".

(* what a client reads back from an ERROR packet: code and the message up to the terminating NUL *)
Fixpoint upto_nul (d : list N) : option (list N) :=
  match d with
  | [] => None
  | b :: r => if b =? 0 then (match r with [] => Some [] | _ => None end)
              else match upto_nul r with Some m => Some (b :: m) | None => None end
  end.
Definition dec_error (d : list N) : option (N * list N) :=
  match d with
  | 0 :: 5 :: hi :: lo :: r => match upto_nul r with Some m => Some (hi * 256 + lo, m) | None => None end
  | _ => None
  end.

Lemma upto_nul_app m : nul_free m = true -> upto_nul (m ++ [0]) = Some m.
Proof.
  induction m as [|b m IH]; cbn [nul_free forallb app upto_nul]; intros H.
  - reflexivity.
  - apply andb_prop in H. destruct H as [Hb Hm]. fold (nul_free m) in Hm.
    destruct (b =? 0) eqn:E; [discriminate|]. rewrite (IH Hm). reflexivity.
Qed.

Theorem error_roundtrip c m : c < 65536 -> nul_free m = true -> dec_error (enc_error c m) = Some (c, m).
Proof.
  intros Hc Hm. unfold enc_error, enc_u16, dec_error. cbn [app].
  rewrite (upto_nul_app m Hm). f_equal. f_equal. rewrite N.mul_comm. symmetry. apply N.div_mod. discriminate.
Qed.

Lemma leqb_refl_N l : leqb N.eqb l l = true.
Proof. induction l as [|a l IH]; cbn; [reflexivity|]. rewrite N.eqb_refl, IH. reflexivity. Qed.

Theorem outcome_holds o : holds_outcome o (run_outcome o) = [].
Proof.
  destruct o as [c m| |d]; unfold holds_outcome, run_outcome, pkts_eqb, clause; cbn [o_packets o_logexc o_sock_closed o_thread_exc leqb pkt_eqb star];
    rewrite ?N.eqb_refl, ?leqb_refl_N; reflexivity.
Qed.

(* exactly one datagram goes to the client before it has said anything, whatever the handler did *)
Theorem outcome_one_reply o : length (o_packets (run_outcome o)) = 1%nat.
Proof. destruct o; reflexivity. Qed.

(* sx: case = (kind code msg content); obs = ((packet ...) logexc sock_closed thread_exc),
   packet = (5 code msg) | (3 blk payload) | (99 raw) *)
Definition de_outcome (x : sx) : option outcome :=
  match x with
  | L [I 0%Z; c; B m; B _] => obind (asN c) (fun c => Some (OTftpError c m))
  | L [I 1%Z; _; B _; B _] => Some OOther
  | L [I 2%Z; _; B _; B d] => Some (OStream d)
  | _ => None
  end.
Definition sx_pkt (p : pkt) : sx :=
  match p with
  | PErr c m => L [I 5; sxN c; B m]
  | PData k d => L [I 3; sxN k; B d]
  | PRaw r => L [I 99; B r]
  end.
Definition de_pkt (x : sx) : option pkt :=
  match x with
  | L [I 5%Z; c; B m] => obind (asN c) (fun c => Some (PErr c m))
  | L [I 3%Z; k; B d] => obind (asN k) (fun k => Some (PData k d))
  | L [I 99%Z; B r] => Some (PRaw r)
  | _ => None
  end.
Definition sx_oobs (o : oobs) : sx :=
  L [L (map sx_pkt (o_packets o)); sxNat (o_logexc o); sxBool (o_sock_closed o); sxNat (o_thread_exc o)].
Definition de_oobs (x : sx) : option oobs :=
  match x with
  | L [ps; le; sc; te] =>
      obind (asListOf de_pkt ps) (fun ps => obind (asNat le) (fun le => obind (asBool sc) (fun sc =>
      obind (asNat te) (fun te => Some {| o_packets := ps; o_logexc := le; o_sock_closed := sc; o_thread_exc := te |}))))
  | _ => None
  end.
(* output: (model_obs failed_on_model failed_on_impl covered) *)
Definition outcome_entry (x : sx) : sx :=
  match x with
  | L [cx; ix] =>
      match de_outcome cx, de_oobs ix with
      | Some c, Some io =>
          let m := run_outcome c in
          L [sx_oobs m; L (map sxS (holds_outcome c m)); L (map sxS (holds_outcome c io)); sxBool (valid_outcome c)]
      | None, _ => sxS "bad-case"
      | _, None => sxS "bad-obs"
      end
  | _ => sxS "bad-input"
  end.
