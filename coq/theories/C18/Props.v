(* C18 - System matcher: grammar, precedence, quoting, evaluation equal the documentation;
   every other string is rejected with ValueError.
   Property theorems only; each is closed by a lemma from the proof files of Matcher/. *)
From Coq Require Import String.
From Coq Require Import List NArith Bool Arith Lia.
From VF Require Import Matcher.Model Matcher.ParserFacts Matcher.EvalFacts C18.Entry C18.HoldsProof.
Import ListNotations.

(* ---- evaluation ---- *)
(* match() on an expression tree is the documented truth table over the atoms, whenever the atoms
   that are reached have a truth value (always, under the documented lookup semantics) *)
Theorem C18_eval_spec : forall V truth e i,
  (forall a, In a (atoms e) -> atom_clean V truth i a) ->
  eval V truth e i = VB (denote truth e i).
Proof. exact eval_spec. Qed.
Print Assumptions C18_eval_spec.

(* Python's short-circuit order: an exception is the exception of the last atom visited, and all
   atoms visited before it produced truth values *)
Theorem C18_eval_short_circuit : forall V truth e i t,
  eval V truth e i = VExc t ->
  exists pre a, visited V truth e i = pre ++ [a] /\ atom_val V truth a i = VExc t /\
                Forall (fun b => exists v, atom_val V truth b i = VB v) pre.
Proof. exact eval_exc. Qed.
Print Assumptions C18_eval_short_circuit.

(* ---- rejection ---- *)
(* the parser's only failure is ParseError (-> ValueError): for every input string, provided
   re.compile fails only with re.error / OverflowError and translated glob patterns compile *)
Theorem C18_errors_are_ValueError : forall V compile,
  overflow_escapes V = false ->
  (forall a t, compile a <> COther t) ->
  (forall a, a_type a = TGlob -> compile a = COk) ->
  forall s, (exists e, parse V compile s = Ok e) \/ parse V compile s = Er ParseErr.
Proof. exact parse_errors. Qed.
Print Assumptions C18_errors_are_ValueError.

(* the fuel of the model parser is sufficient for every input *)
Theorem C18_fuel_sufficient : forall V compile s, parse V compile s <> Er OutOfFuel.
Proof. exact parse_noof. Qed.
Print Assumptions C18_fuel_sufficient.

(* ---- cache ---- *)
Theorem C18_cache_transparent : forall V compile c s, cache_sound V compile c ->
  fst (cached_parse V compile c s) = parse V compile s /\
  cache_sound V compile (snd (cached_parse V compile c s)).
Proof. exact cached_parse_transparent. Qed.
Print Assumptions C18_cache_transparent.

(* ---- the executable checker accepts the model ---- *)
Theorem C18_holds : forall c, valid c -> holds c (run_model c) = [].
Proof. exact holds_model. Qed.
Print Assumptions C18_holds.

(* ---- behaviour that violates the property ---- *)
(* before 86538e9: OverflowError of re.compile escaped *)
Theorem C18_refuted_overflow_escapes :
  exists c, overflow_escapes (c_var c) = true /\ holds c (run_model c) <> [].
Proof. exists witness_overflow. split; [reflexivity | vm_compute; discriminate]. Qed.

(* D14b (known finding): the TypeError of a nested lookup through a non-container escapes *)
Theorem C18_refuted_lookup_escapes :
  exists c, c_var c = current /\ holds c (run_model c) <> [].
Proof. exists witness_lookup. split; [reflexivity | vm_compute; discriminate]. Qed.

(* D14c (known finding): a parenthesised bare keyword is accepted as an ID pattern *)
Theorem C18_refuted_bare_keyword :
  exists c, c_var c = current /\ holds c (run_model c) <> [].
Proof. exists witness_bare_keyword. split; [reflexivity | vm_compute; discriminate]. Qed.

(* non-vacuity: a concrete valid case (not, and, parenthesised or, a data term) over two environments *)
Example C18_nonvacuous :
  valid example_case /\ run_model example_case = ([VB false; VB true], [VB false; VB true]).
Proof. split; [exact example_valid | vm_compute; reflexivity]. Qed.
