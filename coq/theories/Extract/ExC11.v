From Coq Require Import ExtrOcamlBasic.
From Coq Require Extraction.
From VF Require Import Base.Sx C11.Entry.
Definition main := wrap entry.
Extraction "../ocaml/gen/c11_model.ml" main.
