(* The request port reacts to EVERY datagram as the specification says; no exception caused by
   the bytes of a datagram reaches the catch-all of TftpServer._run; a reply that cannot be sent
   (OSError from sendto) is attempted once, logged, and the serve loop goes on. *)
From Coq Require Import String.
From Coq Require Import List NArith ZArith Bool Lia Arith.
From VF Require Import Base.Sx Tftp.Codec Tftp.NegSpec Tftp.CodecProofs Tftp.Transfer Tftp.RequestPort.
Import ListNotations.
Open Scope N_scope.

(* ---------- the constructor of _TftpReadRequest cannot raise on option values ---------- *)
Lemma regexp_then_int s : regexp_positive_int s = true -> py_int s = Ok (digits_value s).
Proof.
  destruct s as [|c r]; [discriminate|]. cbn [regexp_positive_int py_int forallb].
  intros H. apply andb_true_iff in H as [H1 H2]. apply andb_true_iff in H1 as [A B].
  unfold is_digit at 1. rewrite B, H2. apply N.leb_le in A.
  destruct (N.leb_spec 48 c); [reflexivity|lia].
Qed.

Lemma ctor_option_ok o name : ctor_option o name = Ok tt.
Proof.
  unfold ctor_option. destruct (dict_get (lower_keys o) name) as [s|]; [|reflexivity].
  destruct (regexp_positive_int s) eqn:E; [|reflexivity]. now rewrite (regexp_then_int s E).
Qed.

Definition station_hits_start (st : station) : bool :=
  station_eqb st SHandleLookup || station_eqb st SLog || station_eqb st SThreadStart.

Lemma start_transfer_f_spec f fn m o i : m <> Mail ->
  start_transfer_f f fn m o i =
  match f with
  | Some (st, e) => if station_hits_start st then Exc e [] else Ok [AStart fn m o i]
  | None => Ok [AStart fn m o i]
  end.
Proof.
  intros Hm. unfold start_transfer_f, station_hits_start.
  destruct f as [[st e]|]; cbn [at_station bind].
  - destruct st; cbn [station_eqb orb bind]; destruct m; try congruence; rewrite ?ctor_option_ok; reflexivity.
  - destruct m; try congruence; rewrite !ctor_option_ok; reflexivity.
Qed.

Lemma start_transfer_ok fn m o i : m <> Mail -> start_transfer fn m o i = Ok [AStart fn m o i].
Proof. intros Hm. unfold start_transfer. now rewrite start_transfer_f_spec. Qed.

(* int() is only reached for strings the full-match regular expression accepts: a value that merely
   starts like a number ("1024x") is not converted; with a prefix match it would be and int() raises *)
Example prefix_match_would_raise :
  regexp_positive_int (lit "1024x") = false /\ py_int (lit "1024x") = Exc ValueError [].
Proof. split; reflexivity. Qed.

(* ---------- the port ---------- *)
(* performing the specified reaction: a reply to an address that cannot be sent to raises OSError
   after the attempt *)
Definition deliver (sendable : bool) (acts : list action) : res (list action) :=
  if sendable || negb (existsb is_send acts) then Ok acts else Exc OSError acts.

Lemma send_reply_deliver sendable c : send_reply sendable c = deliver sendable [ASendError c].
Proof. destruct sendable; reflexivity. Qed.

(* the result with an injected fault: the exception at the station if control gets there *)
Definition faulted (f : fault) (hit : station -> bool) (r : res (list action)) : res (list action) :=
  match f with
  | Some (st, e) => if hit st then Exc e [] else r
  | None => r
  end.

Lemma log_then f r : bind (at_station f SLog) (fun _ => r) = faulted f (fun st => station_eqb st SLog) r.
Proof. destruct f as [[st e]|]; cbn [at_station bind faulted]; [destruct (station_eqb st SLog)|]; reflexivity. Qed.

Lemma handler_loop_f_spec f sendable fn m o : m <> Mail -> forall hs i,
  handler_loop_f f sendable hs i fn m o =
  faulted f (fun st => loop_reaches st hs i fn)
    (deliver sendable (match first_accepting hs i fn with Some j => [AStart fn m o j] | None => [ASendError 1] end)).
Proof.
  intros Hm. induction hs as [|h r IH]; intros i; cbn [handler_loop_f first_accepting loop_reaches].
  - rewrite log_then, send_reply_deliver. reflexivity.
  - destruct f as [[st e]|]; cbn [at_station bind faulted].
    + destruct (station_eqb st (SPrepare i)); cbn [orb bind]; [reflexivity|].
      destruct (station_eqb st (SCanHandle i)); cbn [orb bind]; [reflexivity|].
      destruct (can_handle h fn).
      * rewrite start_transfer_f_spec by exact Hm. unfold station_hits_start.
        destruct (station_eqb st SHandleLookup || station_eqb st SLog || station_eqb st SThreadStart); [reflexivity|].
        unfold deliver. cbn. now rewrite orb_true_r.
      * rewrite IH. reflexivity.
    + destruct (can_handle h fn).
      * rewrite start_transfer_f_spec by exact Hm. unfold deliver. cbn. now rewrite orb_true_r.
      * rewrite IH. reflexivity.
Qed.

(* the code, exception by exception and station by station: an injected fault that is reached is
   the result (nothing has been done before it); otherwise the specified reaction is performed and
   the only exception that can escape is the OSError of a reply that cannot be sent *)
Theorem process_request_f_spec f sendable hs d :
  process_request_f f sendable hs d = faulted f (fun st => reaches st hs d) (deliver sendable (port_spec hs d)).
Proof.
  assert (Hnil : deliver sendable [] = Ok []) by (unfold deliver; cbn; now rewrite orb_true_r).
  unfold process_request_f, port_spec, reaches.
  destruct d as [|hi [|lo r]]; try (cbn [List.length Nat.ltb Nat.leb]; rewrite log_then, Hnil; reflexivity).
  cbn [List.length Nat.ltb Nat.leb unpack_u16 bind].
  set (op := u16 hi lo). unfold opcode_of.
  destruct (op =? 1) eqn:E1.
  { unfold process_read_request_f, decode_read_request.
    destruct (decode_rrq (hi :: lo :: r)) as [[[fn m] o]|]; [|rewrite log_then, send_reply_deliver; reflexivity].
    destruct m; try (rewrite log_then, send_reply_deliver; reflexivity); apply handler_loop_f_spec; discriminate. }
  destruct (op =? 2) eqn:E2; [rewrite log_then, send_reply_deliver; reflexivity|].
  apply N.eqb_neq in E1, E2.
  destruct (op =? 3) eqn:E3; [apply N.eqb_eq in E3; rewrite E3; rewrite log_then, send_reply_deliver; reflexivity|].
  destruct (op =? 4) eqn:E4; [apply N.eqb_eq in E4; rewrite E4; rewrite log_then, send_reply_deliver; reflexivity|].
  destruct (op =? 5) eqn:E5; [apply N.eqb_eq in E5; rewrite E5; rewrite log_then, send_reply_deliver; reflexivity|].
  destruct (op =? 6) eqn:E6; [apply N.eqb_eq in E6; rewrite E6; rewrite log_then, send_reply_deliver; reflexivity|].
  apply N.eqb_neq in E3, E4, E5, E6.
  destruct ((3 <=? op) && (op <=? 6)) eqn:E; [|rewrite log_then, Hnil; reflexivity].
  apply andb_true_iff in E as [A B]. apply N.leb_le in A, B. lia.
Qed.

Theorem process_request_spec sendable hs d : process_request sendable hs d = deliver sendable (port_spec hs d).
Proof. unfold process_request. now rewrite process_request_f_spec. Qed.

Inductive reaction_ok (hs : list handler) (d : str) : list action -> Prop :=
| RNothing : reaction_ok hs d []
| RError c : c = 1 \/ c = 2 \/ c = 4 -> reaction_ok hs d [ASendError c]
| RStart fn m o i : decode_rrq d = Some (fn, m, o) -> m <> Mail -> first_accepting hs O fn = Some i ->
    reaction_ok hs d [AStart fn m o i].

Lemma port_spec_ok hs d : reaction_ok hs d (port_spec hs d).
Proof.
  unfold port_spec. destruct d as [|hi [|lo r]]; try constructor.
  destruct (u16 hi lo =? 1).
  - destruct (decode_rrq (hi :: lo :: r)) as [[[fn m] o]|] eqn:E; [|constructor; auto].
    destruct m.
    + destruct (first_accepting hs 0 fn) eqn:F; [apply RStart; auto; discriminate|constructor; auto].
    + destruct (first_accepting hs 0 fn) eqn:F; [apply RStart; auto; discriminate|constructor; auto].
    + constructor; auto.
  - destruct (u16 hi lo =? 2); [constructor; auto|].
    destruct ((3 <=? u16 hi lo) && (u16 hi lo <=? 6)); constructor; auto.
Qed.

Lemma serve_one_sendable hs d : serve_one true hs d = port_spec hs d.
Proof. unfold serve_one, serve_one_f. rewrite process_request_f_spec. cbn [faulted]. reflexivity. Qed.

(* for EVERY datagram from a requester that can be replied to, and every handler list: nothing,
   exactly one ERROR with code 1, 2 or 4, or one transfer start whose arguments are the decoding of
   the datagram; the catch-all is not reached *)
Theorem request_port_total hs d :
  exists acts, process_request true hs d = Ok acts /\ serve_one true hs d = acts /\ reaction_ok hs d acts.
Proof.
  exists (port_spec hs d). split; [apply (process_request_spec true)|]. split; [apply serve_one_sendable|apply port_spec_ok].
Qed.

Corollary request_port_no_internal_error hs d : ~ In ALogExc (serve_one true hs d).
Proof.
  destruct (request_port_total hs d) as [acts [_ [-> H]]].
  inversion H; cbn; intuition discriminate.
Qed.

(* a requester that cannot be replied to (sendto raises OSError): the same reaction is attempted -
   at most one sendto call -, the exception is logged iff a reply was due, nothing else happens;
   a transfer start or a silently ignored datagram is not affected *)
Theorem request_port_unsendable hs d :
  serve_one false hs d = port_spec hs d ++ (if existsb is_send (port_spec hs d) then [ALogExc] else []) /\
  reaction_ok hs d (port_spec hs d).
Proof.
  split; [|apply port_spec_ok]. unfold serve_one, serve_one_f. rewrite process_request_f_spec. cbn [faulted]. unfold deliver. cbn [orb].
  destruct (existsb is_send (port_spec hs d)); cbn [negb]; [reflexivity|now rewrite List.app_nil_r].
Qed.

(* an injected fault - whatever Exception subclass, at whatever station -: if control reaches the
   station the exception is logged by the catch-all and NOTHING else happens (no reply attempt, no
   transfer); if not, the reaction is the one without the fault *)
Theorem request_port_faulted st e sendable hs d :
  serve_one_f (Some (st, e)) sendable hs d =
  if reaches st hs d then [ALogExc] else serve_one_f None sendable hs d.
Proof.
  unfold serve_one_f. rewrite !process_request_f_spec. cbn [faulted].
  destruct (reaches st hs d); reflexivity.
Qed.

(* closed forms of [reaches] *)
Lemma reaches_log hs d : reaches SLog hs d = true.
Proof.
  unfold reaches. destruct d as [|hi [|lo r]]; try reflexivity.
  destruct (u16 hi lo =? 1); [|reflexivity].
  destruct (decode_rrq (hi :: lo :: r)) as [[[fn m] o]|]; [|reflexivity].
  assert (H : forall hs i, loop_reaches SLog hs i fn = true).
  { induction hs0 as [|h r0 IH]; intros i; cbn [loop_reaches station_eqb orb]; [reflexivity|].
    destruct (can_handle h fn); [reflexivity|apply IH]. }
  destruct m; try reflexivity; apply H.
Qed.

Lemma loop_reaches_start fn : forall hs i,
  loop_reaches SThreadStart hs i fn = match first_accepting hs i fn with Some _ => true | None => false end /\
  loop_reaches SHandleLookup hs i fn = match first_accepting hs i fn with Some _ => true | None => false end.
Proof.
  induction hs as [|h r IH]; intros i; cbn [loop_reaches first_accepting station_eqb orb]; [split; reflexivity|].
  destruct (can_handle h fn); [split; reflexivity|apply IH].
Qed.

(* the thread-start fault and the handle-lookup fault are reached exactly when a transfer would start *)
Theorem reaches_start_iff st hs d : st = SThreadStart \/ st = SHandleLookup ->
  reaches st hs d = existsb (fun a => match a with AStart _ _ _ _ => true | _ => false end) (port_spec hs d).
Proof.
  intros Hst. unfold reaches, port_spec. destruct d as [|hi [|lo r]]; try (destruct Hst as [-> | ->]; reflexivity).
  destruct (u16 hi lo =? 1).
  - destruct (decode_rrq (hi :: lo :: r)) as [[[fn m] o]|]; [|destruct Hst as [-> | ->]; reflexivity].
    destruct (loop_reaches_start fn hs O) as [A B].
    destruct m; try (destruct Hst as [-> | ->]; reflexivity);
      (destruct Hst as [-> | ->]; [rewrite A|rewrite B]); destruct (first_accepting hs 0 fn); reflexivity.
  - destruct (u16 hi lo =? 2); [destruct Hst as [-> | ->]; reflexivity|].
    destruct ((3 <=? u16 hi lo) && (u16 hi lo <=? 6)); destruct Hst as [-> | ->]; reflexivity.
Qed.

(* the serve loop handles every datagram that arrives, whatever came before it, whichever faults
   were injected and whether or not earlier replies could be sent *)
Theorem run_loop_f_total hs reqs :
  run_loop_f catch_all hs reqs =
  map (fun r => serve_one_f (fst (fst r)) (snd (fst r)) hs (firstn MAX_REQUEST_PACKET_SIZE (snd r))) reqs.
Proof.
  induction reqs as [|[[f s] d] r IH]; [reflexivity|]. cbn [run_loop_f map fst snd]. unfold serve_one_f.
  destruct (process_request_f f s hs (firstn MAX_REQUEST_PACKET_SIZE d)) as [a|e done]; now rewrite IH.
Qed.

Theorem run_loop_total hs reqs :
  run_loop false hs reqs = map (fun r => serve_one (fst r) hs (firstn MAX_REQUEST_PACKET_SIZE (snd r))) reqs.
Proof. unfold run_loop. rewrite run_loop_f_total, map_map. reflexivity. Qed.

(* a loop that leaves on an OSError stops serving after one reply that cannot be sent *)
Theorem run_loop_break_refuted :
  exists hs reqs, (length (run_loop true hs reqs) < length reqs)%nat /\ length (run_loop false hs reqs) = length reqs.
Proof. exists [HConst true], [(false, [0; 2]); (true, [0; 2])]. split; cbn; lia. Qed.

(* a loop that catches only OSError and ValueError is left by the RuntimeError of a thread that
   cannot be started: the read request that follows is never served *)
Theorem run_loop_narrow_catch_refuted :
  exists hs reqs,
    (length (run_loop_f only_oserror_valueerror hs reqs) < length reqs)%nat /\
    length (run_loop_f catch_all hs reqs) = length reqs.
Proof.
  exists [HConst true],
    [(Some (SThreadStart, Injected 0), true, encode_rrq (lit "f") (lit "octet") []);
     (None, true, encode_rrq (lit "f") (lit "octet") [])].
  split; vm_compute; lia.
Qed.

(* which code answers what *)
Theorem request_port_codes hs d :
  ((length d < 2)%nat -> serve_one true hs d = []) /\
  (forall hi lo r, d = hi :: lo :: r ->
     (u16 hi lo = 2 -> serve_one true hs d = [ASendError 2]) /\
     (3 <= u16 hi lo <= 6 -> serve_one true hs d = [ASendError 4]) /\
     (u16 hi lo = 0 \/ 7 <= u16 hi lo -> serve_one true hs d = []) /\
     (u16 hi lo = 1 -> decode_rrq d = None -> serve_one true hs d = [ASendError 4]) /\
     (u16 hi lo = 1 -> forall fn o, decode_rrq d = Some (fn, Mail, o) -> serve_one true hs d = [ASendError 4]) /\
     (u16 hi lo = 1 -> forall fn m o, decode_rrq d = Some (fn, m, o) -> m <> Mail ->
        first_accepting hs O fn = None -> serve_one true hs d = [ASendError 1])).
Proof.
  rewrite serve_one_sendable. split.
  - destruct d as [|hi [|lo r]]; cbn; intros; try reflexivity; lia.
  - intros hi lo r ->. unfold port_spec. repeat split.
    + intros ->. reflexivity.
    + intros [A B]. destruct (u16 hi lo =? 1) eqn:E1; [apply N.eqb_eq in E1; lia|].
      destruct (u16 hi lo =? 2) eqn:E2; [apply N.eqb_eq in E2; lia|].
      apply N.leb_le in A, B. now rewrite A, B.
    + intros H. destruct (u16 hi lo =? 1) eqn:E1; [apply N.eqb_eq in E1; lia|].
      destruct (u16 hi lo =? 2) eqn:E2; [apply N.eqb_eq in E2; lia|].
      destruct ((3 <=? u16 hi lo) && (u16 hi lo <=? 6)) eqn:E; [|reflexivity].
      apply andb_true_iff in E as [A B]. apply N.leb_le in A, B. lia.
    + intros -> ->. reflexivity.
    + intros -> fn o ->. reflexivity.
    + intros -> fn m o -> Hm ->. destruct m; try reflexivity. congruence.
Qed.

(* a transfer is started exactly with the RFC 1350/2347 decoding of the request, whatever the
   option values are (unusable values are left to the negotiation, which ignores them) *)
Theorem request_decoding_is_rfc sendable hs fn md m opts i :
  clean fn -> clean md -> mode_of_str md = Some m -> m <> Mail ->
  Forall (fun p => clean (fst p) /\ clean (snd p)) opts ->
  first_accepting hs O fn = Some i ->
  serve_one sendable hs (encode_rrq fn md opts) = [AStart fn m (dict_of opts) i].
Proof.
  intros Hfn Hmd Hm Hmail Ho Hi. unfold serve_one, serve_one_f. rewrite process_request_f_spec. cbn [faulted].
  pose proof (rrq_roundtrip fn md m opts Hfn Hmd Hm Ho) as Hd.
  unfold port_spec. unfold encode_rrq in *. change (u16 0 1 =? 1) with true. cbv iota.
  rewrite Hd, Hi. unfold deliver. destruct m; try congruence; cbn; now rewrite orb_true_r.
Qed.

(* conversely a transfer start means that the datagram had the RFC shape *)
Theorem start_only_for_rfc_shape sendable hs d f m o i :
  In (AStart f m o i) (serve_one sendable hs d) ->
  exists fn md opts,
    d = encode_rrq fn md opts /\ nul_free fn /\ nul_free md /\ pairs_nul_free opts /\
    f = ascii_ignore fn /\ mode_of_str (ascii_ignore md) = Some m /\ m <> Mail /\
    o = dict_of (map ascii_pair opts) /\ first_accepting hs O f = Some i.
Proof.
  intros HIn.
  assert (HIn' : In (AStart f m o i) (port_spec hs d)).
  { destruct sendable; [now rewrite serve_one_sendable in HIn|].
    rewrite (proj1 (request_port_unsendable hs d)) in HIn. apply in_app_or in HIn as [H|H]; [exact H|].
    destruct (existsb is_send (port_spec hs d)); cbn in H; intuition discriminate. }
  pose proof (port_spec_ok hs d) as H.
  inversion H as [E|c Hc E|fn m' o' i' Hd Hm Hi E]; rewrite <- E in HIn'; cbn in HIn';
    [destruct HIn'|destruct HIn' as [E'|[]]; discriminate|destruct HIn' as [E'|[]]].
  injection E' as -> -> -> ->.
  destruct (rrq_decode_shape _ _ _ _ Hd) as [fn0 [md0 [opts0 [A [B [C [D [E2 [F G]]]]]]]]].
  exists fn0, md0, opts0. repeat split; auto.
Qed.

(* ---------- the executable checker and the model ---------- *)
Lemma opts_eqb_refl o : opts_eqb o o = true.
Proof. induction o as [|[k x] o IH]; cbn [opts_eqb]; [reflexivity|]. now rewrite !str_eqb_refl, IH. Qed.
Lemma actions_eqb_refl a : actions_eqb a a = true.
Proof.
  induction a as [|x a IH]; cbn [actions_eqb]; [reflexivity|]. rewrite IH, andb_true_r.
  destruct x; cbn [action_eqb]; [apply N.eqb_refl| |reflexivity|apply str_eqb_refl|reflexivity].
  now rewrite str_eqb_refl, N.eqb_refl, opts_eqb_refl, Nat.eqb_refl.
Qed.

(* the checker accepts the model when the reply can be sent ... *)
Theorem port_holds_model hs d : port_holds true hs d (serve_one true hs d) = [].
Proof.
  rewrite serve_one_sendable. pose proof (port_spec_ok hs d) as H. unfold port_holds. cbv zeta.
  inversion H as [E|c Hc E|fn m o i Hd Hm Hi E]; cbn [existsb is_log is_dead orb filter negb andb app List.length Nat.leb];
    rewrite actions_eqb_refl; reflexivity.
Qed.

(* ... and reports exactly the clause port_reply_unsendable_logged, and only when a reply was due,
   when it cannot (the code logs the OSError with a traceback: finding D22) *)
Theorem port_holds_unsendable hs d :
  port_holds false hs d (serve_one false hs d) =
  if existsb is_send (port_spec hs d) then ["C09:port_reply_unsendable_logged"%string] else [].
Proof.
  rewrite (proj1 (request_port_unsendable hs d)). pose proof (port_spec_ok hs d) as H. unfold port_holds. cbv zeta.
  inversion H as [E|c Hc E|fn m o i Hd Hm Hi E];
    cbn [existsb is_log is_send is_dead orb filter negb andb app List.length Nat.leb];
    rewrite ?actions_eqb_refl; cbn [andb app]; rewrite ?actions_eqb_refl; reflexivity.
Qed.

(* with an injected fault the checker accepts the model when the fault is reached, and judges as
   without the fault when it is not *)
Theorem port_holds_f_model st e sendable hs d :
  port_holds_f (Some (st, e)) sendable hs d (serve_one_f (Some (st, e)) sendable hs d) =
  if reaches st hs d then [] else port_holds sendable hs d (serve_one sendable hs d).
Proof.
  unfold port_holds_f. rewrite request_port_faulted. destruct (reaches st hs d); reflexivity.
Qed.

(* the evaluated cases with port_validb = true are covered by the theorems: the checker accepts the model *)
Theorem port_covered_cases f sendable hs d :
  port_validb f sendable hs d = true -> port_holds_f f sendable hs d (serve_one_f f sendable hs d) = [].
Proof.
  assert (Hbase : sendable || negb (existsb is_send (port_spec hs d)) = true ->
                  port_holds sendable hs d (serve_one sendable hs d) = []).
  { destruct sendable; [intros _; apply port_holds_model|]. cbn [orb]. intros H.
    rewrite port_holds_unsendable. apply negb_true_iff in H. now rewrite H. }
  unfold port_validb. destruct f as [[st e]|].
  - rewrite port_holds_f_model. destruct (reaches st hs d); [reflexivity|]. cbn [orb]. exact Hbase.
  - exact Hbase.
Qed.

(* ================= source port 0: the current code (D22 repaired) ================= *)
(* for EVERY datagram from EVERY source: an injected fault that is reached is the result; otherwise the
   specified reaction is performed; nothing is ever sent to port 0, so the only exception that can still
   escape is the OSError of a reply to an ordinary requester that the environment does not let through *)
Theorem process_request_v_spec f port0 sendable hs d :
  process_request_v pcurrent f port0 sendable hs d =
  faulted f (fun st => reaches_v st port0 hs d) (deliver (sendable || port0) (port_spec_v port0 hs d)).
Proof.
  unfold process_request_v, port_spec_v, reaches_v. cbn [replies_to_port0 pcurrent negb andb].
  destruct port0; cbn [andb negb].
  - rewrite log_then, orb_true_r. reflexivity.
  - rewrite process_request_f_spec, andb_true_r, orb_false_r. reflexivity.
Qed.

Theorem serve_one_v_spec f port0 sendable hs d :
  serve_one_v pcurrent f port0 sendable hs d = expected_obs f port0 sendable hs d.
Proof.
  unfold serve_one_v, expected_obs. rewrite process_request_v_spec. cbv zeta.
  assert (H : match deliver (sendable || port0) (port_spec_v port0 hs d) with Ok a => a | Exc _ done => done ++ [ALogExc] end =
              port_spec_v port0 hs d ++ (if negb sendable && existsb is_send (port_spec_v port0 hs d) then [ALogExc] else [])).
  { unfold deliver, port_spec_v. destruct port0; [rewrite orb_true_r; destruct sendable; reflexivity|].
    rewrite orb_false_r. destruct sendable; cbn [orb negb andb]; [now rewrite List.app_nil_r|].
    destruct (existsb is_send (port_spec hs d)); cbn [negb]; [reflexivity|now rewrite List.app_nil_r]. }
  destruct f as [[st e]|]; cbn [faulted]; [destruct (reaches_v st port0 hs d); [reflexivity|]|]; exact H.
Qed.

Lemma port_spec_v_ok port0 hs d : reaction_ok hs d (port_spec_v port0 hs d).
Proof. unfold port_spec_v. destruct port0; [constructor|apply port_spec_ok]. Qed.

(* without environment faults: nothing, one ERROR (1, 2 or 4) or one transfer start; never a logged
   exception; and for source port 0 nothing at all, whatever the bytes and whatever else is the matter *)
Theorem request_port_total_v port0 hs d :
  exists acts, process_request_v pcurrent None port0 true hs d = Ok acts /\
               serve_one_v pcurrent None port0 true hs d = acts /\ reaction_ok hs d acts /\ (port0 = true -> acts = []).
Proof.
  exists (port_spec_v port0 hs d). rewrite process_request_v_spec, serve_one_v_spec. unfold expected_obs. cbn [faulted negb andb orb].
  rewrite List.app_nil_r. split; [unfold deliver; reflexivity|]. split; [reflexivity|]. split; [apply port_spec_v_ok|].
  intros ->. reflexivity.
Qed.

Theorem port0_no_reaction f sendable hs d :
  serve_one_v pcurrent f true sendable hs d =
  match f with Some (SLog, _) => [ALogExc] | _ => [] end.
Proof.
  rewrite serve_one_v_spec. unfold expected_obs, port_spec_v, reaches_v. cbn [existsb andb app].
  rewrite andb_false_r. destruct f as [[[] e]|]; reflexivity.
Qed.

Theorem run_loop_v_total hs reqs :
  run_loop_v pcurrent catch_all hs reqs =
  map (fun r => serve_one_v pcurrent (fst (fst r)) (fst (snd (fst r))) (snd (snd (fst r))) hs
                            (firstn MAX_REQUEST_PACKET_SIZE (snd r))) reqs.
Proof.
  induction reqs as [|[[f [p0 s]] d] r IH]; [reflexivity|]. cbn [run_loop_v map fst snd]. unfold serve_one_v.
  destruct (process_request_v pcurrent f p0 s hs (firstn MAX_REQUEST_PACKET_SIZE d)) as [a|e done]; now rewrite IH.
Qed.

(* the checker accepts the model of the current code for EVERY case - source port 0 included, no exemption *)
Lemma reaches_v_log port0 hs d : reaches_v SLog port0 hs d = true.
Proof. unfold reaches_v. destruct port0; [reflexivity|apply reaches_log]. Qed.

Theorem port_check_model f port0 sendable hs d :
  port_check f port0 sendable hs d (serve_one_v pcurrent f port0 sendable hs d) = [].
Proof.
  rewrite serve_one_v_spec.
  assert (Hgen : (if env_fault_effective f port0 sendable hs d then
        (if existsb is_dead (expected_obs f port0 sendable hs d) then ["C09:port_stops_serving"%string] else []) ++
        (if actions_eqb (filter (fun a => negb (is_dead a)) (expected_obs f port0 sendable hs d)) (expected_obs f port0 sendable hs d)
         then [] else ["C09:port_fault_reaction"%string])
      else
        (if existsb is_log (expected_obs f port0 sendable hs d) then ["C09:internal_error_path"%string] else []) ++
        (if existsb is_dead (expected_obs f port0 sendable hs d) then ["C09:port_stops_serving"%string] else []) ++
        (if (2 <=? length (filter (fun a => negb (is_log a)) (filter (fun a => negb (is_dead a)) (expected_obs f port0 sendable hs d))))%nat
         then ["C09:port_more_than_one_reaction"%string] else []) ++
        (if actions_eqb (filter (fun a => negb (is_log a)) (filter (fun a => negb (is_dead a)) (expected_obs f port0 sendable hs d)))
                        (port_spec_v port0 hs d) then [] else ["C09:port_reaction"%string])) = []).
  { destruct (env_fault_effective f port0 sendable hs d) eqn:Eenv.
    - assert (Hnd : forall l, existsb is_dead l = false -> filter (fun a => negb (is_dead a)) l = l).
      { induction l as [|x l IH]; [reflexivity|]. cbn [existsb filter]. intros H. apply orb_false_iff in H as [A B].
        rewrite A. cbn [negb]. now rewrite IH. }
      assert (Hd : existsb is_dead (expected_obs f port0 sendable hs d) = false).
      { unfold expected_obs. pose proof (port_spec_v_ok port0 hs d) as H. cbv zeta.
        destruct f as [[st e]|]; [destruct (reaches_v st port0 hs d); [reflexivity|]|];
          inversion H; destruct (negb sendable); reflexivity. }
      rewrite Hd, (Hnd _ Hd), actions_eqb_refl. reflexivity.
    - unfold env_fault_effective in Eenv. apply orb_false_iff in Eenv as [E1 E2].
      unfold expected_obs. cbv zeta. rewrite E2.
      assert (Hx : match f with Some (st, _) => if reaches_v st port0 hs d then [ALogExc] else port_spec_v port0 hs d ++ []
                   | None => port_spec_v port0 hs d ++ [] end = port_spec_v port0 hs d).
      { destruct f as [[st e]|]; [rewrite E1|]; apply List.app_nil_r. }
      rewrite Hx. pose proof (port_spec_v_ok port0 hs d) as H.
      inversion H; cbn [existsb is_log is_dead orb filter negb app List.length Nat.leb];
        rewrite actions_eqb_refl; reflexivity. }
  unfold port_check. cbv zeta. destruct f as [[st e]|]; [|exact Hgen].
  destruct st; try exact Hgen.
  unfold expected_obs. rewrite reaches_v_log. reflexivity.
Qed.

(* the behaviour before the repair: a write request from source port 0 is answered (attempt), the
   OSError is logged; the checker rejects that *)
Theorem port_check_refuted_D22 :
  serve_one_v pv_D22 None true true [HConst true] [0; 2] = [ASendError 2; ALogExc] /\
  port_check None true true [HConst true] [0; 2] (serve_one_v pv_D22 None true true [HConst true] [0; 2]) <> [] /\
  serve_one_v pcurrent None true true [HConst true] [0; 2] = [].
Proof. vm_compute. repeat split; discriminate. Qed.

(* the pre-fix behaviour in general: what request_port_unsendable describes *)
Lemma serve_one_v_D22 f port0 sendable hs d :
  serve_one_v pv_D22 f port0 sendable hs d = serve_one_f f (sendable && negb port0) hs d.
Proof. unfold serve_one_v, process_request_v, serve_one_f. cbn [replies_to_port0 pv_D22 negb]. now rewrite andb_false_r. Qed.

Lemma serve_one_v_ordinary f sendable hs d : serve_one_v pcurrent f false sendable hs d = serve_one_f f sendable hs d.
Proof. unfold serve_one_v, process_request_v, serve_one_f. cbn [andb negb]. now rewrite andb_true_r. Qed.

(* an injected fault under the current code, any source *)
Theorem request_port_faulted_v st e port0 sendable hs d :
  serve_one_v pcurrent (Some (st, e)) port0 sendable hs d =
  if reaches_v st port0 hs d then [ALogExc] else serve_one_v pcurrent None port0 sendable hs d.
Proof. rewrite !serve_one_v_spec. reflexivity. Qed.

Theorem run_loop_v_narrow_catch_refuted :
  exists hs reqs,
    (length (run_loop_v pcurrent only_oserror_valueerror hs reqs) < length reqs)%nat /\
    length (run_loop_v pcurrent catch_all hs reqs) = length reqs.
Proof.
  exists [HConst true],
    [(Some (SThreadStart, Injected 0), (false, true), encode_rrq (lit "f") (lit "octet") []);
     (None, (false, true), encode_rrq (lit "f") (lit "octet") [])].
  split; vm_compute; lia.
Qed.

(* a loop that leaves on OSError is ended by one reply that the environment does not let through *)
Theorem run_loop_v_break_refuted :
  exists hs reqs,
    (length (run_loop_v pcurrent break_on_oserror_policy hs reqs) < length reqs)%nat /\
    length (run_loop_v pcurrent catch_all hs reqs) = length reqs.
Proof.
  exists [HConst true], [(None, (false, false), [0; 2]); (None, (false, true), [0; 2])]. split; vm_compute; lia.
Qed.
