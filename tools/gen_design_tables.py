"""Rewrite the generated tables of DESIGN.md section 8 (between <!-- X-BEGIN --> / <!-- X-END --> markers)."""
import glob, json, os, re
V = os.path.dirname(os.path.dirname(os.path.abspath(__file__)))
kf = json.load(open(V + "/known_findings.json"))["entries"]
why = {"D14b": "SmartLookupDict raising TypeError for a nested key through a scalar is tested, intended behaviour of that class; whether the matcher should absorb it is a maintainer decision",
       "D14c": "a one-character grammar corner (`(and)` accepted as an ID pattern); repairing it changes the accepted language, which a maintainer should decide",
       "D27": "the small repair (make the template name absolute without normalising it) changes which include names resolve (a '..' through a regular file is accepted lexically and rejected by the operating system; ./check C17 reports it) and realpath would move the base of relative includes: a maintainer decision about template-name semantics; needs a configured path with a symbolic link followed by '..', not client-triggered",
       "D26": "needs an iterative evaluator for operator chains (the parser already builds them iteratively); 400 operands work, the boundary is Python's recursion limit",
       "D18": "a correct repair needs a versioned FileSystemLoader without a read/stat race (not a three-line patch); the engine's own loader is not affected"}
fixed = ["| id | property | commit | what failed |", "|---|---|---|---|"]
known = ["| id | property | what | why not repaired |", "|---|---|---|---|"]
for e in kf:
    if e["status"] == "fixed":
        what = e["line"].split(e["commit"], 1)[1].strip()
        fixed.append(f"| {e['id']} | {e['property']} | {e['commit']} | {what[:170]} |")
    elif e["status"] == "known":
        known.append(f"| {e['id']} | {e['property']} | {e['what'][:260]} | {why.get(e['id'], '')} |")
rows = {}
for d in sorted(glob.glob(V + "/seeded/*")):
    m = json.load(open(d + "/meta.json")); name = os.path.basename(d); prop, tag = name.split("-", 1)
    cr = (m.get("check_results") or {}).get(prop, {})
    v = "missed"
    if cr.get("exit") == 1:
        v = "caught" if cr.get("replay_kind") == "failing-input" else "no-input"
    cl = ", ".join(sorted(set(cr.get("failed_clauses") or [])))[:60]
    rows.setdefault(prop, []).append(f"{tag}: {v}" + (f" ({cl})" if cl else ""))
seed = ["| property | theorems | seeds (round 1: s1-s3, rounds 2-10: r2s1-r10s3; verdict of the quick check: clause) |", "|---|---|---|"]
for pdir in sorted(glob.glob(V + "/coq/theories/C[0-9][0-9]")):
    prop = os.path.basename(pdir)
    n = sum(len(re.findall(r"^\s*Theorem\s", open(pf).read(), re.M)) for pf in glob.glob(pdir + "/*Props*.v"))
    seed.append(f"| {prop} | {n} | " + " ; ".join(rows.get(prop, [])) + " |")
p = V + "/DESIGN.md"
s = open(p).read()
for name, lines in (("FIXEDTABLE", fixed), ("KNOWNTABLE", known), ("SEEDTABLE", seed)):
    s = re.sub(rf"<!-- {name}-BEGIN -->.*?<!-- {name}-END -->", lambda _m: f"<!-- {name}-BEGIN -->\n" + "\n".join(lines) + f"\n<!-- {name}-END -->", s, flags=re.S)
open(p, "w").write(s)
print("DESIGN tables regenerated")
