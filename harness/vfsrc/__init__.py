"""data-source modules used by the checks when a source has to be created by name (get_data_source)"""
