(* The executable checker of C05 accepts the model. *)
From Coq Require Import String.
From Coq Require Import List NArith ZArith Bool Arith Lia.
From VF Require Import Base.Sx Addr.Text Addr.TextProofs Addr.IPv6 IpMatch.Match IpMatch.MatchProofs
  IpMatch.Handlers IpMatch.HandlersProofs C05.Entry.
Import ListNotations.
Open Scope N_scope.

Lemma tab_ok_len n t : tab_ok n t = true ->
  forall s b, tab_pton t s = PBytes b -> length b = n /\ all_bytes b = true.
Proof.
  intros T s b H. unfold tab_pton in H. destruct (List.find _ t) as [e|] eqn:F; [|discriminate].
  apply find_some in F. destruct F as [Hin _]. unfold tab_ok in T. rewrite forallb_forall in T.
  specialize (T _ Hin). rewrite H in T. apply andb_true_iff in T. destruct T as [L A].
  split; [now apply Nat.eqb_eq|assumption].
Qed.

Lemma chk_ok b n : b = true -> chk b n = [].
Proof. now intros ->. Qed.
Lemma implb_intro (a b : bool) : (a = true -> b = true) -> implb a b = true.
Proof. destruct a, b; cbn; auto. Qed.

Lemma implb_true_r a : implb a true = true. Proof. destruct a; reflexivity. Qed.
Lemma implb_false_l b : implb false b = true. Proof. reflexivity. Qed.

Section Holds.
  Variable c : case.
  Hypothesis V : valid c.

  Lemma V_parts : tab_ok 4 (p4tab c) = true /\ tab_ok 16 (p6tab c) = true /\ ref_ok c = true.
  Proof.
    pose proof V as W. unfold valid, validb in W.
    apply andb_true_iff in W. destruct W as [W R]. apply andb_true_iff in W. tauto.
  Qed.
  Lemma L4 : forall s b, P4 c s = PBytes b -> length b = 4%nat /\ all_bytes b = true.
  Proof. exact (tab_ok_len 4 _ (proj1 V_parts)). Qed.
  Lemma L6 : forall s b, P6 c s = PBytes b -> length b = 16%nat /\ all_bytes b = true.
  Proof. exact (tab_ok_len 16 _ (proj1 (proj2 V_parts))). Qed.
  Lemma Rok : ref_ok c = true. Proof. exact (proj2 (proj2 V_parts)). Qed.

  Lemma wt_forall l : forallb entry_ok l = true -> well_typed l.
  Proof. apply forallb_entry_ok. Qed.

  (* ---- kind 0 ---- *)
  Lemma contains_case : ckind c = KContains -> holds_req0 c (run_req c) = [].
  Proof.
    intros K. pose proof Rok as R. unfold holds_req0, run_req, ref_ok, cmember, cwell_typed, cstage, ceffective in *.
    rewrite K in *. cbn [ocode ocount is_member exp_well_typed] in *.
    set (r := contains (P4 c) (P6 c) (craise c) (centries c) (cclient c)).
    set (m := member (P4 c) (P6 c) (centries c) (cclient c)) in *.
    set (wt := forallb entry_ok (centries c)) in *.
    assert (C1 : negb (craise c) && wt = true -> cres_code r = (if m then 1 else 0)).
    { intros H. apply andb_true_iff in H. destruct H as [Hr Hw]. apply negb_true_iff in Hr.
      unfold r. rewrite Hr. rewrite (membership_spec (P4 c) (P6 c) L4 L6 _ _ (wt_forall _ Hw)).
      fold m. destruct m; reflexivity. }
    assert (C2 : cres_code r = 1 -> m = true).
    { intros H. apply (contains_sound (P4 c) (P6 c) L4 L6 (craise c)). fold r. destruct r; cbn in H; try discriminate; reflexivity. }
    assert (C3 : craise c = false -> cres_code r <> 2).
    { intros Hr E. unfold r in E. rewrite Hr in E.
      pose proof (contains_outcomes (P4 c) (P6 c) (centries c) (cclient c)) as O.
      destruct (contains (P4 c) (P6 c) false (centries c) (cclient c)); cbn in E; try discriminate. now apply O. }
    rewrite (chk_ok _ _ (implb_intro _ _ (fun H => proj2 (N.eqb_eq _ _) (C1 H)))).
    rewrite (chk_ok (implb (cres_code r =? 1) m)).
    2:{ apply implb_intro. intros H. apply N.eqb_eq in H. now apply C2. }
    rewrite (chk_ok (implb (negb (craise c)) (negb (cres_code r =? 2)))).
    2:{ apply implb_intro. intros H. apply negb_true_iff in H. apply negb_true_iff. apply N.eqb_neq. now apply C3. }
    cbn [app]. destruct (cref c) as [b|]; [|reflexivity]. apply chk_ok. apply implb_intro. intros H.
    pose proof (C1 H) as E. apply andb_true_iff in H. destruct H as [_ Hw]. rewrite E.
    destruct b.
    - rewrite Hw in R. cbn in R. rewrite R. reflexivity.
    - apply negb_true_iff in R. rewrite R. reflexivity.
  Qed.

  (* ---- kinds 1, 2: a common abstract shape ---- *)
  Lemma granted_member e cl : exp_well_typed e = true -> is_member (P4 c) (P6 c) e cl = true ->
    check (P4 c) (P6 c) e cl = Granted.
  Proof.
    destruct e as [|l| |]; cbn [exp_well_typed Handlers.check Handlers.is_member]; try discriminate.
    intros W M. rewrite (membership_spec (P4 c) (P6 c) L4 L6 l cl (wt_forall l W)). now rewrite M.
  Qed.

  Lemma file_case : ckind c = KFile -> holds_req0 c (run_req c) = [].
  Proof.
    intros K. pose proof Rok as R. unfold holds_req0, run_req, ref_ok, cmember, cwell_typed, cstage, ceffective, crestricted, granted_code in *.
    rewrite K in *. cbn [ocode ocount] in *.
    set (cfg := fcfg_of c) in *. set (env := fenv_of c) in *.
    change (ckey c) with (key_set cfg) in *. change (centries c) with (cfg_list cfg) in *.
    pose proof (deny_before_change_file (P4 c) (P6 c) L4 L6 cfg env (cclient c)) as DB.
    pose proof (no_leak (P4 c) (P6 c) L4 L6 cfg env (cclient c)) as [NL1 NL2].
    set (r := file_handle (P4 c) (P6 c) cfg env (cclient c)) in *.
    assert (GC : forall x, (hres_code x =? 0) || (hres_code x =? 1) = true -> x = HContent \/ x = HNotFound).
    { intros x. destruct x; cbn; intros H; try discriminate; auto. }
    destruct (restricted (key_set cfg) (cfg_list cfg)) eqn:Rs; cbn [andb implb negb orb].
    2:{ destruct (cref c) as [[|]|]; reflexivity. }
    destruct (stage1 cfg env) as [st|] eqn:S.
    - set (e := combine (cfg_list cfg) (if key_set cfg then key_expected (fst st) (snd st) else ENone)) in *.
      assert (Ee : effective cfg st = e) by reflexivity.
      destruct (is_member (P4 c) (P6 c) e (cclient c)) eqn:M.
      + (* member *)
        rewrite implb_true_r. cbn [negb]. rewrite implb_false_l, andb_false_r, implb_false_l. cbn [chk app].
        destruct (cref c) as [[|]|]; try reflexivity; [|discriminate R].
        apply chk_ok. apply implb_intro. intros Hw.
        assert (G : check (P4 c) (P6 c) e (cclient c) = Granted) by (apply granted_member; assumption).
        unfold r, Handlers.file_handle. rewrite S, Ee, G.
        destruct (lookup cfg && is_notfound (nores cfg) && negb (fst st)); [reflexivity|]. destruct (fs env); reflexivity.
      + (* not a member *)
        assert (NM : forall st0, Some st = Some st0 -> is_member (P4 c) (P6 c) (effective cfg st0) (cclient c) = false).
        { intros st0 E. inversion E; subst. rewrite Ee. exact M. }
        destruct (DB eq_refl NM) as (D0 & D1 & D2).
        assert (NG : (hres_code (fst r) =? 0) || (hres_code (fst r) =? 1) = false).
        { destruct (fst r); try reflexivity; congruence. }
        rewrite NG, D0. cbn [negb andb orb implb N.eqb chk app].
        rewrite (chk_ok (implb (exp_well_typed e && true) _)).
        2:{ apply implb_intro. intros W. rewrite andb_true_r in W.
            rewrite <- Ee in W, M. rewrite (NL2 st eq_refl W M). reflexivity. }
        cbn [app]. destruct (cref c) as [[|]|]; try reflexivity.
        apply chk_ok. apply implb_intro. intros Hw. rewrite Hw in R. discriminate R.
    - (* the data source failed visibly *)
      rewrite (NL1 eq_refl). cbn. destruct (cref c) as [[|]|]; reflexivity.
  Qed.

  Lemma update_case : ckind c = KUpdate -> holds_req0 c (run_req c) = [].
  Proof.
    intros K. pose proof Rok as R. unfold holds_req0, run_req, ref_ok, cmember, cwell_typed, cstage, ceffective, crestricted, granted_code in *.
    rewrite K in *. cbn [ocode ocount] in *.
    pose proof (deny_before_change_update_f (P4 c) (P6 c) L4 L6 (cbad_body c) (cstore_fault c) (ckey c) (centries c) (cgetd c) (cclient c)) as DB.
    set (r := update_handle_f (P4 c) (P6 c) (cbad_body c) (cstore_fault c) (ckey c) (centries c) (cgetd c) (cclient c)) in *.
    destruct (restricted (ckey c) (centries c)) eqn:Rs; cbn [andb implb negb orb].
    2:{ destruct (cref c) as [[|]|]; reflexivity. }
    destruct (update_stage (ckey c) (cgetd c)) as [st|] eqn:S.
    - set (e := combine (centries c) (if ckey c then key_expected (fst st) (snd st) else ENone)) in *.
      destruct (is_member (P4 c) (P6 c) e (cclient c)) eqn:M.
      + rewrite implb_true_r. cbn [negb]. rewrite implb_false_l, andb_false_r, implb_false_l. cbn [chk app].
        destruct (cref c) as [[|]|]; try reflexivity; [|discriminate R].
        apply chk_ok. apply implb_intro. intros Hw.
        unfold r, Handlers.update_handle_f, update_apply. rewrite S. fold e. rewrite (granted_member e _ Hw M).
        destruct (cbad_body c); [reflexivity|]. destruct (cstore_fault c); reflexivity.
      + assert (NM : forall st0, Some st = Some st0 ->
                  is_member (P4 c) (P6 c) (combine (centries c) (if ckey c then key_expected (fst st0) (snd st0) else ENone)) (cclient c) = false).
        { intros st0 E. inversion E; subst. exact M. }
        destruct (DB eq_refl NM) as (D0 & D1).
        assert (NG : (hres_code (fst r) =? 4) || (hres_code (fst r) =? 5) = false)
          by (destruct D1 as [D1|D1]; rewrite D1; reflexivity).
        rewrite NG, D0. cbn [negb andb orb implb N.eqb chk app].
        rewrite (chk_ok (implb (exp_well_typed e && true) _)).
        2:{ apply implb_intro. intros W. rewrite andb_true_r in W.
            unfold r, Handlers.update_handle_f. rewrite S. fold e.
            rewrite (check_denied (P4 c) (P6 c) L4 L6 e _ W M). reflexivity. }
        cbn [app]. destruct (cref c) as [[|]|]; try reflexivity.
        apply chk_ok. apply implb_intro. intros Hw. rewrite Hw in R. discriminate R.
    - assert (E : r = (HError, 0)) by (unfold r, Handlers.update_handle_f; now rewrite S).
      rewrite E. cbn. destruct (cref c) as [[|]|]; reflexivity.
  Qed.

  Theorem holds_model : holds c (run_model c) = [].
  Proof.
    unfold holds, run_model. destruct (method_refused c); [reflexivity|].
    unfold holds_req.
    assert (D : detail_clause c (run_req c) = []).
    { unfold detail_clause, run_req. destruct (ckind c); [reflexivity| |]; cbn [odetail]; now rewrite implb_true_r. }
    rewrite D, app_nil_r.
    destruct (ckind c) eqn:K; [now apply contains_case|now apply file_case|now apply update_case].
  Qed.
End Holds.

(* ---- histories ---- *)
Lemma holds_history_model h : valid_history h -> holds_history h (run_history h) = [].
Proof.
  induction 1 as [|c h Hc Hh IH]; cbn [run_history map holds_history]; [reflexivity|].
  rewrite (holds_model c Hc). exact IH.
Qed.

(* the decision for a request does not depend on what the handler was asked before *)
Lemma history_stateless h1 h2 c d :
  last (run_history (h1 ++ [c])) d = run_model c /\
  last (run_history (h1 ++ [c])) d = last (run_history (h2 ++ [c])) d.
Proof.
  assert (E : forall h, last (run_history (h ++ [c])) d = run_model c).
  { intros h. unfold run_history. rewrite map_app. cbn [map]. apply last_last. }
  split; [apply E|now rewrite !E].
Qed.
Lemma history_pointwise h i : nth_error (run_history h) i = option_map run_model (nth_error h i).
Proof. unfold run_history. apply nth_error_map. Qed.
