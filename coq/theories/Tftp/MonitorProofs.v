(* The monitor (specification of a correct transfer) accepts every trace of the
   transfer model, for every script of incoming datagrams. *)
From Coq Require Import String.
From Coq Require Import List NArith ZArith Bool Lia.
From VF Require Import Base.Sx Tftp.Readers Tftp.ReadersProofs Tftp.Codec Tftp.Transfer Tftp.Run Tftp.Monitor Tftp.Ideal.
Import ListNotations.
Open Scope Z_scope.

Definition mrun (tm : Z) (rt : nat) (pr : Z) (s : mst) (l : list tr) : mst := fold_left (mstep tm rt pr) l s.

Lemma mrun_app tm rt pr s l1 l2 : mrun tm rt pr s (l1 ++ l2) = mrun tm rt pr (mrun tm rt pr s l1) l2.
Proof. unfold mrun. apply fold_left_app. Qed.

Lemma pkt_eqb_refl p : pkt_eqb p p = true.
Proof.
  assert (R0: forall s, str_eqb s s = true).
  { induction s as [|y s IHs]; cbn; [reflexivity|]. now rewrite N.eqb_refl. }
  destruct p as [n d|o|c|r]; cbn [pkt_eqb]; [| | |apply R0].
  - rewrite N.eqb_refl. cbn. induction d as [|x d IH]; cbn; [reflexivity|]. now rewrite N.eqb_refl.
  - induction o as [|[k x] o IH]; [reflexivity|].
    assert (R: forall s, str_eqb s s = true).
    { induction s as [|y s IHs]; cbn; [reflexivity|]. now rewrite N.eqb_refl. }
    rewrite !R. cbn. exact IH.
  - apply N.eqb_refl.
Qed.

Ltac inv H := inversion H; subst; clear H.

Section Await.
  Variable c : cfg.
  Variable rt : nat.
  Hypothesis tm_pos : 0 < tmo c.
  Hypothesis pr_nonneg : 0 <= proc c.
  Hypothesis v_cur : v c = current.
  Let tm := tmo c.
  Let pr := proc c.

  Lemma step_timeout s t :
    m_mode s = MWait -> m_fail s = None -> t = Z.max (m_tsend s + tm) (m_now s) ->
    mstep tm rt pr s (TTimeout t) = mset s (if (m_count s <? S rt)%nat then MResend else MCloseF) t.
  Proof.
    intros Wm Wf ->. unfold mstep. rewrite Wf, Wm, Z.eqb_refl. cbn [negb].
    destruct (m_count s <? S rt)%nat; reflexivity.
  Qed.

  (* while a packet is outstanding: the monitor follows `await` *)
  Lemma await_ok : forall evs s now,
    m_mode s = MWait -> m_fail s = None -> m_now s = now ->
    m_tsend s <= now ->
    forall o n' e' l, await c (want (m_out s)) now (m_tsend s + tm) evs = (o, n', e', l) ->
    o <> OInternal /\
    mrun tm rt pr s l =
      mset s (match o with
              | OAcked => MNext
              | OTimeout => if (m_count s <? S rt)%nat then MResend else MCloseF
              | OPeerError => MSilent
              | OInvalid => MErr0
              | OInternal => MEnd
              end) n' /\
    now <= n'.
  Proof.
    induction evs as [|[t a d] evs IH]; intros s now Wm Wf Wn Hnow o n' e' l H;
      cbn [await] in H; rewrite v_cur in H; cbn [late_recv current negb andb] in H;
      fold tm in H; destruct (Z.leb_spec (m_tsend s + tm) now) as [Hover|Hin].
    - (* no time left *)
      inv H. split; [discriminate|]. split; [|lia].
      cbn [mrun fold_left]. apply step_timeout; auto. lia.
    - unfold sock_timeout in H.
      destruct (Z.ltb_spec 0 (m_tsend s + tm - now)) as [_|Hc]; [|lia].
      replace (now + (m_tsend s + tm - now)) with (m_tsend s + tm) in H by lia.
      inv H. split; [discriminate|]. split; [|lia].
      cbn [mrun fold_left]. apply step_timeout; auto. lia.
    - inv H. split; [discriminate|]. split; [|lia].
      cbn [mrun fold_left]. apply step_timeout; auto. lia.
    - unfold sock_timeout in H.
      destruct (Z.ltb_spec 0 (m_tsend s + tm - now)) as [_|Hc]; [|lia].
      replace (now + (m_tsend s + tm - now)) with (m_tsend s + tm) in H by lia.
      destruct (Z.ltb_spec t (m_tsend s + tm)) as [Hlt|Hge].
      + (* delivered *)
        assert (Hd : (t <? m_tsend s + tm) && (m_now s <? m_tsend s + tm) = true).
        { apply andb_true_intro; split; apply Z.ltb_lt; lia. }
        fold pr in H.
        destruct (N.eqb_spec a client) as [Ha|Ha]; cbn [negb] in H.
        * (* from the client *)
          destruct (classify current d) eqn:Ec.
          -- destruct (N.eqb_spec n (want (m_out s))) as [Hn|Hn].
             ++ inv H. split; [discriminate|]. split; [|lia].
                cbn [mrun fold_left]. unfold mstep. rewrite Wf, Wm, Hd. cbn [negb].
                rewrite N.eqb_refl. cbn [negb]. rewrite Ec, N.eqb_refl. reflexivity.
             ++ destruct (await c (want (m_out s)) (Z.max now t + pr) (m_tsend s + tm) evs) as [[[o2 n2] e2] l2] eqn:E2.
                inv H.
                set (s1 := mset s MWait (Z.max (m_now s) t + pr)).
                destruct (IH s1 (Z.max (m_now s) t + pr) eq_refl Wf eq_refl ltac:(cbn; lia) _ _ _ _ E2) as (I1 & I2 & I3).
                split; [exact I1|]. split.
                ** cbn [mrun fold_left]. unfold mstep at 2. rewrite Wf, Wm, Hd. cbn [negb].
                   rewrite N.eqb_refl. cbn [negb]. rewrite Ec.
                   destruct (N.eqb_spec n (want (m_out s))); [contradiction|].
                   fold s1. fold (mrun tm rt pr s1 l2). rewrite I2. reflexivity.
                ** lia.
          -- inv H. split; [discriminate|]. split; [|lia].
             cbn [mrun fold_left]. unfold mstep. rewrite Wf, Wm, Hd. cbn [negb].
             rewrite N.eqb_refl. cbn [negb]. rewrite Ec. reflexivity.
          -- inv H. split; [discriminate|]. split; [|lia].
             cbn [mrun fold_left]. unfold mstep. rewrite Wf, Wm, Hd. cbn [negb].
             rewrite N.eqb_refl. cbn [negb]. rewrite Ec. reflexivity.
          -- (* CInternal cannot come out of the current variant *)
             exfalso. unfold classify in Ec. cbn [current errcode_raises andb] in Ec.
             repeat match type of Ec with
                    | context [match ?x with _ => _ end] => destruct x; try discriminate
                    end.
        * (* foreign sender: ERROR 5, keep waiting *)
          destruct (await c (want (m_out s)) (Z.max now t + pr) (m_tsend s + tm) evs) as [[[o2 n2] e2] l2] eqn:E2.
          inv H.
          set (s1 := mset s MWait (Z.max (m_now s) t + pr)).
          destruct (IH s1 (Z.max (m_now s) t + pr) eq_refl Wf eq_refl ltac:(cbn; lia) _ _ _ _ E2) as (I1 & I2 & I3).
          split; [exact I1|]. split.
          -- cbn [mrun fold_left]. unfold mstep at 3. rewrite Wf, Wm, Hd. cbn [negb].
             destruct (N.eqb_spec a client); [contradiction|]. cbn [negb].
             unfold mstep at 2. cbn [mset m_fail m_mode m_now]. rewrite Wf.
             rewrite N.eqb_refl, Z.eqb_refl. cbn [pkt_eqb]. rewrite N.eqb_refl. cbn [andb].
             replace (mset (mset s (MForeign a) (Z.max (m_now s) t + pr)) MWait (Z.max (m_now s) t + pr)) with s1 by reflexivity.
             fold (mrun tm rt pr s1 l2). rewrite I2. reflexivity.
          -- lia.
      + (* the datagram is too late: time-out at the deadline *)
        inv H. split; [discriminate|]. split; [|lia].
        cbn [mrun fold_left]. apply step_timeout; auto. lia.
  Qed.
End Await.

Definition mode_of (o : outcome) : mmode :=
  match o with
  | OAcked => MNext | OTimeout => MCloseF | OPeerError => MSilent | OInvalid => MErr0 | OInternal => MEnd
  end.

Lemma send_tries_S c k p w now evs :
  send_tries c (S k) p w now evs =
  let '(o, n1, e1, l1) := await c w now (now + tmo c) evs in
  match o with
  | OTimeout =>
      match k with
      | O => if retry_fallthrough (v c) then (OAcked, n1, e1, TSend now client p :: l1)
             else (OTimeout, n1, e1, TSend now client p :: l1)
      | S _ => let '(o2, n2, e2, l2) := send_tries c k p w n1 e1 in
               (o2, n2, e2, TSend now client p :: l1 ++ l2)
      end
  | _ => (o, n1, e1, TSend now client p :: l1)
  end.
Proof. reflexivity. Qed.

(* the same for the idealised server (proc = 0), in terms of await0 *)
Lemma send_tries_S0 c : proc c = 0 -> 0 < tmo c -> forall k p w now evs,
  send_tries c (S k) p w now evs =
  let '(o, n1, e1, l1) := await0 (v c) w now (now + tmo c) evs in
  match o with
  | OTimeout =>
      match k with
      | O => if retry_fallthrough (v c) then (OAcked, n1, e1, TSend now client p :: l1)
             else (OTimeout, n1, e1, TSend now client p :: l1)
      | S _ => let '(o2, n2, e2, l2) := send_tries c k p w n1 e1 in
               (o2, n2, e2, TSend now client p :: l1 ++ l2)
      end
  | _ => (o, n1, e1, TSend now client p :: l1)
  end.
Proof. intros Hp Ht k p w now evs. rewrite send_tries_S, (await_await0 c w _ Hp) by lia. reflexivity. Qed.

Section Tries.
  Variable c : cfg.
  Hypothesis tm_pos : 0 < tmo c.
  Hypothesis pr_nonneg : 0 <= proc c.
  Hypothesis v_cur : v c = current.
  Let tm := tmo c.
  Let rt := retries c.
  Let pr := proc c.

  (* [s1] is the monitor state right after the packet has been sent *)
  Lemma send_tries_ok : forall k s p now evs o n' e' l s1,
    m_fail s = None ->
    mstep tm rt pr s (TSend now client p) = s1 ->
    m_mode s1 = MWait -> m_fail s1 = None -> m_out s1 = p -> m_tsend s1 = now -> m_now s1 = now ->
    (m_count s1 + k = S rt)%nat ->
    send_tries c (S k) p (want p) now evs = (o, n', e', l) ->
    exists s', mrun tm rt pr s l = s' /\ m_fail s' = None /\ m_exp s' = m_exp s1 /\ m_over s' = m_over s1 /\
               m_now s' = n' /\ m_mode s' = mode_of o /\ now <= n' /\ o <> OInternal.
  Proof.
    induction k as [|k IH]; intros s p now evs o n' e' l s1 Hf Hs1 Wm Wf Wo Wt Wn Hc H;
      rewrite send_tries_S in H;
      destruct (await c (want p) now (now + tmo c) evs) as [[[o1 n1] e1] l1] eqn:E1;
      try rewrite v_cur in H;
      rewrite <- Wo in E1; rewrite <- Wt in E1 at 2; rewrite <- Wn in E1 at 1; rewrite Wn in E1;
      destruct (await_ok c rt pr_nonneg v_cur evs s1 now Wm Wf Wn ltac:(lia) _ _ _ _ E1) as (I1 & I2 & I3);
      fold tm pr in I2.
    - assert (Hcnt : (m_count s1 <? S rt)%nat = false) by (apply Nat.ltb_ge; lia).
      rewrite Hcnt in I2.
      assert (G : forall oo, oo = o1 -> (oo, n1, e1, TSend now client p :: l1) = (o, n', e', l) ->
                  exists s', mrun tm rt pr s l = s' /\ m_fail s' = None /\ m_exp s' = m_exp s1 /\ m_over s' = m_over s1 /\
                             m_now s' = n' /\ m_mode s' = mode_of o /\ now <= n' /\ o <> OInternal).
      { intros oo Eo HH. inv HH. eexists; split; [reflexivity|].
        cbn [mrun fold_left]. fold (mrun tm rt pr (mstep tm rt pr s (TSend (m_now (mstep tm rt pr s (TSend now client p))) client p)) l1) || idtac.
        change (fold_left (mstep tm rt pr) l1 (mstep tm rt pr s (TSend now client p))) with (mrun tm rt pr (mstep tm rt pr s (TSend now client p)) l1).
        rewrite I2. cbn [mset m_fail m_exp m_over m_now m_mode].
        repeat split; auto; destruct o; cbn [mode_of]; try reflexivity; try lia; try discriminate; try (exfalso; apply I1; reflexivity). }
      destruct o1; cbn [retry_fallthrough current] in H; eapply G; eauto.
    - assert (Hcnt : (m_count s1 <? S rt)%nat = true) by (apply Nat.ltb_lt; lia).
      rewrite Hcnt in I2.
      destruct o1.
      2:{ (* time-out with tries left: resend *)
          destruct (send_tries c (S k) p (want p) n1 e1) as [[[o2 n2] e2] l2] eqn:E2.
          injection H as <- <- <- <-.
          subst s1.
          set (s0 := mstep tm rt pr s (TSend now client p)) in *.
          set (sr := mset s0 MResend n1) in *.
          assert (Hsr : mstep tm rt pr sr (TSend n1 client p) = msent sr (m_out sr) (m_exp sr) (S (m_count sr))).
          { unfold mstep. cbn [sr mset m_fail m_mode m_now m_out]. rewrite Wf.
            rewrite N.eqb_refl, Wo, pkt_eqb_refl, Z.eqb_refl. cbn [andb]. reflexivity. }
          destruct (IH sr p n1 e1 o2 n2 e2 l2 _ ltac:(exact Wf) Hsr eq_refl ltac:(exact Wf) ltac:(exact Wo) eq_refl eq_refl
                      ltac:(cbn; lia) E2) as (s' & R1 & R2 & R3 & R4 & R5 & R6 & R7 & R8).
          exists s'. split.
          - cbn [mrun fold_left]. fold s0.
            change (fold_left (mstep tm rt pr) (l1 ++ l2) s0) with (mrun tm rt pr s0 (l1 ++ l2)).
            rewrite mrun_app, I2. exact R1.
          - repeat split; auto. lia. }
      all: inv H; eexists; (split; [reflexivity|]); cbn [mrun fold_left];
        change (fold_left (mstep tm rt pr) l1 (mstep tm rt pr s (TSend now client p))) with (mrun tm rt pr (mstep tm rt pr s (TSend now client p)) l1);
        rewrite I2; cbn [mset m_fail m_exp m_over m_now m_mode mode_of];
        repeat split; auto; try lia; try discriminate; try (exfalso; apply I1; reflexivity).
  Qed.
End Tries.

Section Blocks.
  Variable c : cfg.
  Hypothesis tm_pos : 0 < tmo c.
  Hypothesis pr_nonneg : 0 <= proc c.
  Hypothesis v_cur : v c = current.
  Notation tm := (tmo c).
  Notation rt := (retries c).
  Notation pr := (proc c).

  Definition ready_new (s : mst) (now : Z) : Prop :=
    (m_mode s = MStart \/ m_mode s = MNext) /\ m_fail s = None /\ m_now s = now.

  Lemma first_send s now q r :
    ready_new s now -> m_exp s = q :: r ->
    mstep tm rt pr s (TSend now client q) = msent s q r 1.
  Proof.
    intros ([Hm|Hm] & Hf & Hn) He; unfold mstep; rewrite Hf, Hm, He, N.eqb_refl, pkt_eqb_refl, Hn, Z.eqb_refl;
      reflexivity.
  Qed.

  Lemma send_blocks_ok : forall blocks blk s now evs r n' e' l,
    ready_new s now ->
    m_exp s = fst (number_blocks (wrap c) blk blocks) ->
    m_over s = snd (number_blocks (wrap c) blk blocks) ->
    send_blocks c blk blocks now evs = (r, n', e', l) ->
    exists s', mrun tm rt pr s l = s' /\ m_fail s' = None /\ m_now s' = n' /\ now <= n' /\
      match r with
      | inr e => (m_mode s' = MNext \/ s' = s) /\ m_exp s' = [] /\
                 m_over s' = match e with EDone => false | EOverflow => true end
      | inl o => m_mode s' = mode_of o /\ (o = OTimeout \/ o = OPeerError \/ o = OInvalid)
      end.
  Proof.
    induction blocks as [|b rest IH]; intros blk s now evs r n' e' l Hr He Ho H.
    - cbn [send_blocks] in H. inv H. cbn [number_blocks fst snd] in He, Ho.
      exists s. destruct Hr as (Hm & Hf & Hn). cbn [mrun fold_left]. repeat split; auto; lia.
    - cbn [send_blocks] in H. cbn [number_blocks] in He, Ho.
      destruct (next_block (wrap c) blk) as [n|] eqn:En.
      2:{ inv H. cbn [fst snd] in He, Ho. exists s. destruct Hr as (Hm & Hf & Hn).
          cbn [mrun fold_left]. repeat split; auto; lia. }
      destruct (number_blocks (wrap c) n rest) as [lr orr] eqn:Enb. cbn [fst snd] in He, Ho.
      destruct (send_tries c (S (retries c)) (PData n b) n now evs) as [[[o n1] e1] l1] eqn:E1.
      pose proof (first_send s now _ _ Hr He) as Hfs.
      destruct Hr as (Hm & Hf & Hn).
      destruct (send_tries_ok c pr_nonneg v_cur (retries c) s (PData n b) now evs o n1 e1 l1 _ Hf Hfs
                  eq_refl Hf eq_refl Hn Hn ltac:(cbn; lia) E1)
        as (s1 & R1 & R2 & R3 & R4 & R5 & R6 & R7 & R8).
      cbn [msent m_exp m_over] in R3, R4.
      destruct o.
      + (* acknowledged: on to the next block *)
        destruct (send_blocks c n rest n1 e1) as [[[r2 n2] e2] l2] eqn:E2.
        injection H as <- <- <- <-.
        destruct (IH n s1 n1 e1 r2 n2 e2 l2) as (s2 & Q1 & Q2 & Q3 & Q4 & Q5).
        * repeat split; auto.
        * rewrite Enb. cbn [fst]. exact R3.
        * rewrite Enb. cbn [snd]. rewrite R4. exact Ho.
        * exact E2.
        * exists s2. rewrite mrun_app, R1. repeat split; auto; try lia.
          destruct r2 as [o|e]; [exact Q5|].
          destruct Q5 as ([Q5|Q5] & Q6 & Q7); repeat split; auto.
          left. rewrite Q5. exact R6.
      + injection H as <- <- <- <-. exists s1. repeat split; auto.
      + injection H as <- <- <- <-. exists s1. repeat split; auto.
      + injection H as <- <- <- <-. exists s1. repeat split; auto.
      + exfalso. apply R8. reflexivity.
  Qed.
End Blocks.

(* ---------- the whole transfer ---------- *)
Definition valid (c : tcase) : Prop :=
  t_v c = current /\ t_nv c = ncurrent /\ t_na_always_skip c = false /\
  (1 <= max_bs (t_limits c))%N /\ (1 <= default_tmo (t_limits c))%N /\ 0 <= t_proc c.

Lemma validb_valid c : validb c = true -> valid c.
Proof.
  unfold validb, valid. intros H.
  repeat match type of H with _ && _ = true => apply andb_true_iff in H; destruct H as [H ?] end.
  repeat match goal with X : negb _ = true |- _ => apply negb_true_iff in X end.
  repeat split.
  - destruct (t_v c) as [a b d]; cbn in *; subst; reflexivity.
  - destruct (t_nv c) as [a b]; cbn in *; subst; reflexivity.
  - assumption.
  - apply N.leb_le; assumption.
  - apply N.leb_le; assumption.
  - apply Z.leb_le; assumption.
Qed.

Lemma negotiate_pos lim na k opts :
  (1 <= max_bs lim)%N -> (1 <= default_tmo lim)%N ->
  (1 <= n_bs (negotiate ncurrent lim na k opts))%N /\ (1 <= n_tmo (negotiate ncurrent lim na k opts))%N.
Proof.
  intros Hb Ht. unfold negotiate. cbn [blksize_drop_over_max ncurrent].
  destruct (dict_get (lower_keys opts) (lit "blksize")) as [s|];
    [destruct (positive_int s) as [n|]; [destruct (N.leb_spec 8 n)|]|];
  (destruct (dict_get (lower_keys opts) (lit "timeout")) as [s'|];
    [destruct (positive_int s') as [n'|];
       [destruct (N.leb_spec (n' * TICKS_PER_SECOND) (max_tmo lim)); destruct (N.leb_spec 1 n')|]|]);
  cbn [andb n_bs n_tmo]; unfold TICKS_PER_SECOND in *; lia.
Qed.

Lemma t_blocks_spec c : valid c -> t_blocks c = spec_blocks c.
Proof.
  intros (Hv & Hnv & Hna & Hb & Ht & _). unfold t_blocks, spec_blocks, t_neg. rewrite Hnv, Hna.
  destruct (negotiate_pos (t_limits c) (t_netascii c) (t_kind c) (t_options c) Hb Ht) as [H1 _].
  destruct (t_netascii c).
  - apply netascii_blocks_spec. lia.
  - apply octet_blocks_spec. lia.
Qed.

Lemma step_closef tm rt pr s :
  m_fail s = None -> (m_mode s = MCloseF \/ m_mode s = MSilent) ->
  mstep tm rt pr s TCloseFile = mset s MCloseS (m_now s).
Proof. intros Hf [Hm|Hm]; unfold mstep; rewrite Hf, Hm; reflexivity. Qed.
Lemma step_closes tm rt pr s :
  m_fail s = None -> m_mode s = MCloseS -> mstep tm rt pr s TCloseSock = mset s MEnd (m_now s).
Proof. intros Hf Hm; unfold mstep; rewrite Hf, Hm; reflexivity. Qed.

Lemma closes_ok tm rt pr s :
  m_fail s = None -> (m_mode s = MCloseF \/ m_mode s = MSilent) ->
  let s' := mrun tm rt pr s [TCloseFile; TCloseSock] in m_fail s' = None /\ m_mode s' = MEnd.
Proof.
  intros Hf Hm. cbn [mrun fold_left]. rewrite (step_closef tm rt pr s Hf Hm).
  rewrite step_closes by (cbn; auto). cbn. auto.
Qed.

Lemma step_err0 tm rt pr s now :
  m_fail s = None -> m_mode s = MErr0 -> m_now s = now ->
  mstep tm rt pr s (TSend now client (PError 0)) = mset s MCloseF now.
Proof.
  intros Hf Hm Hn; unfold mstep; rewrite Hf, Hm, N.eqb_refl, Hn, Z.eqb_refl. cbn [pkt_eqb].
  rewrite N.eqb_refl. reflexivity.
Qed.
Lemma step_overflow tm rt pr s now :
  m_fail s = None -> m_mode s = MNext -> m_exp s = [] -> m_over s = true -> m_now s = now ->
  mstep tm rt pr s (TSend now client (PError 0)) = mset s MCloseF now.
Proof.
  intros Hf Hm He Ho Hn; unfold mstep; rewrite Hf, Hm, He, Ho, N.eqb_refl, Hn, Z.eqb_refl. cbn [pkt_eqb].
  rewrite N.eqb_refl. reflexivity.
Qed.
Lemma step_done tm rt pr s :
  m_fail s = None -> m_mode s = MNext -> m_exp s = [] -> m_over s = false ->
  mstep tm rt pr s TCloseFile = mset s MCloseS (m_now s).
Proof. intros Hf Hm He Ho; unfold mstep; rewrite Hf, Hm, He, Ho. reflexivity. Qed.

Theorem monitor_accepts c : valid c -> monitor c (run_transfer_case c) = [].
Proof.
  intros Hv. pose proof Hv as (Hcur & Hnv & Hna & Hb & Ht & Hpr).
  destruct (negotiate_pos (t_limits c) (t_netascii c) (t_kind c) (t_options c) Hb Ht) as [_ Htm].
  unfold monitor, run_transfer_case. rewrite (t_blocks_spec c Hv).
  assert (tm_pos : 0 < tmo (t_cfg c)).
  { unfold t_cfg, t_neg; cbn [tmo]. rewrite Hnv. unfold TICKS. lia. }
  assert (pr_nonneg : 0 <= proc (t_cfg c)) by exact Hpr.
  assert (v_cur : v (t_cfg c) = current) by exact Hcur.
  change (fold_left (mstep (tmo (t_cfg c)) (t_retries c) (t_proc c))) with
      (fun l s => mrun (tmo (t_cfg c)) (retries (t_cfg c)) (proc (t_cfg c)) s l).
  cbv beta.
  set (tm := tmo (t_cfg c)) in *. set (rt := retries (t_cfg c)) in *. set (pr := proc (t_cfg c)) in *.
  unfold minit, expected.
  destruct (number_blocks (t_wrap c) 0%N (spec_blocks c)) as [lb ob] eqn:Enb.
  unfold transfer, transfer_r.
  (* final part shared by all endings *)
  assert (Fin : forall s r now, m_fail s = None -> m_now s = now ->
            match r with
            | inr e => m_mode s = MNext /\ m_exp s = [] /\
                       m_over s = match e with EDone => false | EOverflow => true end
            | inl o => m_mode s = mode_of o /\ (o = OTimeout \/ o = OPeerError \/ o = OInvalid)
            end ->
            let s' := mrun tm rt pr s (finish r now ++ [TCloseFile; TCloseSock]) in
            m_fail s' = None /\ m_mode s' = MEnd).
  { intros s r now Hf Hn Hr. destruct r as [o|e].
    - destruct Hr as (Hm & [->| [->| ->]]); cbn [finish mode_of] in *.
      + apply closes_ok; auto.
      + apply closes_ok; auto.
      + cbn [app mrun fold_left]. rewrite (step_err0 tm rt pr s now Hf Hm Hn).
        apply (closes_ok tm rt pr (mset s MCloseF now)); cbn; auto.
    - destruct Hr as (Hm & He & Ho). destruct e; cbn [finish app mrun fold_left].
      + rewrite (step_done tm rt pr s Hf Hm He Ho). rewrite step_closes by (cbn; auto). cbn. auto.
      + rewrite (step_overflow tm rt pr s now Hf Hm He Ho Hn).
        apply (closes_ok tm rt pr (mset s MCloseF now)); cbn; auto. }
  assert (NE : spec_blocks c <> []).
  { unfold spec_blocks, split_blocks. destruct (length _); cbn [split_go]; [discriminate|].
    destruct (shorter _ _); discriminate. }
  destruct (n_oack (t_neg c)) as [|oa1 oar] eqn:Eoa.
  - (* no OACK: data from the start *)
    set (s0 := {| m_exp := lb; m_over := ob; m_out := PError 0; m_tsend := 0; m_count := 0; m_now := 0;
                  m_mode := MStart; m_fail := None |}).
    destruct (send_blocks (t_cfg c) 0%N (spec_blocks c) 0 (t_events c)) as [[[r n] e] l] eqn:E. cbn [snd].
    destruct (send_blocks_ok (t_cfg c) pr_nonneg v_cur (spec_blocks c) 0%N s0 0 (t_events c) r n e l)
      as (s1 & R1 & R2 & R3 & R4 & R5); auto.
    { repeat split; auto. }
    { cbn [wrap t_cfg]. rewrite Enb. reflexivity. }
    { cbn [wrap t_cfg]. rewrite Enb. reflexivity. }
    assert (Hr : match r with
            | inr e0 => m_mode s1 = MNext /\ m_exp s1 = [] /\
                       m_over s1 = match e0 with EDone => false | EOverflow => true end
            | inl o => m_mode s1 = mode_of o /\ (o = OTimeout \/ o = OPeerError \/ o = OInvalid)
            end).
    { destruct r as [o|e0]; [exact R5|]. destruct R5 as ([Q|Q] & Q2 & Q3); [auto|].
      (* s1 = s0 would mean that no block was sent, but there is always a block *)
      exfalso. rewrite Q in Q2. cbn [s0 m_exp] in Q2.
      destruct (spec_blocks c) as [|b rest]; [congruence|]. cbn [number_blocks] in Enb.
      change (next_block (t_wrap c) 0%N) with (Some 1%N) in Enb. cbv iota beta in Enb.
      destruct (number_blocks (t_wrap c) 1%N rest) as [l' o'] eqn:E'.
      injection Enb as E1 E2. rewrite <- E1 in Q2. discriminate Q2. }
    rewrite mrun_app. fold tm rt pr in R1. rewrite R1.
    destruct (Fin s1 r n R2 R3 Hr) as [F1 F2]. cbv zeta in F1, F2. rewrite F1, F2. reflexivity.
  - (* OACK first *)
    set (s0 := {| m_exp := POack (oa1 :: oar) :: lb; m_over := ob; m_out := PError 0; m_tsend := 0; m_count := 0;
                  m_now := 0; m_mode := MStart; m_fail := None |}).
    destruct (send_tries (t_cfg c) (S (retries (t_cfg c))) (POack (oa1 :: oar)) 0%N 0 (t_events c))
      as [[[o n1] e1] l1] eqn:E1. cbn [snd].
    assert (Hfs : mstep tm rt pr s0 (TSend 0 client (POack (oa1 :: oar))) = msent s0 (POack (oa1 :: oar)) lb 1).
    { apply (first_send (t_cfg c)); [repeat split; auto|reflexivity]. }
    destruct (send_tries_ok (t_cfg c) pr_nonneg v_cur (retries (t_cfg c)) s0 (POack (oa1 :: oar)) 0 (t_events c)
                o n1 e1 l1 _ eq_refl Hfs eq_refl eq_refl eq_refl eq_refl eq_refl ltac:(cbn; lia) E1)
      as (s1 & R1 & R2 & R3 & R4 & R5 & R6 & R7 & R8).
    cbn [msent m_exp m_over s0] in R3, R4.
    destruct o; cbn [snd].
    + destruct (send_blocks (t_cfg c) 0%N (spec_blocks c) n1 e1) as [[[r n] e] l] eqn:E. cbn [snd].
      destruct (send_blocks_ok (t_cfg c) pr_nonneg v_cur (spec_blocks c) 0%N s1 n1 e1 r n e l)
        as (s2 & Q1 & Q2 & Q3 & Q4 & Q5); auto.
      { repeat split; auto. }
      { cbn [wrap t_cfg]. rewrite Enb. exact R3. }
      { cbn [wrap t_cfg]. rewrite Enb. exact R4. }
      assert (Hr : match r with
            | inr e0 => m_mode s2 = MNext /\ m_exp s2 = [] /\
                       m_over s2 = match e0 with EDone => false | EOverflow => true end
            | inl o => m_mode s2 = mode_of o /\ (o = OTimeout \/ o = OPeerError \/ o = OInvalid)
            end).
      { destruct r as [o|e0]; [exact Q5|]. destruct Q5 as ([Q|Q] & Q6 & Q7); [auto|].
        rewrite Q in *. split; [exact R6|split; assumption]. }
      rewrite (mrun_app _ _ _ _ (l1 ++ l)), (mrun_app _ _ _ _ l1). fold tm rt pr in R1, Q1. rewrite R1, Q1.
      destruct (Fin s2 r n Q2 Q3 Hr) as [F1 F2]. cbv zeta in F1, F2. rewrite F1, F2. reflexivity.
    + rewrite mrun_app. fold tm rt pr in R1. rewrite R1.
      destruct (Fin s1 (inl OTimeout) n1 R2 R5 ltac:(split; auto)) as [F1 F2]. cbv zeta in F1, F2.
      rewrite F1, F2. reflexivity.
    + rewrite mrun_app. fold tm rt pr in R1. rewrite R1.
      destruct (Fin s1 (inl OPeerError) n1 R2 R5 ltac:(split; auto)) as [F1 F2]. cbv zeta in F1, F2.
      rewrite F1, F2. reflexivity.
    + rewrite mrun_app. fold tm rt pr in R1. rewrite R1.
      destruct (Fin s1 (inl OInvalid) n1 R2 R5 ltac:(split; auto)) as [F1 F2]. cbv zeta in F1, F2.
      rewrite F1, F2. reflexivity.
    + exfalso. apply R8. reflexivity.
Qed.
Print Assumptions monitor_accepts.
