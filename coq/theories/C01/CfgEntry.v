(* C01 (server configuration part): sx entry.  Input (case obs), both = (default_tmo max_tmo retries max_bs wrap),
   wrap = -1 for None.  Output (model failed_on_model failed_on_impl). *)
From Coq Require Import String.
From Coq Require Import List ZArith Bool.
From VF Require Import Base.Sx Tftp.ServerConfig.
Import ListNotations.

Definition de_cfg (x : sx) : option srv_cfg :=
  match x with
  | L [I dt; I mt; I rt; I mb; I w] =>
      Some {| sc_default_tmo := dt; sc_max_tmo := mt; sc_retries := rt; sc_max_bs := mb;
              sc_wrap := if (w <? 0)%Z then None else Some w |}
  | _ => None
  end.
Definition sx_cfg (c : srv_cfg) : sx :=
  L [I (sc_default_tmo c); I (sc_max_tmo c); I (sc_retries c); I (sc_max_bs c);
     I (match sc_wrap c with Some w => w | None => (-1)%Z end)].

Definition cfg_entry (x : sx) : sx :=
  match x with
  | L [cx; ox] =>
      match de_cfg cx, de_cfg ox with
      | Some c, Some o =>
          let m := normalise c in
          L [sx_cfg m; L (map sxS (holds_cfg c m)); L (map sxS (holds_cfg c o))]
      | _, _ => sxS "bad-case"
      end
  | _ => sxS "bad-input"
  end.
