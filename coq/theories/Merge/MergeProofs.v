(* Lemmas about the merge and the composite source (C13). *)
From Coq Require Import List NArith ZArith Bool Arith Lia.
From VF Require Import PyVal.Val PyVal.ValProofs Merge.Merge.
Import ListNotations.

Definition hashable_keys (d : dict) : Prop := Forall (fun k => hashable k = true) (keys d).

(* ------------------------------------------------------------------ map_items *)
Lemma map_items_keys f d2 : forall l m, map_items f d2 l = Ok m -> keys m = keys l.
Proof.
  unfold keys. induction l as [|[k x] r IH]; intros m E; cbn [map_items] in E.
  - injection E as <-. reflexivity.
  - destruct (lookup k d2) as [y|].
    + destruct (f x y) as [z|e]; [|discriminate]. cbn [bind] in E.
      destruct (map_items f d2 r) as [r'|e]; [|discriminate]. cbn [bind] in E. injection E as <-.
      cbn [map fst]. f_equal. now apply IH.
    + destruct (map_items f d2 r) as [r'|e]; [|discriminate]. cbn [bind] in E. injection E as <-.
      cbn [map fst]. f_equal. now apply IH.
Qed.

Lemma new_items_keys d1 d2 : keys (new_items d1 d2) = filter (fun k => negb (has k d1)) (keys d2).
Proof.
  unfold keys, new_items. induction d2 as [|[k y] r IH]; cbn [filter map fst]; [reflexivity|].
  destruct (negb (has k d1)); cbn [map fst]; now rewrite IH.
Qed.

(* per-item description of a successful first loop *)
Lemma map_items_lookup f d2 : forall l m, hashable_keys l -> map_items f d2 l = Ok m ->
  forall k, match lookup k l with
            | None => lookup k m = None
            | Some x => match lookup k d2 with
                        | None => lookup k m = Some x
                        | Some y => exists z, f x y = Ok z /\ lookup k m = Some z
                        end
            end.
Proof.
  unfold hashable_keys, keys, lookup.
  induction l as [|[k1 x1] r IH]; intros m Hh E k; cbn [map_items] in E.
  - injection E as <-. reflexivity.
  - cbn [map fst] in Hh. inversion Hh as [|? ? Hk1 Hr]; subst.
    cbn [assoc]. destruct (py_eq k k1) eqn:Ek.
    + unfold py_eq in Ek. apply veq_hashable_r in Ek; [|assumption]. subst k1.
      unfold lookup in E. destruct (assoc (py_eq k) d2) as [y|].
      * destruct (f x1 y) as [z|e] eqn:Ef; [|discriminate]. cbn [bind] in E.
        destruct (map_items f d2 r) as [r'|e]; [|discriminate]. cbn [bind] in E. injection E as <-.
        exists z. split; [reflexivity|]. cbn [assoc]. unfold py_eq. now rewrite veq_hashable_refl.
      * destruct (map_items f d2 r) as [r'|e]; [|discriminate]. cbn [bind] in E. injection E as <-.
        cbn [assoc]. unfold py_eq. now rewrite veq_hashable_refl.
    + assert (T : forall z r', map_items f d2 r = Ok r' ->
                 assoc (py_eq k) ((k1, z) :: r') = assoc (py_eq k) r').
      { intros z r' _. cbn [assoc]. now rewrite Ek. }
      destruct (lookup k1 d2) as [y|].
      * destruct (f x1 y) as [z|e]; [|discriminate]. cbn [bind] in E.
        destruct (map_items f d2 r) as [r'|e] eqn:Er; [|discriminate]. cbn [bind] in E. injection E as <-.
        rewrite (T z r' eq_refl). now apply IH.
      * destruct (map_items f d2 r) as [r'|e] eqn:Er; [|discriminate]. cbn [bind] in E. injection E as <-.
        rewrite (T x1 r' eq_refl). now apply IH.
Qed.

Lemma map_items_err f d2 : forall l e, map_items f d2 l = Err e ->
  exists k x y, In (k, x) l /\ lookup k d2 = Some y /\ f x y = Err e.
Proof.
  induction l as [|[k x] r IH]; intros e E; cbn [map_items] in E; [discriminate|].
  destruct (lookup k d2) as [y|] eqn:El.
  - destruct (f x y) as [z|e'] eqn:Ef.
    + cbn [bind] in E. destruct (map_items f d2 r) as [r'|e'] eqn:Er; cbn [bind] in E; [discriminate|].
      injection E as ->. destruct (IH _ eq_refl) as (k' & x' & y' & Hin & Hl & Hf).
      exists k', x', y'. split; [now right | auto].
    + cbn [bind] in E. injection E as ->. exists k, x, y. split; [now left | auto].
  - destruct (map_items f d2 r) as [r'|e'] eqn:Er; cbn [bind] in E; [discriminate|].
    injection E as ->. destruct (IH _ eq_refl) as (k' & x' & y' & Hin & Hl & Hf).
    exists k', x', y'. split; [now right | auto].
Qed.

Lemma map_items_ok_no_err f d2 : forall l m, map_items f d2 l = Ok m ->
  forall k x y, In (k, x) l -> lookup k d2 = Some y -> exists z, f x y = Ok z.
Proof.
  induction l as [|[k1 x1] r IH]; intros m E k x y Hin Hl; [destruct Hin|].
  cbn [map_items] in E. destruct Hin as [Eq|Hin].
  - injection Eq as -> ->. rewrite Hl in E. destruct (f x y) as [z|e]; [now exists z | discriminate].
  - destruct (lookup k1 d2) as [y1|].
    + destruct (f x1 y1) as [z|e]; [|discriminate]. cbn [bind] in E.
      destruct (map_items f d2 r) as [r'|e] eqn:Er; [|discriminate]. eapply IH; eauto.
    + destruct (map_items f d2 r) as [r'|e] eqn:Er; [|discriminate]. eapply IH; eauto.
Qed.

(* a loop that finds every item unchanged *)
Lemma map_items_fix f d2 : forall l,
  (forall k x, In (k, x) l -> match lookup k d2 with Some y => f x y = Ok x | None => True end) ->
  map_items f d2 l = Ok l.
Proof.
  induction l as [|[k x] r IH]; intros Hf; cbn [map_items]; [reflexivity|].
  pose proof (Hf k x (or_introl eq_refl)) as H0.
  rewrite IH by (intros k' x' Hin; apply Hf; now right).
  destruct (lookup k d2) as [y|]; [rewrite H0|]; reflexivity.
Qed.

Lemma lookup_app k d1 d2 : lookup k (d1 ++ d2) = match lookup k d1 with Some v => Some v | None => lookup k d2 end.
Proof.
  unfold lookup. induction d1 as [|[k' v] r IH]; cbn [app assoc]; [reflexivity|].
  destruct (py_eq k k'); [reflexivity | exact IH].
Qed.

(* the second loop keeps exactly the entries of tree2 under keys tree1 lacks *)
Lemma new_items_lookup d1 d2 k : hashable_keys d2 ->
  lookup k (new_items d1 d2) = if has k d1 then None else lookup k d2.
Proof.
  unfold hashable_keys, keys, new_items, lookup. intros Hh.
  induction d2 as [|[k2 y] r IH]; cbn [filter assoc map fst] in *.
  - now destruct (has k d1).
  - inversion Hh as [|? ? Hk2 Hr]; subst. specialize (IH Hr).
    destruct (py_eq k k2) eqn:Ek.
    + unfold py_eq in Ek. apply veq_hashable_r in Ek; [|assumption]. subst k2.
      destruct (has k d1) eqn:Eh; cbn [negb].
      * rewrite IH. reflexivity.
      * cbn [assoc]. unfold py_eq. now rewrite veq_hashable_refl.
    + destruct (negb (has k2 d1)); [cbn [assoc]; rewrite Ek|]; exact IH.
Qed.

(* ------------------------------------------------------------------ merge *)
Section MergeFacts.
  Variables ml ms : bool.

  Lemma combine_maps d1 d2 :
    combine ml ms (VDict d1) (VDict d2) = bind (merge ml ms d1 d2) (fun m => Ok (VDict m)).
  Proof. unfold merge. cbn [combine]. now destruct (map_items (combine ml ms) d2 d1). Qed.

  Lemma merge_keys a b m : merge ml ms a b = Ok m ->
    keys m = keys a ++ filter (fun k => negb (has k a)) (keys b).
  Proof.
    unfold merge. destruct (map_items (combine ml ms) b a) as [m'|e] eqn:E; cbn [bind]; [|discriminate].
    intros Em. injection Em as <-. unfold keys. rewrite map_app. f_equal.
    - now apply map_items_keys in E.
    - apply new_items_keys.
  Qed.

  Lemma merge_lookup a b m : hashable_keys a -> hashable_keys b -> merge ml ms a b = Ok m ->
    forall k, match lookup k a, lookup k b with
              | Some x, Some y => exists z, combine ml ms x y = Ok z /\ lookup k m = Some z
              | Some x, None => lookup k m = Some x
              | None, other => lookup k m = other
              end.
  Proof.
    intros Ha Hb. unfold merge. destruct (map_items (combine ml ms) b a) as [m'|e] eqn:E; cbn [bind]; [|discriminate].
    intros Em k. injection Em as <-. rewrite lookup_app.
    pose proof (map_items_lookup _ _ _ _ Ha E k) as L.
    destruct (lookup k a) as [x|] eqn:Eka.
    - destruct (lookup k b) as [y|].
      + destruct L as (z & Hz & Lz). exists z. now rewrite Lz.
      + now rewrite L.
    - rewrite L, new_items_lookup by assumption. unfold has. now rewrite Eka.
  Qed.

  Lemma merge_err a b e : merge ml ms a b = Err e ->
    exists k x y, In (k, x) a /\ lookup k b = Some y /\ combine ml ms x y = Err e.
  Proof.
    unfold merge. destruct (map_items (combine ml ms) b a) as [m'|e'] eqn:E; cbn [bind]; [discriminate|].
    intros Ee. injection Ee as ->. now apply map_items_err.
  Qed.

  Lemma merge_ok_all a b m : merge ml ms a b = Ok m ->
    forall k x y, In (k, x) a -> lookup k b = Some y -> exists z, combine ml ms x y = Ok z.
  Proof.
    unfold merge. destruct (map_items (combine ml ms) b a) as [m'|e'] eqn:E; cbn [bind]; [|discriminate].
    intros _. now apply (map_items_ok_no_err _ _ _ _ E).
  Qed.

  (* every exception out of the merge is a TypeError *)
  Lemma combine_err_type x : forall y e, combine ml ms x y = Err e -> e = TypeError.
  Proof.
    induction x as [| b | z | s | s | l IH | l IH | l IH | d IH | t] using val_ind'; intros y e E;
      try (cbn [combine] in E;
           repeat match type of E with (if ?c then _ else _) = _ => destruct c end; congruence).
    destruct y; try (cbn [combine] in E;
           repeat match type of E with (if ?c then _ else _) = _ => destruct c end; congruence).
    rename d0 into d2. cbn [combine] in E.
    destruct (map_items (combine ml ms) d2 d) as [m'|e'] eqn:Em; cbn [bind] in E; [discriminate|].
    injection E as ->. apply map_items_err in Em as (k & x & y & Hin & Hl & Hf).
    rewrite Forall_forall in IH. destruct (IH _ Hin) as [_ H2]. cbn [snd] in H2. eapply H2; eauto.
  Qed.

  Lemma merge_err_type a b e : merge ml ms a b = Err e -> e = TypeError.
  Proof. intros E. apply merge_err in E as (k & x & y & _ & _ & Hc). eapply combine_err_type; eauto. Qed.

  (* ---- the kind table for a key present in both trees ---- *)
  Inductive kind := KMap | KSet | KSeq | KOther.
  Definition kind_of (v : val) : kind :=
    match v with VDict _ => KMap | VSet _ => KSet | VList _ | VTuple _ => KSeq | _ => KOther end.
  Definition kind_eqb (a b : kind) : bool :=
    match a, b with KMap, KMap | KSet, KSet | KSeq, KSeq | KOther, KOther => true | _, _ => false end.
  (* the documented clash: different kinds, and a mapping or a flagged kind is involved *)
  Definition clash (x y : val) : bool :=
    negb (kind_eqb (kind_of x) (kind_of y)) &&
    (is_map x || is_map y || (ms && (is_set x || is_set y)) || (ml && (is_seq x || is_seq y))).

  Lemma combine_not_maps x y : is_map x && is_map y = false ->
    combine ml ms x y =
      if clash x y then Err TypeError
      else if ml && is_seq x then Ok (VList (add_unseen (seq_items x) (seq_items y)))
      else if ms && is_set x then Ok (VSet (set_union (seq_items x) (seq_items y)))
      else Ok y.
  Proof.
    unfold clash. destruct x, y; cbn; intros Hm; try discriminate; destruct ml, ms; reflexivity.
  Qed.

  (* ---- identities ---- *)
  Lemma merge_empty_r a : merge ml ms a [] = Ok a.
  Proof.
    unfold merge. rewrite map_items_fix; [cbn [bind new_items filter]; now rewrite app_nil_r|].
    intros k x _. reflexivity.
  Qed.
  Lemma merge_empty_l b : merge ml ms [] b = Ok b.
  Proof.
    unfold merge. cbn [map_items bind app]. f_equal. unfold new_items.
    induction b as [|[k y] r IH]; cbn [filter]; [reflexivity|].
    change (has (fst (k, y)) []) with false. cbn [negb]. now rewrite IH.
  Qed.

  (* ---- idempotence ---- *)
  Fixpoint notuple (v : val) : bool :=
    match v with
    | VTuple _ => false
    | VDict d => forallb (fun kv => notuple (snd kv)) d
    | _ => true
    end.

  Lemma add_unseen_self acc : forall over, (forall e, In e over -> mem e acc = true) -> add_unseen acc over = acc.
  Proof.
    induction over as [|e r IH]; intros Hm; cbn [add_unseen]; [reflexivity|].
    rewrite (Hm e) by now left. apply IH. intros e' He'. apply Hm. now right.
  Qed.
  Lemma mem_self l e : In e l -> py_eq e e = true -> mem e l = true.
  Proof. intros Hin He. unfold mem. apply existsb_exists. now exists e. Qed.
  Lemma set_union_self l : (forall e, In e l -> mem e l = true) -> set_union l l = l.
  Proof.
    intros Hm. unfold set_union. rewrite <- (app_nil_r l) at 3. f_equal.
    assert (G : forall l', (forall e, In e l' -> mem e l = true) -> filter (fun e => negb (mem e l)) l' = []).
    { induction l' as [|e r IH]; intros Hr; cbn [filter]; [reflexivity|].
      rewrite (Hr e) by now left. cbn [negb]. apply IH. intros e' He'. apply Hr. now right. }
    now apply G.
  Qed.

  Lemma new_items_self d : hashable_keys d -> NoDup (keys d) -> new_items d d = [].
  Proof.
    intros Hh Hn. unfold new_items.
    assert (G : forall l, (forall kv, In kv l -> In kv d) -> filter (fun kv => negb (has (fst kv) d)) l = []).
    { induction l as [|[k y] r IH]; intros Hsub; cbn [filter]; [reflexivity|].
      unfold has at 1. cbn [fst]. rewrite (lookup_in d Hh Hn k y) by (apply Hsub; now left).
      cbn [negb]. apply IH. intros kv Hkv. apply Hsub. now right. }
    now apply G.
  Qed.

  Lemma combine_idem v : wf v = true -> (ml = true -> notuple v = true) -> combine ml ms v v = Ok v.
  Proof.
    induction v as [| b | z | s | s | l IH | l IH | l IH | d IH | t] using val_ind'; intros W T;
      try (cbn; destruct ml, ms; reflexivity).
    - (* list *)
      cbn [combine is_seq is_set is_map seq_items]. rewrite !andb_true_r, !andb_false_r, !orb_false_r. cbn [orb].
      destruct ml; cbn [andb]; [|reflexivity].
      rewrite add_unseen_self; [reflexivity|]. intros e He. apply mem_self; [assumption|].
      apply veq_refl. cbn [wf] in W. rewrite forallb_forall in W. auto.
    - (* tuple *)
      cbn [combine is_seq is_set is_map seq_items]. rewrite !andb_true_r, !andb_false_r, !orb_false_r. cbn [orb].
      destruct ml; cbn [andb]; [|reflexivity]. specialize (T eq_refl). discriminate.
    - (* set *)
      cbn [combine is_seq is_set is_map seq_items]. rewrite !andb_true_r, !andb_false_r, !orb_false_r. cbn [orb andb].
      destruct ms; cbn [andb]; [|reflexivity].
      rewrite set_union_self; [reflexivity|]. intros e He. apply mem_self; [assumption|].
      apply veq_hashable_refl. cbn [wf] in W. apply andb_true_iff in W as [W1 _]. rewrite forallb_forall in W1. auto.
    - (* dict *)
      pose proof (wf_dict_parts _ W) as (Hh & Hn & Hw).
      cbn [combine]. rewrite map_items_fix.
      + cbn [bind]. rewrite (new_items_self d Hh Hn). now rewrite app_nil_r.
      + intros k x Hin. rewrite (lookup_in d Hh Hn k x Hin).
        rewrite Forall_forall in IH, Hw. destruct (IH _ Hin) as [_ H2]. cbn [snd] in H2. apply H2.
        * apply (Hw _ Hin).
        * intros Eml. specialize (T Eml). cbn [notuple] in T. rewrite forallb_forall in T. apply (T _ Hin).
  Qed.

  Lemma merge_idem d : wf (VDict d) = true -> (ml = true -> notuple (VDict d) = true) -> merge ml ms d d = Ok d.
  Proof.
    intros W T. pose proof (combine_idem (VDict d) W T) as E. rewrite combine_maps in E.
    destruct (merge ml ms d d) as [m|e]; cbn [bind] in E; [injection E as ->; reflexivity | discriminate].
  Qed.

  (* "first list, then the unseen elements" *)
  Fixpoint unseen (acc over : list val) : list val :=
    match over with
    | [] => []
    | e :: r => if mem e acc then unseen acc r else e :: unseen (acc ++ [e]) r
    end.
  Lemma add_unseen_spec : forall over acc, add_unseen acc over = acc ++ unseen acc over.
  Proof.
    induction over as [|e r IH]; intros acc; cbn [add_unseen unseen]; [now rewrite app_nil_r|].
    destruct (mem e acc); [apply IH|]. rewrite IH, <- app_assoc. reflexivity.
  Qed.
End MergeFacts.

(* ------------------------------------------------------------------ associativity of the key order *)
Lemma filter_filter' {A} (f g : A -> bool) l : filter f (filter g l) = filter (fun x => g x && f x) l.
Proof.
  induction l as [|x r IH]; cbn [filter]; [reflexivity|]. destruct (g x); cbn [andb filter]; [|exact IH].
  destruct (f x); now rewrite IH.
Qed.

Section AssocKeys.
  Variables ml ms : bool.

  Lemma has_merge a b m : hashable_keys a -> hashable_keys b -> merge ml ms a b = Ok m ->
    forall k, has k m = has k a || has k b.
  Proof.
    intros Ha Hb E k. pose proof (merge_lookup ml ms a b m Ha Hb E k) as L. unfold has.
    destruct (lookup k a) as [x|]; destruct (lookup k b) as [y|]; cbn [orb].
    - destruct L as (z & _ & ->). reflexivity.
    - now rewrite L.
    - now rewrite L.
    - now rewrite L.
  Qed.

  (* when both groupings succeed they list the keys in the same order: a's, then b's new ones, then c's new ones *)
  Lemma merge_assoc_keys a b c ab l bc r :
    hashable_keys a -> hashable_keys b -> hashable_keys c ->
    merge ml ms a b = Ok ab -> merge ml ms ab c = Ok l ->
    merge ml ms b c = Ok bc -> merge ml ms a bc = Ok r ->
    keys l = keys r /\
    keys l = keys a ++ filter (fun k => negb (has k a)) (keys b)
                    ++ filter (fun k => negb (has k a) && negb (has k b)) (keys c).
  Proof.
    intros Ha Hb Hc Eab El Ebc Er.
    rewrite (merge_keys _ _ _ _ _ El), (merge_keys _ _ _ _ _ Eab), (merge_keys _ _ _ _ _ Er), (merge_keys _ _ _ _ _ Ebc).
    rewrite filter_app, filter_filter', <- !app_assoc.
    assert (F : filter (fun k => negb (has k ab)) (keys c) = filter (fun k => negb (has k a) && negb (has k b)) (keys c)).
    { apply filter_ext. intros k. now rewrite (has_merge a b ab Ha Hb Eab k), negb_orb. }
    rewrite F. split; [|reflexivity]. do 2 f_equal. apply filter_ext. intros k. apply andb_comm.
  Qed.
End AssocKeys.

(* ------------------------------------------------------------------ composite *)
Section CompositeFacts.
  Variable H : str -> str.
  Variables ml ms : bool.
  Notation step := (chain_step H ml ms).
  Notation state := (chain_state H ml ms).
  Notation call_at := (call_at H ml ms).
  Notation chain_version := (chain_version H).
  Notation hashed := (hashed H).

  Lemma fold_step_err sys e : forall srcs, fold_left (step sys) srcs (Err e) = Err e.
  Proof. induction srcs as [|s r IH]; cbn [fold_left]; [reflexivity | exact IH]. Qed.

  Lemma flat_map_map_S {A} (f : nat -> list A) l : flat_map f (map S l) = flat_map (fun j => f (S j)) l.
  Proof. induction l as [|x r IH]; cbn [map flat_map]; [reflexivity | now rewrite IH]. Qed.

  Lemma step_unfold sys pd pv s :
    step sys (Ok (pd, pv)) s =
      match get_data s sys pd pv with
      | Err e => Err e
      | Ok (nd, nv) => match merge ml ms pd nd with
                       | Err e => Err e
                       | Ok m => Ok (m, aggregate_version H [pv; nv])
                       end
      end.
  Proof.
    unfold chain_step. cbn [bind fst snd]. destruct (get_data s sys pd pv) as [[nd nv]|e]; cbn [bind fst snd]; [|reflexivity].
    destruct (merge ml ms pd nd); reflexivity.
  Qed.
  Lemma state_cons_ok sys pd pv s r m av : step sys (Ok (pd, pv)) s = Ok (m, av) ->
    state sys pd pv (s :: r) = state sys m av r.
  Proof. intros E. unfold chain_state. cbn [fold_left]. now rewrite E. Qed.
  Lemma state_cons_err sys pd pv s r e : step sys (Ok (pd, pv)) s = Err e ->
    state sys pd pv (s :: r) = Err e.
  Proof. intros E. unfold chain_state. cbn [fold_left]. now rewrite E, fold_step_err. Qed.

  Lemma comp_get_fold : forall srcs i sys pd pv,
    comp_get H ml ms i srcs sys pd pv =
      (flat_map (call_at i sys pd pv srcs) (seq 0 (length srcs)), state sys pd pv srcs).
  Proof.
    induction srcs as [|s r IH]; intros i sys pd pv; [reflexivity|].
    cbn [length]. rewrite <- cons_seq, <- seq_shift. cbn [flat_map]. rewrite flat_map_map_S.
    assert (C0 : call_at i sys pd pv (s :: r) 0 = [(i, sys, pd, pv)]).
    { unfold call_at. cbn [firstn]. unfold chain_state. cbn [fold_left]. now rewrite Nat.add_0_r. }
    rewrite C0. cbn [comp_get]. pose proof (step_unfold sys pd pv s) as Es.
    destruct (get_data s sys pd pv) as [[nd nv]|e].
    - destruct (merge ml ms pd nd) as [m|e].
      + rewrite IH. rewrite (state_cons_ok _ _ _ _ r _ _ Es). f_equal. cbn [app]. f_equal.
        apply flat_map_ext. intros j. unfold call_at. cbn [firstn].
        rewrite (state_cons_ok _ _ _ _ (firstn j r) _ _ Es). now rewrite Nat.add_succ_r.
      + rewrite (state_cons_err _ _ _ _ r _ Es). f_equal. cbn [app]. f_equal.
        clear IH. induction (seq 0 (length r)) as [|j l IHl]; [reflexivity|].
        cbn [flat_map]. rewrite <- IHl, app_nil_r. unfold call_at. cbn [firstn].
        now rewrite (state_cons_err _ _ _ _ (firstn j r) _ Es).
    - rewrite (state_cons_err _ _ _ _ r _ Es). f_equal. cbn [app]. f_equal.
      clear IH. induction (seq 0 (length r)) as [|j l IHl]; [reflexivity|].
      cbn [flat_map]. rewrite <- IHl, app_nil_r. unfold call_at. cbn [firstn].
      now rewrite (state_cons_err _ _ _ _ (firstn j r) _ Es).
  Qed.

  (* ---- find_system ---- *)
  Lemma comp_find_none : forall srcs i k v log,
    comp_find i srcs k v = (log, Ok None) ->
    (forall s, In s srcs -> find_system s k v = Ok None) /\ log = seq i (length srcs).
  Proof.
    induction srcs as [|s r IH]; intros i k v log E; cbn [comp_find] in E.
    - injection E as <-. split; [intros s []|reflexivity].
    - destruct (find_system s k v) as [[x|]|e] eqn:Ef; [discriminate| |discriminate].
      destruct (comp_find (S i) r k v) as [log' out'] eqn:Er. injection E as <- ->.
      destruct (IH _ _ _ _ Er) as [H1 H2]. split.
      + intros s' [<-|Hin]; auto.
      + cbn [length seq]. now rewrite H2.
  Qed.

  (* an answer or an exception: it is the first source's that did not say None, nobody is asked after it *)
  Lemma comp_find_answer : forall srcs i k v log a,
    comp_find i srcs k v = (log, a) -> a <> Ok None ->
    exists j s, nth_error srcs j = Some s /\ find_system s k v = a /\
                (forall j' s', j' < j -> nth_error srcs j' = Some s' -> find_system s' k v = Ok None) /\
                log = seq i (S j).
  Proof.
    induction srcs as [|s r IH]; intros i k v log a E Ha; cbn [comp_find] in E; [injection E as _ <-; congruence|].
    destruct (find_system s k v) as [[x|]|e] eqn:Ef.
    - injection E as <- <-. exists 0, s. repeat split; auto. intros j' s' Hlt. lia.
    - destruct (comp_find (S i) r k v) as [log' out'] eqn:Er. injection E as <- ->.
      destruct (IH _ _ _ _ _ Er Ha) as (j & s0 & Hn & Hf & Hb & Hl).
      exists (S j), s0. repeat split; auto.
      + intros [|j'] s' Hlt Hn'; cbn [nth_error] in Hn'.
        * now injection Hn' as <-.
        * apply (Hb j' s'); [lia | assumption].
      + now rewrite Hl.
    - injection E as <- <-. exists 0, s. repeat split; auto. intros j' s' Hlt. lia.
  Qed.

  Lemma comp_find_spec : forall srcs i k v, comp_find i srcs k v = find_spec i srcs k v.
  Proof.
    unfold find_spec. induction srcs as [|s r IH]; intros i k v; cbn [comp_find map first_some length]; [reflexivity|].
    destruct (find_system s k v) as [[x|]|e]; [reflexivity| |reflexivity].
    rewrite IH. destruct (first_some (map (fun s0 => find_system s0 k v) r)) as [[j x]|]; reflexivity.
  Qed.

  (* ---- versions ---- *)
  Variable hlen : nat.
  Hypothesis H_len : forall s, length (H s) = hlen.

  Lemma app_bar_inj (a a' b b' : str) : length a = length a' -> a ++ BAR :: b = a' ++ BAR :: b' -> a = a' /\ b = b'.
  Proof.
    revert a'. induction a as [|x a IH]; intros [|x' a'] Hl E; cbn in Hl; try discriminate.
    - cbn in E. injection E as ->. auto.
    - cbn in E. injection E as -> E. injection Hl as Hl. destruct (IH _ Hl E) as [-> ->]. auto.
  Qed.

  Lemma chain_version_inj : forall nvs nvs' pv pv',
    length nvs = length nvs' -> length pv = length pv' ->
    (forall a b, In a (hashed pv nvs ++ hashed pv' nvs') -> In b (hashed pv nvs ++ hashed pv' nvs') -> H a = H b -> a = b) ->
    chain_version pv nvs = chain_version pv' nvs' -> pv = pv' /\ nvs = nvs'.
  Proof.
    induction nvs as [|nv r IH]; intros [|nv' r'] pv pv' Hl Hp Hinj E; cbn [length] in Hl; try discriminate.
    - cbn in E. auto.
    - unfold chain_version in E. cbn [fold_left] in E. cbn [hashed] in Hinj.
      assert (G : aggregate_version H [pv; nv] = aggregate_version H [pv'; nv'] /\ r = r').
      { apply IH.
        - now injection Hl.
        - unfold aggregate_version. now rewrite !H_len.
        - intros a b Ha Hb. apply Hinj.
          + apply in_app_iff in Ha as [Ha|Ha]; apply in_app_iff; [left; now right | right; now right].
          + apply in_app_iff in Hb as [Hb|Hb]; apply in_app_iff; [left; now right | right; now right].
        - exact E. }
      destruct G as [E1 E2]. unfold aggregate_version in E1. apply Hinj in E1.
      + cbn [join_bar] in E1. apply app_bar_inj in E1 as [-> ->]; [|assumption]. subst. auto.
      + apply in_app_iff. left. now left.
      + apply in_app_iff. right. now left.
  Qed.

  Lemma chain_const_version : forall outs sys pd pv d v,
    state sys pd pv (map (fun o => const_source (Ok o) (Ok None)) outs) = Ok (d, v) ->
    v = chain_version pv (map snd outs).
  Proof.
    induction outs as [|[nd nv] r IH]; intros sys pd pv d v E.
    - cbn in E. now injection E as <- <-.
    - unfold chain_state in E. cbn [map fold_left] in E. unfold chain_step at 2 in E. cbn [bind fst snd const_source get_data] in E.
      destruct (merge ml ms pd nd) as [m|e]; cbn [bind] in E.
      + apply IH in E. exact E.
      + now rewrite fold_step_err in E.
  Qed.

  Lemma chain_const_data : forall outs sys pd pv d v,
    state sys pd pv (map (fun o => const_source (Ok o) (Ok None)) outs) = Ok (d, v) ->
    fold_left (fun acc nd => bind acc (fun a => merge ml ms a nd)) (map fst outs) (Ok pd) = Ok d.
  Proof.
    induction outs as [|[nd nv] r IH]; intros sys pd pv d v E.
    - cbn in E. now injection E as <- <-.
    - unfold chain_state in E. cbn [map fold_left] in E. unfold chain_step at 2 in E. cbn [bind fst snd const_source get_data] in E.
      cbn [map fst fold_left bind].
      destruct (merge ml ms pd nd) as [m|e]; cbn [bind] in E.
      + apply IH in E. exact E.
      + now rewrite fold_step_err in E.
  Qed.
End CompositeFacts.
