(* The monitor (specification of a correct transfer) accepts every trace of the
   transfer model, for every script of incoming datagrams. *)
From Coq Require Import String.
From Coq Require Import List NArith ZArith Bool Lia.
From VF Require Import Base.Sx Tftp.Readers Tftp.ReadersProofs Tftp.Codec Tftp.Transfer Tftp.Run Tftp.Monitor.
Import ListNotations.
Open Scope Z_scope.

Definition mrun (tm : Z) (rt : nat) (s : mst) (l : list tr) : mst := fold_left (mstep tm rt) l s.

Lemma mrun_app tm rt s l1 l2 : mrun tm rt s (l1 ++ l2) = mrun tm rt (mrun tm rt s l1) l2.
Proof. unfold mrun. apply fold_left_app. Qed.

Lemma pkt_eqb_refl p : pkt_eqb p p = true.
Proof.
  destruct p as [n d|o|c]; cbn [pkt_eqb].
  - rewrite N.eqb_refl. cbn. induction d as [|x d IH]; cbn; [reflexivity|]. now rewrite N.eqb_refl.
  - induction o as [|[k x] o IH]; [reflexivity|].
    assert (R: forall s, str_eqb s s = true).
    { induction s as [|y s IHs]; cbn; [reflexivity|]. now rewrite N.eqb_refl. }
    rewrite !R. cbn. exact IH.
  - apply N.eqb_refl.
Qed.

Ltac inv H := inversion H; subst; clear H.

Section Await.
  Variable tm : Z.
  Variable rt : nat.
  Hypothesis tm_pos : 0 < tm.

  (* while a packet is outstanding: the monitor follows `await` *)
  Lemma await_ok : forall evs s now,
    m_mode s = MWait -> m_fail s = None -> m_now s = now ->
    m_tsend s <= now < m_tsend s + tm ->
    forall o n' e' l, await current (want (m_out s)) now (m_tsend s + tm) evs = (o, n', e', l) ->
    o <> OInternal /\
    mrun tm rt s l =
      mset s (match o with
              | OAcked => MNext
              | OTimeout => if (m_count s <? S rt)%nat then MResend else MCloseF
              | OPeerError => MSilent
              | OInvalid => MErr0
              | OInternal => MEnd
              end) n' /\
    (match o with OTimeout => n' = m_tsend s + tm | _ => now <= n' < m_tsend s + tm end).
  Proof.
    induction evs as [|[t a d] evs IH]; intros s now Wm Wf Wn Hnow o n' e' l H.
    - cbn [await] in H. unfold sock_timeout in H.
      destruct (Z.ltb_spec 0 (m_tsend s + tm - now)) as [_|Hc]; [|lia].
      replace (now + (m_tsend s + tm - now)) with (m_tsend s + tm) in H by lia.
      inv H. split; [discriminate|]. split; [|reflexivity].
      cbn [mrun fold_left]. unfold mstep. rewrite Wf, Wm.
      rewrite Z.eqb_refl. cbn [negb]. destruct (m_count s <? S rt)%nat; reflexivity.
    - cbn [await] in H. unfold sock_timeout in H.
      destruct (Z.ltb_spec 0 (m_tsend s + tm - now)) as [_|Hc]; [|lia].
      replace (now + (m_tsend s + tm - now)) with (m_tsend s + tm) in H by lia.
      destruct (Z.ltb_spec t (m_tsend s + tm)) as [Hlt|Hge].
      + (* delivered *)
        assert (Hd : (t <? m_tsend s + tm) = true) by (apply Z.ltb_lt; lia).
        destruct (N.eqb_spec a client) as [Ha|Ha]; cbn [negb] in H.
        * (* from the client *)
          destruct (classify current d) eqn:Ec.
          -- destruct (N.eqb_spec n (want (m_out s))) as [Hn|Hn].
             ++ inv H. split; [discriminate|]. split; [|lia].
                cbn [mrun fold_left]. unfold mstep. rewrite Wf, Wm, Hd. cbn [negb].
                rewrite N.eqb_refl. cbn [negb]. rewrite Ec, N.eqb_refl. reflexivity.
             ++ destruct (await current (want (m_out s)) (Z.max now t) (m_tsend s + tm) evs) as [[[o2 n2] e2] l2] eqn:E2.
                inv H.
                set (s1 := mset s MWait (Z.max (m_now s) t)).
                destruct (IH s1 (Z.max (m_now s) t) eq_refl Wf eq_refl ltac:(cbn; lia) _ _ _ _ E2) as (I1 & I2 & I3).
                split; [exact I1|]. split.
                ** cbn [mrun fold_left]. unfold mstep at 2. rewrite Wf, Wm, Hd. cbn [negb].
                   rewrite N.eqb_refl. cbn [negb]. rewrite Ec.
                   destruct (N.eqb_spec n (want (m_out s))); [contradiction|].
                   fold s1. fold (mrun tm rt s1 l2). rewrite I2. reflexivity.
                ** cbn [s1 mset m_tsend] in I3. destruct o; lia.
          -- inv H. split; [discriminate|]. split; [|lia].
             cbn [mrun fold_left]. unfold mstep. rewrite Wf, Wm, Hd. cbn [negb].
             rewrite N.eqb_refl. cbn [negb]. rewrite Ec. reflexivity.
          -- inv H. split; [discriminate|]. split; [|lia].
             cbn [mrun fold_left]. unfold mstep. rewrite Wf, Wm, Hd. cbn [negb].
             rewrite N.eqb_refl. cbn [negb]. rewrite Ec. reflexivity.
          -- (* CInternal cannot come out of the current variant *)
             exfalso. unfold classify in Ec. cbn [current errcode_raises andb] in Ec.
             repeat match type of Ec with
                    | context [match ?x with _ => _ end] => destruct x; try discriminate
                    end.
        * (* foreign sender: ERROR 5, keep waiting *)
          destruct (await current (want (m_out s)) (Z.max now t) (m_tsend s + tm) evs) as [[[o2 n2] e2] l2] eqn:E2.
          inv H.
          set (s1 := mset s MWait (Z.max (m_now s) t)).
          destruct (IH s1 (Z.max (m_now s) t) eq_refl Wf eq_refl ltac:(cbn; lia) _ _ _ _ E2) as (I1 & I2 & I3).
          split; [exact I1|]. split.
          -- cbn [mrun fold_left]. unfold mstep at 3. rewrite Wf, Wm, Hd. cbn [negb].
             destruct (N.eqb_spec a client); [contradiction|]. cbn [negb].
             unfold mstep at 2. cbn [mset m_fail m_mode m_now]. rewrite Wf.
             rewrite N.eqb_refl, Z.eqb_refl. cbn [pkt_eqb]. rewrite N.eqb_refl. cbn [andb].
             replace (mset (mset s (MForeign a) (Z.max (m_now s) t)) MWait (Z.max (m_now s) t)) with s1 by reflexivity.
             fold (mrun tm rt s1 l2). rewrite I2. reflexivity.
          -- cbn [s1 mset m_tsend] in I3. destruct o; lia.
      + (* the datagram is too late: time-out at the deadline *)
        inv H. split; [discriminate|]. split; [|reflexivity].
        cbn [mrun fold_left]. unfold mstep. rewrite Wf, Wm.
        rewrite Z.eqb_refl. cbn [negb]. destruct (m_count s <? S rt)%nat; reflexivity.
  Qed.
End Await.

Definition mode_of (o : outcome) : mmode :=
  match o with
  | OAcked => MNext | OTimeout => MCloseF | OPeerError => MSilent | OInvalid => MErr0 | OInternal => MEnd
  end.

Section Tries.
  Variable c : cfg.
  Hypothesis tm_pos : 0 < tmo c.
  Hypothesis v_cur : v c = current.
  Let tm := tmo c.
  Let rt := retries c.

  (* [s1] is the monitor state right after the packet has been sent *)
  Lemma send_tries_ok : forall k s p now evs o n' e' l s1,
    mstep tm rt s (TSend now client p) = s1 ->
    m_mode s1 = MWait -> m_fail s1 = None -> m_out s1 = p -> m_tsend s1 = now -> m_now s1 = now ->
    (m_count s1 + k = S rt)%nat ->
    send_tries c (S k) p (want p) now evs = (o, n', e', l) ->
    exists s', mrun tm rt s l = s' /\ m_fail s' = None /\ m_exp s' = m_exp s1 /\ m_over s' = m_over s1 /\
               m_now s' = n' /\ m_mode s' = mode_of o /\ now <= n' /\ o <> OInternal.
  Proof.
    induction k as [|k IH]; intros s p now evs o n' e' l s1 Hs1 Wm Wf Wo Wt Wn Hc H.
    - cbn [send_tries] in H. rewrite v_cur in H.
      destruct (await current (want p) now (now + tmo c) evs) as [[[o1 n1] e1] l1] eqn:E1.
      rewrite <- Wo, <- Wt in E1 at 1. rewrite <- Wt in E1.
      destruct (await_ok tm rt tm_pos evs s1 now Wm Wf Wn ltac:(subst tm; lia) _ _ _ _ E1) as (I1 & I2 & I3).
      assert (Hcnt : (m_count s1 <? S rt)%nat = false) by (apply Nat.ltb_ge; lia).
      rewrite Hcnt in I2.
      destruct o1; cbn [retry_fallthrough current] in H; inv H;
        (eexists; split; [cbn [mrun fold_left]; fold (mrun tm rt (mstep tm rt s (TSend (m_tsend (mstep tm rt s (TSend (m_now (mstep tm rt s (TSend now client (m_out s1)))) client (m_out s1)))) client (m_out s1)))); reflexivity|]) || idtac.
      all: try (exfalso; apply I1; reflexivity).
      all: admit_placeholder.
  Abort.
End Tries.
