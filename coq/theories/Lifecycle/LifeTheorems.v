(* The lifecycle theorems for both servers: instances of PoolProofs / SeqProofs, with the remaining
   finite facts discharged by exhaustive computation over the finite globals. *)
From Coq Require Import List Arith Bool Lia.
From VF Require Import Lifecycle.Pool Lifecycle.PoolProofs Lifecycle.Fin Lifecycle.PoolCheck
  Lifecycle.Seq Lifecycle.SeqProofs Lifecycle.TftpLife Lifecycle.TftpLifeProofs
  Lifecycle.HttpLife Lifecycle.HttpLifeProofs Lifecycle.LifeSeq.
Import ListNotations.

Definition all_sop (f : sop -> bool) : bool := f SStart && f SStop && f SRequest && f STick && f SStopBusy && f SStartFail && f SStartThreadFail && f SStopOpenConn.
Lemma all_sop_ok f : all_sop f = true -> forall x, f x = true.
Proof. unfold all_sop. intros H x. repeat (apply andb_prop in H; destruct H as [H ?]). destruct x; assumption. Qed.

Fixpoint lnat_eqb (a b : list nat) : bool :=
  match a, b with [], [] => true | x :: a', y :: b' => Nat.eqb x y && lnat_eqb a' b' | _, _ => false end.
Lemma lnat_eqb_eq a : forall b, lnat_eqb a b = true -> a = b.
Proof.
  induction a as [|x a IH]; intros [|y b] H; cbn in H; try discriminate; auto.
  apply andb_prop in H. destruct H as [H1 H2]. apply Nat.eqb_eq in H1. f_equal; auto.
Qed.

(* ======================= TFTP ======================= *)
Notation tst := (st glob cpc op).
Notation tstep := (step glob cpc op lock (cstep cur) (mstep cur)).
Notation trun := (run glob cpc op lock (cstep cur) (mstep cur)).
Notation TInv := (Inv glob cpc op lock gok lok act actb).
Definition tpool : list (list op) -> tst := pool glob cpc op init Idle.

Definition tO1' := O1_of _ _ _ _ _ _ _ _ _ _ _ _ all_glob_ok all_cpc_ok all_op_ok tO1.
Definition tO2' := O2_of _ _ _ _ _ _ _ _ _ _ all_glob_ok all_cpc_ok all_op_ok tO2.
Definition tO3' := O3_of _ _ _ _ _ _ _ _ _ all_glob_ok all_cpc_ok tO3.
Definition tD1' := D1_of _ _ _ _ _ _ _ _ _ _ _ _ all_glob_ok all_cpc_ok all_op_ok tD1.
Definition tD2' := D2_of _ _ _ _ _ _ _ _ _ _ all_glob_ok all_cpc_ok all_op_ok tD2.
Definition tF1' := F1_of _ _ _ _ _ _ _ all_glob_ok all_cpc_ok tF1.
Definition tF2' := F2_of _ _ _ _ _ _ all_glob_ok tF2.

Theorem tftp_concurrent ops sch :
  let s := trun (tpool ops) sch in
  TInv s /\
  (all_done glob cpc op is_idle s = false -> exists ch, tstep s ch <> None) /\
  (all_done glob cpc op is_idle s = true -> quiet (g s) = true).
Proof.
  exact (pool_concurrent glob cpc op lock (cstep cur) (mstep cur) is_idle gok lok act actb
           tO1' tO2' tO3' tD1' tD2' quiet tF1' tF2' init Idle eq_refl eq_refl eq_refl eq_refl eq_refl ops sch).
Qed.

Lemma tinv_err s : TInv s -> err (g s) = false.
Proof.
  intros [Hg _ _ _]. unfold gok in Hg. destruct (err (g s)); [discriminate|reflexivity].
Qed.

(* a stop() that returns while every other caller is between calls leaves the server stopped *)
Definition in_stop (p : cpc) : bool :=
  match p with Sp_chk | Sp_rel1 | Sp_join | Sp_clear | Sp_acq2 | Sp_reset | Sp_rel2 => true | _ => false end.

Definition chkSR : bool :=
  all_glob (fun gl => all_bool (fun me => all_cpc (fun p => all_opt all_op (fun o =>
    implb (gok gl && lok gl me p && in_stop p)
      match cstep cur gl me p o with
      | Some (g', p', _) => implb (is_idle p' && quiet g') (Stopped g')
      | None => true
      end)))).
Lemma chkSR_true : chkSR = true.
Proof. vm_compute. reflexivity. Qed.

Theorem tftp_stop_releases ops sch i c s' :
  let s := trun (tpool ops) sch in
  nth_error (callers s) i = Some c -> in_stop (pc c) = true ->
  tstep s (C i) = Some s' ->
  (forall c', In c' (callers s') -> is_idle (pc c') = true) ->
  Stopped (g s') = true.
Proof.
  intros s Hi Hp Hs Hid.
  destruct (tftp_concurrent ops sch) as (HI & _ & _). fold s in HI.
  assert (HI' : TInv s') by (eapply (inv_step glob cpc op lock (cstep cur) (mstep cur) gok lok act actb tO1' tO2' tO3'); eauto).
  pose proof (idle_quiet glob cpc op lock is_idle gok lok act actb quiet tF1' tF2' s' HI' Hid) as Hq.
  cbn [Pool.step] in Hs. rewrite Hi in Hs.
  destruct (cstep cur (g s) (isme glob cpc op lock s i) (pc c) (hd_error (todo c))) as [[[g' p'] b]|] eqn:E; [|discriminate].
  injection Hs as <-. cbn [g callers] in *.
  pose proof (all_opt_ok _ all_op_ok _ (all_cpc_ok _ (all_bool_ok _ (all_glob_ok _ chkSR_true (g s)) (isme glob cpc op lock s i)) (pc c)) (hd_error (todo c))) as K.
  cbn beta in K. destruct HI as [Hg _ Hl _]. rewrite Hg, (Hl _ _ Hi), Hp, E in K. cbn in K.
  rewrite Hq in K.
  assert (Hp' : is_idle p' = true).
  { apply (Hid {| pc := p'; todo := if b then tl (todo c) else todo c |}).
    eapply nth_error_In. eapply nth_error_upd_same. exact Hi. }
  rewrite Hp' in K. exact K.
Qed.

(* sequential histories: start/stop idempotent, restartable, requests answered iff started *)
Definition tsinv (gl : glob) (r : bool) : bool :=
  gok gl && negb (lk_eqb (lock gl) LCaller) && negb (shreq gl) && (if r then Running gl else Stopped gl).

Definition chkTSeq : bool :=
  all_glob (fun gl => all_bool (fun r => all_sop (fun o =>
    implb (tsinv gl r)
      match tseq_step cur gl o with
      | Some (g', ob) => lnat_eqb ob (spec_obs r o) && tsinv g' (spec_next r o)
      | None => false
      end))).
Lemma chkTSeq_true : chkTSeq = true.
Proof. vm_compute. reflexivity. Qed.

Lemma tseq_one gl r o : tsinv gl r = true ->
  exists g', tseq_step cur gl o = Some (g', spec_obs r o) /\ tsinv g' (spec_next r o) = true.
Proof.
  intros Hi.
  pose proof (all_sop_ok _ (all_bool_ok _ (all_glob_ok _ chkTSeq_true gl) r) o) as K. cbn beta in K.
  rewrite Hi in K. cbn [implb] in K.
  destruct (tseq_step cur gl o) as [[g' ob]|]; [|discriminate].
  apply andb_prop in K. destruct K as [K1 K2]. apply lnat_eqb_eq in K1. subst ob. eauto.
Qed.

Theorem tftp_idempotent h : tseq cur init h = spec_run false h.
Proof.
  apply (seq_follows_spec glob cpc op lock (cstep cur) (mstep cur) is_idle Idle Start Stop StartF StartT tview (tbusy cur) talive tserving tsinv);
    [|reflexivity].
  exact tseq_one.
Qed.

Lemma stopped_tsinv : all_glob (fun x => implb (gok x && Stopped x) (tsinv x false)) = true.
Proof. vm_compute. reflexivity. Qed.

(* from ANY stopped state reached by the pool, a start() run alone brings the server up again *)
Theorem tftp_restart gl : gok gl = true -> Stopped gl = true ->
  exists g', tseq_step cur gl SStart = Some (g', spec_obs false SStart) /\ Running g' = true.
Proof.
  intros Hg Hs.
  assert (Hi : tsinv gl false = true).
  { pose proof (all_glob_ok _ stopped_tsinv gl) as K1. cbn beta in K1. rewrite Hg, Hs in K1. exact K1. }
  destruct (tseq_one gl false SStart Hi) as (g' & E & K2).
  exists g'. split; [exact E|]. unfold tsinv in K2. change (spec_next false SStart) with true in K2.
  apply andb_prop in K2. tauto.
Qed.

(* ======================= HTTP ======================= *)
Notation hst := (st hglob hpc hop).
Notation hstep := (step hglob hpc hop hlock (hcstep true true) hmstep).
Notation hrun := (run hglob hpc hop hlock (hcstep true true) hmstep).
Notation HInv := (Inv hglob hpc hop hlock hgok hlok hact hactb).
Definition hpool : list (list hop) -> hst := pool hglob hpc hop hinit HIdle.

Definition hO1' := O1_of _ _ _ _ _ _ _ _ _ _ _ _ all_hglob_ok all_hpc_ok all_hop_ok hO1.
Definition hO2' := O2_of _ _ _ _ _ _ _ _ _ _ all_hglob_ok all_hpc_ok all_hop_ok hO2.
Definition hO3' := O3_of _ _ _ _ _ _ _ _ _ all_hglob_ok all_hpc_ok hO3.
Definition hD1' := D1_of _ _ _ _ _ _ _ _ _ _ _ _ all_hglob_ok all_hpc_ok all_hop_ok hD1.
Definition hD2' := D2_of _ _ _ _ _ _ _ _ _ _ all_hglob_ok all_hpc_ok all_hop_ok hD2.
Definition hF1' := F1_of _ _ _ _ _ _ _ all_hglob_ok all_hpc_ok hF1.
Definition hF2' := F2_of _ _ _ _ _ _ all_hglob_ok hF2.

Theorem http_concurrent ops sch :
  let s := hrun (hpool ops) sch in
  HInv s /\
  (all_done hglob hpc hop his_idle s = false -> exists ch, hstep s ch <> None) /\
  (all_done hglob hpc hop his_idle s = true -> hquiet (g s) = true).
Proof.
  exact (pool_concurrent hglob hpc hop hlock (hcstep true true) hmstep his_idle hgok hlok hact hactb
           hO1' hO2' hO3' hD1' hD2' hquiet hF1' hF2' hinit HIdle eq_refl eq_refl eq_refl eq_refl eq_refl ops sch).
Qed.

Lemma hinv_err s : HInv s -> herr (g s) = false.
Proof.
  intros [Hg _ _ _]. unfold hgok in Hg. destruct (herr (g s)); [discriminate|reflexivity].
Qed.

Definition hin_stop (p : hpc) : bool :=
  match p with P_chk | P_wait | P_close | P_join | P_clear | P_reset | P_rel => true | _ => false end.

Definition chkHSR : bool :=
  all_hglob (fun gl => all_bool (fun me => all_hpc (fun p => all_opt all_hop (fun o =>
    implb (hgok gl && hlok gl me p && hin_stop p)
      match hcstep true true gl me p o with
      | Some (g', p', _) => implb (his_idle p' && hquiet g') (HStopped g')
      | None => true
      end)))).
Lemma chkHSR_true : chkHSR = true.
Proof. vm_compute. reflexivity. Qed.

Theorem http_stop_releases ops sch i c s' :
  let s := hrun (hpool ops) sch in
  nth_error (callers s) i = Some c -> hin_stop (pc c) = true ->
  hstep s (C i) = Some s' ->
  (forall c', In c' (callers s') -> his_idle (pc c') = true) ->
  HStopped (g s') = true.
Proof.
  intros s Hi Hp Hs Hid.
  destruct (http_concurrent ops sch) as (HI & _ & _). fold s in HI.
  assert (HI' : HInv s') by (eapply (inv_step hglob hpc hop hlock (hcstep true true) hmstep hgok hlok hact hactb hO1' hO2' hO3'); eauto).
  pose proof (idle_quiet hglob hpc hop hlock his_idle hgok hlok hact hactb hquiet hF1' hF2' s' HI' Hid) as Hq.
  cbn [Pool.step] in Hs. rewrite Hi in Hs.
  destruct (hcstep true true (g s) (isme hglob hpc hop hlock s i) (pc c) (hd_error (todo c))) as [[[g' p'] b]|] eqn:E; [|discriminate].
  injection Hs as <-. cbn [g callers] in *.
  pose proof (all_opt_ok _ all_hop_ok _ (all_hpc_ok _ (all_bool_ok _ (all_hglob_ok _ chkHSR_true (g s)) (isme hglob hpc hop hlock s i)) (pc c)) (hd_error (todo c))) as K.
  cbn beta in K. destruct HI as [Hg _ Hl _]. rewrite Hg, (Hl _ _ Hi), Hp, E in K. cbn in K.
  rewrite Hq in K.
  assert (Hp' : his_idle p' = true).
  { apply (Hid {| pc := p'; todo := if b then tl (todo c) else todo c |}).
    eapply nth_error_In. eapply nth_error_upd_same. exact Hi. }
  rewrite Hp' in K. exact K.
Qed.

Definition hsinv (gl : hglob) (r : bool) : bool :=
  hgok gl && negb (lk_eqb (hlock gl) LCaller) && (if r then HRunning gl else HStopped gl).

Definition chkHSeq : bool :=
  all_hglob (fun gl => all_bool (fun r => all_sop (fun o =>
    implb (hsinv gl r)
      match hseq_step true true gl o with
      | Some (g', ob) => lnat_eqb ob (spec_obs r o) && hsinv g' (spec_next r o)
      | None => false
      end))).
Lemma chkHSeq_true : chkHSeq = true.
Proof. vm_compute. reflexivity. Qed.

Lemma hseq_one gl r o : hsinv gl r = true ->
  exists g', hseq_step true true gl o = Some (g', spec_obs r o) /\ hsinv g' (spec_next r o) = true.
Proof.
  intros Hi.
  pose proof (all_sop_ok _ (all_bool_ok _ (all_hglob_ok _ chkHSeq_true gl) r) o) as K. cbn beta in K.
  rewrite Hi in K. cbn [implb] in K.
  destruct (hseq_step true true gl o) as [[g' ob]|]; [|discriminate].
  apply andb_prop in K. destruct K as [K1 K2]. apply lnat_eqb_eq in K1. subst ob. eauto.
Qed.

Theorem http_idempotent h : hseq true true hinit h = spec_run false h.
Proof.
  apply (seq_follows_spec hglob hpc hop hlock (hcstep true true) hmstep his_idle HIdle HStart HStop HStartF HStartT hview (fun g => g) (fun g => hmt_live (hmt g)) hserving hsinv);
    [|reflexivity].
  exact hseq_one.
Qed.

Lemma stopped_hsinv : all_hglob (fun x => implb (hgok x && HStopped x) (hsinv x false)) = true.
Proof. vm_compute. reflexivity. Qed.

Theorem http_restart gl : hgok gl = true -> HStopped gl = true ->
  exists g', hseq_step true true gl SStart = Some (g', spec_obs false SStart) /\ HRunning g' = true.
Proof.
  intros Hg Hs.
  assert (Hi : hsinv gl false = true).
  { pose proof (all_hglob_ok _ stopped_hsinv gl) as K1. cbn beta in K1. rewrite Hg, Hs in K1. exact K1. }
  destruct (hseq_one gl false SStart Hi) as (g' & E & K2).
  exists g'. split; [exact E|]. unfold hsinv in K2. change (spec_next false SStart) with true in K2.
  apply andb_prop in K2. tauto.
Qed.

(* ======================= readable forms ======================= *)
Theorem tftp_concurrent_lifecycle (ops : list (list op)) (sch : list choice) :
  let s := trun (tpool ops) sch in
  err (g s) = false /\
  (all_done glob cpc op is_idle s = false -> exists ch, tstep s ch <> None) /\
  (all_done glob cpc op is_idle s = true -> Running (g s) = true \/ Stopped (g s) = true).
Proof.
  intros s. destruct (tftp_concurrent ops sch) as (HI & HL & HQ). fold s in HI, HL, HQ.
  split; [apply tinv_err; exact HI|]. split; [exact HL|].
  intros Hd. specialize (HQ Hd). unfold quiet in HQ. apply andb_prop in HQ. destruct HQ as [HQ _].
  apply orb_prop in HQ. exact HQ.
Qed.

Theorem http_concurrent_lifecycle (ops : list (list hop)) (sch : list choice) :
  let s := hrun (hpool ops) sch in
  herr (g s) = false /\
  (all_done hglob hpc hop his_idle s = false -> exists ch, hstep s ch <> None) /\
  (all_done hglob hpc hop his_idle s = true -> HRunning (g s) = true \/ HStopped (g s) = true).
Proof.
  intros s. destruct (http_concurrent ops sch) as (HI & HL & HQ). fold s in HI, HL, HQ.
  split; [apply hinv_err; exact HI|]. split; [exact HL|].
  intros Hd. specialize (HQ Hd). unfold hquiet in HQ. apply andb_prop in HQ. destruct HQ as [HQ _].
  apply orb_prop in HQ. exact HQ.
Qed.
