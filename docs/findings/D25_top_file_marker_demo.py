import os, sys, tempfile
sys.path.insert(0, sys.argv[1] if len(sys.argv) > 1 else "/repo")
from vinegar.data_source.yaml_target import YamlTargetSource
root = tempfile.mkdtemp()
open(os.path.join(root, "top.yaml"), "w").write("'*':\n  - 'top file'\n")
open(os.path.join(root, "top file.yaml"), "w").write("t: 1\n")
try:
    print("OK", YamlTargetSource({"root_dir": root}).get_data("x", {}, "")[0])
except RuntimeError as e:
    print("FAIL", str(e)[:120]); sys.exit(1)
