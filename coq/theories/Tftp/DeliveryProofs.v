(* Delivery theorems for the transfer model: what is sent for EVERY script (first sends are a
   prefix of the expected packets, retransmissions are identical, lock step), what a complete
   transfer delivers, giving up under silence, and completion with a cooperative client under
   bounded faults. *)
From Coq Require Import String.
From Coq Require Import List NArith ZArith Bool Lia.
From VF Require Import Base.Sx Tftp.Readers Tftp.ReadersProofs Tftp.Codec Tftp.Transfer Tftp.Run Tftp.Monitor
  Tftp.MonitorProofs Tftp.Ideal Tftp.Numbering Tftp.Delivery.
Import ListNotations.
Open Scope Z_scope.

(* ---------- segments ---------- *)
Lemma last_ev_app l1 : forall prev l2, last_ev prev (l1 ++ l2) = last_ev (last_ev prev l1) l2.
Proof. induction l1 as [|e l1 IH]; intros prev l2; cbn [app last_ev]; [reflexivity|apply IH]. Qed.
Lemma last_pkt_app l1 : forall lp l2, last_pkt lp (l1 ++ l2) = last_pkt (last_pkt lp l1) l2.
Proof. induction l1 as [|e l1 IH]; intros lp l2; cbn [app last_pkt]; [reflexivity|apply IH]. Qed.

Lemma new_sends_app l1 : forall prev l2,
  new_sends_from prev (l1 ++ l2) = new_sends_from prev l1 ++ new_sends_from (last_ev prev l1) l2.
Proof.
  induction l1 as [|e l1 IH]; intros prev l2; cbn [app new_sends_from last_ev]; [reflexivity|].
  rewrite IH. destruct (client_pkt e); [destruct (is_timeout prev)|]; reflexivity.
Qed.
Lemma retrans_app l1 : forall lp prev l2,
  retrans_from lp prev (l1 ++ l2) <->
  retrans_from lp prev l1 /\ retrans_from (last_pkt lp l1) (last_ev prev l1) l2.
Proof.
  induction l1 as [|e l1 IH]; intros lp prev l2; cbn [app retrans_from last_ev last_pkt]; [tauto|].
  rewrite IH. tauto.
Qed.
Lemma lockstep_app l1 : forall lp prev l2,
  lockstep_from lp prev (l1 ++ l2) <->
  lockstep_from lp prev l1 /\ lockstep_from (last_pkt lp l1) (last_ev prev l1) l2.
Proof.
  induction l1 as [|e l1 IH]; intros lp prev l2; cbn [app lockstep_from last_ev last_pkt]; [tauto|].
  rewrite IH. tauto.
Qed.

Lemma prefix_nil {A} (b : list A) : prefix [] b.
Proof. exists b. reflexivity. Qed.
Lemma prefix_refl {A} (b : list A) : prefix b b.
Proof. exists []. now rewrite app_nil_r. Qed.
Lemma prefix_cons {A} (x : A) a b : prefix a b -> prefix (x :: a) (x :: b).
Proof. intros [r ->]. exists r. reflexivity. Qed.
Lemma prefix_one {A} (x : A) b : prefix [x] (x :: b).
Proof. exists b. reflexivity. Qed.

(* how a wait ends, read off the last trace entry *)
Definition ends_as (w : N) (o : outcome) (e : option tr) : Prop :=
  match o with
  | OTimeout => exists t, e = Some (TTimeout t)
  | OAcked => exists t d, e = Some (TRecv t client d) /\ classify current d = CAck w
  | _ => is_timeout e = false
  end.

Lemma ends_as_not_timeout w o e : o <> OTimeout -> ends_as w o e -> is_timeout e = false.
Proof.
  destruct o; cbn [ends_as]; intros H E; try congruence; try exact E.
  destruct E as (t & d & -> & _). reflexivity.
Qed.

Lemma upd_pkt_error lp t a cd : upd_pkt lp (TSend t a (PError cd)) = lp.
Proof. unfold upd_pkt, client_pkt. destruct (a =? client)%N; reflexivity. Qed.
Lemma client_pkt_error t a cd : client_pkt (TSend t a (PError cd)) = None.
Proof. unfold client_pkt. destruct (a =? client)%N; reflexivity. Qed.

(* ---------- one wait ---------- *)
Lemma await_sum c w : v c = current -> forall evs now dl o n' e' l,
  await c w now dl evs = (o, n', e', l) ->
  forall prev lp,
    new_sends_from prev l = [] /\ last_pkt lp l = lp /\
    (is_timeout prev = false -> retrans_from lp prev l) /\ lockstep_from lp prev l /\
    ends_as w o (last_ev prev l).
Proof.
  intros Hv.
  induction evs as [|[t a d] evs IH]; intros now dl o n' e' l H prev lp; cbn [await] in H; rewrite Hv in H;
    (destruct (negb (late_recv current) && (dl <=? now));
     [inversion H; subst; cbn; repeat split; auto; eexists; reflexivity|]).
  - inversion H; subst. cbn. repeat split; auto. eexists; reflexivity.
  - destruct (t <? now + sock_timeout now dl).
    2:{ inversion H; subst. cbn. repeat split; auto. eexists; reflexivity. }
    destruct (N.eqb_spec a client) as [Ha|Ha]; cbn [negb] in H.
    + destruct (classify current d) eqn:Ec.
      * destruct (N.eqb_spec n w) as [Hn|Hn].
        -- inversion H; subst. cbn. repeat split; auto. do 2 eexists. split; [reflexivity|exact Ec].
        -- destruct (await c w (Z.max now t + proc c) dl evs) as [[[o2 n2] e2] l2] eqn:E2.
           inversion H; subst.
           destruct (IH _ _ _ _ _ _ E2 (Some (TRecv t client d)) lp) as (I1 & I2 & I3 & I4 & I5).
           cbn [new_sends_from client_pkt last_pkt upd_pkt retrans_from lockstep_from last_ev].
           repeat split; auto.
      * inversion H; subst. cbn. repeat split; auto.
      * inversion H; subst. cbn. repeat split; auto.
      * inversion H; subst. cbn. repeat split; auto.
    + destruct (await c w (Z.max now t + proc c) dl evs) as [[[o2 n2] e2] l2] eqn:E2.
      inversion H; subst.
      destruct (IH _ _ _ _ _ _ E2 (Some (TSend (Z.max now t + proc c) a (PError 5))) lp) as (I1 & I2 & I3 & I4 & I5).
      cbn [new_sends_from last_pkt retrans_from lockstep_from last_ev is_timeout].
      rewrite !upd_pkt_error, !client_pkt_error. cbn [client_pkt upd_pkt].
      repeat split; auto.
Qed.

Definition is_dp (p : pkt) : Prop := match p with PError _ => False | _ => True end.
Lemma client_pkt_send t p : is_dp p -> client_pkt (TSend t client p) = Some p.
Proof. destruct p; cbn; tauto. Qed.

Lemma upd_pkt_send lp t p : is_dp p -> upd_pkt lp (TSend t client p) = Some p.
Proof. intros H. unfold upd_pkt. now rewrite client_pkt_send. Qed.

(* ---------- one packet with its retries ---------- *)
Section Tries.
  Variable c : cfg.
  Hypothesis v_cur : v c = current.

  Definition tries_concl (p : pkt) (o : outcome) (l : list tr) (prev : option tr) (lp : option pkt) : Prop :=
    new_sends_from prev l = (if is_timeout prev then [] else [p]) /\
    last_pkt lp l = Some p /\
    ((is_timeout prev = true -> lp = Some p) -> retrans_from lp prev l) /\
    ((is_timeout prev = false -> match lp with None => True | Some q => acks prev q end) ->
     lockstep_from lp prev l) /\
    ends_as (want p) o (last_ev prev l).

  Lemma send_tries_sum : forall k p now evs o n' e' l, is_dp p ->
    send_tries c (S k) p (want p) now evs = (o, n', e', l) ->
    forall prev lp, tries_concl p o l prev lp.
  Proof.
    induction k as [|k IH]; intros p now evs o n' e' l Hp H prev lp; rewrite send_tries_S in H;
      destruct (await c (want p) now (now + tmo c) evs) as [[[o1 n1] e1] l1] eqn:E1;
      try rewrite v_cur in H;
      destruct (await_sum c _ v_cur _ _ _ _ _ _ _ E1 (Some (TSend now client p)) (Some p)) as (A1 & A2 & A3 & A4 & A5);
      specialize (A3 eq_refl);
      assert (Single : tries_concl p o1 (TSend now client p :: l1) prev lp)
        by (unfold tries_concl;
            cbn [new_sends_from last_pkt retrans_from lockstep_from last_ev];
            rewrite !(upd_pkt_send _ now p Hp), (client_pkt_send now p Hp), A1, A2;
            (split; [destruct (is_timeout prev); reflexivity|]); (split; [reflexivity|]);
            (split; [|split; [|exact A5]]);
            [intros Hr; split; [|exact A3]; destruct (is_timeout prev); [split; [reflexivity|now apply Hr]|exact Logic.I]
            |intros Hl; split; [|exact A4]; destruct (is_timeout prev); [exact Logic.I|now apply Hl]]).
    - destruct o1; cbn [retry_fallthrough current] in H; inversion H; subst; exact Single.
    - destruct o1; try (inversion H; subst; exact Single).
      destruct (send_tries c (S k) p (want p) n1 e1) as [[[o2 n2] e2] l2] eqn:E2.
      inversion H; subst. clear Single.
      set (prev' := last_ev (Some (TSend now client p)) l1) in *.
      assert (Tp : is_timeout prev' = true) by (destruct A5 as [t ->]; reflexivity).
      destruct (IH p n1 e1 o n' e' l2 Hp E2 prev' (Some p)) as (B1 & B2 & B3 & B4 & B5).
      unfold tries_concl.
      cbn [new_sends_from last_pkt retrans_from lockstep_from last_ev].
      rewrite !(upd_pkt_send _ now p Hp), (client_pkt_send now p Hp), new_sends_app, last_pkt_app, last_ev_app, A1, A2. fold prev'.
      rewrite B1, B2, Tp. cbn [app].
      split; [destruct (is_timeout prev); reflexivity|]. split; [reflexivity|].
      split; [|split; [|exact B5]].
      + intros Hr. split; [destruct (is_timeout prev); [split; [reflexivity|now apply Hr]|exact Logic.I]|].
        apply retrans_app. split; [exact A3|]. rewrite A2. fold prev'. apply B3. reflexivity.
      + intros Hl. split; [destruct (is_timeout prev); [exact Logic.I|now apply Hl]|].
        apply lockstep_app. split; [exact A4|]. rewrite A2. fold prev'. apply B4. rewrite Tp. discriminate.
  Qed.
End Tries.

(* ---------- the blocks ---------- *)
Definition start_ok (prev : option tr) (lp : option pkt) : Prop :=
  is_timeout prev = false /\ match lp with None => True | Some q => acks prev q end.

Section Blocks.
  Variable c : cfg.
  Hypothesis v_cur : v c = current.

  Lemma send_blocks_sum : forall blocks blk now evs r n' e' l,
    send_blocks c blk blocks now evs = (r, n', e', l) ->
    forall prev lp, start_ok prev lp ->
      prefix (new_sends_from prev l) (fst (number_blocks (wrap c) blk blocks)) /\
      (forall e, r = inr e ->
         new_sends_from prev l = fst (number_blocks (wrap c) blk blocks) /\
         snd (number_blocks (wrap c) blk blocks) = match e with EDone => false | EOverflow => true end) /\
      retrans_from lp prev l /\ lockstep_from lp prev l /\
      (r <> inl OTimeout -> is_timeout (last_ev prev l) = false).
  Proof.
    induction blocks as [|b rest IH]; intros blk now evs r n' e' l H prev lp [S1 S2]; cbn [send_blocks] in H.
    - inversion H; subst. cbn. split; [apply prefix_nil|]. split; [intros e E; inversion E; auto|]. auto.
    - cbn [number_blocks]. destruct (next_block (wrap c) blk) as [n|] eqn:En.
      2:{ inversion H; subst. cbn. split; [apply prefix_nil|]. split; [intros e E; inversion E; auto|]. auto. }
      destruct (send_tries c (S (retries c)) (PData n b) n now evs) as [[[o n1] e1] l1] eqn:E1.
      destruct (send_tries_sum c v_cur (retries c) (PData n b) now evs o n1 e1 l1 Logic.I E1 prev lp)
        as (A1 & A2 & A3 & A4 & A5).
      rewrite S1 in A1.
      assert (A3' : retrans_from lp prev l1) by (apply A3; rewrite S1; discriminate).
      assert (A4' : lockstep_from lp prev l1) by (apply A4; intros _; exact S2).
      destruct (number_blocks (wrap c) n rest) as [lr orr] eqn:Enb. cbn [fst snd].
      assert (Stop : o <> OAcked -> (inl o : outcome + ending, n1, e1, l1) = (r, n', e', l) ->
                prefix (new_sends_from prev l) (PData n b :: lr) /\
                (forall e, r = inr e -> new_sends_from prev l = PData n b :: lr /\
                   orr = match e with EDone => false | EOverflow => true end) /\
                retrans_from lp prev l /\ lockstep_from lp prev l /\
                (r <> inl OTimeout -> is_timeout (last_ev prev l) = false)).
      { intros Ho HH. inversion HH; subst. rewrite A1. split; [apply prefix_one|]. split; [intros e E; discriminate E|].
        split; [exact A3'|]. split; [exact A4'|]. intros Hr. apply (ends_as_not_timeout n o); [congruence|exact A5]. }
      destruct o; try (apply Stop; [discriminate|exact H]).
      destruct (send_blocks c n rest n1 e1) as [[[r2 n2] e2] l2] eqn:E2.
      inversion H; subst. clear Stop.
      assert (S' : start_ok (last_ev prev l1) (Some (PData n b))).
      { cbn [ends_as want] in A5. destruct A5 as (t & d & Ep & Ec). split; [rewrite Ep; reflexivity|].
        exists t, d. split; [exact Ep|exact Ec]. }
      destruct (IH n n1 e1 r n' e' l2 E2 (last_ev prev l1) (Some (PData n b)) S') as (B1 & B2 & B3 & B4 & B5).
      rewrite Enb in B1, B2. cbn [fst snd] in B1, B2.
      rewrite new_sends_app, A1, last_ev_app. cbn [app].
      split; [now apply prefix_cons|]. split.
      + intros e E. destruct (B2 e E) as [Q1 Q2]. rewrite Q1. auto.
      + split; [apply retrans_app; rewrite A2; auto|]. split; [apply lockstep_app; rewrite A2; auto|exact B5].
  Qed.
End Blocks.

(* ---------- the end of the trace ---------- *)
Definition tail_of (r : outcome + ending) (now : Z) : list tr := finish r now ++ [TCloseFile; TCloseSock].

Lemma tail_new r now prev : new_sends_from prev (tail_of r now) = [].
Proof. destruct r as [[]|[]]; reflexivity. Qed.
Lemma tail_lockstep r now lp prev : lockstep_from lp prev (tail_of r now).
Proof. destruct r as [[]|[]]; cbn; auto. Qed.
Lemma tail_retrans r now lp prev : (r <> inl OTimeout -> is_timeout prev = false) ->
  retrans_from lp prev (tail_of r now).
Proof.
  intros H. destruct r as [[]|[]]; cbn; auto; try (rewrite H by discriminate; auto).
Qed.

(* ---------- the whole transfer, for EVERY script ---------- *)
Theorem transfer_safety c oack blocks evs : v c = current ->
  prefix (new_sends (transfer c oack blocks evs)) (exp_list oack (fst (number_blocks (wrap c) 0%N blocks))) /\
  retransmissions_identical (transfer c oack blocks evs) /\
  lockstep (transfer c oack blocks evs) /\
  (forall e, fst (transfer_r c oack blocks evs) = inr e ->
     new_sends (transfer c oack blocks evs) = exp_list oack (fst (number_blocks (wrap c) 0%N blocks)) /\
     snd (number_blocks (wrap c) 0%N blocks) = match e with EDone => false | EOverflow => true end).
Proof.
  intros v_cur. unfold transfer, transfer_r, new_sends, retransmissions_identical, lockstep.
  destruct oack as [|oa1 oar]; cbn [exp_list].
  - destruct (send_blocks c 0%N blocks 0 evs) as [[[r n] e1] l] eqn:E. cbn [fst snd].
    fold (tail_of r n).
    destruct (send_blocks_sum c v_cur blocks 0%N 0 evs r n e1 l E None None) as (B1 & B2 & B3 & B4 & B5);
      [split; [reflexivity|exact Logic.I]|].
    rewrite new_sends_app, tail_new, app_nil_r.
    split; [exact B1|]. split; [apply retrans_app; split; [exact B3|now apply tail_retrans]|].
    split; [apply lockstep_app; split; [exact B4|apply tail_lockstep]|exact B2].
  - set (p := POack (oa1 :: oar)).
    destruct (send_tries c (S (retries c)) p 0%N 0 evs) as [[[o n1] e1] l1] eqn:E1.
    destruct (send_tries_sum c v_cur (retries c) p 0 evs o n1 e1 l1 Logic.I E1 None None)
      as (A1 & A2 & A3 & A4 & A5).
    cbn [is_timeout] in A1.
    assert (A3' : retrans_from None None l1) by (apply A3; discriminate).
    assert (A4' : lockstep_from None None l1) by (apply A4; auto).
    assert (Stop : o <> OAcked ->
              prefix (new_sends_from None (l1 ++ tail_of (inl o) n1)) (p :: fst (number_blocks (wrap c) 0%N blocks)) /\
              retrans_from None None (l1 ++ tail_of (inl o) n1) /\ lockstep_from None None (l1 ++ tail_of (inl o) n1)).
    { intros Ho. rewrite new_sends_app, tail_new, app_nil_r, A1. split; [apply prefix_one|].
      split; [apply retrans_app; split; [exact A3'|]|apply lockstep_app; split; [exact A4'|apply tail_lockstep]].
      apply tail_retrans. intros Hr. apply (ends_as_not_timeout (want p) o); [congruence|exact A5]. }
    destruct o; cbn [fst snd]; fold (tail_of (inl OTimeout) n1) (tail_of (inl OPeerError) n1)
      (tail_of (inl OInvalid) n1) (tail_of (inl OInternal) n1);
      try (destruct Stop as (Q1 & Q2 & Q3); [discriminate|]; split; [exact Q1|]; split; [exact Q2|];
           split; [exact Q3|intros e E; discriminate E]).
    clear Stop.
    destruct (send_blocks c 0%N blocks n1 e1) as [[[r n] e2] l] eqn:E. cbn [fst snd]. fold (tail_of r n).
    assert (S' : start_ok (last_ev None l1) (Some p)).
    { cbn [ends_as] in A5. destruct A5 as (t & d & Ep & Ec). split; [rewrite Ep; reflexivity|].
      exists t, d. split; [exact Ep|exact Ec]. }
    destruct (send_blocks_sum c v_cur blocks 0%N n1 e1 r n e2 l E (last_ev None l1) (Some p) S') as (B1 & B2 & B3 & B4 & B5).
    rewrite !new_sends_app, tail_new, app_nil_r, A1, ?last_ev_app. cbn [app].
    split; [now apply prefix_cons|].
    split; [apply retrans_app; split; [apply retrans_app; rewrite A2; auto|]|].
    { rewrite last_ev_app. now apply tail_retrans. }
    split; [apply lockstep_app; split; [apply lockstep_app; rewrite A2; auto|apply tail_lockstep]|].
    intros e Er. destruct (B2 e Er) as [Q1 Q2]. rewrite Q1. auto.
Qed.

(* payloads of a numbering without overflow are the blocks *)
Lemma payloads_numbered w : forall blocks blk,
  snd (number_blocks w blk blocks) = false -> payloads (fst (number_blocks w blk blocks)) = blocks.
Proof.
  induction blocks as [|b r IH]; intros blk H; cbn [number_blocks] in *; [reflexivity|].
  destruct (next_block w blk) as [n|]; [|discriminate H].
  specialize (IH n). destruct (number_blocks w n r) as [l o]. cbn [fst snd] in *.
  cbn [payloads flat_map app]. f_equal. now apply IH.
Qed.
Lemma payloads_exp_list oack l : payloads (exp_list oack l) = payloads l.
Proof. destruct oack; reflexivity. Qed.

(* ================= silence: giving up ================= *)
Lemma client_sends_app a b : client_sends (a ++ b) = client_sends a ++ client_sends b.
Proof. unfold client_sends. apply flat_map_app. Qed.

Lemma quiet_weaken T T' evs : T' <= T -> quiet_before T evs -> quiet_before T' evs.
Proof.
  intros HT H. unfold quiet_before in *. rewrite Forall_forall in *. intros [t a d] Hin Ha.
  specialize (H _ Hin Ha). lia.
Qed.

(* no client datagram before the deadline: the wait times out exactly at the deadline; only
   foreign senders were answered *)
Lemma await_quiet w Tend : forall evs now dl, now < dl -> dl <= Tend -> quiet_before Tend evs ->
  exists e' l, await0 current w now dl evs = (OTimeout, dl, e', l) /\ quiet_before Tend e' /\ client_sends l = [].
Proof.
  induction evs as [|[t a d] evs IH]; intros now dl Hn Hd Q; cbn [await0]; unfold sock_timeout;
    destruct (Z.ltb_spec 0 (dl - now)) as [_|Hc]; try lia;
    replace (now + (dl - now)) with dl by lia.
  - exists [], [TTimeout dl]. repeat split. constructor.
  - inversion Q as [|? ? Q1 Q2]; subst.
    destruct (Z.ltb_spec t dl) as [Hlt|Hge].
    + destruct (N.eqb_spec a client) as [Ha|Ha]; [specialize (Q1 Ha); lia|]. cbn [negb].
      destruct (IH (Z.max now t) dl ltac:(lia) Hd Q2) as (e' & l & E & Qe & Cl).
      rewrite E. exists e', (TRecv t a d :: TSend (Z.max now t) a (PError 5) :: l). repeat split; [exact Qe|].
      cbn [client_sends flat_map]. destruct (N.eqb_spec a client); [contradiction|]. exact Cl.
    + exists (Recv t a d :: evs), [TTimeout dl]. repeat split. exact Q.
Qed.

Section GiveUp.
  Variable c : cfg.
  Hypothesis v_cur : v c = current.
  Hypothesis tm_pos : 0 < tmo c.
  Hypothesis pr_zero : proc c = 0.

  Lemma send_tries_quiet : forall k p w now evs Tend,
    now + Z.of_nat (S k) * tmo c <= Tend -> quiet_before Tend evs ->
    exists e' l, send_tries c (S k) p w now evs = (OTimeout, now + Z.of_nat (S k) * tmo c, e', l) /\
                 client_sends l = map (fun j => (now + Z.of_nat j * tmo c, p)) (seq 0 (S k)).
  Proof.
    induction k as [|k IH]; intros p w now evs Tend HT Q; rewrite (send_tries_S0 c pr_zero tm_pos), v_cur;
      destruct (await_quiet w Tend evs now (now + tmo c) ltac:(lia) ltac:(nia) Q) as (e1 & l1 & E1 & Q1 & C1);
      rewrite E1.
    - cbn [retry_fallthrough current]. exists e1, (TSend now client p :: l1). split; [f_equal; f_equal; f_equal; lia|].
      cbn [client_sends flat_map seq map]. change (client =? client)%N with true. cbn [app].
      fold (client_sends l1). rewrite C1. f_equal. f_equal. lia.
    - destruct (IH p w (now + tmo c) e1 Tend ltac:(nia) Q1) as (e2 & l2 & E2 & C2). rewrite E2.
      exists e2, (TSend now client p :: l1 ++ l2). split; [f_equal; f_equal; f_equal; lia|].
      change (TSend now client p :: l1 ++ l2) with ([TSend now client p] ++ l1 ++ l2).
      rewrite !client_sends_app, C1, C2. cbn [client_sends flat_map app]. change (client =? client)%N with true.
      cbn [app]. change (seq 0 (S (S k))) with (0%nat :: seq 1 (S k)). rewrite <- seq_shift, map_cons, map_map.
      f_equal; [f_equal; lia|]. apply map_ext. intros j. f_equal. lia.
  Qed.

  (* a client that stays silent (or only foreign senders talk) until (retries+1) x timeout: the
     first packet is sent retries+1 times, at k x timeout, nothing else goes to the client, and
     the transfer ends with the release of file and socket *)
  Theorem gives_up oack blocks evs p0 rest :
    exp_list oack (fst (number_blocks (wrap c) 0%N blocks)) = p0 :: rest ->
    quiet_before (Z.of_nat (S (retries c)) * tmo c) evs ->
    fst (transfer_r c oack blocks evs) = inl OTimeout /\
    client_sends (transfer c oack blocks evs) = map (fun j => (Z.of_nat j * tmo c, p0)) (seq 0 (S (retries c))) /\
    exists l0, transfer c oack blocks evs = l0 ++ [TCloseFile; TCloseSock].
  Proof.
    intros Hp Q. unfold transfer, transfer_r.
    destruct oack as [|oa1 oar]; cbn [exp_list] in Hp.
    - destruct blocks as [|b rb]; [discriminate Hp|]. cbn [number_blocks] in Hp.
      change (next_block (wrap c) 0%N) with (Some 1%N) in Hp. cbv iota beta in Hp.
      destruct (number_blocks (wrap c) 1%N rb) as [lr orr]. cbn [fst] in Hp. inversion Hp; subst.
      cbn [send_blocks]. change (next_block (wrap c) 0%N) with (Some 1%N). cbv iota beta.
      destruct (send_tries_quiet (retries c) (PData 1 b) 1%N 0 evs (Z.of_nat (S (retries c)) * tmo c) ltac:(lia) Q) as (e' & l & E & C).
      rewrite E. cbn [fst snd finish app]. split; [reflexivity|]. split.
      + rewrite client_sends_app, C. cbn [client_sends flat_map app]. rewrite app_nil_r. apply map_ext. intros j. f_equal.
      + exists l. reflexivity.
    - inversion Hp; subst.
      destruct (send_tries_quiet (retries c) (POack (oa1 :: oar)) 0%N 0 evs (Z.of_nat (S (retries c)) * tmo c) ltac:(lia) Q) as (e' & l & E & C).
      rewrite E. cbn [fst snd finish app]. split; [reflexivity|]. split.
      + rewrite client_sends_app, C. cbn [client_sends flat_map app]. rewrite app_nil_r. apply map_ext. intros j. f_equal.
      + exists l. reflexivity.
  Qed.
End GiveUp.

(* ================= the cooperative client ================= *)
Lemma classify_ack_bytes n : classify current (ack_bytes n) = CAck n.
Proof.
  unfold ack_bytes, classify. change (u16 0 4 =? 4)%N with true. cbv iota. f_equal. unfold u16.
  rewrite N.mul_comm. symmetry. apply N.div_mod. discriminate.
Qed.

(* a round in which nothing arrives before the deadline *)
Lemma await_lost w now dl evs : now < dl ->
  match evs with [] => True | Recv t _ _ :: _ => dl <= t end ->
  await0 current w now dl evs = (OTimeout, dl, evs, [TTimeout dl]).
Proof.
  intros Hn H. destruct evs as [|[t a d] evs]; cbn [await0]; unfold sock_timeout;
    destruct (Z.ltb_spec 0 (dl - now)) as [_|Hc]; try lia; replace (now + (dl - now)) with dl by lia.
  - reflexivity.
  - destruct (Z.ltb_spec t dl); [lia|reflexivity].
Qed.

(* the successful round: noise keeps the wait going, the good ACK ends it at its arrival time *)
Lemma await_good w S tm dlt rest : 0 <= dlt < tm -> forall nzs now, S <= now <= S + dlt ->
  Forall (noise_ok w dlt) nzs ->
  exists l, await0 current w now (S + tm)
              (map (fun nz => noise_event (S + snd nz) (fst nz)) nzs ++ Recv (S + dlt) client (ack_bytes w) :: rest)
            = (OAcked, S + dlt, rest, l).
Proof.
  intros Hd. induction nzs as [|[x off] nzs IH]; intros now Hn F; cbn [map app await0]; unfold sock_timeout;
    destruct (Z.ltb_spec 0 (S + tm - now)) as [_|Hc]; try lia; replace (now + (S + tm - now)) with (S + tm) by lia.
  - destruct (Z.ltb_spec (S + dlt) (S + tm)); [|lia]. change (client =? client)%N with true. cbn [negb].
    rewrite classify_ack_bytes, N.eqb_refl. eexists. f_equal. f_equal. f_equal. lia.
  - inversion F as [|? ? [Ho Hx] F']; subst. cbn [fst snd] in *.
    destruct (IH (Z.max now (S + off)) ltac:(lia) F') as [l E].
    destruct x as [n|a d]; cbn [noise_event await0]; unfold sock_timeout;
      destruct (Z.ltb_spec 0 (S + tm - now)) as [_|Hc']; try lia;
      replace (now + (S + tm - now)) with (S + tm) by lia;
      (destruct (Z.ltb_spec (S + off) (S + tm)); [|lia]).
    + change (client =? client)%N with true. cbn [negb]. rewrite classify_ack_bytes.
      destruct (N.eqb_spec n w); [contradiction|]. rewrite E. eexists. reflexivity.
    + destruct (N.eqb_spec a client); [contradiction|]. cbn [negb]. rewrite E. eexists. reflexivity.
Qed.

Section Coop.
  Variable c : cfg.
  Hypothesis v_cur : v c = current.
  Hypothesis tm_pos : 0 < tmo c.
  Hypothesis pr_zero : proc c = 0.

  Lemma send_tries_coop p dlt nzs rest : 0 <= dlt < tmo c -> Forall (noise_ok (want p) dlt) nzs ->
    forall lostn k now, (lostn <= k)%nat ->
    let S := now + Z.of_nat lostn * tmo c in
    exists l, send_tries c (Datatypes.S k) p (want p) now
                (map (fun nz => noise_event (S + snd nz) (fst nz)) nzs ++ Recv (S + dlt) client (ack_bytes (want p)) :: rest)
              = (OAcked, S + dlt, rest, l).
  Proof.
    intros Hd F. induction lostn as [|m IH]; intros k now Hk; cbv zeta; rewrite (send_tries_S0 c pr_zero tm_pos), v_cur.
    - replace (now + Z.of_nat 0 * tmo c) with now by lia.
      destruct (await_good (want p) now (tmo c) dlt rest Hd nzs now ltac:(lia) F) as [l E]. rewrite E.
      eexists. reflexivity.
    - destruct k as [|k]; [lia|].
      set (S := now + Z.of_nat (Datatypes.S m) * tmo c).
      rewrite await_lost; [|lia|].
      2:{ destruct nzs as [|[x off] nzs]; cbn [map app].
          - subst S. nia.
          - inversion F as [|? ? [Ho Hx] F']; subst. cbn [fst snd] in *.
            assert (now + tmo c <= S + off) by (subst S; rewrite Nat2Z.inj_succ; nia).
            destruct x; cbn [noise_event]; assumption. }
      destruct (IH k (now + tmo c) ltac:(lia)) as [l E]. cbv zeta in E.
      replace (now + tmo c + Z.of_nat m * tmo c) with S in E by (subst S; lia). rewrite E.
      eexists. reflexivity.
  Qed.

  Lemma send_blocks_coop : forall blocks blk now plans,
    length plans = length (fst (number_blocks (wrap c) blk blocks)) ->
    Forall (plan_ok (tmo c) (retries c)) (combine (fst (number_blocks (wrap c) blk blocks)) plans) ->
    exists n' l, send_blocks c blk blocks now
                   (script_of (tmo c) now (combine (fst (number_blocks (wrap c) blk blocks)) plans))
                 = (inr (if snd (number_blocks (wrap c) blk blocks) then EOverflow else EDone), n', [], l).
  Proof.
    induction blocks as [|b rest IH]; intros blk now plans Hl F; cbn [number_blocks send_blocks] in *.
    - exists now, []. reflexivity.
    - destruct (next_block (wrap c) blk) as [n|].
      2:{ exists now, []. reflexivity. }
      specialize (IH n). destruct (number_blocks (wrap c) n rest) as [lr orr]. cbn [fst snd] in *.
      destruct plans as [|pl plans]; [discriminate Hl|]. cbn [combine script_of] in *.
      inversion F as [|? ? (P1 & P2 & P3) F']; subst. cbn [fst snd] in *.
      destruct (send_tries_coop (PData n b) (delta pl) (noises pl)
                  (script_of (tmo c) (now + Z.of_nat (lost pl) * tmo c + delta pl) (combine lr plans))
                  P2 P3 (lost pl) (retries c) now P1) as [l1 E1].
      cbv zeta in E1. change (want (PData n b)) with n in E1 |- *. rewrite E1.
      destruct (IH (now + Z.of_nat (lost pl) * tmo c + delta pl) plans ltac:(cbn in Hl; lia) F') as (n2 & l2 & E2).
      rewrite E2. eexists. eexists. reflexivity.
  Qed.

  (* every packet is lost at most `retries` times, then acknowledged (with any noise in between):
     the transfer runs to its end *)
  Theorem transfer_completes oack blocks plans :
    let pkts := exp_list oack (fst (number_blocks (wrap c) 0%N blocks)) in
    length plans = length pkts ->
    Forall (plan_ok (tmo c) (retries c)) (combine pkts plans) ->
    fst (transfer_r c oack blocks (script_of (tmo c) 0 (combine pkts plans))) =
    inr (if snd (number_blocks (wrap c) 0%N blocks) then EOverflow else EDone).
  Proof.
    cbv zeta. intros Hl F. unfold transfer_r. destruct oack as [|oa1 oar]; cbn [exp_list] in *.
    - destruct (send_blocks_coop blocks 0%N 0 plans Hl F) as (n' & l & E). rewrite E. reflexivity.
    - destruct plans as [|pl plans]; [discriminate Hl|]. cbn [combine script_of] in *.
      inversion F as [|? ? (P1 & P2 & P3) F']; subst. cbn [fst snd] in *.
      destruct (send_tries_coop (POack (oa1 :: oar)) (delta pl) (noises pl)
                  (script_of (tmo c) (0 + Z.of_nat (lost pl) * tmo c + delta pl)
                     (combine (fst (number_blocks (wrap c) 0%N blocks)) plans))
                  P2 P3 (lost pl) (retries c) 0 P1) as [l1 E1].
      cbv zeta in E1. change (want (POack (oa1 :: oar))) with 0%N in E1 |- *. rewrite E1.
      destruct (send_blocks_coop blocks 0%N (0 + Z.of_nat (lost pl) * tmo c + delta pl) plans
                  ltac:(cbn in Hl; lia) F') as (n2 & l2 & E2).
      rewrite E2. reflexivity.
  Qed.
End Coop.

(* ================= per case (the shape used by the property files) ================= *)
Lemma expected_eq c :
  expected c = (exp_list (n_oack (t_neg c)) (fst (number_blocks (t_wrap c) 0%N (spec_blocks c))),
                snd (number_blocks (t_wrap c) 0%N (spec_blocks c))).
Proof.
  unfold expected. destruct (number_blocks (t_wrap c) 0%N (spec_blocks c)) as [l o]. cbn [fst snd].
  destruct (n_oack (t_neg c)); reflexivity.
Qed.

Lemma valid_tm_pos c : valid c -> 0 < tmo (t_cfg c).
Proof.
  intros (Hcur & Hnv & Hna & Hb & Ht & _).
  destruct (negotiate_pos (t_limits c) (t_netascii c) (t_kind c) (t_options c) Hb Ht) as [_ Htm].
  unfold t_cfg, t_neg; cbn [tmo]. rewrite Hnv. unfold TICKS. lia.
Qed.
Lemma valid_cur c : valid c -> v (t_cfg c) = current.
Proof. intros (Hcur & _). exact Hcur. Qed.

Lemma run_transfer_case_eq c : run_transfer_case c = snd (run_r c).
Proof. reflexivity. Qed.

Lemma concat_spec_blocks c : valid c -> concat (spec_blocks c) = wire_content c.
Proof. intros _. unfold spec_blocks, wire_content. apply split_blocks_concat. Qed.

(* (1) for EVERY script *)
Theorem case_safety c : valid c ->
  prefix (new_sends (run_transfer_case c)) (fst (expected c)) /\
  retransmissions_identical (run_transfer_case c) /\
  lockstep (run_transfer_case c).
Proof.
  intros Hv. rewrite expected_eq. cbn [fst]. unfold run_transfer_case. rewrite (t_blocks_spec c Hv).
  destruct (transfer_safety (t_cfg c) (n_oack (t_neg c)) (spec_blocks c) (t_events c) (valid_cur c Hv))
    as (A & B & C & _). auto.
Qed.

Theorem case_complete c : valid c -> ending_of c = inr EDone ->
  new_sends (run_transfer_case c) = fst (expected c) /\ snd (expected c) = false /\
  delivered (run_transfer_case c) = wire_content c.
Proof.
  intros Hv He. unfold ending_of, run_r in He. rewrite expected_eq. cbn [fst snd].
  unfold delivered, run_transfer_case. rewrite (t_blocks_spec c Hv) in *.
  destruct (transfer_safety (t_cfg c) (n_oack (t_neg c)) (spec_blocks c) (t_events c) (valid_cur c Hv))
    as (_ & _ & _ & D). destruct (D EDone He) as [D1 D2]. cbn [wrap t_cfg] in D1, D2.
  split; [exact D1|]. split; [exact D2|]. rewrite D1, payloads_exp_list, (payloads_numbered _ _ _ D2).
  now apply concat_spec_blocks.
Qed.

(* (2) the cooperative client *)
Theorem case_delivers c plans : valid c -> t_proc c = 0 ->
  length plans = length (fst (expected c)) ->
  Forall (plan_ok (tmo (t_cfg c)) (t_retries c)) (combine (fst (expected c)) plans) ->
  t_events c = coop_script c plans ->
  ending_of c = inr (if snd (expected c) then EOverflow else EDone) /\
  new_sends (run_transfer_case c) = fst (expected c) /\
  (snd (expected c) = false -> delivered (run_transfer_case c) = wire_content c).
Proof.
  intros Hv Hz Hl F Ev. unfold coop_script in Ev. rewrite expected_eq in *. cbn [fst snd] in *.
  assert (E : ending_of c = inr (if snd (number_blocks (t_wrap c) 0%N (spec_blocks c)) then EOverflow else EDone)).
  { unfold ending_of, run_r. rewrite (t_blocks_spec c Hv), Ev.
    apply (transfer_completes (t_cfg c) (valid_cur c Hv) (valid_tm_pos c Hv) Hz); assumption. }
  split; [exact E|].
  pose proof (transfer_safety (t_cfg c) (n_oack (t_neg c)) (spec_blocks c) (t_events c) (valid_cur c Hv))
    as (_ & _ & _ & D).
  unfold ending_of, run_r in E. rewrite (t_blocks_spec c Hv) in E.
  destruct (D _ E) as [D1 D2]. cbn [wrap t_cfg] in D1, D2.
  unfold run_transfer_case. rewrite (t_blocks_spec c Hv). split; [exact D1|].
  intros Ho. unfold delivered. rewrite D1, payloads_exp_list, (payloads_numbered _ _ _ Ho).
  now apply concat_spec_blocks.
Qed.

(* the overflow ending occurs exactly without a wrap value and with more than 65535 blocks *)
Theorem case_overflow_iff c : wrap_ok c ->
  snd (expected c) = match t_wrap c with
                     | Some _ => false
                     | None => (65535 <? N.of_nat (length (spec_blocks c)))%N
                     end.
Proof. intros Hw. rewrite expected_eq. cbn [snd]. now apply overflow_iff. Qed.

Lemma spec_blocks_nonempty c : spec_blocks c <> [].
Proof.
  unfold spec_blocks, split_blocks. destruct (length _); cbn [split_go]; [discriminate|].
  destruct (shorter _ _); discriminate.
Qed.

Lemma expected_nonempty c : exists p0 rest, fst (expected c) = p0 :: rest.
Proof.
  rewrite expected_eq. cbn [fst]. destruct (n_oack (t_neg c)) as [|o1 o2]; cbn [exp_list]; [|eauto].
  pose proof (spec_blocks_nonempty c). destruct (spec_blocks c) as [|b r]; [congruence|].
  cbn [number_blocks]. change (next_block (t_wrap c) 0%N) with (Some 1%N). cbv iota beta.
  destruct (number_blocks (t_wrap c) 1%N r). cbn [fst]. eauto.
Qed.

(* (4) silence *)
Theorem case_gives_up c p0 rest : valid c -> t_proc c = 0 -> fst (expected c) = p0 :: rest ->
  quiet_before (Z.of_nat (S (t_retries c)) * tmo (t_cfg c)) (t_events c) ->
  ending_of c = inl OTimeout /\
  client_sends (run_transfer_case c) =
    map (fun j => (Z.of_nat j * tmo (t_cfg c), p0)) (seq 0 (S (t_retries c))) /\
  exists l0, run_transfer_case c = l0 ++ [TCloseFile; TCloseSock].
Proof.
  intros Hv Hz Hp Q. rewrite expected_eq in Hp. cbn [fst] in Hp.
  unfold ending_of, run_r, run_transfer_case. rewrite (t_blocks_spec c Hv).
  exact (gives_up (t_cfg c) (valid_cur c Hv) (valid_tm_pos c Hv) Hz _ _ _ p0 rest Hp Q).
Qed.

(* readings of the two trace predicates at a position of the trace *)
Lemma lockstep_at l l1 e l2 : lockstep l -> l = l1 ++ e :: l2 ->
  forall p q, client_pkt e = Some p -> is_timeout (last_ev None l1) = false ->
  last_pkt None l1 = Some q -> acks (last_ev None l1) q.
Proof.
  intros H -> p q Hp Ht Hq. unfold lockstep in H. apply lockstep_app in H. destruct H as [_ H].
  cbn [lockstep_from] in H. destruct H as [H _]. now rewrite Hp, Ht, Hq in H.
Qed.
Lemma retrans_at l l1 t a p l2 : retransmissions_identical l -> l = l1 ++ TSend t a p :: l2 ->
  is_timeout (last_ev None l1) = true -> a = client /\ last_pkt None l1 = Some p.
Proof.
  intros H -> Ht. unfold retransmissions_identical in H. apply retrans_app in H. destruct H as [_ H].
  cbn [retrans_from] in H. destruct H as [H _]. now rewrite Ht in H.
Qed.

(* ================= cooperative client with noise also in the lost rounds ================= *)
Definition head_ge (T : Z) (evs : list event) : Prop :=
  match evs with [] => True | Recv t _ _ :: _ => T <= t end.

Lemma head_ge_noise T S nzs rest dl w : T <= S -> Forall (noise_ok w dl) nzs -> head_ge T rest ->
  head_ge T (map (fun nz => noise_event (S + snd nz) (fst nz)) nzs ++ rest).
Proof.
  intros HS F Hr. destruct nzs as [|[x off] nzs]; [exact Hr|]. inversion F as [|? ? [Ho _] _]; subst.
  cbn [map app fst snd] in *. destruct x; cbn [noise_event head_ge]; lia.
Qed.

Lemma head_ge_rounds T tm w : 0 < tm -> forall rounds R rest, T <= R ->
  Forall (Forall (noise_ok w (tm - 1))) rounds -> head_ge T rest ->
  head_ge T (round_events tm R rounds ++ rest).
Proof.
  intros Htm. induction rounds as [|nzs r IH]; intros R rest HR F Hr; cbn [round_events app]; [exact Hr|].
  inversion F as [|? ? F1 F2]; subst. rewrite <- app_assoc.
  apply (head_ge_noise T R nzs _ (tm - 1) w HR F1). apply IH; [lia|exact F2|exact Hr].
Qed.

(* a lost round with noise: the noise is consumed, the deadline stays where it was *)
Lemma await_noise_late w R tm rest : 0 < tm -> head_ge (R + tm) rest -> forall nzs now, R <= now < R + tm ->
  Forall (noise_ok w (tm - 1)) nzs ->
  exists l, await0 current w now (R + tm) (map (fun nz => noise_event (R + snd nz) (fst nz)) nzs ++ rest)
            = (OTimeout, R + tm, rest, l).
Proof.
  intros Htm Hr. induction nzs as [|[x off] nzs IH]; intros now Hn F; cbn [map app].
  - rewrite await_lost; [eexists; reflexivity|lia|]. destruct rest as [|[t a d] rest]; [exact Logic.I|exact Hr].
  - inversion F as [|? ? [Ho Hx] F']; subst. cbn [fst snd] in *.
    destruct (IH (Z.max now (R + off)) ltac:(lia) F') as [l E].
    destruct x as [n|a d]; cbn [noise_event await0]; unfold sock_timeout;
      destruct (Z.ltb_spec 0 (R + tm - now)) as [_|Hc']; try lia;
      replace (now + (R + tm - now)) with (R + tm) by lia;
      (destruct (Z.ltb_spec (R + off) (R + tm)); [|lia]).
    + change (client =? client)%N with true. cbn [negb]. rewrite classify_ack_bytes.
      destruct (N.eqb_spec n w); [contradiction|]. rewrite E. eexists. reflexivity.
    + destruct (N.eqb_spec a client); [contradiction|]. cbn [negb]. rewrite E. eexists. reflexivity.
Qed.

Section GCoop.
  Variable c : cfg.
  Hypothesis v_cur : v c = current.
  Hypothesis tm_pos : 0 < tmo c.
  Hypothesis pr_zero : proc c = 0.

  Lemma send_tries_gcoop p dlt nzs rest : 0 <= dlt < tmo c -> Forall (noise_ok (want p) dlt) nzs ->
    forall rounds k now, (length rounds <= k)%nat ->
    Forall (Forall (noise_ok (want p) (tmo c - 1))) rounds ->
    let S := now + Z.of_nat (length rounds) * tmo c in
    exists l, send_tries c (Datatypes.S k) p (want p) now
                (round_events (tmo c) now rounds ++
                 map (fun nz => noise_event (S + snd nz) (fst nz)) nzs ++ Recv (S + dlt) client (ack_bytes (want p)) :: rest)
              = (OAcked, S + dlt, rest, l).
  Proof.
    intros Hd F. induction rounds as [|r1 rounds IH]; intros k now Hk FR; cbv zeta; cbn [round_events length app].
    - destruct (send_tries_coop c v_cur tm_pos pr_zero p dlt nzs rest Hd F 0%nat k now ltac:(lia)) as [l E].
      cbv zeta in E. exact (ex_intro _ l E).
    - destruct k as [|k]; [cbn in Hk; lia|]. inversion FR as [|? ? F1 F2]; subst.
      rewrite (send_tries_S0 c pr_zero tm_pos), v_cur, <- app_assoc.
      set (S := now + Z.of_nat (Datatypes.S (length rounds)) * tmo c).
      assert (ES : S = now + tmo c + Z.of_nat (length rounds) * tmo c) by (subst S; lia).
      match goal with |- context [await0 current ?w now (now + tmo c) (map ?f r1 ++ ?rest0)] =>
        destruct (await_noise_late w now (tmo c) rest0 tm_pos) with (nzs := r1) (now := now) as [l1 E1];
          [|lia|exact F1|] end.
      { apply (head_ge_rounds _ (tmo c) (want p) tm_pos rounds (now + tmo c)); [lia|exact F2|].
        apply (head_ge_noise _ S nzs _ dlt (want p)); [nia|exact F|]. cbn [head_ge]. nia. }
      rewrite E1.
      destruct (IH k (now + tmo c) ltac:(cbn in Hk; lia) F2) as [l2 E2]. cbv zeta in E2. rewrite <- ES in E2.
      rewrite E2. eexists. reflexivity.
  Qed.

  Lemma send_blocks_gcoop : forall blocks blk now plans,
    length plans = length (fst (number_blocks (wrap c) blk blocks)) ->
    Forall (gplan_ok (tmo c) (retries c)) (combine (fst (number_blocks (wrap c) blk blocks)) plans) ->
    exists n' l, send_blocks c blk blocks now
                   (gscript_of (tmo c) now (combine (fst (number_blocks (wrap c) blk blocks)) plans))
                 = (inr (if snd (number_blocks (wrap c) blk blocks) then EOverflow else EDone), n', [], l).
  Proof.
    induction blocks as [|b rest IH]; intros blk now plans Hl F; cbn [number_blocks send_blocks] in *.
    - exists now, []. reflexivity.
    - destruct (next_block (wrap c) blk) as [n|].
      2:{ exists now, []. reflexivity. }
      specialize (IH n). destruct (number_blocks (wrap c) n rest) as [lr orr]. cbn [fst snd] in *.
      destruct plans as [|pl plans]; [discriminate Hl|]. cbn [combine gscript_of] in *.
      inversion F as [|? ? (P1 & P2 & P3 & P4) F']; subst. cbn [fst snd] in *.
      destruct (send_tries_gcoop (PData n b) (g_delta pl) (g_noises pl)
                  (gscript_of (tmo c) (now + Z.of_nat (length (g_rounds pl)) * tmo c + g_delta pl) (combine lr plans))
                  P2 P4 (g_rounds pl) (retries c) now P1 P3) as [l1 E1].
      cbv zeta in E1. change (want (PData n b)) with n in E1 |- *. rewrite E1.
      destruct (IH (now + Z.of_nat (length (g_rounds pl)) * tmo c + g_delta pl) plans ltac:(cbn in Hl; lia) F')
        as (n2 & l2 & E2).
      rewrite E2. eexists. eexists. reflexivity.
  Qed.

  Theorem transfer_completes_g oack blocks plans :
    let pkts := exp_list oack (fst (number_blocks (wrap c) 0%N blocks)) in
    length plans = length pkts ->
    Forall (gplan_ok (tmo c) (retries c)) (combine pkts plans) ->
    fst (transfer_r c oack blocks (gscript_of (tmo c) 0 (combine pkts plans))) =
    inr (if snd (number_blocks (wrap c) 0%N blocks) then EOverflow else EDone).
  Proof.
    cbv zeta. intros Hl F. unfold transfer_r. destruct oack as [|oa1 oar]; cbn [exp_list] in *.
    - destruct (send_blocks_gcoop blocks 0%N 0 plans Hl F) as (n' & l & E). rewrite E. reflexivity.
    - destruct plans as [|pl plans]; [discriminate Hl|]. cbn [combine gscript_of] in *.
      inversion F as [|? ? (P1 & P2 & P3 & P4) F']; subst. cbn [fst snd] in *.
      destruct (send_tries_gcoop (POack (oa1 :: oar)) (g_delta pl) (g_noises pl)
                  (gscript_of (tmo c) (0 + Z.of_nat (length (g_rounds pl)) * tmo c + g_delta pl)
                     (combine (fst (number_blocks (wrap c) 0%N blocks)) plans))
                  P2 P4 (g_rounds pl) (retries c) 0 P1 P3) as [l1 E1].
      cbv zeta in E1. change (want (POack (oa1 :: oar))) with 0%N in E1 |- *. rewrite E1.
      destruct (send_blocks_gcoop blocks 0%N (0 + Z.of_nat (length (g_rounds pl)) * tmo c + g_delta pl) plans
                  ltac:(cbn in Hl; lia) F') as (n2 & l2 & E2).
      rewrite E2. reflexivity.
  Qed.
End GCoop.

Theorem case_delivers_g c plans : valid c -> t_proc c = 0 ->
  length plans = length (fst (expected c)) ->
  Forall (gplan_ok (tmo (t_cfg c)) (t_retries c)) (combine (fst (expected c)) plans) ->
  t_events c = gcoop_script c plans ->
  ending_of c = inr (if snd (expected c) then EOverflow else EDone) /\
  new_sends (run_transfer_case c) = fst (expected c) /\
  (snd (expected c) = false -> delivered (run_transfer_case c) = wire_content c).
Proof.
  intros Hv Hz Hl F Ev. unfold gcoop_script in Ev. rewrite expected_eq in *. cbn [fst snd] in *.
  assert (E : ending_of c = inr (if snd (number_blocks (t_wrap c) 0%N (spec_blocks c)) then EOverflow else EDone)).
  { unfold ending_of, run_r. rewrite (t_blocks_spec c Hv), Ev.
    apply (transfer_completes_g (t_cfg c) (valid_cur c Hv) (valid_tm_pos c Hv) Hz); assumption. }
  split; [exact E|].
  pose proof (transfer_safety (t_cfg c) (n_oack (t_neg c)) (spec_blocks c) (t_events c) (valid_cur c Hv))
    as (_ & _ & _ & D).
  unfold ending_of, run_r in E. rewrite (t_blocks_spec c Hv) in E.
  destruct (D _ E) as [D1 D2]. cbn [wrap t_cfg] in D1, D2.
  unfold run_transfer_case. rewrite (t_blocks_spec c Hv). split; [exact D1|].
  intros Ho. unfold delivered. rewrite D1, payloads_exp_list, (payloads_numbered _ _ _ Ho).
  now apply concat_spec_blocks.
Qed.
